(* C16 — the evaluation cache is transparent.  Proofs over the model of Eval/Eval.v.

   1. [eval_raw_depends]: the uncached evaluation reads only the piece bitboards, the occupancy,
      the per-colour occupancies, the side to move and the bit [100 <= hmc] of a position
      (not castling rights, en-passant square, hash, ply, board array, nor the value of the clock).
   2. [eval_cached_step] / [eval_cached_correct]: one evaluation through the cache from a cache state
      that is sound for a universe U on which hash -> eval_key is injective returns exactly the
      uncached result (failures included) and leaves a sound cache.
   3. [cache_transparent]: hence every evaluation of every sequence does.
   4. [fifty_move_no_leak]: the corollary for clock-only twins across the 100 boundary. *)
From Coq Require Import NArith ZArith List Bool Lia ZifyBool ZifyN ZifyNat.
From Clemens Require Import Base.Res Base.Word Pos.Types Att.Attacks Pos.Position Eval.Eval.
Import ListNotations.
Open Scope N_scope.

(* What the evaluation reads of a position, apart from the fifty-move bit. *)
Definition eval_key (p : position) : list N * N * list N * N :=
  (bbs p, all_pieces p, by_color p, side p).

Definition drawn_by_clock (p : position) : bool := 100 <=? hmc p.

Lemma eval_key_fields : forall p q, eval_key p = eval_key q ->
  bbs p = bbs q /\ all_pieces p = all_pieces q /\ by_color p = by_color q /\ side p = side q.
Proof. unfold eval_key. intros p q H. injection H. auto. Qed.

Section CacheProofs.
Variable C : econsts.

(* ---------------------------------------------------------------- 1. what eval_raw reads *)

(* Each helper is extensional in the fields it reads: after substituting the equal fields the two
   sides are convertible (the records differ only in fields no projection of which occurs). *)
Ltac same_fields :=
  intros p q; destruct p, q; unfold eval_key;
  cbn [bbs all_pieces by_color side hmc];
  intros; repeat match goal with H : _ = _ |- _ => (injection H; clear H; intros) end;
  subst; reflexivity.

Lemma get_bb_ext : forall p q, bbs p = bbs q -> forall c t, get_bb p c t = get_bb q c t.
Proof. same_fields. Qed.
Lemma color_bb_ext : forall p q, by_color p = by_color q -> forall c, color_bb p c = color_bb q c.
Proof. same_fields. Qed.
Lemma game_phase_ext : forall p q, bbs p = bbs q -> game_phase C p = game_phase C q.
Proof. same_fields. Qed.
Lemma is_endgame_ext : forall p q, bbs p = bbs q -> is_endgame C p = is_endgame C q.
Proof. same_fields. Qed.
Lemma contempt_ext : forall p q, bbs p = bbs q -> contempt C p = contempt C q.
Proof. same_fields. Qed.
Lemma eval_pst_ext : forall p q, bbs p = bbs q -> forall me, eval_pst C p me = eval_pst C q me.
Proof. same_fields. Qed.
Lemma eval_pawns_ext : forall p q, bbs p = bbs q -> forall meb, eval_pawns C p meb = eval_pawns C q meb.
Proof. same_fields. Qed.
Lemma eval_pairs_ext : forall p q, bbs p = bbs q -> forall b, eval_pairs C p b = eval_pairs C q b.
Proof. same_fields. Qed.
Lemma eval_material_ext : forall p q, bbs p = bbs q -> forall b, eval_material C p b = eval_material C q b.
Proof. same_fields. Qed.
Lemma eval_pawn_adjustment_ext : forall p q, bbs p = bbs q ->
  forall b, eval_pawn_adjustment C p b = eval_pawn_adjustment C q b.
Proof. same_fields. Qed.
Lemma mobility_by_color_ext : forall p q,
  bbs p = bbs q -> all_pieces p = all_pieces q -> by_color p = by_color q ->
  forall we, mobility_by_color C p we = mobility_by_color C q we.
Proof. same_fields. Qed.
Lemma eval_mobility_ext : forall p q,
  bbs p = bbs q -> all_pieces p = all_pieces q -> by_color p = by_color q ->
  forall b, eval_mobility C p b = eval_mobility C q b.
Proof. same_fields. Qed.
Lemma calculate_score_ext : forall p q, bbs p = bbs q -> side p = side q ->
  forall m e b, calculate_score C p m e b = calculate_score C q m e b.
Proof. same_fields. Qed.
Lemma eval_parts_ext : forall p q, eval_key p = eval_key q -> eval_parts C p = eval_parts C q.
Proof. same_fields. Qed.

(* the draw test below the fifty-move limit *)
Definition is_draw_material (p : position) : res bool :=
  if (popcount (all_pieces p) =? 2)%N then Ok true else
  wp <- bbr p WHITE PAWN ;; bp <- bbr p BLACK PAWN ;; wr <- bbr p WHITE ROOK ;; br <- bbr p BLACK ROOK ;;
  wq <- bbr p WHITE QUEEN ;; bq <- bbr p BLACK QUEEN ;;
  if (0 <? popcount (N.lor (N.lor (N.lor wp bp) (N.lor wr br)) (N.lor wq bq)))%N then Ok false else
  w <- color_bb p WHITE ;; b <- color_bb p BLACK ;;
  let nw := popcount w in let nb := popcount b in
  if ((nw =? 2) && (nb =? 2))%N then Ok true else
  if ((2 <? nw) && (2 <? nb))%N then Ok false else
  if ((3 <? nw) || (3 <? nb))%N then Ok false else
  wb <- bbr p WHITE BISHOP ;; bb <- bbr p BLACK BISHOP ;;
  if (popcount wb =? 2)%N then Ok (popcount bb =? 1)%N
  else if (popcount bb =? 2)%N then Ok (popcount wb =? 1)%N
  else Ok true.
Lemma is_draw_split : forall p,
  is_draw p = if drawn_by_clock p then Ok true else is_draw_material p.
Proof. reflexivity. Qed.
Lemma is_draw_material_ext : forall p q, eval_key p = eval_key q ->
  is_draw_material p = is_draw_material q.
Proof. same_fields. Qed.

Lemma is_draw_ext : forall p q, eval_key p = eval_key q -> drawn_by_clock p = drawn_by_clock q ->
  is_draw p = is_draw q.
Proof.
  intros p q Hk Hd. rewrite !is_draw_split, Hd, (is_draw_material_ext p q Hk). reflexivity.
Qed.

Lemma eval_raw_key : forall p q, eval_key p = eval_key q -> drawn_by_clock p = drawn_by_clock q ->
  eval_raw C p = eval_raw C q.
Proof.
  intros p q Hk Hd. pose proof (eval_key_fields p q Hk) as (Hb & Ha & Hc & Hs).
  unfold eval_raw.
  rewrite (is_draw_ext p q Hk Hd), (contempt_ext p q Hb), (eval_parts_ext p q Hk).
  destruct (is_draw q) as [[|] | |]; cbn [bind]; try reflexivity.
  destruct (eval_parts C q) as [[[m e] b] | |]; cbn [bind]; try reflexivity.
  apply calculate_score_ext; assumption.
Qed.

Lemma eval_raw_depends : forall p q,
  bbs p = bbs q -> all_pieces p = all_pieces q -> by_color p = by_color q -> side p = side q ->
  (100 <=? hmc p) = (100 <=? hmc q) ->
  eval_raw C p = eval_raw C q.
Proof.
  intros p q Hb Ha Hc Hs Hd. apply eval_raw_key; [| exact Hd].
  unfold eval_key. rewrite Hb, Ha, Hc, Hs. reflexivity.
Qed.

(* in particular: castling rights, en-passant state, hash, ply, board array and the clock value on
   one side of the limit are irrelevant *)
Lemma eval_raw_ignores : forall p cast' ep' hash' ply' board' hmc',
  (100 <=? hmc') = (100 <=? hmc p) ->
  eval_raw C {| bbs := bbs p; hash := hash'; all_pieces := all_pieces p; by_color := by_color p;
                board := board'; side := side p; castling := cast'; ep := ep'; hmc := hmc'; ply := ply' |}
  = eval_raw C p.
Proof. intros. apply eval_raw_depends; cbn; auto. Qed.

(* once the clock is exhausted the score is the contempt value *)
Lemma eval_raw_drawn : forall p, (100 <=? hmc p) = true -> eval_raw C p = contempt C p.
Proof. intros p H. unfold eval_raw, is_draw. rewrite H. reflexivity. Qed.

(* ---------------------------------------------------------------- 2. one step through the cache *)

Definition cache_sound (U : list position) (c : ecache) : Prop :=
  forall p, In p U -> hmc p < 100 ->
    let '(s, found) := cache_get C c (hash p) in found = true -> eval_raw C p = Ok s.

Definition hash_injective (U : list position) : Prop :=
  forall p q, In p U -> In q U -> hash p = hash q -> eval_key p = eval_key q.

(* the result of an evaluation without the cache state *)
Definition score_of (r : res (Z * ecache)) : res Z :=
  match r with Ok (v, _) => Ok v | Err => Err | Panic => Panic end.
(* the cache after an evaluation: unchanged when the evaluation failed (the Go code stores after
   evaluating) *)
Definition cache_after (c : ecache) (r : res (Z * ecache)) : ecache :=
  match r with Ok (_, c') => c' | _ => c end.

Lemma cache_get_save : forall c h s h',
  cache_get C (cache_save C c h s) h' =
  if (h mod ec_cache_size C =? h' mod ec_cache_size C) then (s, (h =? h')) else cache_get C c h'.
Proof.
  intros. unfold cache_get, cache_save. cbn [cache_lookup].
  destruct (h mod ec_cache_size C =? h' mod ec_cache_size C); reflexivity.
Qed.

Lemma cache_sound_save : forall U c p v,
  cache_sound U c -> hash_injective U -> In p U -> hmc p < 100 -> eval_raw C p = Ok v ->
  cache_sound U (cache_save C c (hash p) v).
Proof.
  intros U c p v Hs Hinj Hp Hlt Hv q Hq Hltq.
  rewrite cache_get_save.
  destruct (hash p mod ec_cache_size C =? hash q mod ec_cache_size C).
  - intro Heq. apply N.eqb_eq in Heq.
    rewrite <- Hv. apply eval_raw_key.
    + symmetry. apply Hinj; assumption.
    + unfold drawn_by_clock.
      assert ((100 <=? hmc q) = false) as -> by lia.
      assert ((100 <=? hmc p) = false) as -> by lia. reflexivity.
  - exact (Hs q Hq Hltq).
Qed.

(* the full step lemma: result and failure class equal the uncached ones; the cache stays sound;
   at or above the limit the cache is not touched *)
Lemma eval_cached_step : forall U c p,
  cache_sound U c -> hash_injective U -> In p U ->
  score_of (eval_cached C c p) = eval_raw C p /\
  cache_sound U (cache_after c (eval_cached C c p)) /\
  (100 <= hmc p -> cache_after c (eval_cached C c p) = c).
Proof.
  intros U c p Hs Hinj Hp. unfold eval_cached.
  destruct (100 <=? hmc p) eqn:Hh.
  - rewrite (eval_raw_drawn p Hh).
    destruct (contempt C p) as [s | |]; cbn [bind score_of cache_after]; auto.
  - assert (hmc p < 100) as Hlt by lia.
    pose proof (Hs p Hp Hlt) as Hc.
    destruct (cache_get C c (hash p)) as [s found].
    destruct found.
    + cbn [score_of cache_after]. split; [symmetry; auto |]. split; [assumption | reflexivity].
    + destruct (eval_raw C p) as [v | |] eqn:Hv; cbn [bind score_of cache_after].
      * split; [reflexivity |]. split; [| lia].
        apply cache_sound_save; assumption.
      * split; [reflexivity |]. split; [assumption | reflexivity].
      * split; [reflexivity |]. split; [assumption | reflexivity].
Qed.

Lemma eval_cached_correct : forall U c p v,
  cache_sound U c -> hash_injective U -> In p U -> eval_raw C p = Ok v ->
  exists c', eval_cached C c p = Ok (v, c') /\ cache_sound U c' /\ (100 <= hmc p -> c' = c).
Proof.
  intros U c p v Hs Hinj Hp Hv.
  destruct (eval_cached_step U c p Hs Hinj Hp) as (H1 & H2 & H3).
  rewrite Hv in H1.
  destruct (eval_cached C c p) as [[v' c'] | |]; cbn [score_of cache_after] in *; try discriminate.
  injection H1 as ->. exists c'. auto.
Qed.

(* the empty cache: every slot is the zero entry (hash 0, score 0), exactly like the zero-initialised
   Go table; a position whose hash is 0 "hits" it.  Sound as soon as no position of U has hash 0. *)
Definition hash_nonzero (U : list position) : Prop := forall p, In p U -> hash p <> 0.

Lemma cache_sound_empty : forall U, hash_nonzero U -> cache_sound U [].
Proof.
  intros U Hnz p Hp _. unfold cache_get. cbn [cache_lookup].
  intro H. apply N.eqb_eq in H. exfalso. apply (Hnz p Hp). symmetry. exact H.
Qed.

(* what is needed precisely: a position with hash 0 must evaluate to 0 *)
Lemma cache_sound_empty_iff : forall U,
  cache_sound U [] <-> (forall p, In p U -> hmc p < 100 -> hash p = 0 -> eval_raw C p = Ok 0%Z).
Proof.
  intros U. unfold cache_sound, cache_get. cbn [cache_lookup]. split.
  - intros H p Hp Hlt Hz. apply (H p Hp Hlt). apply N.eqb_eq. symmetry. exact Hz.
  - intros H p Hp Hlt Hf. apply N.eqb_eq in Hf. apply (H p Hp Hlt). symmetry. exact Hf.
Qed.

(* ---------------------------------------------------------------- 3. sequences of evaluations *)

(* the results of evaluating ps in this order through the cache, starting from c *)
Fixpoint run_cached (c : ecache) (ps : list position) : list (res Z) :=
  match ps with
  | [] => []
  | p :: r => let x := eval_cached C c p in score_of x :: run_cached (cache_after c x) r
  end.
Fixpoint final_cache (c : ecache) (ps : list position) : ecache :=
  match ps with
  | [] => c
  | p :: r => final_cache (cache_after c (eval_cached C c p)) r
  end.

Lemma cache_transparent_gen : forall U, hash_injective U ->
  forall ps c, cache_sound U c -> Forall (fun p => In p U) ps ->
  run_cached c ps = map (eval_raw C) ps /\ cache_sound U (final_cache c ps).
Proof.
  intros U Hinj ps. induction ps as [| p r IH]; intros c Hs Hall.
  - split; [reflexivity | exact Hs].
  - inversion Hall as [| ? ? Hp Hr]; subst.
    destruct (eval_cached_step U c p Hs Hinj Hp) as (H1 & H2 & _).
    destruct (IH _ H2 Hr) as (IH1 & IH2).
    cbn [run_cached final_cache map]. rewrite H1, IH1. split; [reflexivity | exact IH2].
Qed.

Lemma cache_transparent : forall U c ps,
  hash_injective U -> cache_sound U c -> Forall (fun p => In p U) ps ->
  run_cached c ps = map (eval_raw C) ps.
Proof. intros U c ps Hinj Hs Hall. apply (cache_transparent_gen U Hinj ps c Hs Hall). Qed.

Lemma cache_sound_final : forall U ps c,
  hash_injective U -> cache_sound U c -> Forall (fun p => In p U) ps ->
  cache_sound U (final_cache c ps).
Proof. intros U ps c Hinj Hs Hall. apply (cache_transparent_gen U Hinj ps c Hs Hall). Qed.

Lemma cache_transparent_from_empty : forall U ps,
  hash_injective U -> hash_nonzero U -> Forall (fun p => In p U) ps ->
  run_cached [] ps = map (eval_raw C) ps.
Proof.
  intros U ps Hinj Hnz Hall. apply (cache_transparent U); auto using cache_sound_empty.
Qed.

(* the result in the middle of a history is the result from the cache the prefix left: so the
   statement speaks about every evaluation of every history *)
Lemma run_cached_app : forall pre post c,
  run_cached c (pre ++ post) = run_cached c pre ++ run_cached (final_cache c pre) post.
Proof.
  induction pre as [| p r IH]; intros post c; [reflexivity |].
  cbn [app run_cached final_cache]. rewrite IH. reflexivity.
Qed.

(* ---------------------------------------------------------------- 4. the fifty-move corollary *)

(* p and q are equal in every field except the half-move clock *)
Definition clock_twins (p q : position) : Prop :=
  bbs p = bbs q /\ hash p = hash q /\ all_pieces p = all_pieces q /\ by_color p = by_color q /\
  board p = board q /\ side p = side q /\ castling p = castling q /\ ep p = ep q /\ ply p = ply q.

Lemma fifty_move_no_leak : forall U c p q,
  hash_injective U -> cache_sound U c -> In p U -> In q U ->
  clock_twins p q -> 100 <= hmc p -> hmc q < 100 ->
  run_cached c [p; q] = [eval_raw C p; eval_raw C q] /\
  run_cached c [q; p] = [eval_raw C q; eval_raw C p] /\
  eval_raw C p = contempt C p.
Proof.
  intros U c p q Hinj Hs Hp Hq _ Hge _.
  split; [| split].
  - apply (cache_transparent U c [p; q]); auto.
  - apply (cache_transparent U c [q; p]); auto.
  - apply eval_raw_drawn. lia.
Qed.

(* a clock-twin pair is its own universe: injectivity holds by itself *)
Lemma clock_twins_key : forall p q, clock_twins p q -> eval_key p = eval_key q.
Proof.
  intros p q (Hb & _ & Ha & Hc & _ & Hs & _). unfold eval_key. rewrite Hb, Ha, Hc, Hs. reflexivity.
Qed.
Lemma hash_injective_twins : forall p q, clock_twins p q -> hash_injective [p; q].
Proof.
  intros p q Ht a b Ha Hb _. pose proof (clock_twins_key p q Ht) as Hk.
  destruct Ha as [<- | [<- | []]]; destruct Hb as [<- | [<- | []]]; congruence.
Qed.

(* so, from the empty (zero-initialised) cache, no hypothesis about other positions is left *)
Lemma fifty_move_no_leak_from_empty : forall p q,
  clock_twins p q -> hash p <> 0 -> 100 <= hmc p -> hmc q < 100 ->
  run_cached [] [p; q] = [eval_raw C p; eval_raw C q] /\
  run_cached [] [q; p] = [eval_raw C q; eval_raw C p].
Proof.
  intros p q Ht Hnz Hge Hlt.
  assert (hash_nonzero [p; q]) as Hz.
  { intros a [<- | [<- | []]]; [exact Hnz |]. destruct Ht as (_ & Hh & _). rewrite <- Hh. exact Hnz. }
  destruct (fifty_move_no_leak [p; q] [] p q (hash_injective_twins p q Ht)
              (cache_sound_empty _ Hz)) as (H1 & H2 & _); cbn [In]; auto.
Qed.

(* the same run with evalWithCache as it stood before the D9 repair *)
Fixpoint run_unrepaired (c : ecache) (ps : list position) : list (res Z) :=
  match ps with
  | [] => []
  | p :: r => let x := eval_cached_unrepaired C c p in score_of x :: run_unrepaired (cache_after c x) r
  end.

End CacheProofs.

(* the definitions above, unfolded (for the reader of Props/C16.v) *)
Lemma c16_defs : forall C U c p r ps,
  (eval_key p = (bbs p, all_pieces p, by_color p, side p)) /\
  (cache_sound C U c <->
     forall p, In p U -> hmc p < 100 ->
       let '(s, found) := cache_get C c (hash p) in found = true -> eval_raw C p = Ok s) /\
  (hash_injective U <-> forall p q, In p U -> In q U -> hash p = hash q -> eval_key p = eval_key q) /\
  (hash_nonzero U <-> forall p, In p U -> hash p <> 0) /\
  run_cached C c [] = [] /\
  run_cached C c (p :: ps) =
    score_of (eval_cached C c p) :: run_cached C (cache_after c (eval_cached C c p)) ps /\
  run_unrepaired C c (p :: ps) =
    score_of (eval_cached_unrepaired C c p) ::
    run_unrepaired C (cache_after c (eval_cached_unrepaired C c p)) ps /\
  score_of r = match r with Ok (v, _) => Ok v | Err => Err | Panic => Panic end /\
  cache_after c r = match r with Ok (_, c') => c' | _ => c end.
Proof. intros. repeat split; auto. Qed.
