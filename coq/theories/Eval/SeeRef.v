(* C18 reference (SPEC): the value of a capture as the property words it, on the square array.
   "the full minimax of the capture sequence on the target square - each side recapturing with its
   least valuable attacker, pieces behind it joining in, either side free to stop".

   Nothing here looks at a bitboard, at [see], [see_swap], [least_valuable], [consider_xrays] or at
   Att/Attacks.v. The board is the list of 64 piece codes (a1 = 0 ... h8 = 63; 0 = empty,
   1..6 = white pawn, knight, bishop, rook, queen, king, 9..14 = black). After every capture the
   attackers of the target square are recomputed from scratch on the board as it then stands, so a
   piece standing behind the one that just captured joins in by itself.
   No legality (pins, a king "capturing" onto a defended square), no promotion upgrade: exactly as the
   engine's SEE and as the Go oracle harness/cmd/heval/see.go (refCapture) treat them.
   Spec file: definitions only, no proofs.

   The coordinate geometry is the C12 reference Att/Geometry.v (files and ranks, rays that stop at the
   first occupied square, knight and king jumps, pawns attacking diagonally forward): a mailbox
   geometry that shares nothing with Att/Attacks.v. *)
From Coq Require Import NArith ZArith List Bool.
From Clemens Require Import Base.Word Pos.Types Pos.Position Att.Geometry Eval.Eval.
Import ListNotations.
Open Scope Z_scope.

(* ------------------------------------------------------------------------------------------ *)
(* The pieces on the square array.                                                            *)
(* ------------------------------------------------------------------------------------------ *)
Inductive kind : Type := Pawn | Knight | Bishop | Rook | Queen | King.
Definition kinds : list kind := [Pawn; Knight; Bishop; Rook; Queen; King].   (* least valuable first *)
Definition kind_index (k : kind) : nat :=
  match k with Pawn => 0 | Knight => 1 | Bishop => 2 | Rook => 3 | Queen => 4 | King => 5 end%nat.
Definition kind_eqb (a b : kind) : bool := Nat.eqb (kind_index a) (kind_index b).

(* piece code -> (colour, kind) *)
Definition decode (pc : N) : option (N * kind) :=
  match pc with
  | 1 => Some (0, Pawn)  | 2 => Some (0, Knight)  | 3 => Some (0, Bishop)
  | 4 => Some (0, Rook)  | 5 => Some (0, Queen)   | 6 => Some (0, King)
  | 9 => Some (1, Pawn)  | 10 => Some (1, Knight) | 11 => Some (1, Bishop)
  | 12 => Some (1, Rook) | 13 => Some (1, Queen)  | 14 => Some (1, King)
  | _ => None
  end%N.

Definition at_sq (board : list N) (s : N) : N := nth (N.to_nat s) board 0%N.
Definition occupied_on (board : list N) (s : N) : bool := negb (at_sq board s =? 0)%N.
Definition squares : list N := map N.of_nat (seq 0 64).

(* the piece on [s] attacks [target] on this board. For the sliders the open line is walked from
   the target towards the piece (a line is open in both directions or in neither). *)
Definition ref_attacks (board : list N) (s target : N) : bool :=
  match decode (at_sq board s) with
  | None => false
  | Some (c, Pawn) => geo_pawn_attack c s target
  | Some (_, Knight) => geo_knight s target
  | Some (_, Bishop) => geo_ray_attacks_on (occupied_on board) bishop_dirs_geo target s
  | Some (_, Rook) => geo_ray_attacks_on (occupied_on board) rook_dirs_geo target s
  | Some (_, Queen) => geo_ray_attacks_on (occupied_on board) queen_dirs_geo target s
  | Some (_, King) => geo_king s target
  end.

(* the squares holding a piece that attacks [target] on the CURRENT board, ascending *)
Definition ref_attackers (board : list N) (target : N) : list N :=
  filter (fun s => ref_attacks board s target) squares.

Definition is_piece (board : list N) (side : N) (k : kind) (s : N) : bool :=
  match decode (at_sq board s) with
  | Some (c, k') => (c =? side)%N && kind_eqb k' k
  | None => false
  end.

Fixpoint first_some {A} (l : list (option A)) : option A :=
  match l with
  | [] => None
  | Some a :: _ => Some a
  | None :: r => first_some r
  end.

(* the attacker of colour [side] with the least kind (pawn < knight < bishop < rook < queen < king);
   among several of that kind the one on the lowest square. The tie-break is the engine's (lowest
   set bit). It is part of the definition and NOT immaterial in general: of two rooks, one may have
   an enemy queen behind it, which joins in only once that rook has moved. *)
Definition ref_lva (board : list N) (target side : N) : option N :=
  let att := ref_attackers board target in
  first_some (map (fun k => find (is_piece board side k) att) kinds).

Section Ref.
Variable C : econsts.

(* the engine's PieceValue (king 0); an empty square is worth nothing *)
Definition piece_value (pc : N) : Z :=
  match decode pc with
  | Some (_, k) => nth (kind_index k) (ec_piece_value C) 0
  | None => 0
  end.
Definition colour_of (pc : N) : N := match decode pc with Some (c, _) => c | None => 0%N end.
Definition opponent (c : N) : N := if (c =? 0)%N then 1%N else 0%N.

(* the piece on [from] moves to [target], replacing what stood there *)
Definition move_on (board : list N) (from target : N) : list N :=
  upd (upd board (N.to_nat target) (at_sq board from)) (N.to_nat from) 0%N.

(* the value, for the side making it, of capturing on [target] with the piece on [from]:
   the victim's value, less whatever the opponent can get back by recapturing with his least
   valuable attacker - if that is worth his while (he may stop: max 0). The capture itself is
   forced (it is the move being judged). [fuel] bounds the recursion: every capture removes a man,
   so 32 would do; out of fuel counts as "the opponent stops". *)
Fixpoint ref_capture (fuel : nat) (board : list N) (from target : N) : Z :=
  match fuel with
  | O => 0
  | S f =>
    let victim := piece_value (at_sq board target) in
    let mover := at_sq board from in
    let board' := move_on board from target in
    match ref_lva board' target (opponent (colour_of mover)) with
    | None => victim
    | Some reply => victim - Z.max 0 (ref_capture f board' reply target)
    end
  end.

Definition see_ref (p : position) (m : N) : Z :=
  ref_capture 40 (board p) (mv_src m) (mv_dst m).

End Ref.

(* negative / zero / positive *)
Definition sign (z : Z) : Z := if z <? 0 then -1 else if 0 <? z then 1 else 0.
