(* C16: the instance for the current Go build (generated tables and Zobrist keys) and the concrete
   positions used by the refutation of the unrepaired evalWithCache (defect D9) and by the
   non-vacuity example.  Everything here is decided by [vm_compute]. *)
From Coq Require Import NArith ZArith List Bool String Ascii.
From Clemens Require Import Base.Res Base.Word Base.Bytes Pos.Types Att.Attacks Pos.Position Pos.Fen.
From Clemens Require Import Eval.Eval Eval.CacheProofs.
From ClemensGen Require Import GoConsts.
Import ListNotations.
Open Scope N_scope.

(* the Zobrist keys and the evaluation constants of the current Go build, as in extract/Extract.v
   ([go_keys], [go_econsts]) *)
Definition c16_keys : zkeys :=
  {| zk_piece := zk_piece_tbl; zk_side := zk_side_key; zk_castling := zk_castling_tbl; zk_ep := zk_ep_tbl |}.
Definition c16_econsts : econsts :=
  {| ec_piece_value := ev_piece_value; ec_mid_pst := ev_mid_pst; ec_end_pst := ev_end_pst;
     ec_isolani := ev_isolani; ec_passed_scalar := ev_passed_scalar; ec_supported_scalar := ev_supported_scalar;
     ec_rook_pair := ev_rook_pair; ec_knight_pair := ev_knight_pair; ec_bishop_pair := ev_bishop_pair;
     ec_knight_pawn_adj := ev_knight_pawn_adj; ec_rook_pawn_adj := ev_rook_pawn_adj; ec_king_att := ev_king_att;
     ec_phase_knight := ev_phase_knight; ec_phase_bishop := ev_phase_bishop; ec_phase_rook := ev_phase_rook;
     ec_phase_queen := ev_phase_queen; ec_max_phase := ev_max_phase; ec_endgame_border := ev_endgame_border;
     ec_contempt := ev_contempt; ec_inf := ev_inf; ec_max_plies := ev_max_plies; ec_cache_size := ev_cache_size |}.

Definition c16_fen_bytes (s : string) : bytes := map N_of_ascii (list_ascii_of_string s).
Definition c16_parse (s : string) : res position :=
  new_from_fen c16_keys unicode_digit_tbl (c16_fen_bytes s).
Definition c16_pos (s : string) : position :=
  match c16_parse s with Ok p => p | _ => empty_position end.

(* the D9 pair: same placement, clock 100 and clock 0 *)
Definition fen_clock100 : string := "4k3/8/8/8/8/8/4P3/4K3 w - - 100 80".
Definition fen_clock0 : string := "4k3/8/8/8/8/8/4P3/4K3 w - - 0 80".
(* rights-only twins and en-passant-only twins (different hashes, same evaluation key) *)
Definition fen_rights_all : string := "r3k2r/8/8/8/8/8/4P3/R3K2R w KQkq - 0 1".
Definition fen_rights_none : string := "r3k2r/8/8/8/8/8/4P3/R3K2R w - - 0 1".
Definition fen_ep_set : string := "8/8/8/2k5/2pP4/8/B7/4K3 b - d3 0 3".
Definition fen_ep_none : string := "8/8/8/2k5/2pP4/8/B7/4K3 b - - 0 3".

Definition pos_clock100 : position := Eval vm_compute in c16_pos fen_clock100.
Definition pos_clock0 : position := Eval vm_compute in c16_pos fen_clock0.
Definition pos_rights_all : position := Eval vm_compute in c16_pos fen_rights_all.
Definition pos_rights_none : position := Eval vm_compute in c16_pos fen_rights_none.
Definition pos_ep_set : position := Eval vm_compute in c16_pos fen_ep_set.
Definition pos_ep_none : position := Eval vm_compute in c16_pos fen_ep_none.

Lemma c16_parsed :
  c16_parse fen_clock100 = Ok pos_clock100 /\ c16_parse fen_clock0 = Ok pos_clock0 /\
  c16_parse fen_rights_all = Ok pos_rights_all /\ c16_parse fen_rights_none = Ok pos_rights_none /\
  c16_parse fen_ep_set = Ok pos_ep_set /\ c16_parse fen_ep_none = Ok pos_ep_none.
Proof. repeat split; vm_compute; reflexivity. Qed.

(* ------------------------------------------------------------ deciding the hypotheses on a list *)
Fixpoint list_N_eqb (a b : list N) : bool :=
  match a, b with
  | [], [] => true
  | x :: a', y :: b' => (x =? y) && list_N_eqb a' b'
  | _, _ => false
  end.
Lemma list_N_eqb_eq : forall a b, list_N_eqb a b = true -> a = b.
Proof.
  induction a as [| x a IH]; destruct b as [| y b]; cbn; intro H; try discriminate; [reflexivity |].
  apply andb_true_iff in H. destruct H as [H1 H2]. apply N.eqb_eq in H1. subst. f_equal. auto.
Qed.
Definition eval_key_eqb (p q : position) : bool :=
  list_N_eqb (bbs p) (bbs q) && (all_pieces p =? all_pieces q) &&
  list_N_eqb (by_color p) (by_color q) && (side p =? side q).
Lemma eval_key_eqb_eq : forall p q, eval_key_eqb p q = true -> eval_key p = eval_key q.
Proof.
  intros p q H. unfold eval_key_eqb in H.
  repeat (apply andb_true_iff in H; let H' := fresh in destruct H as [H H']).
  unfold eval_key.
  rewrite (list_N_eqb_eq _ _ H).
  repeat match goal with
         | X : (_ =? _) = true |- _ => apply N.eqb_eq in X; rewrite X
         | X : list_N_eqb _ _ = true |- _ => apply list_N_eqb_eq in X; rewrite X
         end.
  reflexivity.
Qed.

Definition hash_injective_b (U : list position) : bool :=
  forallb (fun p => forallb (fun q => implb (hash p =? hash q) (eval_key_eqb p q)) U) U.
Lemma hash_injective_b_sound : forall U, hash_injective_b U = true -> hash_injective U.
Proof.
  intros U H p q Hp Hq Hh. unfold hash_injective_b in H.
  rewrite forallb_forall in H. specialize (H p Hp). rewrite forallb_forall in H. specialize (H q Hq).
  apply N.eqb_eq in Hh. rewrite Hh in H. cbn in H. apply eval_key_eqb_eq. exact H.
Qed.
Definition hash_nonzero_b (U : list position) : bool := forallb (fun p => negb (hash p =? 0)) U.
Lemma hash_nonzero_b_sound : forall U, hash_nonzero_b U = true -> hash_nonzero U.
Proof.
  intros U H p Hp Hz. unfold hash_nonzero_b in H. rewrite forallb_forall in H. specialize (H p Hp).
  rewrite Hz in H. discriminate H.
Qed.

(* ------------------------------------------------------------ D9: the unrepaired cache leaks *)
Lemma clock_pair_twins : clock_twins pos_clock100 pos_clock0.
Proof. unfold clock_twins. repeat split; vm_compute; reflexivity. Qed.
Lemma clock_pair_clocks : 100 <= hmc pos_clock100 /\ hmc pos_clock0 < 100.
Proof. split; vm_compute; [discriminate | reflexivity]. Qed.
Lemma clock_pair_raw :
  eval_raw c16_econsts pos_clock100 = Ok 0%Z /\ eval_raw c16_econsts pos_clock0 = Ok 83%Z.
Proof. split; vm_compute; reflexivity. Qed.

(* from the empty cache: clock 100 first, then clock 0 answers 0 (the stored draw score) instead of
   83; clock 0 first, then clock 100 answers 83 instead of the draw score 0 *)
Lemma unrepaired_leaks :
  run_unrepaired c16_econsts [] [pos_clock100; pos_clock0] = [Ok 0%Z; Ok 0%Z] /\
  run_unrepaired c16_econsts [] [pos_clock0; pos_clock100] = [Ok 83%Z; Ok 83%Z].
Proof. split; vm_compute; reflexivity. Qed.

Definition clock_universe : list position := [pos_clock100; pos_clock0].
Lemma clock_universe_hyps :
  hash_injective clock_universe /\ cache_sound c16_econsts clock_universe [].
Proof.
  split.
  - apply hash_injective_b_sound. vm_compute. reflexivity.
  - apply cache_sound_empty. apply hash_nonzero_b_sound. vm_compute. reflexivity.
Qed.

Lemma unrepaired_refuted :
  exists U c p q,
    hash_injective U /\ cache_sound c16_econsts U c /\ In p U /\ In q U /\
    clock_twins p q /\ 100 <= hmc p /\ hmc q < 100 /\
    eval_raw c16_econsts p = Ok 0%Z /\ eval_raw c16_econsts q = Ok 83%Z /\
    run_unrepaired c16_econsts c [p; q] = [Ok 0%Z; Ok 0%Z] /\
    run_unrepaired c16_econsts c [q; p] = [Ok 83%Z; Ok 83%Z] /\
    run_unrepaired c16_econsts c [p; q] <> [eval_raw c16_econsts p; eval_raw c16_econsts q] /\
    run_unrepaired c16_econsts c [q; p] <> [eval_raw c16_econsts q; eval_raw c16_econsts p].
Proof.
  exists clock_universe, [], pos_clock100, pos_clock0.
  destruct clock_universe_hyps as [Hi Hs]. destruct clock_pair_clocks as [Hc1 Hc2].
  destruct clock_pair_raw as [Hr1 Hr2]. destruct unrepaired_leaks as [Hl1 Hl2].
  split; [exact Hi |]. split; [exact Hs |].
  split; [left; reflexivity |]. split; [right; left; reflexivity |].
  split; [exact clock_pair_twins |]. split; [exact Hc1 |]. split; [exact Hc2 |].
  split; [exact Hr1 |]. split; [exact Hr2 |]. split; [exact Hl1 |]. split; [exact Hl2 |].
  rewrite Hl1, Hl2, Hr1, Hr2. split; intro H; discriminate H.
Qed.

(* ------------------------------------------------------------ non-vacuity *)
Definition c16_universe : list position :=
  [pos_clock100; pos_clock0; pos_rights_all; pos_rights_none; pos_ep_set; pos_ep_none].
(* a history with revisits, the clock twins on both sides of the limit in both orders, the rights
   twins and the en-passant twins *)
Definition c16_history : list position :=
  [pos_clock100; pos_clock0; pos_clock100; pos_rights_all; pos_rights_none; pos_rights_all;
   pos_ep_set; pos_ep_none; pos_clock0; pos_clock100].

Lemma c16_universe_injective : hash_injective c16_universe.
Proof. apply hash_injective_b_sound. vm_compute. reflexivity. Qed.
Lemma c16_universe_nonzero : hash_nonzero c16_universe.
Proof. apply hash_nonzero_b_sound. vm_compute. reflexivity. Qed.
Lemma c16_history_in : Forall (fun p => In p c16_universe) c16_history.
Proof.
  assert (In pos_clock100 c16_universe) as H0 by (apply (nth_error_In _ 0); reflexivity).
  assert (In pos_clock0 c16_universe) as H1 by (apply (nth_error_In _ 1); reflexivity).
  assert (In pos_rights_all c16_universe) as H2 by (apply (nth_error_In _ 2); reflexivity).
  assert (In pos_rights_none c16_universe) as H3 by (apply (nth_error_In _ 3); reflexivity).
  assert (In pos_ep_set c16_universe) as H4 by (apply (nth_error_In _ 4); reflexivity).
  assert (In pos_ep_none c16_universe) as H5 by (apply (nth_error_In _ 5); reflexivity).
  unfold c16_history.
  apply Forall_cons; [exact H0 |]. apply Forall_cons; [exact H1 |]. apply Forall_cons; [exact H0 |].
  apply Forall_cons; [exact H2 |]. apply Forall_cons; [exact H3 |]. apply Forall_cons; [exact H2 |].
  apply Forall_cons; [exact H4 |]. apply Forall_cons; [exact H5 |]. apply Forall_cons; [exact H1 |].
  apply Forall_cons; [exact H0 |]. apply Forall_nil.
Qed.
Lemma c16_hashes :
  hash pos_clock100 = hash pos_clock0 /\ hash pos_rights_all <> hash pos_rights_none /\
  hash pos_ep_set <> hash pos_ep_none /\
  eval_key pos_rights_all = eval_key pos_rights_none /\ eval_key pos_ep_set = eval_key pos_ep_none.
Proof.
  split; [vm_compute; reflexivity |]. split; [vm_compute; discriminate |].
  split; [vm_compute; discriminate |]. split; vm_compute; reflexivity.
Qed.
Lemma c16_history_raw :
  map (eval_raw c16_econsts) c16_history =
  [Ok 0; Ok 83; Ok 0; Ok 72; Ok 72; Ok 72; Ok (-257); Ok (-257); Ok 83; Ok 0]%Z.
Proof. vm_compute. reflexivity. Qed.
Lemma c16_history_cached :
  run_cached c16_econsts [] c16_history =
  [Ok 0; Ok 83; Ok 0; Ok 72; Ok 72; Ok 72; Ok (-257); Ok (-257); Ok 83; Ok 0]%Z.
Proof. vm_compute. reflexivity. Qed.

Lemma c16_hyps_met :
  c16_parse fen_clock100 = Ok pos_clock100 /\ c16_parse fen_clock0 = Ok pos_clock0 /\
  c16_parse fen_rights_all = Ok pos_rights_all /\ c16_parse fen_rights_none = Ok pos_rights_none /\
  c16_parse fen_ep_set = Ok pos_ep_set /\ c16_parse fen_ep_none = Ok pos_ep_none /\
  c16_universe = [pos_clock100; pos_clock0; pos_rights_all; pos_rights_none; pos_ep_set; pos_ep_none] /\
  c16_history = [pos_clock100; pos_clock0; pos_clock100; pos_rights_all; pos_rights_none; pos_rights_all;
                 pos_ep_set; pos_ep_none; pos_clock0; pos_clock100] /\
  hash_injective c16_universe /\ hash_nonzero c16_universe /\
  cache_sound c16_econsts c16_universe [] /\
  Forall (fun p => In p c16_universe) c16_history /\
  clock_twins pos_clock100 pos_clock0 /\ 100 <= hmc pos_clock100 /\ hmc pos_clock0 < 100 /\
  hash pos_clock100 = hash pos_clock0 /\
  hash pos_rights_all <> hash pos_rights_none /\ eval_key pos_rights_all = eval_key pos_rights_none /\
  hash pos_ep_set <> hash pos_ep_none /\ eval_key pos_ep_set = eval_key pos_ep_none /\
  map (eval_raw c16_econsts) c16_history =
    [Ok 0; Ok 83; Ok 0; Ok 72; Ok 72; Ok 72; Ok (-257); Ok (-257); Ok 83; Ok 0]%Z /\
  run_cached c16_econsts [] c16_history =
    [Ok 0; Ok 83; Ok 0; Ok 72; Ok 72; Ok 72; Ok (-257); Ok (-257); Ok 83; Ok 0]%Z.
Proof.
  destruct c16_parsed as (P1 & P2 & P3 & P4 & P5 & P6).
  destruct c16_hashes as (E1 & E2 & E3 & E4 & E5).
  destruct clock_pair_clocks as (K1 & K2).
  split; [exact P1 |]. split; [exact P2 |]. split; [exact P3 |]. split; [exact P4 |].
  split; [exact P5 |]. split; [exact P6 |]. split; [reflexivity |]. split; [reflexivity |].
  split; [exact c16_universe_injective |]. split; [exact c16_universe_nonzero |].
  split; [exact (cache_sound_empty c16_econsts _ c16_universe_nonzero) |].
  split; [exact c16_history_in |]. split; [exact clock_pair_twins |].
  split; [exact K1 |]. split; [exact K2 |]. split; [exact E1 |].
  split; [exact E2 |]. split; [exact E4 |]. split; [exact E3 |]. split; [exact E5 |].
  split; [exact c16_history_raw | exact c16_history_cached].
Qed.
