(* C18 helpers: generic facts about 64-bit sets (single bits, the lowest set bit x & -x, the squares
   of a set in ascending order, counting). No chess here. *)
From Coq Require Import NArith ZArith List Bool Lia ZifyBool ZifyN ZifyNat Sorted.
From Clemens Require Import Base.Res Base.Word Pos.Types Att.Attacks Pos.Position Pos.Inv Pos.CapturesProofs.
Import ListNotations.
Open Scope N_scope.

Lemma w64_lt (x : N) : w64 x < two64.
Proof.
  unfold w64. change m64 with (N.ones 64). rewrite N.land_ones.
  change two64 with (2 ^ 64). apply N.mod_lt. discriminate.
Qed.

Lemma bit_testbit (s t : N) : s < 64 -> N.testbit (bit s) t = (t =? s).
Proof.
  intros Hs. unfold bit, shl64. rewrite w64_testbit, N.shiftl_1_l, N.pow2_bits_eqb.
  destruct (N.eqb_spec s t), (N.eqb_spec t s), (N.ltb_spec t 64); try reflexivity; lia.
Qed.
Lemma bit_lt (s : N) : bit s < two64.
Proof. unfold bit, shl64. apply w64_lt. Qed.
Lemma bit_nonzero (s : N) : s < 64 -> bit s <> 0.
Proof.
  intros Hs E. assert (H := bit_testbit s s Hs). rewrite E, N.bits_0, N.eqb_refl in H. discriminate.
Qed.
Lemma bit_inj (s t : N) : s < 64 -> t < 64 -> bit s = bit t -> s = t.
Proof.
  intros Hs Ht E. assert (H := bit_testbit s s Hs). rewrite E, bit_testbit, N.eqb_refl in H by exact Ht.
  apply N.eqb_eq in H. exact H.
Qed.

Lemma high_false (x t : N) : x < two64 -> N.testbit x t = true -> t < 64.
Proof.
  intros Hx H. destruct (N.lt_ge_cases t 64) as [L|G]; [exact L|].
  rewrite (lt_two64_high x t Hx G) in H. discriminate.
Qed.

Lemma lt_two64_of_bits (x : N) : (forall t, N.testbit x t = true -> t < 64) -> x < two64.
Proof.
  intros H. destruct (N.eq_dec x 0) as [->|Hz]; [reflexivity|].
  assert (Hl : N.log2 x < 64) by (apply H, N.bit_log2; exact Hz).
  change two64 with (2 ^ 64). apply N.log2_lt_pow2; lia.
Qed.

Lemma land_lt (a b : N) : a < two64 -> N.land a b < two64.
Proof.
  intros Ha. apply lt_two64_of_bits. intros t. rewrite N.land_spec, andb_true_iff.
  intros [H _]. exact (high_false a t Ha H).
Qed.
Lemma lor_lt (a b : N) : a < two64 -> b < two64 -> N.lor a b < two64.
Proof.
  intros Ha Hb. apply lt_two64_of_bits. intros t. rewrite N.lor_spec, orb_true_iff.
  intros [H|H]; [exact (high_false a t Ha H)|exact (high_false b t Hb H)].
Qed.
Lemma lxor_lt (a b : N) : a < two64 -> b < two64 -> N.lxor a b < two64.
Proof.
  intros Ha Hb. apply lt_two64_of_bits. intros t. rewrite N.lxor_spec.
  destruct (N.testbit a t) eqn:Ea; [intros _; exact (high_false a t Ha Ea)|].
  destruct (N.testbit b t) eqn:Eb; [intros _; exact (high_false b t Hb Eb)|discriminate].
Qed.
Lemma ldiff_lt (a b : N) : a < two64 -> N.ldiff a b < two64.
Proof.
  intros Ha. apply lt_two64_of_bits. intros t. rewrite N.ldiff_spec, andb_true_iff.
  intros [H _]. exact (high_false a t Ha H).
Qed.

(* ---- x - 1, bit by bit ---- *)
Lemma pred_bits : forall p t, N.testbit (N.pred (N.pos p)) t =
  if t <? ctz_pos p then true else if t =? ctz_pos p then false else N.testbit (N.pos p) t.
Proof.
  induction p as [p IH|p IH|]; intros t; cbn [ctz_pos].
  - (* 2p+1 - 1 = 2p *)
    replace (N.pred (N.pos p~1)) with (2 * N.pos p) by lia.
    change (N.pos p~1) with (2 * N.pos p + 1).
    destruct (N.zero_or_succ t) as [->|[u ->]].
    + rewrite N.testbit_even_0. reflexivity.
    + rewrite N.testbit_even_succ, N.testbit_odd_succ by lia.
      destruct (N.ltb_spec (N.succ u) 0); [lia|].
      destruct (N.eqb_spec (N.succ u) 0); [lia|]. reflexivity.
  - (* 2p - 1 = 2(p-1)+1 *)
    replace (N.pred (N.pos p~0)) with (2 * N.pred (N.pos p) + 1) by lia.
    change (N.pos p~0) with (2 * N.pos p).
    destruct (N.zero_or_succ t) as [->|[u ->]].
    + rewrite N.testbit_odd_0. destruct (N.ltb_spec 0 (1 + ctz_pos p)); [reflexivity|lia].
    + rewrite N.testbit_odd_succ, N.testbit_even_succ by lia. rewrite IH.
      destruct (N.ltb_spec u (ctz_pos p)), (N.ltb_spec (N.succ u) (1 + ctz_pos p)); try lia; try reflexivity.
      destruct (N.eqb_spec u (ctz_pos p)), (N.eqb_spec (N.succ u) (1 + ctz_pos p)); try lia; reflexivity.
  - change (N.pred 1) with 0. rewrite N.bits_0.
    destruct (N.ltb_spec t 0); [lia|]. destruct (N.eqb_spec t 0) as [->|Hn]; [reflexivity|].
    symmetry. destruct (N.zero_or_succ t) as [->|[u ->]]; [contradiction|]. change 1 with (2 * 0 + 1).
    rewrite N.testbit_odd_succ by lia. apply N.bits_0.
Qed.

(* two's complement: -x = ~(x - 1) on 64 bits *)
Lemma neg64_bits (x t : N) : 0 < x -> x < two64 ->
  N.testbit (neg64 x) t = negb (N.testbit (N.pred x) t) && (t <? 64).
Proof.
  intros H0 Hx. unfold neg64, sub64.
  replace (0 + two64 - x) with (m64 - N.pred x) by (change two64 with (m64 + 1); lia).
  assert (Hp : N.pred x < two64) by lia.
  rewrite N.mod_small by (change two64 with (m64 + 1); lia).
  rewrite N.sub_nocarry_ldiff.
  - rewrite N.ldiff_spec, m64_testbit. apply andb_comm.
  - apply N.bits_inj. intros u. rewrite N.ldiff_spec, m64_testbit, N.bits_0.
    destruct (N.ltb_spec u 64); [apply andb_false_r|]. rewrite (lt_two64_high _ u Hp) by lia. reflexivity.
Qed.

(* x & -x is the lowest set bit *)
Lemma lowest_bit (x c : N) : x < two64 -> lsb x = Ok c ->
  c < 64 /\ N.testbit x c = true /\ N.land x (neg64 x) = bit c.
Proof.
  intros Hx Hc. destruct x as [|p]; [discriminate|]. cbn [lsb] in Hc. injection Hc as <-.
  assert (Hb := ctz_pos_testbit p).
  assert (Hc : ctz_pos p < 64) by exact (high_false _ _ Hx Hb).
  split; [exact Hc|]. split; [exact Hb|].
  apply N.bits_inj. intros t. rewrite N.land_spec, neg64_bits, pred_bits, bit_testbit by (try lia; assumption).
  destruct (N.ltb_spec t (ctz_pos p)).
  - destruct (N.eqb_spec t (ctz_pos p)); [lia|]. cbn. apply andb_false_r.
  - destruct (N.eqb_spec t (ctz_pos p)) as [->|Hn].
    + rewrite Hb. cbn. destruct (N.ltb_spec (ctz_pos p) 64); [reflexivity|lia].
    + destruct (N.testbit (N.pos p) t); reflexivity.
Qed.

(* ---- the squares of a set, ascending ---- *)
Lemma squares64_bits : squares64 = bits m64.
Proof. vm_compute. reflexivity. Qed.
Lemma squares64_sorted : StronglySorted N.lt squares64.
Proof. rewrite squares64_bits. apply bits_sorted. Qed.
Lemma squares64_NoDup : NoDup squares64.
Proof. rewrite squares64_bits. apply bits_NoDup. Qed.
Lemma squares64_in (s : N) : In s squares64 <-> s < 64.
Proof. rewrite squares64_bits, bits_in, m64_testbit. lia. Qed.

Lemma bits_filter_squares (x : N) : x < two64 -> bits x = filter (N.testbit x) squares64.
Proof.
  intros Hx. apply sorted_ext.
  - apply bits_sorted.
  - apply sorted_filter, squares64_sorted.
  - intros s. rewrite filter_In, bits_in, squares64_in. split; [|tauto].
    intros H. split; [exact (high_false x s Hx H)|exact H].
Qed.

Lemma bits_pos_hd : forall p i, exists r, bits_pos p i = (i + ctz_pos p) :: r.
Proof.
  induction p as [p IH|p IH|]; intros i; cbn [bits_pos ctz_pos].
  - eexists. rewrite N.add_0_r. reflexivity.
  - destruct (IH (i + 1)) as [r ->]. exists r. f_equal. lia.
  - eexists. rewrite N.add_0_r. reflexivity.
Qed.
Lemma bits_hd (x c : N) : lsb x = Ok c -> exists r, bits x = c :: r.
Proof.
  destruct x as [|p]; [discriminate|]. cbn [lsb bits]. intros [= <-].
  destruct (bits_pos_hd p 0) as [r ->]. exists r. reflexivity.
Qed.
Lemma bits_nil (x : N) : bits x = [] -> x = 0.
Proof.
  destruct x as [|p]; [reflexivity|]. cbn [bits]. destruct (bits_pos_hd p 0) as [r ->]. discriminate.
Qed.

Lemma find_hd_filter {A} (f : A -> bool) (l : list A) : find f l = hd_error (filter f l).
Proof. induction l as [|a l IH]; [reflexivity|]. cbn [find filter]. destruct (f a); [reflexivity|exact IH]. Qed.

Lemma filter_ext_in' {A} (f g : A -> bool) (l : list A) :
  (forall a, In a l -> f a = g a) -> filter f l = filter g l.
Proof.
  induction l as [|a l IH]; intros H; [reflexivity|]. cbn [filter].
  rewrite (H a) by (left; reflexivity). rewrite IH; [reflexivity|]. intros b Hb. apply H. right. exact Hb.
Qed.

(* the lowest square of a set given by a predicate on the 64 squares *)
Lemma lowest_by_filter (x : N) (f : N -> bool) :
  x < two64 -> (forall s, s < 64 -> N.testbit x s = f s) ->
  match find f squares64 with
  | None => x = 0
  | Some s => s < 64 /\ f s = true /\ x <> 0 /\ N.land x (neg64 x) = bit s
  end.
Proof.
  intros Hx Hf.
  assert (E : bits x = filter f squares64).
  { rewrite (bits_filter_squares x Hx). apply filter_ext_in'. intros s Hs. apply Hf, squares64_in, Hs. }
  rewrite find_hd_filter, <- E.
  destruct x as [|p] eqn:Ex; [reflexivity|].
  destruct (bits_hd (N.pos p) (ctz_pos p) eq_refl) as [r Hr]. rewrite Hr. cbn [hd_error].
  destruct (lowest_bit (N.pos p) (ctz_pos p) Hx eq_refl) as (H1 & H2 & H3).
  split; [exact H1|]. split; [rewrite <- Hf by exact H1; exact H2|]. split; [discriminate|exact H3].
Qed.

(* ---- counting the squares of a set ---- *)
Definition card (f : N -> bool) : nat := length (filter f squares64).

Lemma filter_remove_one {A} (f g : A -> bool) (l : list A) (s : A) :
  NoDup l -> In s l -> f s = true -> g s = false -> (forall x, x <> s -> g x = f x) ->
  S (length (filter g l)) = length (filter f l).
Proof.
  induction l as [|a l IH]; intros Hnd Hin Hf Hg Hext; [destruct Hin|].
  inversion Hnd as [|? ? Hna Hnd']; subst.
  cbn [filter]. destruct Hin as [->|Hin].
  - rewrite Hf, Hg. cbn [length]. f_equal. f_equal. apply filter_ext_in'.
    intros x Hx. apply Hext. intros ->. contradiction.
  - assert (a <> s) by (intros ->; contradiction).
    rewrite (Hext a) by assumption. destruct (f a); cbn [length]; rewrite <- (IH Hnd' Hin Hf Hg Hext); reflexivity.
Qed.

Lemma card_remove (f g : N -> bool) (s : N) :
  s < 64 -> f s = true -> g s = false -> (forall x, x < 64 -> x <> s -> g x = f x) ->
  S (card g) = card f.
Proof.
  intros Hs Hf Hg Hext. unfold card.
  set (g' := fun x => if x =? s then false else f x).
  assert (E : filter g squares64 = filter g' squares64).
  { apply filter_ext_in'. intros x Hx. apply squares64_in in Hx. unfold g'.
    destruct (N.eqb_spec x s) as [->|Hn]; [exact Hg|apply Hext; assumption]. }
  rewrite E. apply (filter_remove_one f g' squares64 s).
  - apply squares64_NoDup.
  - apply squares64_in. exact Hs.
  - exact Hf.
  - unfold g'. rewrite N.eqb_refl. reflexivity.
  - intros x Hx. unfold g'. destruct (N.eqb_spec x s); [contradiction|reflexivity].
Qed.

Lemma card_le (f g : N -> bool) : (forall x, x < 64 -> f x = true -> g x = true) -> (card f <= card g)%nat.
Proof.
  intros H. unfold card. assert (Hin : forall x, In x squares64 -> x < 64) by (intros x; apply squares64_in).
  induction squares64 as [|a l IH]; [apply Nat.le_refl|].
  cbn [filter]. assert (IH' := IH (fun x Hx => Hin x (or_intror Hx))).
  destruct (f a) eqn:Ef.
  - rewrite (H a (Hin a (or_introl eq_refl)) Ef). cbn [length]. lia.
  - destruct (g a); cbn [length]; lia.
Qed.

Lemma card_pos (f : N -> bool) (s : N) : s < 64 -> f s = true -> (1 <= card f)%nat.
Proof.
  intros Hs Hf. unfold card. assert (Hin : In s (filter f squares64)) by (apply filter_In; split; [apply squares64_in|]; assumption).
  destruct (filter f squares64); [destruct Hin|cbn [length]; lia].
Qed.
