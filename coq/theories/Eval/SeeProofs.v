(* C18: proofs about the static exchange evaluation [see] (Eval/Eval.v) against the reference
   [see_ref] (Eval/SeeRef.v).

   Part 1 (sequences of values, no chess): (i) the pruned swap list and the full one fold to values of
     the same sign, and the full one folds to the recursive minimax ([pruning_preserves_sign],
     [swap_is_minimax]); (iii) after a capture made by a piece of value 0 the continuation is immaterial
     ([king_capture_tail], [agree_minimax]); no int16 wrap ([gain_no_wrap], [see_fold_zfold]).
   Part 2: [see_swap] as a function of the attacker sequence [eng_line] the loop itself produces
     ([see_swap_trace]).
   Part 3 (on a position, premise [slider_exact] = property C12): [least_valuable] picks the lowest
     square of the least type; invariants of the loop ([WH]: the sets are sets of unused men, [XH]: the
     attack set is exactly the set of unused men attacking the target on the current occupancy);
     [step_exact]: the refresh after a pawn / bishop / rook / queen and the absence of one after a knight
     both keep [XH]; the reference's board against the engine's sets ([R0], [R1], [lva_match]);
     (iv) the loop ends after at most 31 captures ([eng_line_ok]); (ii) the engine's line and the
     reference's agree up to a king capture ([eng_ref_agree]); everything composed in [see_core].
   Part 4: every generated non-en-passant capture is a capture in the sense used above
     ([gen_move_capture_ok], needs the symmetry of open lines), and the property:
     [see_sign_partial : slider_exact -> C18_see_sign_statement].
   Eval/SeeFinal.v discharges [slider_exact] with Att/SlidingProofs.v. *)
From Coq Require Import NArith ZArith List Bool Lia ZifyBool ZifyN ZifyNat.
From Clemens Require Import Base.Res Base.Word Pos.Types Att.Attacks Pos.Position Pos.Inv.
From Clemens Require Import Pos.CapturesProofs Att.Geometry Eval.Eval Eval.SeeRef Eval.SeeBits Eval.SeeGeo.
Import ListNotations.
Open Scope Z_scope.

(* ========================================================================================== *)
(* Part 1: sequences of piece values.                                                          *)
(* v0 is the victim of the first capture; a1, a2, ... are the values of the pieces in the order *)
(* they capture (a1 makes the capture being judged).                                            *)
(* ========================================================================================== *)

(* the recursive "either side may stop" value of capturing a piece worth c when the pieces that
   can then be captured in turn are worth r: minimax (c :: r) = c - max 0 (minimax r) *)
Fixpoint minimax (cs : list Z) : Z :=
  match cs with
  | [] => 0
  | c :: r => c - Z.max 0 (minimax r)
  end.

(* the engine's first loop on values, unbounded integers, gain list newest first:
   gain[d] = a_d - gain[d-1]; the loop ends when the attackers run out *)
Fixpoint swap_full (gain : list Z) (l : list Z) : list Z :=
  match l, gain with
  | a :: r, gprev :: _ =>
    let gain' := (a - gprev) :: gain in
    match r with [] => gain' | _ => swap_full gain' r end
  | _, _ => gain
  end.
(* ... or, as the engine does, at the first d with max(-gain[d-1], gain[d]) < 0 *)
Fixpoint swap_pruned (gain : list Z) (l : list Z) : list Z :=
  match l, gain with
  | a :: r, gprev :: _ =>
    let g := a - gprev in
    let gain' := g :: gain in
    if Z.max (- gprev) g <? 0 then gain' else
    match r with [] => gain' | _ => swap_pruned gain' r end
  | _, _ => gain
  end.
(* the second loop, unbounded integers *)
Definition fstep (h n : Z) : Z := - Z.max (- n) h.
Definition zfold (gain : list Z) : Z :=
  match gain with
  | _ :: h :: rest => fold_left fstep rest h
  | _ => 0
  end.

(* the folded value at the level of the newest entry g when the attackers l are still to come *)
Fixpoint Hfull (g : Z) (l : list Z) : Z :=
  match l with
  | [] => g
  | a :: r => match r with [] => g | _ => Z.min g (- Hfull (a - g) r) end
  end.
Fixpoint Hpr (g : Z) (l : list Z) : Z :=
  match l with
  | [] => g
  | a :: r => if Z.max (- g) (a - g) <? 0 then g else
              match r with [] => g | _ => Z.min g (- Hpr (a - g) r) end
  end.

Lemma fstep_min (h n : Z) : fstep h n = Z.min n (- h).
Proof. unfold fstep. lia. Qed.

Lemma zfold_swap_full : forall l g G, l <> [] ->
  zfold (swap_full (g :: G) l) = fold_left fstep G (Hfull g l).
Proof.
  induction l as [|a r IH]; intros g G Hne; [contradiction|].
  destruct r as [|b r'].
  - reflexivity.
  - change (swap_full (g :: G) (a :: b :: r')) with (swap_full ((a - g) :: g :: G) (b :: r')).
    rewrite IH by discriminate.
    change (Hfull g (a :: b :: r')) with (Z.min g (- Hfull (a - g) (b :: r'))).
    cbn [fold_left]. rewrite fstep_min. reflexivity.
Qed.

Lemma zfold_swap_pruned : forall l g G, l <> [] ->
  zfold (swap_pruned (g :: G) l) = fold_left fstep G (Hpr g l).
Proof.
  induction l as [|a r IH]; intros g G Hne; [contradiction|].
  cbn [swap_pruned Hpr]. destruct (Z.max (- g) (a - g) <? 0) eqn:E.
  - reflexivity.
  - destruct r as [|b r'].
    + reflexivity.
    + rewrite IH by discriminate. cbn [fold_left]. rewrite fstep_min. reflexivity.
Qed.

Lemma Hfull_le : forall l g, Hfull g l <= g.
Proof. intros [|a [|b r]] g; cbn [Hfull]; lia. Qed.
Lemma Hpr_le : forall l g, Hpr g l <= g.
Proof.
  intros [|a [|b r]] g; cbn [Hpr]; try lia; destruct (Z.max (- g) (a - g) <? 0); lia.
Qed.

Lemma sign_cases (x : Z) : (x < 0 /\ sign x = -1) \/ (x = 0 /\ sign x = 0) \/ (0 < x /\ sign x = 1).
Proof. unfold sign. destruct (x <? 0) eqn:E1; [lia|]. destruct (0 <? x) eqn:E2; lia. Qed.

Lemma sign_min (g x y : Z) : sign x = sign y -> sign (Z.min g (- x)) = sign (Z.min g (- y)).
Proof.
  intros H.
  destruct (sign_cases x) as [[? Hx]|[[? Hx]|[? Hx]]], (sign_cases y) as [[? Hy]|[[? Hy]|[? Hy]]];
    rewrite Hx, Hy in H; try discriminate;
  destruct (sign_cases (Z.min g (- x))) as [[? ->]|[[? ->]|[? ->]]],
           (sign_cases (Z.min g (- y))) as [[? ->]|[[? ->]|[? ->]]]; lia.
Qed.

Lemma sign_fold : forall G x y, sign x = sign y -> sign (fold_left fstep G x) = sign (fold_left fstep G y).
Proof.
  induction G as [|n G IH]; intros x y H; [exact H|].
  cbn [fold_left]. apply IH. rewrite !fstep_min. apply sign_min. exact H.
Qed.

Lemma sign_pos (x : Z) : 0 < x -> sign x = 1.
Proof. intros H. destruct (sign_cases x) as [[? ?]|[[? ?]|[? ?]]]; lia. Qed.

Lemma sign_Hpr : forall l g, sign (Hpr g l) = sign (Hfull g l).
Proof.
  induction l as [|a r IH]; intros g; [reflexivity|].
  cbn [Hpr Hfull]. destruct (Z.max (- g) (a - g) <? 0) eqn:E.
  - destruct r as [|b r']; [reflexivity|].
    pose proof (Hfull_le (b :: r') (a - g)).
    rewrite !sign_pos; lia.
  - destruct r as [|b r']; [reflexivity|]. apply sign_min. apply IH.
Qed.

(* (i) first half: cutting the swap list where the engine cuts it does not change the sign *)
Theorem pruning_preserves_sign : forall v0 l, l <> [] ->
  sign (zfold (swap_pruned [v0] l)) = sign (zfold (swap_full [v0] l)).
Proof.
  intros v0 l H. rewrite zfold_swap_pruned, zfold_swap_full by exact H.
  apply sign_fold. apply sign_Hpr.
Qed.

Lemma Hfull_minimax : forall l g, Hfull g l = g - Z.max 0 (minimax (removelast l)).
Proof.
  induction l as [|a r IH]; intros g; [cbn; lia|].
  destruct r as [|b r']; [cbn; lia|].
  change (Hfull g (a :: b :: r')) with (Z.min g (- Hfull (a - g) (b :: r'))).
  rewrite IH.
  change (removelast (a :: b :: r')) with (a :: removelast (b :: r')).
  cbn [minimax]. lia.
Qed.

(* (i) second half: the complete swap list, folded, is the recursive minimax. The last attacker's
   own value never matters (nobody captures it). *)
Theorem swap_is_minimax : forall v0 l, l <> [] ->
  zfold (swap_full [v0] l) = minimax (v0 :: removelast l).
Proof.
  intros v0 l H. rewrite zfold_swap_full by exact H. cbn [fold_left minimax]. apply Hfull_minimax.
Qed.

Corollary see_list_sign : forall v0 l, l <> [] ->
  sign (zfold (swap_pruned [v0] l)) = sign (minimax (v0 :: removelast l)).
Proof. intros. rewrite pruning_preserves_sign, swap_is_minimax by assumption. reflexivity. Qed.

(* ---- (iii) after a capture by a piece worth 0 (the king) nothing matters ---- *)
Lemma Hpr_king : forall r g, Hpr g (0 :: r) = g.
Proof.
  intros r g. cbn [Hpr]. destruct (Z.max (- g) (0 - g) <? 0) eqn:E; [reflexivity|].
  destruct r as [|b r']; [reflexivity|]. pose proof (Hpr_le (b :: r') (0 - g)). lia.
Qed.
Lemma Hfull_king : forall r g, Hfull g (0 :: r) = g.
Proof.
  intros r g. destruct r as [|b r']; [reflexivity|].
  change (Hfull g (0 :: b :: r')) with (Z.min g (- Hfull (0 - g) (b :: r'))).
  pose proof (Hfull_le (b :: r') (0 - g)). lia.
Qed.
Lemma Hpr_king_tail : forall pre g t1 t2, Hpr g (pre ++ 0 :: t1) = Hpr g (pre ++ 0 :: t2).
Proof.
  induction pre as [|a pre IH]; intros g t1 t2; cbn [app].
  - rewrite !Hpr_king. reflexivity.
  - cbn [Hpr]. destruct (Z.max (- g) (a - g) <? 0); [reflexivity|].
    destruct (pre ++ 0 :: t1) as [|x1 l1] eqn:E1; [destruct pre; discriminate|].
    destruct (pre ++ 0 :: t2) as [|x2 l2] eqn:E2; [destruct pre; discriminate|].
    rewrite <- E1, <- E2, (IH (a - g) t1 t2). reflexivity.
Qed.
Lemma Hfull_king_tail : forall pre g t1 t2, Hfull g (pre ++ 0 :: t1) = Hfull g (pre ++ 0 :: t2).
Proof.
  induction pre as [|a pre IH]; intros g t1 t2; cbn [app].
  - rewrite !Hfull_king. reflexivity.
  - cbn [Hfull].
    destruct (pre ++ 0 :: t1) as [|x1 l1] eqn:E1; [destruct pre; discriminate|].
    destruct (pre ++ 0 :: t2) as [|x2 l2] eqn:E2; [destruct pre; discriminate|].
    rewrite <- E1, <- E2, (IH (a - g) t1 t2). reflexivity.
Qed.

(* the exact statement (found by enumeration first): not only the sign but the VALUE the engine's two
   loops compute is the same whatever follows a capture made by a piece of value 0, pruned or not *)
Theorem king_capture_tail_pruned : forall v0 pre t1 t2,
  zfold (swap_pruned [v0] (pre ++ 0 :: t1)) = zfold (swap_pruned [v0] (pre ++ 0 :: t2)).
Proof.
  intros. rewrite !zfold_swap_pruned by (destruct pre; discriminate).
  rewrite (Hpr_king_tail pre v0 t1 t2). reflexivity.
Qed.
Theorem king_capture_tail_full : forall v0 pre t1 t2,
  zfold (swap_full [v0] (pre ++ 0 :: t1)) = zfold (swap_full [v0] (pre ++ 0 :: t2)).
Proof.
  intros. rewrite !zfold_swap_full by (destruct pre; discriminate).
  rewrite (Hfull_king_tail pre v0 t1 t2). reflexivity.
Qed.
(* in minimax terms: once a piece of value 0 has been captured-with, the line is worth what it was
   worth before: taking the king (0) and then facing a reply worth >= 0 never beats stopping *)
Lemma minimax_king_le : forall t, minimax (0 :: t) <= 0.
Proof. intros t. cbn [minimax]. lia. Qed.
Theorem king_capture_tail : forall pre t, pre <> [] -> minimax (pre ++ 0 :: t) = minimax pre.
Proof.
  induction pre as [|c pre IH]; intros t H; [contradiction|].
  destruct pre as [|c' pre'].
  - cbn [app]. pose proof (minimax_king_le t). cbn [minimax] in *. lia.
  - change ((c :: c' :: pre') ++ 0 :: t) with (c :: ((c' :: pre') ++ 0 :: t)).
    cbn [minimax]. rewrite (IH t) by discriminate. reflexivity.
Qed.

(* two lists of captured values that are equal up to the first place where one of them either ends or
   continues with the capture of a 0-valued piece *)
Definition king_tail (l : list Z) : Prop := l = [] \/ exists t, l = 0 :: t.
Inductive agree : list Z -> list Z -> Prop :=
| agree_nil : agree [] []
| agree_cons a l1 l2 : agree l1 l2 -> agree (a :: l1) (a :: l2)
| agree_king l1 l2 : king_tail l1 -> king_tail l2 -> agree l1 l2.

Lemma minimax_king_tail c l : king_tail l -> minimax (c :: l) = c.
Proof.
  intros [-> | [t ->]]; [cbn; lia|]. pose proof (minimax_king_le t). cbn [minimax] in *. lia.
Qed.
Lemma agree_minimax : forall l1 l2, agree l1 l2 -> forall c, minimax (c :: l1) = minimax (c :: l2).
Proof.
  induction 1 as [|a l1 l2 H IH|l1 l2 H1 H2]; intros c; [reflexivity| |].
  - cbn [minimax] in *. rewrite (IH a). reflexivity.
  - rewrite !minimax_king_tail by assumption. reflexivity.
Qed.

(* executable version, for examples *)
Definition king_tail_b (l : list Z) : bool := match l with [] => true | x :: _ => x =? 0 end.
Fixpoint agree_b (l1 l2 : list Z) : bool :=
  (king_tail_b l1 && king_tail_b l2) ||
  match l1, l2 with
  | [], [] => true
  | a :: r1, b :: r2 => (a =? b) && agree_b r1 r2
  | _, _ => false
  end.
Lemma king_tail_b_spec l : king_tail_b l = true -> king_tail l.
Proof. destruct l as [|x r]; [left; reflexivity|]. cbn. intros H. right. exists r. f_equal. lia. Qed.
Lemma agree_b_spec : forall l1 l2, agree_b l1 l2 = true -> agree l1 l2.
Proof.
  induction l1 as [|a r1 IH]; intros l2 H.
  - destruct l2 as [|b r2]; [constructor|].
    cbn in H. rewrite orb_false_r in H. apply agree_king; apply king_tail_b_spec; [reflexivity|exact H].
  - cbn [agree_b] in H. apply orb_true_iff in H. destruct H as [H|H].
    + apply andb_true_iff in H. destruct H. apply agree_king; apply king_tail_b_spec; assumption.
    + destruct l2 as [|b r2]; [discriminate|]. apply andb_true_iff in H. destruct H as [E H].
      apply Z.eqb_eq in E. subst b. constructor. apply IH. exact H.
Qed.

(* ---- no int16 wrap ---- *)
Definition absle (K : Z) (x : Z) : Prop := - K <= x <= K.

Lemma swap_pruned_bound : forall l gain K M,
  0 <= M -> Forall (absle K) gain -> Forall (fun a => 0 <= a <= M) l ->
  Forall (absle (K + M * Z.of_nat (length l))) (swap_pruned gain l).
Proof.
  induction l as [|a r IH]; intros gain K M HM Hg Hl.
  - cbn. replace (K + M * 0) with K by lia. destruct gain; exact Hg.
  - destruct gain as [|gprev G]; [constructor|].
    inversion Hl as [|? ? Ha Hr]; subst. inversion Hg as [|? ? Hgp HG]; subst.
    assert (Hmono : forall K', K <= K' -> Forall (absle K') (gprev :: G)).
    { intros K' HK. eapply Forall_impl; [|exact Hg]. unfold absle. intros; lia. }
    assert (Hnew : Forall (absle (K + M)) ((a - gprev) :: gprev :: G)).
    { constructor; [unfold absle in *; lia|]. apply Hmono. lia. }
    cbn [swap_pruned length]. destruct (Z.max (- gprev) (a - gprev) <? 0).
    + eapply Forall_impl; [|exact Hnew]. unfold absle. intros; nia.
    + destruct r as [|b r'].
      * eapply Forall_impl; [|exact Hnew]. unfold absle. intros; cbn [length] in *; nia.
      * specialize (IH ((a - gprev) :: gprev :: G) (K + M) M HM Hnew Hr).
        eapply Forall_impl; [|exact IH]. unfold absle. intros x Hx. cbn [length] in *. nia.
Qed.

Lemma swap_pruned_length : forall l gain, gain <> [] ->
  (length gain < length (swap_pruned gain l) <= length gain + length l)%nat \/ l = [].
Proof.
  induction l as [|a r IH]; intros gain Hne; [right; reflexivity|left].
  destruct gain as [|gprev G]; [contradiction|].
  cbn [swap_pruned]. destruct (Z.max (- gprev) (a - gprev) <? 0); [cbn [length]; lia|].
  destruct r as [|b r']; [cbn [length]; lia|].
  destruct (IH ((a - gprev) :: gprev :: G)) as [H|H]; [discriminate| |discriminate].
  cbn [length] in *. lia.
Qed.

(* the gain entries stay below 32 * 1000 in absolute value when at most 31 pieces of value <= 1000
   capture a victim of value <= 1000 *)
Theorem gain_no_wrap : forall v0 l,
  0 <= v0 <= 1000 -> Forall (fun a => 0 <= a <= 1000) l -> (length l <= 31)%nat ->
  Forall (absle 32000) (swap_pruned [v0] l).
Proof.
  intros v0 l Hv Hl Hlen.
  assert (H := swap_pruned_bound l [v0] 1000 1000 ltac:(lia)
                 ltac:(constructor; [unfold absle; lia|constructor]) Hl).
  eapply Forall_impl; [|exact H]. unfold absle. intros x Hx. lia.
Qed.

Lemma wrap16_id (x : Z) : -32768 <= x <= 32767 -> wrap16 x = x.
Proof. intros H. unfold wrap16. rewrite Z.mod_small; lia. Qed.

(* on entries that small the model's second loop (int16) is the integer fold *)
Lemma see_fold_zfold : forall gain, (2 <= length gain)%nat -> Forall (absle 32767) gain ->
  see_fold gain = Ok (zfold gain).
Proof.
  intros gain Hlen Hb. destruct gain as [|x [|h rest]]; cbn [length] in Hlen; try lia.
  cbn [see_fold zfold]. f_equal.
  inversion Hb as [|? ? _ Hb']; subst. inversion Hb' as [|? ? Hh Hrest]; subst. clear Hb Hb' Hlen.
  revert h Hh. induction rest as [|n rest IH]; intros h Hh; [reflexivity|].
  inversion Hrest as [|? ? Hn Hr]; subst. cbn [fold_left].
  assert (E : neg16 (Z.max (neg16 n) h) = fstep h n).
  { unfold neg16, fstep, absle in *. rewrite (wrap16_id (- n)) by lia. rewrite wrap16_id by lia. reflexivity. }
  rewrite E. apply IH; [exact Hr|]. unfold fstep, absle in *. lia.
Qed.

Theorem gain_no_wrap_fold : forall v0 l, l <> [] ->
  0 <= v0 <= 1000 -> Forall (fun a => 0 <= a <= 1000) l -> (length l <= 31)%nat ->
  Forall (absle 32000) (swap_pruned [v0] l) /\
  see_fold (swap_pruned [v0] l) = Ok (zfold (swap_pruned [v0] l)).
Proof.
  intros v0 l Hne Hv Hl Hlen. assert (H := gain_no_wrap v0 l Hv Hl Hlen). split; [exact H|].
  apply see_fold_zfold.
  - destruct (swap_pruned_length l [v0] ltac:(discriminate)) as [H1|H1]; [|contradiction]. cbn [length] in H1. lia.
  - eapply Forall_impl; [|exact H]. unfold absle. intros; lia.
Qed.

(* ========================================================================================== *)
(* Part 2: the first loop of the model as a function of the attacker sequence.                 *)
(* ========================================================================================== *)
Lemma bind_ok' {A B} (r : res A) (f : A -> res B) (b : B) :
  bind r f = Ok b -> exists a, r = Ok a /\ f a = Ok b.
Proof. destruct r; cbn [bind]; intros H; try discriminate. eauto. Qed.

Lemma Ok_inj {A} (a b : A) : Ok a = Ok b -> a = b.
Proof. intros H. injection H as H. exact H. Qed.

(* the x-ray refresh of one iteration *)
Definition refresh (p : position) (target max_xray src_bb attacks occ already : N) : res N :=
  if (0 <? N.land src_bb max_xray)%N then (x <- consider_xrays p target occ already ;; Ok (N.lor attacks x))
  else Ok attacks.

(* the piece types of the attackers in the order the loop would use them if it never pruned: the same
   set updates, refresh and least-valuable choice as [see_swap], without the gain list *)
Fixpoint eng_line (fuel : nat) (p : position) (target max_xray : N)
         (att_type src_bb attacks occ already stm : N) : res (list N) :=
  match fuel with
  | O => Panic
  | S f =>
    let attacks := N.lxor attacks src_bb in
    let occ := N.lxor occ src_bb in
    let already := N.lor already src_bb in
    attacks <- refresh p target max_xray src_bb attacks occ already ;;
    let stm := switch_color stm in
    r <- least_valuable p attacks stm ;;
    let '(src', ty') := r in
    if (src' =? 0)%N then Ok [att_type]
    else (l <- eng_line f p target max_xray ty' src' attacks occ already stm ;; Ok (att_type :: l))
  end.

Lemma eng_line_S f p target mx ty src attacks occ already stm :
  eng_line (S f) p target mx ty src attacks occ already stm =
  (attacks' <- refresh p target mx src (N.lxor attacks src) (N.lxor occ src) (N.lor already src) ;;
   r <- least_valuable p attacks' (switch_color stm) ;;
   let '(src', ty') := r in
   if (src' =? 0)%N then Ok [ty]
   else (l <- eng_line f p target mx ty' src' attacks' (N.lxor occ src) (N.lor already src) (switch_color stm) ;;
         Ok (ty :: l))).
Proof. reflexivity. Qed.

Lemma eng_line_nonempty : forall fuel p target mx ty src attacks occ already stm l,
  eng_line fuel p target mx ty src attacks occ already stm = Ok l -> l <> [].
Proof.
  intros [|f] p target mx ty src attacks occ already stm l H; [discriminate|].
  rewrite eng_line_S in H. apply bind_ok' in H. destruct H as (a2 & _ & H).
  apply bind_ok' in H. destruct H as ([src' ty'] & _ & H).
  destruct (src' =? 0)%N; [injection H as <-; discriminate|].
  apply bind_ok' in H. destruct H as (l' & _ & H). injection H as <-. discriminate.
Qed.

Section Trace.
Variable C : econsts.

(* what the proofs need of PieceValue: six entries between 0 and 1000, the king's 0 *)
Definition pv_ok : Prop :=
  length (ec_piece_value C) = 6%nat /\ Forall (fun v => 0 <= v <= 1000) (ec_piece_value C) /\
  nth 5 (ec_piece_value C) 1 = 0.
Definition val (ty : N) : Z := nth (N.to_nat ty) (ec_piece_value C) 0.

Lemma nthz_val ty : pv_ok -> (ty < 6)%N -> nthz (ec_piece_value C) ty = Ok (val ty) /\ 0 <= val ty <= 1000.
Proof.
  intros (Hlen & Hall & _) Hty. split.
  - unfold nthz, val. apply nth_res_lt. lia.
  - rewrite Forall_forall in Hall. apply Hall. unfold val. apply nth_In. lia.
Qed.
Lemma val_king : pv_ok -> val 5 = 0.
Proof. intros (Hlen & _ & Hk). unfold val. rewrite (nth_indep _ 0 1) by (rewrite Hlen; cbn; lia). exact Hk. Qed.

Lemma see_swap_S f p target mx gain d ty src attacks occ already stm :
  see_swap C (S f) p target mx gain d ty src attacks occ already stm =
  (if (32 <=? S d)%nat then Panic else
   v <- nthz (ec_piece_value C) ty ;;
   match gain with
   | [] => Panic
   | gprev :: _ =>
     let g := sub16 v gprev in
     if Z.max (neg16 gprev) g <? 0 then Ok (g :: gain) else
     attacks' <- refresh p target mx src (N.lxor attacks src) (N.lxor occ src) (N.lor already src) ;;
     r <- least_valuable p attacks' (switch_color stm) ;;
     let '(src', ty') := r in
     if (src' =? 0)%N then Ok (g :: gain)
     else see_swap C f p target mx (g :: gain) (S d) ty' src' attacks' (N.lxor occ src) (N.lor already src) (switch_color stm)
   end).
Proof. reflexivity. Qed.

(* (ii) first half: on attackers of types [tys] (as many as fit into gain[32], values not wrapping)
   the loop returns exactly the pruned swap list of their values *)
Lemma see_swap_trace : pv_ok -> forall fuel p target mx gain d ty src attacks occ already stm tys K,
  eng_line fuel p target mx ty src attacks occ already stm = Ok tys ->
  Forall (fun t => (t < 6)%N) tys ->
  (d + length tys < 32)%nat ->
  gain <> [] -> Forall (absle K) gain -> K + 1000 * Z.of_nat (length tys) <= 32767 ->
  see_swap C fuel p target mx gain d ty src attacks occ already stm = Ok (swap_pruned gain (map val tys)).
Proof.
  intros PV. induction fuel as [|f IH]; intros p target mx gain d ty src attacks occ already stm tys K He Hty Hd Hg HK Hb;
    [discriminate|].
  rewrite eng_line_S in He.
  apply bind_ok' in He. destruct He as (a2 & Hr & He).
  apply bind_ok' in He. destruct He as ([src' ty'] & Hl & He).
  rewrite see_swap_S.
  destruct gain as [|gprev G]; [contradiction|].
  inversion HK as [|? ? Hgp HG]; subst.
  assert (Htys : exists l, tys = ty :: l).
  { destruct (src' =? 0)%N; [injection He as <-; eexists; reflexivity|].
    apply bind_ok' in He. destruct He as (l' & _ & He). injection He as <-. eexists; reflexivity. }
  destruct Htys as (l & ->). inversion Hty as [|? ? Hty0 Htyl]; subst.
  cbn [length] in Hd, Hb.
  destruct (Nat.leb_spec 32 (S d)) as [Hbad|_]; [lia|].
  destruct (nthz_val ty PV Hty0) as [-> Hv]. cbn [bind].
  assert (Es : sub16 (val ty) gprev = val ty - gprev) by (unfold sub16, absle in *; apply wrap16_id; lia).
  assert (En : neg16 gprev = - gprev) by (unfold neg16, absle in *; apply wrap16_id; lia).
  cbv zeta. rewrite Es, En. cbn [map swap_pruned].
  destruct (Z.max (- gprev) (val ty - gprev) <? 0); [reflexivity|].
  rewrite Hr. cbn [bind]. rewrite Hl. cbn [bind].
  destruct (src' =? 0)%N.
  - injection He as <-. reflexivity.
  - apply bind_ok' in He. destruct He as (l' & Hl' & He). injection He as <-.
    assert (Hne := eng_line_nonempty _ _ _ _ _ _ _ _ _ _ _ Hl').
    destruct l' as [|t0 l0]; [contradiction|].
    cbn [map].
    apply (IH p target mx ((val ty - gprev) :: gprev :: G) (S d) ty' src' a2 (N.lxor occ src)
                  (N.lor already src) (switch_color stm) (t0 :: l0) (K + 1000) Hl' Htyl).
    + cbn [length] in *. lia.
    + discriminate.
    + constructor; [unfold absle in *; lia|]. eapply Forall_impl; [|exact HK]. unfold absle. intros; lia.
    + cbn [length] in *. lia.
Qed.

End Trace.

(* ========================================================================================== *)
(* Part 3: the model on a position.                                                            *)
(* ========================================================================================== *)
Open Scope N_scope.

Lemma land_bit (s m : N) : s < 64 -> (0 <? N.land (bit s) m) = N.testbit m s.
Proof.
  intros Hs. destruct (N.testbit m s) eqn:E.
  - apply N.ltb_lt. apply N.neq_0_lt_0. intros Z.
    assert (H : N.testbit (N.land (bit s) m) s = true) by (rewrite N.land_spec, bit_testbit, N.eqb_refl, E by exact Hs; reflexivity).
    rewrite Z, N.bits_0 in H. discriminate.
  - replace (N.land (bit s) m) with 0; [reflexivity|]. symmetry. apply N.bits_inj. intros x.
    rewrite N.land_spec, bit_testbit, N.bits_0 by exact Hs. destruct (N.eqb_spec x s) as [->|]; [rewrite E|]; reflexivity.
Qed.

Lemma piece_type_new_piece c ty : c < 2 -> ty < 6 -> piece_type (new_piece c ty) = ty.
Proof.
  intros Hc Hty. assert (c = 0 \/ c = 1) as [-> | ->] by lia;
  assert (ty = 0 \/ ty = 1 \/ ty = 2 \/ ty = 3 \/ ty = 4 \/ ty = 5) as [->|[->|[->|[->|[->| ->]]]]] by lia;
  reflexivity.
Qed.
Lemma new_piece_nonzero c ty : new_piece c ty <> 0.
Proof. unfold new_piece. lia. Qed.
Lemma new_piece_inj c ty c' ty' : c < 2 -> ty < 6 -> c' < 2 -> ty' < 6 -> new_piece c ty = new_piece c' ty' -> c = c' /\ ty = ty'.
Proof. unfold new_piece. lia. Qed.
Lemma switch_color_lt c : switch_color c < 2.
Proof. unfold switch_color, BLACK, WHITE. destruct (c =? 1); reflexivity. Qed.
Lemma opponent_switch c : c < 2 -> opponent c = switch_color c.
Proof. intros H. assert (c = 0 \/ c = 1) as [-> | ->] by lia; reflexivity. Qed.

(* is the piece with code pc the piece (c, ty)? as the reference asks it and as a bitboard answers it *)
Lemma is_piece_code pc c ty : pc_ok pc = true -> c < 2 -> ty < 6 ->
  match decode pc with
  | Some (c', k') => (c' =? c) && kind_eqb k' (kind_of_type ty)
  | None => false
  end = (pc =? new_piece c ty).
Proof.
  intros Hpc Hc Hty. apply pc_ok_cases in Hpc.
  assert (c = 0 \/ c = 1) as [-> | ->] by lia;
  assert (ty = 0 \/ ty = 1 \/ ty = 2 \/ ty = 3 \/ ty = 4 \/ ty = 5) as [->|[->|[->|[->|[->| ->]]]]] by lia;
  destruct Hpc as [->|[->|[->|[->|[->|[->|[->|[->|[->|[->|[->|[->| ->]]]]]]]]]]]]; reflexivity.
Qed.

Section OnPosition.
Variable p : position.
Hypothesis F : facts p.

Lemma all_bit x : x < 64 -> N.testbit (all_pieces p) x = negb (piece_at p x =? 0).
Proof.
  intros Hx. rewrite (F_all p F), N.lor_spec, !(union6_testbit p F) by (reflexivity || exact Hx).
  destruct (pc_facts _ (F_valid p F x Hx)) as [-> _]. reflexivity.
Qed.
Lemma all_lt : all_pieces p < two64.
Proof.
  apply lt_two64_of_bits. intros t H. destruct (N.lt_ge_cases t 64) as [L|G]; [exact L|].
  rewrite (F_all p F), N.lor_spec, !(union6_high p F) in H by (reflexivity || exact G). discriminate.
Qed.

(* ---- least_valuable, type by type ---- *)
Definition lv_step (attacks c : N) (acc : res (N * N)) (t : N) : res (N * N) :=
  r <- acc ;;
  let '(bb, ty) := r in
  if negb (bb =? 0) then Ok r else
  b <- bbr p c t ;;
  let subset := N.land attacks b in
  if 0 <? subset then Ok (N.land subset (neg64 subset), t) else Ok (0, t + 1).
Lemma least_valuable_fold attacks c :
  least_valuable p attacks c = fold_left (lv_step attacks c) [PAWN; KNIGHT; BISHOP; ROOK; QUEEN; KING] (Ok (0, 0)).
Proof. reflexivity. Qed.

Fixpoint lv_list (attacks c : N) (l : list N) (t0 : N) : N * N :=
  match l with
  | [] => (0, t0)
  | t :: r => let sub := N.land attacks (bb_at p c t) in
              if 0 <? sub then (N.land sub (neg64 sub), t) else lv_list attacks c r (t + 1)
  end.

Lemma lv_fold_stuck attacks c l bb ty : bb <> 0 -> fold_left (lv_step attacks c) l (Ok (bb, ty)) = Ok (bb, ty).
Proof.
  intros Hb. induction l as [|t l IH]; [reflexivity|]. cbn [fold_left]. unfold lv_step at 2. cbn [bind].
  destruct (N.eqb_spec bb 0); [contradiction|]. cbn [negb]. exact IH.
Qed.

Lemma lv_fold_list attacks c : c < 2 -> attacks < two64 -> forall l t0, Forall (fun t => t < 6) l ->
  fold_left (lv_step attacks c) l (Ok (0, t0)) = Ok (lv_list attacks c l t0).
Proof.
  intros Hc Ha. induction l as [|t l IH]; intros t0 Hl; [reflexivity|].
  inversion Hl as [|? ? Ht Hl']; subst. cbn [fold_left lv_list]. unfold lv_step at 2. cbn [bind N.eqb negb].
  unfold bbr. rewrite (get_bb_ok p F c t Hc Ht). cbn [bind].
  destruct (0 <? N.land attacks (bb_at p c t)) eqn:E.
  - apply lv_fold_stuck.
    apply N.ltb_lt in E.
    destruct (lsb (N.land attacks (bb_at p c t))) as [cz| |] eqn:El;
      try (destruct (N.land attacks (bb_at p c t)); [lia|discriminate]).
    destruct (lowest_bit _ cz (land_lt _ _ Ha) El) as (H1 & _ & ->). apply bit_nonzero. exact H1.
  - apply IH. exact Hl'.
Qed.

(* the engine's choice against any description [f k s] of "s holds an attacker of kind k of that side" *)
Lemma lv_list_match attacks c (f : N -> N -> bool) : c < 2 -> attacks < two64 ->
  (forall t s, t < 6 -> s < 64 -> N.testbit (N.land attacks (bb_at p c t)) s = f t s) ->
  forall l t0, Forall (fun t => t < 6) l ->
  match first_some (map (fun t => find (f t) squares64) l) with
  | None => fst (lv_list attacks c l t0) = 0
  | Some s => exists ty, In ty l /\ lv_list attacks c l t0 = (bit s, ty) /\ s < 64 /\ f ty s = true
  end.
Proof.
  intros Hc Ha Hf. induction l as [|t l IH]; intros t0 Hl; [reflexivity|].
  inversion Hl as [|? ? Ht Hl']; subst. cbn [map first_some lv_list].
  assert (Hlow := lowest_by_filter (N.land attacks (bb_at p c t)) (f t) (land_lt _ _ Ha) (fun s Hs => Hf t s Ht Hs)).
  destruct (find (f t) squares64) as [s|].
  - destruct Hlow as (Hs & Hfs & Hnz & Hlb).
    destruct (N.ltb_spec 0 (N.land attacks (bb_at p c t))); [|lia].
    exists t. split; [left; reflexivity|]. rewrite Hlb. tauto.
  - rewrite Hlow. cbn [N.ltb N.compare]. specialize (IH (t + 1) Hl').
    destruct (first_some (map (fun t1 => find (f t1) squares64) l)) as [s|]; [|exact IH].
    destruct IH as (ty & Hin & IH). exists ty. split; [right; exact Hin|exact IH].
Qed.

Lemma types_lt6 : Forall (fun t => t < 6) [PAWN; KNIGHT; BISHOP; ROOK; QUEEN; KING].
Proof. repeat constructor. Qed.

(* weak reading: whatever is chosen is a piece of that side in the set *)
Lemma least_valuable_weak attacks c : c < 2 -> attacks < two64 ->
  exists src ty, least_valuable p attacks c = Ok (src, ty) /\
    (src = 0 \/ exists s, src = bit s /\ s < 64 /\ ty < 6 /\ N.testbit attacks s = true /\ piece_at p s = new_piece c ty).
Proof.
  intros Hc Ha. rewrite least_valuable_fold, (lv_fold_list attacks c Hc Ha _ 0 types_lt6).
  set (f := fun t s => N.testbit (N.land attacks (bb_at p c t)) s).
  assert (H := lv_list_match attacks c f Hc Ha (fun t s _ _ => eq_refl) _ 0 types_lt6).
  destruct (lv_list attacks c [PAWN; KNIGHT; BISHOP; ROOK; QUEEN; KING] 0) as [src ty] eqn:E.
  exists src, ty. split; [reflexivity|].
  destruct (first_some _) as [s|]; [right|left; exact H].
  destruct H as (ty' & Hin & Heq & Hs & Hfs). injection Heq as -> ->. exists s. split; [reflexivity|]. split; [exact Hs|].
  assert (Hty : ty' < 6) by (exact (proj1 (Forall_forall _ _) types_lt6 ty' Hin)).
  split; [exact Hty|]. unfold f in Hfs. rewrite N.land_spec, andb_true_iff in Hfs. destruct Hfs as [H1 H2].
  split; [exact H1|]. rewrite (proj2 (F_bb p F c ty' Hc Hty) s Hs) in H2. apply N.eqb_eq in H2. exact H2.
Qed.

End OnPosition.

(* ---- list update ---- *)
Lemma upd_len {A} (l : list A) i v : length (upd l i v) = length l.
Proof. revert i. induction l as [|a l IH]; intros [|i]; cbn [upd length]; try reflexivity. rewrite IH. reflexivity. Qed.
Lemma nth_upd {A} (l : list A) i j v d : (i < length l)%nat ->
  nth j (upd l i v) d = if Nat.eqb j i then v else nth j l d.
Proof.
  revert i j. induction l as [|a l IH]; intros i j H; [cbn [length] in H; lia|].
  destruct i as [|i], j as [|j]; cbn [upd nth Nat.eqb]; try reflexivity.
  apply IH. cbn [length] in H. lia.
Qed.
Lemma find_filter {A} (g h : A -> bool) (l : list A) : find g (filter h l) = find (fun s => h s && g s) l.
Proof.
  induction l as [|a l IH]; [reflexivity|]. cbn [filter find]. destruct (h a); cbn [andb find]; [|exact IH].
  destruct (g a); [reflexivity|exact IH].
Qed.

Lemma xr_pc occ pc x t : xr_attacks occ pc x t = true -> pc_attacks occ pc x t = true.
Proof. unfold xr_attacks. destruct (decode pc) as [[c []]|]; try discriminate; intros H; exact H. Qed.
Lemma pc_attacks_nonzero occ pc x t : pc_attacks occ pc x t = true -> pc <> 0.
Proof. intros H ->. discriminate. Qed.
(* a refresh on the smaller occupancy finds everything that attacks there, except knights and kings,
   whose attacks do not depend on the occupancy *)
Lemma pc_xr_or occ occ1 pc x t : pc_attacks occ1 pc x t = true ->
  xr_attacks occ1 pc x t = true \/ pc_attacks occ pc x t = true.
Proof. unfold xr_attacks, pc_attacks. destruct (decode pc) as [[c []]|]; try discriminate; tauto. Qed.

(* the values captured in the reference's line, in order: the victim, then each piece that captured and
   was captured in turn. [ref_capture] is its minimax. *)
Fixpoint ref_line (C : econsts) (fuel : nat) (b : list N) (from target : N) : list Z :=
  match fuel with
  | O => []
  | S f =>
    let b' := move_on b from target in
    piece_value C (at_sq b target) ::
    match ref_lva b' target (opponent (colour_of (at_sq b from))) with
    | None => []
    | Some r => ref_line C f b' r target
    end
  end.
Lemma ref_capture_S C f b s t : ref_capture C (S f) b s t =
  match ref_lva (move_on b s t) t (opponent (colour_of (at_sq b s))) with
  | None => piece_value C (at_sq b t)
  | Some r => (piece_value C (at_sq b t) - Z.max 0 (ref_capture C f (move_on b s t) r t))%Z
  end.
Proof. reflexivity. Qed.
Lemma ref_line_S C f b s t : ref_line C (S f) b s t =
  piece_value C (at_sq b t) ::
  match ref_lva (move_on b s t) t (opponent (colour_of (at_sq b s))) with
  | None => []
  | Some r => ref_line C f (move_on b s t) r t
  end.
Proof. reflexivity. Qed.
Lemma ref_capture_line C : forall f b s t, ref_capture C f b s t = minimax (ref_line C f b s t).
Proof.
  induction f as [|f IH]; intros b s t; [reflexivity|]. rewrite ref_capture_S, ref_line_S.
  destruct (ref_lva (move_on b s t) t (opponent (colour_of (at_sq b s)))) as [r|].
  - rewrite IH. reflexivity.
  - cbn [minimax]. change (Z.max 0 0) with 0%Z. symmetry. apply Z.sub_0_r.
Qed.

Lemma at_move_on b s t x : length b = 64%nat -> s < 64 -> t < 64 -> x < 64 ->
  at_sq (move_on b s t) x = if x =? s then 0 else if x =? t then at_sq b s else at_sq b x.
Proof.
  intros Hl Hs Ht Hx. unfold move_on, at_sq.
  rewrite nth_upd by (rewrite upd_len; lia). rewrite nth_upd by lia.
  destruct (N.eqb_spec x s), (Nat.eqb_spec (N.to_nat x) (N.to_nat s)); try lia; try reflexivity.
  destruct (N.eqb_spec x t), (Nat.eqb_spec (N.to_nat x) (N.to_nat t)); try lia; reflexivity.
Qed.
Lemma move_on_len b s t : length (move_on b s t) = length b.
Proof. unfold move_on. rewrite !upd_len. reflexivity. Qed.

Section Run.
Hypothesis SE : slider_exact.
Variable C : econsts.
Hypothesis PV : pv_ok C.
Variable p : position.
Hypothesis F : facts p.
Variable target : N.
Hypothesis Ht : target < 64.

(* maxXray as [see] computes it *)
Definition max_xray_of : N :=
  N.lor (N.lor (N.lor (bb_at p 0 0) (bb_at p 1 0)) (N.lor (bb_at p 0 2) (bb_at p 1 2)))
        (N.lor (N.lor (bb_at p 0 3) (bb_at p 1 3)) (N.lor (bb_at p 0 4) (bb_at p 1 4))).
Lemma mx_bit s c ty : s < 64 -> c < 2 -> ty < 6 -> piece_at p s = new_piece c ty ->
  N.testbit max_xray_of s = negb ((ty =? 1) || (ty =? 5)).
Proof.
  intros Hs Hc Hty Hp. unfold max_xray_of. rewrite !N.lor_spec, !(bb_bit p F) by (reflexivity || exact Hs).
  rewrite Hp.
  assert (c = 0 \/ c = 1) as [-> | ->] by lia;
  assert (ty = 0 \/ ty = 1 \/ ty = 2 \/ ty = 3 \/ ty = 4 \/ ty = 5) as [->|[->|[->|[->|[->| ->]]]]] by lia;
  reflexivity.
Qed.

(* the invariant at the head of an iteration in which the piece of type [ty] and colour [stm] on [s]
   is about to capture. Weak part (survives everything): the sets are sets of unused men. *)
Record WH (s ty attacks occ already stm : N) : Prop := {
  wh_s : s < 64; wh_ne : s <> target; wh_stm : stm < 2; wh_ty : ty < 6;
  wh_piece : piece_at p s = new_piece stm ty;
  wh_att_s : N.testbit attacks s = true;
  wh_occ_s : N.testbit occ s = true;
  wh_att_lt : attacks < two64;
  wh_occ : forall x, x < 64 -> N.testbit (N.lxor occ (bit s)) x =
                                N.testbit (all_pieces p) x && negb (N.testbit (N.lor already (bit s)) x);
  wh_tgt : N.testbit (N.lor already (bit s)) target = false;
  wh_sub : forall x, N.testbit (N.lxor attacks (bit s)) x = true ->
           x <> target /\ N.testbit (all_pieces p) x = true /\ N.testbit (N.lor already (bit s)) x = false
}.
(* exact part (lost when a king captures): the attack set is the set of unused men attacking the
   target on the occupancy before this capture *)
Record XH (s attacks occ already : N) : Prop := {
  xh_s : pc_attacks (N.testbit occ) (piece_at p s) s target = true;
  xh_exact : forall x, x < 64 -> N.testbit (N.lxor attacks (bit s)) x =
               negb (N.testbit (N.lor already (bit s)) x) && pc_attacks (N.testbit occ) (piece_at p x) x target
}.

Lemma step_weak s ty attacks occ already stm : WH s ty attacks occ already stm ->
  exists attacks2 src' ty',
    refresh p target max_xray_of (bit s) (N.lxor attacks (bit s)) (N.lxor occ (bit s)) (N.lor already (bit s)) = Ok attacks2 /\
    attacks2 < two64 /\
    (forall x, x < 64 -> N.testbit attacks2 x = N.testbit (N.lxor attacks (bit s)) x ||
        (N.testbit max_xray_of s && (negb (N.testbit (N.lor already (bit s)) x) &&
         xr_attacks (N.testbit (N.lxor occ (bit s))) (piece_at p x) x target))) /\
    least_valuable p attacks2 (switch_color stm) = Ok (src', ty') /\
    (src' = 0 \/ exists s', src' = bit s' /\ N.testbit attacks2 s' = true /\
                  WH s' ty' attacks2 (N.lxor occ (bit s)) (N.lor already (bit s)) (switch_color stm)).
Proof.
  intros W. destruct W as [Hs Hne Hstm Hty Hpc Hatt Hocc Halt Hoc Htg Hsub].
  set (a1 := N.lxor attacks (bit s)) in *. set (o1 := N.lxor occ (bit s)) in *. set (al1 := N.lor already (bit s)) in *.
  assert (Ha1 : a1 < two64) by (apply lxor_lt; [exact Halt|apply bit_lt]).
  assert (Hr : exists a2, refresh p target max_xray_of (bit s) a1 o1 al1 = Ok a2 /\ a2 < two64 /\
             (forall x, x < 64 -> N.testbit a2 x = N.testbit a1 x ||
                (N.testbit max_xray_of s && (negb (N.testbit al1 x) && xr_attacks (N.testbit o1) (piece_at p x) x target)))).
  { unfold refresh. rewrite land_bit by exact Hs. destruct (N.testbit max_xray_of s).
    - destruct (consider_xrays_bits SE p F target o1 al1 Ht) as (r & -> & Hrl & Hrb). cbn [bind].
      eexists. split; [reflexivity|]. split; [apply lor_lt; assumption|].
      intros x Hx. rewrite N.lor_spec, (Hrb x Hx). reflexivity.
    - eexists. split; [reflexivity|]. split; [exact Ha1|]. intros x Hx. cbn [andb]. rewrite orb_false_r. reflexivity. }
  destruct Hr as (a2 & Hr & Ha2 & Hb2).
  assert (Hsub2 : forall x, N.testbit a2 x = true ->
            x <> target /\ N.testbit (all_pieces p) x = true /\ N.testbit al1 x = false).
  { intros x Hx. assert (Hx64 := high_false a2 x Ha2 Hx). rewrite (Hb2 x Hx64) in Hx.
    apply orb_true_iff in Hx. destruct Hx as [Hx|Hx]; [exact (Hsub x Hx)|].
    apply andb_true_iff in Hx. destruct Hx as [_ Hx]. apply andb_true_iff in Hx. destruct Hx as [Hal Hxr].
    apply negb_true_iff in Hal. apply xr_pc in Hxr. split; [exact (pc_attacks_target _ _ _ _ Hxr Ht)|].
    split; [|exact Hal]. rewrite (all_bit p F x Hx64). apply negb_true_iff, N.eqb_neq.
    exact (pc_attacks_nonzero _ _ _ _ Hxr). }
  destruct (least_valuable_weak p F a2 (switch_color stm) (switch_color_lt stm) Ha2) as (src' & ty' & Hlv & Hch).
  exists a2, src', ty'. split; [exact Hr|]. split; [exact Ha2|]. split; [exact Hb2|]. split; [exact Hlv|].
  destruct Hch as [->|(s' & -> & Hs' & Hty' & Hbit & Hpc')]; [left; reflexivity|right].
  exists s'. split; [reflexivity|]. split; [exact Hbit|].
  destruct (Hsub2 s' Hbit) as (Hn' & Hall' & Hal').
  constructor; try assumption.
  - apply switch_color_lt.
  - rewrite (Hoc s' Hs'), Hall', Hal'. reflexivity.
  - intros x Hx. rewrite N.lxor_spec, N.lor_spec, (Hoc x Hx), !bit_testbit by assumption.
    destruct (N.eqb_spec x s') as [->|Hd].
    + rewrite Hall', Hal'. reflexivity.
    + rewrite xorb_false_r, orb_false_r. reflexivity.
  - rewrite N.lor_spec, bit_testbit by exact Hs'. rewrite Htg. destruct (N.eqb_spec target s'); [congruence|reflexivity].
  - intros x Hx. rewrite N.lxor_spec in Hx.
    assert (Hx64 : x < 64).
    { destruct (N.testbit a2 x) eqn:E; [exact (high_false a2 x Ha2 E)|].
      cbn [xorb] in Hx. apply (bit_true s' x). destruct (N.testbit (bit s') x); [reflexivity|discriminate]. }
    rewrite bit_testbit in Hx by exact Hs'.
    destruct (N.eqb_spec x s') as [Exs|Hd]; [rewrite Exs, Hbit in Hx; discriminate|].
    rewrite xorb_false_r in Hx. destruct (Hsub2 x Hx) as (H1 & H2 & H3).
    split; [exact H1|]. split; [exact H2|]. rewrite N.lor_spec, H3, bit_testbit by exact Hs'.
    destruct (N.eqb_spec x s'); [contradiction|reflexivity].
Qed.

(* after a capture by anything but a king the refreshed set is exact on the new occupancy *)
Lemma step_exact s ty attacks occ already stm attacks2 :
  WH s ty attacks occ already stm -> XH s attacks occ already -> ty <> 5 ->
  (forall x, x < 64 -> N.testbit attacks2 x = N.testbit (N.lxor attacks (bit s)) x ||
        (N.testbit max_xray_of s && (negb (N.testbit (N.lor already (bit s)) x) &&
         xr_attacks (N.testbit (N.lxor occ (bit s))) (piece_at p x) x target))) ->
  forall x, x < 64 -> N.testbit attacks2 x =
     negb (N.testbit (N.lor already (bit s)) x) &&
     pc_attacks (N.testbit (N.lxor occ (bit s))) (piece_at p x) x target.
Proof.
  intros W X Hk Hb2 x Hx. destruct W as [Hs Hne Hstm Hty Hpc Hatt Hocc Halt Hoc Htg Hsub]. destruct X as [Xs Xe].
  rewrite (Hb2 x Hx), (Xe x Hx), (mx_bit s stm ty Hs Hstm Hty Hpc).
  destruct (N.testbit (N.lor already (bit s)) x); [cbn [negb andb]; rewrite andb_false_r; reflexivity|].
  cbn [negb andb].
  destruct (N.eqb_spec ty 1) as [->|Hn1].
  - (* a knight captured: no line from the target passes over its square *)
    cbn [orb negb andb]. rewrite orb_false_r.
    rewrite Hpc in Xs. unfold pc_attacks in Xs. rewrite (decode_new_piece stm 1 Hstm eq_refl) in Xs. cbn [kind_of_type] in Xs.
    apply (pc_attacks_knight_removed _ _ _ _ _ s Hs Ht Xs).
    intros y Hy Hys. rewrite N.lxor_spec, bit_testbit by exact Hs.
    destruct (N.eqb_spec y s); [contradiction|]. rewrite xorb_false_r. reflexivity.
  - destruct (N.eqb_spec ty 5) as [->|_]; [contradiction|]. cbn [orb negb andb].
    set (A := pc_attacks (N.testbit occ) (piece_at p x) x target).
    set (B := pc_attacks (N.testbit (N.lxor occ (bit s))) (piece_at p x) x target).
    set (X := xr_attacks (N.testbit (N.lxor occ (bit s))) (piece_at p x) x target).
    assert (HAB : A = true -> B = true).
    { apply pc_attacks_mono. intros y Hy. rewrite N.lxor_spec, bit_testbit by exact Hs.
      destruct (N.eqb_spec y s) as [->|]; [rewrite Hocc; discriminate|]. rewrite xorb_false_r. tauto. }
    assert (HXB : X = true -> B = true) by apply xr_pc.
    assert (HBX : B = true -> X = true \/ A = true) by apply pc_xr_or.
    destruct A, B, X; try reflexivity; try (specialize (HAB eq_refl); discriminate);
      try (specialize (HXB eq_refl); discriminate); destruct (HBX eq_refl); discriminate.
Qed.

Lemma piece_value_new_piece c ty : c < 2 -> ty < 6 -> piece_value C (new_piece c ty) = val C ty.
Proof.
  intros Hc Hty. unfold piece_value, val. rewrite (decode_new_piece c ty Hc Hty), (kind_index_of_type ty Hty). reflexivity.
Qed.
Lemma colour_of_new_piece c ty : c < 2 -> ty < 6 -> colour_of (new_piece c ty) = c.
Proof. intros Hc Hty. unfold colour_of. rewrite (decode_new_piece c ty Hc Hty). reflexivity. Qed.

Hypothesis Htocc : piece_at p target <> 0.

(* ---- the reference's board against the engine's sets ---- *)
(* after a capture: every used man is gone, the last capturer stands on the target *)
Definition R1 (b : list N) (al : N) : Prop :=
  length b = 64%nat /\ at_sq b target <> 0 /\
  forall x, x < 64 -> x <> target -> at_sq b x = if N.testbit al x then 0 else piece_at p x.
(* before the capture by the man on s (already counted in al) *)
Definition R0 (b : list N) (s al : N) : Prop :=
  length b = 64%nat /\ at_sq b target <> 0 /\
  forall x, x < 64 -> x <> target -> at_sq b x = if N.testbit al x && negb (x =? s) then 0 else piece_at p x.
Definition occ_rel (occ1 al : N) : Prop :=
  forall x, x < 64 -> N.testbit occ1 x = N.testbit (all_pieces p) x && negb (N.testbit al x).

Lemma R0_move b s al : R0 b s al -> s < 64 -> s <> target -> N.testbit al s = true -> piece_at p s <> 0 ->
  R1 (move_on b s target) al /\ at_sq (move_on b s target) target = piece_at p s /\ at_sq b s = piece_at p s.
Proof.
  intros (Hl & Hto & Hb) Hs Hne Hal Hpc.
  assert (Hbs : at_sq b s = piece_at p s).
  { rewrite (Hb s Hs Hne), N.eqb_refl. cbn [negb]. rewrite andb_false_r. reflexivity. }
  assert (Htt : at_sq (move_on b s target) target = piece_at p s).
  { rewrite at_move_on by assumption. destruct (N.eqb_spec target s); [congruence|]. rewrite N.eqb_refl. exact Hbs. }
  split; [|split; [exact Htt|exact Hbs]].
  split; [rewrite move_on_len; exact Hl|]. split; [rewrite Htt; exact Hpc|].
  intros x Hx Hxt. rewrite at_move_on by assumption.
  destruct (N.eqb_spec x s) as [->|Hxs]; [rewrite Hal; reflexivity|].
  destruct (N.eqb_spec x target); [contradiction|].
  rewrite (Hb x Hx Hxt). destruct (N.eqb_spec x s); [contradiction|]. cbn [negb]. rewrite andb_true_r. reflexivity.
Qed.

Lemma R1_R0 b al s' : R1 b al -> s' < 64 -> N.testbit al s' = false -> R0 b s' (N.lor al (bit s')).
Proof.
  intros (Hl & Hto & Hb) Hs' Hal. split; [exact Hl|]. split; [exact Hto|].
  intros x Hx Hxt. rewrite (Hb x Hx Hxt), N.lor_spec, bit_testbit by exact Hs'.
  destruct (N.eqb_spec x s') as [->|Hd]; cbn [negb].
  - rewrite Hal, andb_false_r. reflexivity.
  - rewrite orb_false_r, andb_true_r. reflexivity.
Qed.

Lemma R1_occ b al occ1 : R1 b al -> occ_rel occ1 al -> N.testbit al target = false ->
  forall x, x < 64 -> occupied_on b x = N.testbit occ1 x.
Proof.
  intros (Hl & Hto & Hb) Ho Hat x Hx. unfold occupied_on. rewrite (Ho x Hx), (all_bit p F x Hx).
  destruct (N.eq_dec x target) as [->|Hxt].
  - rewrite Hat. cbn [negb]. rewrite andb_true_r.
    destruct (N.eqb_spec (at_sq b target) 0), (N.eqb_spec (piece_at p target) 0); try contradiction; reflexivity.
  - rewrite (Hb x Hx Hxt). destruct (N.testbit al x); cbn [negb]; [rewrite andb_false_r|rewrite andb_true_r]; reflexivity.
Qed.

Lemma pc_attacks_self occ pc : pc_attacks occ pc target target = false.
Proof.
  destruct (pc_attacks occ pc target target) eqn:E; [|reflexivity].
  exfalso. exact (pc_attacks_target _ _ _ _ E Ht eq_refl).
Qed.

Lemma R1_attacks b al occ1 : R1 b al -> occ_rel occ1 al -> N.testbit al target = false ->
  forall x, x < 64 -> ref_attacks b x target =
    negb (N.testbit al x) && pc_attacks (N.testbit occ1) (piece_at p x) x target.
Proof.
  intros HR Ho Hat x Hx. rewrite ref_attacks_pc. destruct (N.eq_dec x target) as [->|Hxt].
  - rewrite !pc_attacks_self. rewrite andb_false_r. reflexivity.
  - destruct HR as (Hl & Hto & Hb). rewrite (Hb x Hx Hxt).
    destruct (N.testbit al x); cbn [negb andb]; [reflexivity|].
    apply pc_attacks_ext. exact (R1_occ b al occ1 (conj Hl (conj Hto Hb)) Ho Hat).
Qed.

(* the engine's choice is the reference's *)
Lemma lva_match b al occ1 attacks2 c : c < 2 -> attacks2 < two64 ->
  R1 b al -> occ_rel occ1 al -> N.testbit al target = false ->
  (forall x, x < 64 -> N.testbit attacks2 x =
      negb (N.testbit al x) && pc_attacks (N.testbit occ1) (piece_at p x) x target) ->
  forall src' ty', least_valuable p attacks2 c = Ok (src', ty') ->
  match ref_lva b target c with
  | None => src' = 0
  | Some s' => src' = bit s' /\ s' < 64
  end.
Proof.
  intros Hc Ha HR Ho Hat Hex src' ty' Hlv.
  rewrite least_valuable_fold, (lv_fold_list p F attacks2 c Hc Ha _ 0 types_lt6) in Hlv. apply Ok_inj in Hlv.
  set (f := fun t s => ref_attacks b s target && is_piece b c (kind_of_type t) s).
  assert (Eref : ref_lva b target c =
                 first_some (map (fun t => find (f t) squares64) [PAWN; KNIGHT; BISHOP; ROOK; QUEEN; KING])).
  { unfold ref_lva, ref_attackers, kinds. change squares with squares64.
    cbn [map]. rewrite !find_filter. reflexivity. }
  assert (Hf : forall t s, t < 6 -> s < 64 -> N.testbit (N.land attacks2 (bb_at p c t)) s = f t s).
  { intros t s Hlt Hs. unfold f. rewrite N.land_spec, (bb_bit p F c t s Hc Hlt Hs), (Hex s Hs).
    rewrite <- (R1_attacks b al occ1 HR Ho Hat s Hs).
    destruct (ref_attacks b s target) eqn:E; [|reflexivity]. cbn [andb].
    rewrite (R1_attacks b al occ1 HR Ho Hat s Hs) in E. apply andb_true_iff in E. destruct E as [E1 E2].
    apply negb_true_iff in E1.
    assert (Hst : s <> target) by exact (pc_attacks_target _ _ _ _ E2 Ht).
    destruct HR as (Hl & Hto & Hb). unfold is_piece. rewrite (Hb s Hs Hst), E1.
    symmetry. apply is_piece_code; [exact (F_valid p F s Hs)|exact Hc|exact Hlt]. }
  assert (H := lv_list_match p attacks2 c f Hc Ha Hf _ 0 types_lt6).
  rewrite Eref. destruct (first_some _) as [s'|].
  - destruct H as (ty & _ & Heq & Hs' & _). rewrite Heq in Hlv. injection Hlv as <- _. tauto.
  - rewrite Hlv in H. exact H.
Qed.

(* ---- (iv) the loop runs to its end: one man fewer on the board in every iteration ---- *)
Definition cnt (occ : N) : nat := card (fun x => N.testbit occ x && negb (x =? target)).

Lemma cnt_remove occ s : s < 64 -> s <> target -> N.testbit occ s = true ->
  S (cnt (N.lxor occ (bit s))) = cnt occ.
Proof.
  intros Hs Hne Ho. unfold cnt. apply (card_remove _ _ s Hs).
  - rewrite Ho. destruct (N.eqb_spec s target); [contradiction|reflexivity].
  - rewrite N.lxor_spec, Ho, bit_testbit, N.eqb_refl by exact Hs. reflexivity.
  - intros x Hx Hxs. rewrite N.lxor_spec, bit_testbit by exact Hs.
    destruct (N.eqb_spec x s); [contradiction|]. rewrite xorb_false_r. reflexivity.
Qed.

Lemma eng_line_ok : forall fe s ty attacks occ already stm,
  WH s ty attacks occ already stm -> (cnt occ <= fe)%nat ->
  exists tys, eng_line fe p target max_xray_of ty (bit s) attacks occ already stm = Ok tys /\
              (length tys <= cnt occ)%nat /\ Forall (fun t => t < 6) tys.
Proof.
  induction fe as [|f IH]; intros s ty attacks occ already stm W Hc.
  - exfalso. assert (H := cnt_remove occ s (wh_s _ _ _ _ _ _ W) (wh_ne _ _ _ _ _ _ W) (wh_occ_s _ _ _ _ _ _ W)). lia.
  - destruct (step_weak s ty attacks occ already stm W) as (a2 & src' & ty' & Hr & Ha2 & _ & Hlv & Hch).
    assert (Hcn := cnt_remove occ s (wh_s _ _ _ _ _ _ W) (wh_ne _ _ _ _ _ _ W) (wh_occ_s _ _ _ _ _ _ W)).
    rewrite eng_line_S. rewrite Hr. cbn [bind]. rewrite Hlv. cbn [bind].
    destruct Hch as [->|(s' & -> & _ & W')].
    + cbn [N.eqb]. exists [ty]. split; [reflexivity|]. split; [cbn [length]; lia|].
      constructor; [exact (wh_ty _ _ _ _ _ _ W)|constructor].
    + destruct (N.eqb_spec (bit s') 0) as [E|_]; [exfalso; exact (bit_nonzero s' (wh_s _ _ _ _ _ _ W') E)|].
      destruct (IH s' ty' a2 (N.lxor occ (bit s)) (N.lor already (bit s)) (switch_color stm) W' ltac:(lia))
        as (l & -> & Hlen & Hall).
      cbn [bind]. exists (ty :: l). split; [reflexivity|]. split; [cbn [length]; lia|].
      constructor; [exact (wh_ty _ _ _ _ _ _ W)|exact Hall].
Qed.

(* ---- (ii) second half: the engine's line and the reference's line agree up to a king capture ---- *)
Lemma removelast_cons {A} (a : A) l : l <> [] -> removelast (a :: l) = a :: removelast l.
Proof. destruct l; [contradiction|reflexivity]. Qed.

Lemma eng_ref_agree : forall fe fr s ty attacks occ already stm b tys,
  eng_line fe p target max_xray_of ty (bit s) attacks occ already stm = Ok tys ->
  WH s ty attacks occ already stm -> XH s attacks occ already ->
  R0 b s (N.lor already (bit s)) -> (cnt occ <= fr)%nat ->
  exists rest, ref_line C fr b s target = piece_value C (at_sq b target) :: rest /\
               agree (removelast (map (val C) tys)) rest.
Proof.
  induction fe as [|f IH]; intros fr s ty attacks occ already stm b tys He W X HR Hfr; [discriminate|].
  destruct (step_weak s ty attacks occ already stm W) as (a2 & src' & ty' & Hr & Ha2 & Hb2 & Hlv & Hch).
  assert (Hs := wh_s _ _ _ _ _ _ W). assert (Hne := wh_ne _ _ _ _ _ _ W). assert (Hstm := wh_stm _ _ _ _ _ _ W).
  assert (Hty := wh_ty _ _ _ _ _ _ W). assert (Hpc := wh_piece _ _ _ _ _ _ W).
  assert (Hcn := cnt_remove occ s Hs Hne (wh_occ_s _ _ _ _ _ _ W)).
  destruct fr as [|fr]; [lia|].
  assert (Hal_s : N.testbit (N.lor already (bit s)) s = true)
    by (rewrite N.lor_spec, bit_testbit, N.eqb_refl by exact Hs; apply orb_true_r).
  destruct (R0_move b s _ HR Hs Hne Hal_s ltac:(rewrite Hpc; apply new_piece_nonzero)) as (HR1 & Htt & Hbs).
  rewrite ref_line_S. rewrite Hbs, Hpc, (colour_of_new_piece stm ty Hstm Hty), (opponent_switch stm Hstm).
  eexists. split; [reflexivity|].
  rewrite eng_line_S in He. rewrite Hr in He. cbn [bind] in He. rewrite Hlv in He. cbn [bind] in He.
  destruct (N.eq_dec ty 5) as [->|Hk].
  - (* a king captures: whatever follows on either side starts by taking a piece worth 0 *)
    apply agree_king.
    + destruct (src' =? 0).
      * injection He as <-. left. reflexivity.
      * apply bind_ok' in He. destruct He as (l & Hl & He). injection He as <-.
        assert (Hne' := eng_line_nonempty _ _ _ _ _ _ _ _ _ _ _ Hl).
        right. cbn [map]. rewrite removelast_cons by (destruct l; [contradiction|discriminate]).
        rewrite (val_king C PV). eexists. reflexivity.
    + destruct (ref_lva (move_on b s target) target (switch_color stm)) as [r|]; [|left; reflexivity].
      destruct fr as [|fr]; [left; reflexivity|]. right. rewrite ref_line_S.
      rewrite Htt, Hpc, (piece_value_new_piece stm 5 Hstm eq_refl), (val_king C PV). eexists. reflexivity.
  - assert (Hex := step_exact s ty attacks occ already stm a2 W X Hk Hb2).
    assert (Hm := lva_match (move_on b s target) (N.lor already (bit s)) (N.lxor occ (bit s)) a2 (switch_color stm)
                   (switch_color_lt stm) Ha2 HR1 (wh_occ _ _ _ _ _ _ W) (wh_tgt _ _ _ _ _ _ W) Hex src' ty' Hlv).
    destruct (ref_lva (move_on b s target) target (switch_color stm)) as [r|].
    + destruct Hm as [-> Hr64].
      destruct Hch as [E|(s' & E & Hbit & W')]; [exfalso; exact (bit_nonzero r Hr64 E)|].
      apply bit_inj in E; [|exact Hr64|exact (wh_s _ _ _ _ _ _ W')]. subst s'.
      destruct (N.eqb_spec (bit r) 0) as [E|_]; [exfalso; exact (bit_nonzero r Hr64 E)|].
      apply bind_ok' in He. destruct He as (l & Hl & He). injection He as <-.
      assert (Hne' := eng_line_nonempty _ _ _ _ _ _ _ _ _ _ _ Hl).
      assert (Halr : N.testbit (N.lor already (bit s)) r = false).
      { assert (H1 := wh_occ_s _ _ _ _ _ _ W'). rewrite (wh_occ _ _ _ _ _ _ W r Hr64) in H1.
        apply andb_true_iff in H1. destruct H1 as [_ H1]. apply negb_true_iff in H1. exact H1. }
      assert (Hpr : pc_attacks (N.testbit (N.lxor occ (bit s))) (piece_at p r) r target = true).
      { assert (H1 := Hex r Hr64). rewrite Hbit in H1. symmetry in H1. apply andb_true_iff in H1. tauto. }
      assert (X' : XH r a2 (N.lxor occ (bit s)) (N.lor already (bit s))).
      { constructor; [exact Hpr|].
        intros x Hx. rewrite N.lxor_spec, N.lor_spec, (Hex x Hx), bit_testbit by exact Hr64.
        destruct (N.eqb_spec x r) as [->|Hd].
        - rewrite Halr, Hpr. reflexivity.
        - rewrite xorb_false_r, orb_false_r. reflexivity. }
      destruct (IH fr r ty' a2 _ _ _ (move_on b s target) l Hl W' X' (R1_R0 _ _ r HR1 Hr64 Halr) ltac:(lia))
        as (rest' & -> & Hag).
      rewrite Htt, Hpc, (piece_value_new_piece stm ty Hstm Hty).
      cbn [map]. rewrite removelast_cons by (destruct l; [contradiction|discriminate]).
      apply agree_cons. exact Hag.
    + subst src'. cbn [N.eqb] in He. injection He as <-. cbn [map removelast]. apply agree_nil.
Qed.

End Run.

(* ========================================================================================== *)
(* (iv), (v): the whole of [see] on a capture.                                                 *)
(* ========================================================================================== *)
Definition men (p : position) : nat := card (fun x => negb (piece_at p x =? 0)).
(* at most 32 men on the board (implied by the harness's MaterialOK: at most 16 a side) *)
Definition material_ok (p : position) : Prop := (men p <= 32)%nat.

(* m moves a man of the side to move that geometrically attacks the occupied destination square *)
Definition capture_ok (p : position) (m : N) : Prop :=
  (exists ty, ty < 6 /\ piece_at p (mv_src m) = new_piece (side p) ty) /\
  piece_at p (mv_dst m) <> 0 /\
  pc_attacks (N.testbit (all_pieces p)) (piece_at p (mv_src m)) (mv_src m) (mv_dst m) = true.

Lemma mv_src_lt (m : N) : mv_src m < 64.
Proof.
  unfold mv_src. change 63 with (N.ones 6). rewrite N.land_ones. apply N.mod_lt. discriminate.
Qed.
Lemma pc_ok_new_piece pc : pc_ok pc = true -> pc <> 0 -> exists c ty, c < 2 /\ ty < 6 /\ pc = new_piece c ty.
Proof.
  intros H Hn. apply pc_ok_cases in H.
  destruct H as [->|[->|[->|[->|[->|[->|[->|[->|[->|[->|[->|[->| ->]]]]]]]]]]]]; [contradiction|..].
  1-6: exists 0; [> exists 0 | exists 1 | exists 2 | exists 3 | exists 4 | exists 5]; repeat split; reflexivity.
  all: exists 1; [> exists 0 | exists 1 | exists 2 | exists 3 | exists 4 | exists 5]; repeat split; reflexivity.
Qed.

(* the attacker types the first loop of [see] would go through on the capture m, never pruning *)
Definition eng_attackers (p : position) (m : N) : res (list N) :=
  a <- square_attacked_by p (mv_dst m) ;;
  eng_line 40 p (mv_dst m) (max_xray_of p) (piece_type (piece_at p (mv_src m))) (bit (mv_src m))
           a (all_pieces p) (bit (mv_src m)) (side p).

Section Whole.
Hypothesis SE : slider_exact.
Variable C : econsts.
Hypothesis PV : pv_ok C.
Variable p : position.
Hypothesis F : facts p.
Hypothesis M : material_ok p.
Variable m : N.
Hypothesis CAP : capture_ok p m.

Let s := mv_src m.
Let t := mv_dst m.

Lemma whole_init :
  exists a ty c' t',
    s < 64 /\ t < 64 /\ ty < 6 /\ c' < 2 /\ t' < 6 /\
    piece_at p s = new_piece (side p) ty /\ piece_at p t = new_piece c' t' /\
    square_attacked_by p t = Ok a /\
    WH p t s ty a (all_pieces p) (bit s) (side p) /\
    XH p t s a (all_pieces p) (bit s) /\
    R0 p t (board p) s (N.lor (bit s) (bit s)) /\
    (cnt t (all_pieces p) <= 31)%nat.
Proof.
  destruct CAP as ((ty & Hty & Hps) & Htocc & Hatt). fold s in Hps, Hatt. fold t in Htocc, Hatt.
  assert (Hs : s < 64) by apply mv_src_lt. assert (Ht : t < 64) by apply mv_dst_lt.
  destruct (pc_ok_new_piece _ (F_valid p F t Ht) Htocc) as (c' & t' & Hc' & Ht' & Hpt).
  destruct (square_attacked_by_bits SE p F t Ht) as (a & Ha & Halt & Hab).
  assert (Hst : s <> t) by exact (pc_attacks_target _ _ _ _ Hatt Ht).
  assert (Hside : side p < 2) by exact (side_lt p F).
  assert (Has : N.testbit a s = true) by (rewrite (Hab s Hs); exact Hatt).
  assert (Halls : N.testbit (all_pieces p) s = true).
  { rewrite (all_bit p F s Hs), Hps. apply negb_true_iff, N.eqb_neq, new_piece_nonzero. }
  assert (Hbb : forall x, x < 64 -> N.testbit (N.lor (bit s) (bit s)) x = (x =? s)).
  { intros x Hx. rewrite N.lor_spec, bit_testbit by exact Hs. apply orb_diag. }
  exists a, ty, c', t'. repeat (split; [assumption|]). split; [|split; [|split]].
  - constructor; try assumption.
    + intros x Hx. rewrite N.lxor_spec, (Hbb x Hx), bit_testbit by exact Hs.
      destruct (N.eqb_spec x s) as [->|Hd]; [rewrite Halls; reflexivity|].
      cbn [negb]. rewrite xorb_false_r, andb_true_r. reflexivity.
    + rewrite (Hbb t Ht). destruct (N.eqb_spec t s); [congruence|reflexivity].
    + intros x Hx. rewrite N.lxor_spec in Hx.
      assert (Hx64 : x < 64).
      { destruct (N.testbit a x) eqn:E; [exact (high_false a x Halt E)|]. cbn [xorb] in Hx.
        apply (bit_true s x). destruct (N.testbit (bit s) x); [reflexivity|discriminate]. }
      rewrite bit_testbit in Hx by exact Hs. rewrite (Hbb x Hx64).
      destruct (N.eqb_spec x s) as [Exs|Hd]; [rewrite Exs, Has in Hx; discriminate|].
      rewrite xorb_false_r, (Hab x Hx64) in Hx.
      split; [exact (pc_attacks_target _ _ _ _ Hx Ht)|]. split; [|reflexivity].
      rewrite (all_bit p F x Hx64). apply negb_true_iff, N.eqb_neq. exact (pc_attacks_nonzero _ _ _ _ Hx).
  - constructor; [exact Hatt|]. intros x Hx. rewrite N.lxor_spec, (Hbb x Hx), (Hab x Hx), bit_testbit by exact Hs.
    destruct (N.eqb_spec x s) as [->|Hd]; [rewrite <- (Hab s Hs), Has; reflexivity|].
    rewrite xorb_false_r. reflexivity.
  - split; [exact (F_len p F)|]. split; [exact Htocc|].
    intros x Hx Hxt. rewrite (Hbb x Hx). destruct (x =? s); reflexivity.
  - assert (H1 : S (cnt t (all_pieces p)) = card (N.testbit (all_pieces p))).
    { unfold cnt. apply (card_remove _ _ t Ht).
      - rewrite (all_bit p F t Ht). apply negb_true_iff, N.eqb_neq. exact Htocc.
      - rewrite N.eqb_refl. apply andb_false_r.
      - intros x Hx Hd. destruct (N.eqb_spec x t); [contradiction|]. apply andb_true_r. }
    assert (H2 : (card (N.testbit (all_pieces p)) <= men p)%nat).
    { apply card_le. intros x Hx. rewrite (all_bit p F x Hx). tauto. }
    unfold material_ok in M. lia.
Qed.

(* everything at once: the loop runs over at most 31 attackers (so gain[32] suffices and [see] does not
   panic), [see] returns the folded pruned swap list of their values, and the captured values agree
   with the reference's line up to a king capture *)
Lemma see_core : exists tys,
  eng_attackers p m = Ok tys /\ (1 <= length tys <= 31)%nat /\ Forall (fun ty => ty < 6) tys /\
  see C p m = Ok (zfold (swap_pruned [piece_value C (piece_at p t)] (map (val C) tys))) /\
  exists rest, ref_line C 40 (board p) s t = piece_value C (piece_at p t) :: rest /\
               agree (removelast (map (val C) tys)) rest.
Proof.
  destruct whole_init as (a & ty & c' & t' & Hs & Ht & Hty & Hc' & Ht' & Hps & Hpt & Ha & W & X & HR & Hcnt).
  assert (Htocc : piece_at p t <> 0) by (rewrite Hpt; apply new_piece_nonzero).
  destruct (eng_line_ok SE p F t Ht Htocc 40 s ty a (all_pieces p) (bit s) (side p) W ltac:(lia))
    as (tys & Heng & Hlen & Hall).
  assert (Hne := eng_line_nonempty _ _ _ _ _ _ _ _ _ _ _ Heng).
  rewrite Hpt, (piece_value_new_piece C c' t' Hc' Ht').
  set (v0 := val C t').
  destruct (nthz_val C t' PV Ht') as [Hn0 Hv0]. fold v0 in Hn0, Hv0.
  assert (Hvals : Forall (fun a => (0 <= a <= 1000)%Z) (map (val C) tys)).
  { apply Forall_forall. intros x Hx. apply in_map_iff in Hx. destruct Hx as (ty0 & <- & Hin).
    apply (nthz_val C ty0 PV). exact (proj1 (Forall_forall _ _) Hall ty0 Hin). }
  assert (Hswap := see_swap_trace C PV 40 p t (max_xray_of p) [v0] 0 ty (bit s) a (all_pieces p) (bit s) (side p)
                     tys 1000%Z Heng Hall ltac:(lia) ltac:(discriminate)
                     ltac:(constructor; [unfold absle; lia|constructor]) ltac:(lia)).
  set (gain := swap_pruned [v0] (map (val C) tys)) in *.
  assert (Hmapne : map (val C) tys <> []) by (destruct tys; [contradiction|discriminate]).
  assert (Hfold : see_fold gain = Ok (zfold gain)).
  { apply see_fold_zfold.
    - destruct (swap_pruned_length (map (val C) tys) [v0] ltac:(discriminate)) as [H|H]; [|contradiction].
      fold gain in H. cbn [length] in H. lia.
    - assert (H := gain_no_wrap v0 (map (val C) tys) Hv0 Hvals ltac:(rewrite map_length; lia)).
      eapply Forall_impl; [|exact H]. unfold absle. intros; lia. }
  exists tys. split; [|split; [|split; [exact Hall|split]]].
  - unfold eng_attackers. fold s t. rewrite Ha. cbn [bind].
    rewrite Hps, (piece_type_new_piece (side p) ty (side_lt p F) Hty). exact Heng.
  - destruct tys; [contradiction|]. cbn [length] in *. lia.
  - unfold see. fold s t. rewrite (get_piece_at p F t Ht), (get_piece_at p F s Hs). cbn [bind].
    unfold bbr. unfold WHITE, BLACK, PAWN, BISHOP, ROOK, QUEEN.
    rewrite !(get_bb_ok p F) by reflexivity. rewrite !(bbs2_ok p F) by reflexivity. cbn [bind].
    rewrite Ha. cbn [bind]. rewrite Hpt, (piece_type_new_piece c' t' Hc' Ht'), Hn0. cbn [bind].
    rewrite Hps, (piece_type_new_piece (side p) ty (side_lt p F) Hty).
    unfold max_xray_of in Hswap. rewrite Hswap. cbn [bind]. exact Hfold.
  - destruct (eng_ref_agree SE C PV p F t Ht Htocc 40 40 s ty a (all_pieces p) (bit s) (side p) (board p) tys
                Heng W X HR ltac:(lia)) as (rest & Href & Hag).
    exists rest. split; [|exact Hag]. rewrite Href.
    change (at_sq (board p) t) with (piece_at p t). rewrite Hpt, (piece_value_new_piece C c' t' Hc' Ht'). reflexivity.
Qed.

(* (iv) gain[32] is sufficient: at most 31 men can capture on one square one after the other; [see]
   does not panic and returns the folded pruned swap list of the attackers' values *)
Theorem see_gain_bound : exists tys,
  eng_attackers p m = Ok tys /\ (1 <= length tys <= 31)%nat /\
  see C p m = Ok (zfold (swap_pruned [piece_value C (piece_at p t)] (map (val C) tys))).
Proof. destruct see_core as (tys & H1 & H2 & _ & H3 & _). exists tys. tauto. Qed.

(* (ii) the incrementally maintained attacker sets yield the reference's line, up to a king capture *)
Theorem incremental_attackers_exact : exists tys rest,
  eng_attackers p m = Ok tys /\
  ref_line C 40 (board p) s t = piece_value C (piece_at p t) :: rest /\
  agree (removelast (map (val C) tys)) rest.
Proof. destruct see_core as (tys & H1 & _ & _ & _ & rest & H4 & H5). exists tys, rest. tauto. Qed.

(* (v) the value of [see] has the sign of the reference's *)
Theorem see_sign_core : exists v, see C p m = Ok v /\ sign v = sign (see_ref C p m).
Proof.
  destruct see_core as (tys & _ & Hlen & _ & Hsee & rest & Href & Hag).
  eexists. split; [exact Hsee|].
  rewrite see_list_sign by (destruct tys; [cbn [length] in Hlen; lia|discriminate]). f_equal.
  unfold see_ref. fold s t. rewrite ref_capture_line, Href. apply agree_minimax. exact Hag.
Qed.

End Whole.

(* ========================================================================================== *)
(* Part 4: every generated non-en-passant capture is a capture in the sense of [capture_ok].   *)
(* ========================================================================================== *)
Open Scope Z_scope.
Definition neg_dir (d : coord) : coord := (- fst d, - snd d).

Lemma hit_rev occ d s t k : (s < 64)%N -> (1 <= k)%nat ->
  geo_ray_hit_on occ d s t k = true -> geo_ray_hit_on occ (neg_dir d) t s k = true.
Proof.
  intros Hs Hk H. apply hit_spec in H. destruct H as [H1 [H2 H3]]. apply hit_spec.
  assert (Hst : forall j, (j <= k)%nat -> step_from t (neg_dir d) j = step_from s d (k - j)).
  { intros j Hj. unfold step_from, sq_fr, neg_dir in *. cbn [fst snd] in *. injection H2 as E1 E2.
    rewrite Nat2Z.inj_sub by exact Hj. f_equal; lia. }
  split; [|split].
  - intros j Hj. rewrite Hst by lia. destruct (Nat.eq_dec j k) as [->|Hn].
    + rewrite Nat.sub_diag. unfold step_from. cbn [Z.of_nat]. rewrite !Z.mul_0_l, !Z.add_0_r.
      exact (sq_fr_on_board s Hs).
    + apply H1. lia.
  - rewrite Hst by lia. rewrite Nat.sub_diag. unfold step_from, sq_fr. cbn [Z.of_nat]. rewrite !Z.mul_0_l, !Z.add_0_r. reflexivity.
  - intros j Hj. rewrite Hst by lia. apply H3. lia.
Qed.

Lemma ray_sym occ dirs s t : (forall d, In d dirs -> In (neg_dir d) dirs) -> (s < 64)%N ->
  geo_ray_attacks_on occ dirs s t = true -> geo_ray_attacks_on occ dirs t s = true.
Proof.
  intros Hneg Hs H. apply ray_spec in H. destruct H as (d & k & Hd & Hk & Hh). apply ray_spec.
  exists (neg_dir d), k. split; [apply Hneg; exact Hd|]. split; [exact Hk|]. apply hit_rev; [exact Hs|lia|exact Hh].
Qed.
Lemma rook_dirs_neg d : In d rook_dirs_geo -> In (neg_dir d) rook_dirs_geo.
Proof. cbn. intros [<-|[<-|[<-|[<-|[]]]]]; cbn; tauto. Qed.
Lemma bishop_dirs_neg d : In d bishop_dirs_geo -> In (neg_dir d) bishop_dirs_geo.
Proof. cbn. intros [<-|[<-|[<-|[<-|[]]]]]; cbn; tauto. Qed.

(* the leaper tables read from the mover's square *)
Lemma knight_tbl_from : tbl_ok knight_attacks (fun t s => geo_knight s t) = true. Proof. vm_compute. reflexivity. Qed.
Lemma king_tbl_from : tbl_ok king_attacks (fun t s => geo_king s t) = true. Proof. vm_compute. reflexivity. Qed.
Lemma pawn_tbl_from_w : tbl_ok (pawn_attacks WHITE) (fun t s => geo_pawn_attack 0 s t) = true. Proof. vm_compute. reflexivity. Qed.
Lemma pawn_tbl_from_b : tbl_ok (pawn_attacks BLACK) (fun t s => geo_pawn_attack 1 s t) = true. Proof. vm_compute. reflexivity. Qed.

Open Scope N_scope.

Lemma in_gen_helper m srcs occ dest att : In m (gen_helper srcs occ dest att) ->
  exists s t, N.testbit srcs s = true /\ N.testbit (att s occ) t = true /\ N.testbit dest t = true /\ m = mk_move s t.
Proof.
  unfold gen_helper. intros H. apply in_flat_map in H. destruct H as (s & Hs & H).
  apply in_map_iff in H. destruct H as (t & <- & Ht). apply bits_in in Hs, Ht.
  rewrite N.land_spec in Ht. apply andb_true_iff in Ht. exists s, t. tauto.
Qed.

Lemma pawn_move_fields stm s t m : s < 64 -> t < 64 -> In m (pawn_move_with_promotion stm s t) ->
  mv_src m = s /\ mv_dst m = t.
Proof.
  intros Hs Ht. unfold pawn_move_with_promotion.
  destruct ((stm =? WHITE) && negb (rank_of t =? 7)).
  { intros [<-|[]]. split; [apply mv_src_mk_move|apply mv_dst_mk_move]; assumption. }
  destruct ((stm =? BLACK) && negb (rank_of t =? 0)).
  { intros [<-|[]]. split; [apply mv_src_mk_move|apply mv_dst_mk_move]; assumption. }
  rewrite in_map_iff. intros (pt & <- & Hpt). destruct (mk_promo_fields s t Hs Ht pt Hpt) as (E1 & _ & _ & E4). tauto.
Qed.

Section Generated.
Hypothesis SE : slider_exact.
Variable p : position.
Hypothesis F : facts p.

Let stm := side p.
Let them := union6 p (switch_color stm).
Let occ := all_pieces p.

Lemma src_facts ty s : ty < 6 -> N.testbit (bb_at p stm ty) s = true -> s < 64 /\ piece_at p s = new_piece stm ty.
Proof.
  intros Hty H. assert (Hs : s < 64) by exact (high_false _ _ (bb_lt p F stm ty (side_lt p F) Hty) H).
  split; [exact Hs|]. rewrite (bb_bit p F stm ty s (side_lt p F) Hty Hs) in H. apply N.eqb_eq in H. exact H.
Qed.
Lemma dst_facts t : N.testbit them t = true -> t < 64 /\ piece_at p t <> 0.
Proof.
  intros H. destruct (them_bit p F t H) as [Ht Ho]. split; [exact Ht|].
  unfold occb, NO_PIECE in Ho. apply negb_true_iff, N.eqb_neq in Ho. exact Ho.
Qed.

(* one mover on s of type ty attacking t *)
Lemma mk_capture_ok m s t ty : ty < 6 -> s < 64 -> t < 64 -> mv_src m = s -> mv_dst m = t ->
  piece_at p s = new_piece stm ty -> piece_at p t <> 0 ->
  pc_attacks (N.testbit occ) (new_piece stm ty) s t = true -> capture_ok p m.
Proof.
  intros Hty Hs Ht Es Ed Hps Hpt Hatt. unfold capture_ok. rewrite Es, Ed.
  split; [exists ty; split; assumption|]. split; [exact Hpt|]. rewrite Hps. exact Hatt.
Qed.

Lemma pc_attacks_new occ' ty s t :
  ty < 6 -> pc_attacks occ' (new_piece stm ty) s t =
  match kind_of_type ty with
  | Pawn => geo_pawn_attack stm s t
  | Knight => geo_knight s t
  | Bishop => geo_ray_attacks_on occ' bishop_dirs_geo t s
  | Rook => geo_ray_attacks_on occ' rook_dirs_geo t s
  | Queen => geo_ray_attacks_on occ' queen_dirs_geo t s
  | King => geo_king s t
  end.
Proof. intros Hty. unfold pc_attacks. rewrite (decode_new_piece stm ty (side_lt p F) Hty). reflexivity. Qed.

Lemma rook_from s t : s < 64 -> N.testbit (rook_attacks s occ) t = true ->
  geo_ray_attacks_on (N.testbit occ) rook_dirs_geo t s = true.
Proof.
  intros Hs H. rewrite (proj1 SE s occ Hs t) in H. apply (ray_sym _ _ s t rook_dirs_neg Hs). exact H.
Qed.
Lemma bishop_from s t : s < 64 -> N.testbit (bishop_attacks s occ) t = true ->
  geo_ray_attacks_on (N.testbit occ) bishop_dirs_geo t s = true.
Proof.
  intros Hs H. rewrite (proj2 SE s occ Hs t) in H. apply (ray_sym _ _ s t bishop_dirs_neg Hs). exact H.
Qed.

Theorem gen_capture_ok cs m : gen_captures p = Ok cs -> In m cs -> mv_kind m <> EN_PASSANT -> capture_ok p m.
Proof.
  intros Hc Hin Hk. unfold gen_captures in Hc. cbv zeta in Hc.
  rewrite (color_bb_ok p F _ (switch_lt p F)) in Hc. cbn [bind] in Hc.
  rewrite !(get_bb_ok p F (side p)) in Hc by (exact (side_lt p F) || reflexivity). cbn [bind] in Hc.
  injection Hc as <-. fold stm in Hin. fold them occ in Hin.
  repeat (apply in_app_or in Hin; destruct Hin as [Hin|Hin]).
  - (* rooks *)
    apply in_gen_helper in Hin. destruct Hin as (s & t & Hs & Ha & Hd & ->).
    destruct (src_facts ROOK s eq_refl Hs) as [Hs64 Hps]. destruct (dst_facts t Hd) as [Ht64 Hpt].
    apply (mk_capture_ok _ s t ROOK); try assumption; try reflexivity;
      [apply mv_src_mk_move|apply mv_dst_mk_move|]; try assumption.
    rewrite pc_attacks_new by reflexivity. exact (rook_from s t Hs64 Ha).
  - (* bishops *)
    apply in_gen_helper in Hin. destruct Hin as (s & t & Hs & Ha & Hd & ->).
    destruct (src_facts BISHOP s eq_refl Hs) as [Hs64 Hps]. destruct (dst_facts t Hd) as [Ht64 Hpt].
    apply (mk_capture_ok _ s t BISHOP); try assumption; try reflexivity;
      [apply mv_src_mk_move|apply mv_dst_mk_move|]; try assumption.
    rewrite pc_attacks_new by reflexivity. exact (bishop_from s t Hs64 Ha).
  - (* queens *)
    apply in_gen_helper in Hin. destruct Hin as (s & t & Hs & Ha & Hd & ->).
    destruct (src_facts QUEEN s eq_refl Hs) as [Hs64 Hps]. destruct (dst_facts t Hd) as [Ht64 Hpt].
    apply (mk_capture_ok _ s t QUEEN); try assumption; try reflexivity;
      [apply mv_src_mk_move|apply mv_dst_mk_move|]; try assumption.
    rewrite pc_attacks_new by reflexivity. cbn [kind_of_type QUEEN]. unfold queen_dirs_geo. rewrite ray_app.
    unfold queen_attacks in Ha. rewrite N.lor_spec in Ha. apply orb_true_iff in Ha. apply orb_true_iff.
    destruct Ha as [Ha|Ha]; [left; exact (rook_from s t Hs64 Ha)|right; exact (bishop_from s t Hs64 Ha)].
  - (* knights *)
    apply in_gen_helper in Hin. destruct Hin as (s & t & Hs & Ha & Hd & ->).
    destruct (src_facts KNIGHT s eq_refl Hs) as [Hs64 Hps]. destruct (dst_facts t Hd) as [Ht64 Hpt].
    apply (mk_capture_ok _ s t KNIGHT); try assumption; try reflexivity;
      [apply mv_src_mk_move|apply mv_dst_mk_move|]; try assumption.
    rewrite pc_attacks_new by reflexivity. cbn [kind_of_type KNIGHT].
    rewrite <- (proj2 (tbl_ok_spec _ _ knight_tbl_from s Hs64) t Ht64). exact Ha.
  - (* pawns *)
    unfold pawn_moves in Hin. apply in_flat_map in Hin. destruct Hin as (s & Hs & Hin). apply bits_in in Hs.
    destruct (src_facts PAWN s eq_refl Hs) as [Hs64 Hps].
    cbn [app] in Hin. apply in_app_or in Hin. destruct Hin as [Hin|Hin].
    + apply in_flat_map in Hin. destruct Hin as (t & Ht & Hin). apply bits_in in Ht.
      rewrite N.land_spec in Ht. apply andb_true_iff in Ht. destruct Ht as [Ha Hd].
      destruct (dst_facts t Hd) as [Ht64 Hpt].
      destruct (pawn_move_fields _ s t m Hs64 Ht64 Hin) as [Es Ed].
      apply (mk_capture_ok _ s t PAWN); try assumption; try reflexivity.
      rewrite pc_attacks_new by reflexivity. cbn [kind_of_type PAWN].
      fold stm in Ha. destruct (F_side p F) as [E|E]; fold stm in E; rewrite E in *.
      * rewrite <- (proj2 (tbl_ok_spec _ _ pawn_tbl_from_w s Hs64) t Ht64). exact Ha.
      * rewrite <- (proj2 (tbl_ok_spec _ _ pawn_tbl_from_b s Hs64) t Ht64). exact Ha.
    + exfalso. destruct (negb (ep p =? SQ_NONE)); [|destruct Hin].
      apply in_map_iff in Hin. destruct Hin as (t & <- & Ht). apply bits_in in Ht.
      rewrite N.land_spec in Ht. apply andb_true_iff in Ht. destruct Ht as [_ Ht]. apply bit_true in Ht.
      apply Hk. apply mv_kind_ep; assumption.
  - (* king *)
    apply in_gen_helper in Hin. destruct Hin as (s & t & Hs & Ha & Hd & ->).
    destruct (src_facts KING s eq_refl Hs) as [Hs64 Hps]. destruct (dst_facts t Hd) as [Ht64 Hpt].
    apply (mk_capture_ok _ s t KING); try assumption; try reflexivity;
      [apply mv_src_mk_move|apply mv_dst_mk_move|]; try assumption.
    rewrite pc_attacks_new by reflexivity. cbn [kind_of_type KING].
    rewrite <- (proj2 (tbl_ok_spec _ _ king_tbl_from s Hs64) t Ht64). exact Ha.
Qed.

(* from the full generator *)
Theorem gen_move_capture_ok ms m : gen_moves p = Ok ms -> In m ms -> mv_kind m <> EN_PASSANT ->
  piece_at p (mv_dst m) <> 0 -> capture_ok p m.
Proof.
  intros Hm Hin Hk Hocc.
  assert (Hc : exists cs, gen_captures p = Ok cs).
  { unfold gen_captures. cbv zeta. rewrite (color_bb_ok p F _ (switch_lt p F)).
    rewrite !(get_bb_ok p F (side p)) by (exact (side_lt p F) || reflexivity). cbn [bind]. eauto. }
  destruct Hc as (cs & Hc). apply (gen_capture_ok cs m Hc); [|exact Hk].
  rewrite (captures_same_order_facts p ms cs F Hm Hc).
  apply filter_In. split; [exact Hin|]. unfold is_capture_b, occb, NO_PIECE.
  apply orb_true_iff. right. apply negb_true_iff, N.eqb_neq. exact Hocc.
Qed.

End Generated.

(* the legal moves are generated moves *)
Lemma legal_moves_generated K p l : legal_moves K p = Ok l ->
  exists ms, gen_moves p = Ok ms /\ forall m, In m l -> In m ms.
Proof.
  unfold legal_moves. intros H. apply bind_ok in H. destruct H as (ms & Hms & H). exists ms. split; [exact Hms|].
  clear Hms. revert l H. induction ms as [|a ms IH]; intros l H; cbn [fold_right] in H.
  - injection H as <-. intros m [].
  - apply bind_ok in H. destruct H as (l' & Hl' & H). apply bind_ok in H. destruct H as (q & _ & H).
    apply bind_ok in H. destruct H as (ok & _ & H). injection H as <-.
    intros m Hm. specialize (IH l' Hl'). destruct ok.
    + destruct Hm as [<-|Hm]; [left; reflexivity|right; apply IH; exact Hm].
    + right. apply IH. exact Hm.
Qed.

(* ========================================================================================== *)
(* The property.                                                                               *)
(* ========================================================================================== *)
(* the full statement of C18 *)
Definition C18_see_sign_statement : Prop :=
  forall (K : zkeys) (C : econsts) (p : position) (l : list N) (m : N) (v : Z),
    Inv p -> material_ok p -> pv_ok C ->
    legal_moves K p = Ok l -> In m l -> mv_kind m <> EN_PASSANT -> piece_at p (mv_dst m) <> 0 ->
    see C p m = Ok v -> sign v = sign (see_ref C p m).

(* proved from the exactness of the slider lookups (C12), which is the only premise left *)
Theorem see_sign_partial : slider_exact -> C18_see_sign_statement.
Proof.
  intros SE K C p l m v HI HM PV Hl Hin Hk Hocc Hsee.
  assert (F := inv_facts p HI).
  destruct (legal_moves_generated K p l Hl) as (ms & Hms & Hsub).
  assert (CAP := gen_move_capture_ok SE p F ms m Hms (Hsub m Hin) Hk Hocc).
  destruct (see_sign_core SE C PV p F HM m CAP) as (v' & Hv' & Hs). rewrite Hv' in Hsee. injection Hsee as <-. exact Hs.
Qed.

(* and [see] does not panic on such a capture (gain[32] suffices) *)
Theorem see_total_partial : slider_exact ->
  forall (K : zkeys) (C : econsts) (p : position) (l : list N) (m : N),
    Inv p -> material_ok p -> pv_ok C ->
    legal_moves K p = Ok l -> In m l -> mv_kind m <> EN_PASSANT -> piece_at p (mv_dst m) <> 0 ->
    exists tys, eng_attackers p m = Ok tys /\ (1 <= length tys <= 31)%nat /\
      see C p m = Ok (zfold (swap_pruned [piece_value C (piece_at p (mv_dst m))] (map (val C) tys))).
Proof.
  intros SE K C p l m HI HM PV Hl Hin Hk Hocc.
  assert (F := inv_facts p HI).
  destruct (legal_moves_generated K p l Hl) as (ms & Hms & Hsub).
  assert (CAP := gen_move_capture_ok SE p F ms m Hms (Hsub m Hin) Hk Hocc).
  exact (see_gain_bound SE C PV p F HM m CAP).
Qed.
