(* C16: what CAN be decided about the no-collision hypothesis [hash_injective] from the key table of
   the current Go build.  [hash_injective] itself is a hypothesis (false over all positions for any
   64-bit hash); but the cheapest collisions - two positions that differ in one square's occupant, the
   side to move, the castling rights or the en-passant file, or by ONE piece standing elsewhere - are
   excluded by finite facts about the generated keys, re-checked by the kernel whenever the keys
   change: every one of the 781 keys is non-zero and they are pairwise distinct. *)
From Coq Require Import NArith List Bool.
From Clemens Require Import Base.Res Pos.Types Pos.Position Pos.ZobristProofs Eval.Eval Eval.CacheProofs Eval.CacheInst.
Import ListNotations.
Open Scope N_scope.

Definition all_keys (K : zkeys) : list N := concat (zk_piece K) ++ [zk_side K] ++ zk_castling K ++ zk_ep K.

Lemma c16_key_count : length (all_keys c16_keys) = 781%nat.
Proof. vm_compute. reflexivity. Qed.

Lemma c16_all_keys_nonzero_distinct :
  all_nonzero (all_keys c16_keys) = true /\ pairwise_distinct (all_keys c16_keys) = true.
Proof. split; vm_compute; reflexivity. Qed.

(* any two different entries of the key table are different numbers, and none is 0 *)
Theorem c16_keys_injective : forall i j a b,
  i <> j -> nth_error (all_keys c16_keys) i = Some a -> nth_error (all_keys c16_keys) j = Some b ->
  a <> b /\ a <> 0.
Proof.
  intros i j a b Hij Ha Hb. destruct c16_all_keys_nonzero_distinct as [Hn Hd]. split.
  - exact (pairwise_distinct_nth _ i j a b Hd Hij Ha Hb).
  - exact (all_nonzero_nth _ i a Hn Ha).
Qed.

Lemma c16_keys_wf : keys_wf c16_keys = true.
Proof. vm_compute. reflexivity. Qed.
Lemma c16_keys_distinct : keys_distinct c16_keys = true.
Proof. vm_compute. reflexivity. Qed.

(* positions that differ in exactly one component hash differently: no such pair can share a cache slot's key *)
Theorem c16_one_component_no_collision : forall p1 p2,
  pos_wf p1 -> pos_wf p2 -> differ_in_one_component p1 p2 ->
  scratch_hash c16_keys p1 <> scratch_hash c16_keys p2.
Proof. exact (one_component_differs c16_keys c16_keys_wf c16_keys_distinct). Qed.
