(* C18: the premise [slider_exact] of Eval/SeeProofs.v is property C12 (Att/SlidingProofs.v:
   [rook_attacks_exact], [bishop_attacks_exact]); with it the statement of C18 holds outright.
   Kept in a file of its own so that Eval/SeeProofs.v shows the dependency on C12 as an explicit
   premise and can be read (and re-checked) without the magic-bitboard development. *)
From Coq Require Import NArith ZArith List.
From Clemens Require Import Base.Res Pos.Types Pos.Position Pos.Inv Att.Geometry Eval.Eval Eval.SeeRef.
From Clemens Require Att.SlidingProofs.
From Clemens Require Import Eval.SeeGeo Eval.SeeProofs.

Theorem slider_exact_holds : slider_exact.
Proof.
  split; [exact Att.SlidingProofs.rook_attacks_exact|exact Att.SlidingProofs.bishop_attacks_exact].
Qed.

Theorem see_sign : C18_see_sign_statement.
Proof. exact (see_sign_partial slider_exact_holds). Qed.

Theorem see_total : forall (K : zkeys) (C : econsts) (p : position) (l : list N) (m : N),
  Inv p -> material_ok p -> pv_ok C ->
  legal_moves K p = Ok l -> In m l -> mv_kind m <> EN_PASSANT -> piece_at p (mv_dst m) <> 0%N ->
  exists tys, eng_attackers p m = Ok tys /\ (1 <= length tys <= 31)%nat /\
    see C p m = Ok (zfold (swap_pruned (piece_value C (piece_at p (mv_dst m)) :: nil) (map (val C) tys))).
Proof. exact (see_total_partial slider_exact_holds). Qed.
