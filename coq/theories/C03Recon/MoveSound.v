(* C03, specification side, part 2: every move that is legal under the FIDE specification, written the
   way a GUI writes it (source square, target square, promotion letter), is accepted by
   Position.MakeMoveFromString and produces the successor position the specification computes.
   Castling given as the king's two-file move, the en-passant capture given as a plain pawn move and
   promotion given by a suffix letter are all covered: the specification's move carries no kind. *)
From Coq Require Import NArith ZArith List Bool Lia ZifyBool ZifyN ZifyNat Permutation.
From Clemens Require Import Base.Res Base.Word Base.Bytes Pos.Types Att.Attacks Pos.Position Pos.Fen Pos.Inv
  Pos.ZobristProofs Uci.Game.
From Clemens.C03Text Require Import SquareText MoveText GameReplay.
From Clemens.C01Att Require Final FideFacts.
From Clemens.C02Refine Require Import MakeRefines.
From Clemens.C10Inv Require InvReach InvTotal.
From Clemens Require Import Rules.Abs Rules.Fide.
From Clemens.C03Recon Require Import FideText.
Import ListNotations.
Open Scope N_scope.

(* the engine's legal move behind a FIDE-legal move *)
Lemma fide_legal_has_engine_move (K : zkeys) (p : position) (fm : fmove) :
  keys_wf K = true -> Inv p -> In fm (Fide.legal_moves (abs p)) ->
  exists ls m, Position.legal_moves K p = Ok ls /\ In m ls /\ decode m = fm.
Proof.
  intros WF I Hin. destruct (Final.C01_movegen_total K p WF I) as (ls & L & P).
  apply (Permutation_in _ (Permutation_sym P)) in Hin. apply in_map_iff in Hin.
  destruct Hin as (m & D & Hm). exists ls, m. auto.
Qed.

(* conversely the specification move of an engine-legal move is FIDE-legal *)
Lemma engine_legal_is_fide_legal (K : zkeys) (p : position) (ls : list N) (m : N) :
  Inv p -> Position.legal_moves K p = Ok ls -> In m ls -> In (decode m) (Fide.legal_moves (abs p)).
Proof.
  intros I L Hin. apply (Permutation_in _ (Final.C01_movegen_closed K p ls I L)). now apply in_map.
Qed.

Theorem uci_move_sound (K : zkeys) (tbl : list (N * N * N)) (p : position) (fm : fmove) :
  keys_wf K = true -> Inv p -> In fm (Fide.legal_moves (abs p)) ->
  exists m q,
    move_from_string tbl p (fide_text fm) = Ok m /\ decode m = fm /\
    (exists ls, Position.legal_moves K p = Ok ls /\ In m ls) /\
    make_move_from_string K tbl p (fide_text fm) = Ok q /\ make_move K p m = Ok q /\ Inv q /\
    b_at (abs q) = b_at (apply (abs p) fm) /\ b_turn (abs q) = b_turn (apply (abs p) fm) /\
    b_rights (abs q) = b_rights (apply (abs p) fm) /\ b_ep (abs q) = b_ep (apply (abs p) fm) /\
    (hmc p < 255 -> ply p < 255 -> ply_parity p -> abs q = apply (abs p) fm).
Proof.
  intros WF I Hin. destruct (fide_legal_has_engine_move K p fm WF I Hin) as (ls & m & L & Hm & D).
  destruct (legal_move_makes K p ls m L Hm) as (q & M & _).
  destruct (legal_move_text_roundtrip K tbl p ls m (fide_text fm) I L Hm) as (R1 & R2).
  { rewrite <- D. apply fide_text_decode. }
  destruct (legal_moves_in K p ls m L Hm) as (ms & G & Hg).
  pose proof (InvReach.inv_step_holds K p m q ls I L Hm M) as Iq.
  pose proof (make_refines_nocount K p ms m q I G Hg M) as NC. cbv zeta in NC. rewrite D in NC.
  destruct NC as (N1 & N2 & N3 & N4).
  exists m, q. split; [exact R1|]. split; [exact D|]. split; [eauto|].
  split; [now rewrite R2|]. split; [exact M|]. split; [exact Iq|].
  split; [exact N1|]. split; [exact N2|]. split; [exact N3|]. split; [exact N4|].
  intros Hh Hp Par. rewrite <- D. now apply (make_refines K p ms m q).
Qed.

(* the core of a state: everything but the two counters *)
Corollary uci_move_sound_core (K : zkeys) (tbl : list (N * N * N)) (p : position) (fm : fmove) :
  keys_wf K = true -> Inv p -> In fm (Fide.legal_moves (abs p)) ->
  exists q, make_move_from_string K tbl p (fide_text fm) = Ok q /\ Inv q /\
            FideFacts.same_core (abs q) (apply (abs p) fm).
Proof.
  intros WF I Hin. destruct (uci_move_sound K tbl p fm WF I Hin) as (m & q & _ & _ & _ & M & _ & Iq & A & B & C & D & _).
  exists q. split; [exact M|]. split; [exact Iq|]. unfold FideFacts.same_core. auto.
Qed.

Print Assumptions uci_move_sound.
