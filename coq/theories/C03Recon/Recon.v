(* C03, end to end, against the FIDE specification:
   after `position startpos|fen <F> [moves m1 ... mn]`, where the moves form a legal game under the
   rules of chess (Rules/Fide.v) and are written in UCI long algebraic notation ([fide_text]: castling
   as the king's two-file move, the en-passant capture as a plain pawn move, promotion by a letter
   suffix), the position the engine will search abstracts to exactly the state obtained by playing
   those moves with the specification's [apply], and the repetition stack holds the hashes of the
   successive engine positions. *)
From Coq Require Import NArith ZArith List Bool Lia ZifyBool ZifyN ZifyNat Permutation.
From Clemens Require Import Base.Res Base.Word Base.Bytes Pos.Types Att.Attacks Pos.Position Pos.Fen Pos.Inv
  Pos.ZobristProofs Uci.Game.
From Clemens.C03Text Require Import SquareText MoveText GameReplay.
From Clemens.C01Att Require Import FideFacts.
From Clemens.C02Refine Require Import MakeRefines FenParity.
From Clemens.C10Inv Require InvReach.
From Clemens Require Import Rules.Abs Rules.Fide.
From Clemens.C03Recon Require Import FideText MoveSound.
Import ListNotations.
Open Scope N_scope.

(* ------------------------------------------------------------------------------------------ *)
(* 1. A game under the rules of chess (specification level only)                                *)

(* [fide_game s fms r]: the moves fms are played from s, each one legal (FIDE article 3) in the state it
   is played from; r is the final state *)
Inductive fide_game : bstate -> list fmove -> bstate -> Prop :=
| fg_nil (s : bstate) : fide_game s [] s
| fg_cons (s : bstate) (fm : fmove) (fms : list fmove) (r : bstate) :
    In fm (Fide.legal_moves s) -> fide_game (apply s fm) fms r -> fide_game s (fm :: fms) r.

Lemma fide_game_final (s : bstate) (fms : list fmove) (r : bstate) :
  fide_game s fms r -> r = fold_left apply fms s.
Proof. induction 1 as [s | s fm fms r L G IH]; [reflexivity | exact IH]. Qed.

(* the same with the boolean legality test (equivalent: [legal_moves_iff]) and as a decision procedure *)
Fixpoint fide_game_b (s : bstate) (fms : list fmove) : bool :=
  match fms with
  | [] => true
  | fm :: r => legal s fm && fide_game_b (apply s fm) r
  end.

Lemma fide_game_b_spec (fms : list fmove) : forall s r,
  fide_game s fms r <-> (fide_game_b s fms = true /\ r = fold_left apply fms s).
Proof.
  induction fms as [|fm fms IH]; intros s r; cbn [fide_game_b fold_left].
  - split; [intros G; inversion G; auto | intros [_ ->]; constructor].
  - rewrite andb_true_iff. split.
    + intros G. inversion G as [|s0 fm0 fms0 r0 L G']; subst. apply legal_moves_iff in L.
      apply IH in G'. tauto.
    + intros [[L B] E]. constructor; [apply legal_moves_iff; exact L|]. apply IH. auto.
Qed.

Lemma fide_game_legal_cons (s : bstate) (fm : fmove) (fms : list fmove) (r : bstate) :
  fide_game s (fm :: fms) r <-> (legal s fm = true /\ fide_game (apply s fm) fms r).
Proof.
  split.
  - intros G. inversion G as [|s0 fm0 fms0 r0 L G']; subst. split; [apply legal_moves_iff; exact L | exact G'].
  - intros [L G]. constructor; [apply legal_moves_iff; exact L | exact G].
Qed.

(* ------------------------------------------------------------------------------------------ *)
(* 2. A FIDE game lifts to a game of the engine                                                 *)

Lemma printed_fide_text (ms : list N) : printed ms (map fide_text (map decode ms)).
Proof. induction ms as [|m ms IH]; constructor; [apply fide_text_decode | exact IH]. Qed.

Section Lift.
Variable K : zkeys.
Hypothesis WF : keys_wf K = true.

(* exact, while the engine's two byte counters do not wrap *)
Lemma fide_game_lifts (fms : list fmove) : forall (p : position) (s : bstate),
  Inv p -> ply_parity p ->
  ply p + N.of_nat (length fms) <= 255 -> hmc p + N.of_nat (length fms) <= 255 ->
  fide_game (abs p) fms s ->
  exists ms qs, game_line K p ms qs /\ map decode ms = fms /\ abs (last qs p) = s /\ Inv (last qs p).
Proof.
  induction fms as [|fm fms IH]; intros p s I Par Bp Bh G.
  - inversion G; subst. exists [], []. repeat split; auto. constructor.
  - inversion G as [|s0 fm0 fms0 r0 L G']; subst. cbn [length] in Bp, Bh.
    destruct (uci_move_sound K [] p fm WF I L) as (m & q & _ & D & (ls & Lg & Hm) & _ & M & Iq & _ & _ & _ & _ & E).
    specialize (E ltac:(lia) ltac:(lia) Par).
    destruct (legal_moves_in K p ls m Lg Hm) as (gs & Gn & Hg).
    destruct (counters_step K p gs m q I Gn Hg M ltac:(lia)) as (Ep & Eh).
    pose proof (ply_parity_step K p m q I M Par ltac:(lia)) as Parq.
    rewrite <- E in G'.
    destruct (IH q s Iq Parq ltac:(lia) ltac:(lia) G') as (ms & qs & GL & Dm & A & Il).
    exists (m :: ms), (q :: qs). rewrite last_cons. cbn [map]. rewrite D, Dm.
    repeat split; auto. econstructor; eauto.
Qed.

(* without any bound: everything but the two counters *)
Lemma fide_game_lifts_core (fms : list fmove) : forall (p : position) (s0 s : bstate),
  Inv p -> same_core (abs p) s0 -> fide_game s0 fms s ->
  exists ms qs, game_line K p ms qs /\ map decode ms = fms /\ same_core (abs (last qs p)) s /\ Inv (last qs p).
Proof.
  induction fms as [|fm fms IH]; intros p s0 s I C G.
  - inversion G; subst. exists [], []. repeat split; auto; try apply C. constructor.
  - inversion G as [|s1 fm0 fms0 r0 L G']; subst.
    rewrite <- (legal_moves_core _ _ C) in L.
    destruct (uci_move_sound K [] p fm WF I L) as (m & q & _ & D & (ls & Lg & Hm) & _ & M & Iq & A1 & A2 & A3 & A4 & _).
    assert (Cq : same_core (abs q) (apply s0 fm)).
    { apply same_core_trans with (apply (abs p) fm); [unfold same_core; auto | now apply apply_same_core]. }
    destruct (IH q (apply s0 fm) s Iq Cq G') as (ms & qs & GL & Dm & A & Il).
    exists (m :: ms), (q :: qs). rewrite last_cons. cbn [map]. rewrite D, Dm.
    repeat split; auto; try apply A. econstructor; eauto.
Qed.

End Lift.

(* ------------------------------------------------------------------------------------------ *)
(* 3. The start position is the FIDE initial position                                           *)

Theorem start_abs_initial (K : zkeys) (p0 : position) : new_position K = Ok p0 -> abs p0 = initial.
Proof.
  unfold new_position. rewrite start_bbs_ok. cbn [bind]. unfold init_hash. intros H. bind_inv H.
  injection H as <-. vm_compute. reflexivity.
Qed.

Lemma start_counters (K : zkeys) (p0 : position) : new_position K = Ok p0 -> ply p0 = 0 /\ hmc p0 = 0.
Proof.
  unfold new_position. rewrite start_bbs_ok. cbn [bind]. unfold init_hash. intros H. bind_inv H.
  injection H as <-. cbn. auto.
Qed.

(* ------------------------------------------------------------------------------------------ *)
(* 4. The position command                                                                      *)

Section Command.
Variable K : zkeys.
Variable tbl : list (N * N * N).
Variable hist_size : N.
Hypothesis WF : keys_wf K = true.

Let IS : inv_step_statement K := InvReach.inv_step_holds K.

(* MakeMoveFromString in a loop (the body of NewPosition after the position has been set up) *)
Theorem play_reconstructs (p : position) (fms : list fmove) (s : bstate) (hist : list N) :
  Inv p -> ply_parity p ->
  ply p + N.of_nat (length fms) <= 255 -> hmc p + N.of_nat (length fms) <= 255 ->
  fide_game (abs p) fms s ->
  N.of_nat (length hist) + N.of_nat (length fms) <= hist_size ->
  exists g, play K tbl hist_size p hist (map fide_text fms) = NPSet g /\
    abs (g_pos g) = s /\ Inv (g_pos g) /\
    exists ms qs, game_line K p ms qs /\ map decode ms = fms /\
                  g_pos g = last qs p /\ g_hist g = hist ++ map hash qs.
Proof.
  intros I Par Bp Bh G B.
  destruct (fide_game_lifts K WF fms p s I Par Bp Bh G) as (ms & qs & GL & D & A & Il).
  exists {| g_pos := last qs p; g_hist := hist ++ map hash qs |}. cbn [g_pos g_hist].
  split; [|split; [exact A|split; [exact Il|exists ms, qs; auto]]].
  rewrite <- D. apply (play_replays K tbl hist_size IS p ms qs hist); auto using printed_fide_text.
  rewrite <- D, map_length in B. exact B.
Qed.

(* -- `position startpos moves m1 ... mn` (n may be 0) -- *)
Theorem position_startpos_reconstructs (p0 : position) (fms : list fmove) (s : bstate) :
  new_position K = Ok p0 -> fide_game (abs p0) fms s ->
  (length fms <= 255)%nat -> N.of_nat (length fms) <= hist_size ->
  exists g, new_position_cmd K tbl hist_size (w_startpos :: w_moves :: map fide_text fms) = NPSet g /\
    abs (g_pos g) = s /\ Inv (g_pos g) /\ length (g_hist g) = length fms /\
    exists ms qs, game_line K p0 ms qs /\ map decode ms = fms /\
                  g_pos g = last qs p0 /\ g_hist g = map hash qs.
Proof.
  intros N0 G Bl B.
  assert (I0 : Inv p0) by (eapply new_position_inv; eauto).
  destruct (start_counters K p0 N0) as (P0 & H0).
  destruct (fide_game_lifts K WF fms p0 s I0 (new_position_ply_parity K p0 N0) ltac:(lia) ltac:(lia) G)
    as (ms & qs & GL & D & A & Il).
  exists {| g_pos := last qs p0; g_hist := map hash qs |}. cbn [g_pos g_hist].
  split; [|split; [exact A|split; [exact Il|split; [|exists ms, qs; auto]]]].
  - rewrite <- D. apply (position_startpos_replays K tbl hist_size IS p0 ms qs); auto using printed_fide_text.
    rewrite <- D, map_length in B. exact B.
  - rewrite map_length, (game_line_length K p0 ms qs GL), <- D, map_length. reflexivity.
Qed.

(* the same, read with the specification's own initial position *)
Corollary position_startpos_reconstructs_initial (p0 : position) (fms : list fmove) (s : bstate) :
  new_position K = Ok p0 -> fide_game initial fms s ->
  (length fms <= 255)%nat -> N.of_nat (length fms) <= hist_size ->
  exists g, new_position_cmd K tbl hist_size (w_startpos :: w_moves :: map fide_text fms) = NPSet g /\
    abs (g_pos g) = s /\ Inv (g_pos g) /\ length (g_hist g) = length fms /\
    exists ms qs, game_line K p0 ms qs /\ map decode ms = fms /\
                  g_pos g = last qs p0 /\ g_hist g = map hash qs.
Proof.
  intros N0 G. rewrite <- (start_abs_initial K p0 N0) in G. now apply position_startpos_reconstructs.
Qed.

(* the zero-moves corner: `position startpos` and `position startpos moves` *)
Theorem position_startpos_only_reconstructs (p0 : position) :
  new_position K = Ok p0 ->
  new_position_cmd K tbl hist_size [w_startpos] = NPSet {| g_pos := p0; g_hist := [] |} /\
  new_position_cmd K tbl hist_size [w_startpos; w_moves] = NPSet {| g_pos := p0; g_hist := [] |} /\
  abs p0 = initial /\ Inv p0.
Proof.
  intros N0. destruct (position_startpos_only K tbl hist_size p0 N0) as (A & B).
  repeat split; auto; [eapply start_abs_initial | eapply new_position_inv]; eauto.
Qed.

(* -- `position fen F1 .. F6 moves m1 ... mn` (n may be 0) -- *)
Theorem position_fen_reconstructs (six : list bytes) (p0 : position) (fms : list fmove) (s : bstate) :
  length six = 6%nat -> new_from_fen K tbl (join_sp six) = Ok p0 -> Inv p0 ->
  fide_game (abs p0) fms s ->
  ply p0 + N.of_nat (length fms) <= 255 -> hmc p0 + N.of_nat (length fms) <= 255 ->
  N.of_nat (length fms) <= hist_size ->
  exists g, new_position_cmd K tbl hist_size (w_fen :: six ++ w_moves :: map fide_text fms) = NPSet g /\
    abs (g_pos g) = s /\ Inv (g_pos g) /\ length (g_hist g) = length fms /\
    exists ms qs, game_line K p0 ms qs /\ map decode ms = fms /\
                  g_pos g = last qs p0 /\ g_hist g = map hash qs.
Proof.
  intros L6 Fen I0 G Bp Bh B.
  destruct (fide_game_lifts K WF fms p0 s I0 (fen_ply_parity K tbl _ p0 Fen) Bp Bh G)
    as (ms & qs & GL & D & A & Il).
  exists {| g_pos := last qs p0; g_hist := map hash qs |}. cbn [g_pos g_hist].
  split; [|split; [exact A|split; [exact Il|split; [|exists ms, qs; auto]]]].
  - rewrite <- D. apply (position_fen_replays K tbl hist_size IS six p0 ms qs); auto using printed_fide_text.
    rewrite <- D, map_length in B. exact B.
  - rewrite map_length, (game_line_length K p0 ms qs GL), <- D, map_length. reflexivity.
Qed.

(* `position fen F1 .. F6` without the word `moves` *)
Theorem position_fen_only (six : list bytes) (p0 : position) :
  length six = 6%nat -> new_from_fen K tbl (join_sp six) = Ok p0 ->
  new_position_cmd K tbl hist_size (w_fen :: six) = NPSet {| g_pos := p0; g_hist := [] |} /\
  new_position_cmd K tbl hist_size (w_fen :: six ++ [w_moves]) = NPSet {| g_pos := p0; g_hist := [] |}.
Proof.
  intros L6 Fen.
  destruct six as [|f1 [|f2 [|f3 [|f4 [|f5 [|f6 [|]]]]]]]; try discriminate L6.
  unfold new_position_cmd. change (bytes_eqb w_fen w_startpos) with false.
  change (bytes_eqb w_fen w_fen) with true. cbv iota.
  cbn [app length firstn skipn N.of_nat]. cbn [N.ltb N.compare Pos.of_succ_nat Pos.succ Pos.compare Pos.compare_cont].
  cbv iota. rewrite Fen. auto.
Qed.

(* -- long games: no bound but the size of the repetition stack; everything but the two counters -- *)
Theorem position_startpos_reconstructs_core (p0 : position) (fms : list fmove) (s : bstate) :
  new_position K = Ok p0 -> fide_game initial fms s ->
  N.of_nat (length fms) <= hist_size ->
  exists g, new_position_cmd K tbl hist_size (w_startpos :: w_moves :: map fide_text fms) = NPSet g /\
    b_at (abs (g_pos g)) = b_at s /\ b_turn (abs (g_pos g)) = b_turn s /\
    b_rights (abs (g_pos g)) = b_rights s /\ b_ep (abs (g_pos g)) = b_ep s /\
    Inv (g_pos g) /\ length (g_hist g) = length fms /\
    exists ms qs, game_line K p0 ms qs /\ map decode ms = fms /\
                  g_pos g = last qs p0 /\ g_hist g = map hash qs.
Proof.
  intros N0 G B.
  assert (I0 : Inv p0) by (eapply new_position_inv; eauto).
  assert (C0 : same_core (abs p0) initial) by (rewrite (start_abs_initial K p0 N0); apply same_core_refl).
  destruct (fide_game_lifts_core K WF fms p0 initial s I0 C0 G) as (ms & qs & GL & D & (A1 & A2 & A3 & A4) & Il).
  exists {| g_pos := last qs p0; g_hist := map hash qs |}. cbn [g_pos g_hist].
  split; [|repeat (split; [assumption|]); split; [|exists ms, qs; auto]].
  - rewrite <- D. apply (position_startpos_replays K tbl hist_size IS p0 ms qs); auto using printed_fide_text.
    rewrite <- D, map_length in B. exact B.
  - rewrite map_length, (game_line_length K p0 ms qs GL), <- D, map_length. reflexivity.
Qed.

Theorem position_fen_reconstructs_core (six : list bytes) (p0 : position) (fms : list fmove) (s : bstate) :
  length six = 6%nat -> new_from_fen K tbl (join_sp six) = Ok p0 -> Inv p0 ->
  fide_game (abs p0) fms s ->
  N.of_nat (length fms) <= hist_size ->
  exists g, new_position_cmd K tbl hist_size (w_fen :: six ++ w_moves :: map fide_text fms) = NPSet g /\
    b_at (abs (g_pos g)) = b_at s /\ b_turn (abs (g_pos g)) = b_turn s /\
    b_rights (abs (g_pos g)) = b_rights s /\ b_ep (abs (g_pos g)) = b_ep s /\
    Inv (g_pos g) /\ length (g_hist g) = length fms /\
    exists ms qs, game_line K p0 ms qs /\ map decode ms = fms /\
                  g_pos g = last qs p0 /\ g_hist g = map hash qs.
Proof.
  intros L6 Fen I0 G B.
  destruct (fide_game_lifts_core K WF fms p0 (abs p0) s I0 (same_core_refl _) G)
    as (ms & qs & GL & D & (A1 & A2 & A3 & A4) & Il).
  exists {| g_pos := last qs p0; g_hist := map hash qs |}. cbn [g_pos g_hist].
  split; [|repeat (split; [assumption|]); split; [|exists ms, qs; auto]].
  - rewrite <- D. apply (position_fen_replays K tbl hist_size IS six p0 ms qs); auto using printed_fide_text.
    rewrite <- D, map_length in B. exact B.
  - rewrite map_length, (game_line_length K p0 ms qs GL), <- D, map_length. reflexivity.
Qed.

End Command.

Print Assumptions start_abs_initial.
Print Assumptions play_reconstructs.
Print Assumptions position_startpos_reconstructs.
Print Assumptions position_startpos_reconstructs_initial.
Print Assumptions position_startpos_only_reconstructs.
Print Assumptions position_fen_reconstructs.
Print Assumptions position_fen_only.
Print Assumptions position_startpos_reconstructs_core.
Print Assumptions position_fen_reconstructs_core.
