(* C03, end to end: the theorems of Recon.v instantiated with the key table, the digit table and the
   stack size of the Go build, and executed examples (kernel evaluation): the premises are met by
   concrete FIDE games - 1.e4 e5 2.Nf3 from the initial position; an en-passant capture, a castling and
   a capturing promotion from a FEN - and the command result has the abstraction the specification
   computes. *)
From Coq Require Import NArith ZArith List Bool String Ascii Lia ZifyBool ZifyN ZifyNat.
From Clemens Require Import Base.Res Base.Word Base.Bytes Pos.Types Att.Attacks Pos.Position Pos.Fen Pos.Inv
  Pos.ZobristProofs Pos.ZobristInst Uci.Game.
From ClemensGen Require Import GoConsts.
From Clemens.C03Text Require Import SquareText MoveText GameReplay TextExamples.
From Clemens.C01Att Require Import FideFacts.
From Clemens Require Import Rules.Abs Rules.Fide.
From Clemens.C03Recon Require Import FideText MoveSound Recon.
Import ListNotations.
Open Scope N_scope.

(* ------------------------------------------------------------------------------------------ *)
(* The Go build                                                                                 *)

(* up to 255 plies from the start position: the searched position IS the FIDE position *)
Theorem go_position_startpos_reconstructs (fms : list fmove) (s : bstate) :
  fide_game initial fms s -> (List.length fms <= 255)%nat ->
  exists g, new_position_cmd go_keys unicode_digit_tbl se_history_size
              (w_startpos :: w_moves :: map fide_text fms) = NPSet g /\
    abs (g_pos g) = s /\ Inv (g_pos g) /\ List.length (g_hist g) = List.length fms.
Proof.
  intros G B. pose proof history_holds_600 as H6.
  destruct (position_startpos_reconstructs_initial go_keys unicode_digit_tbl se_history_size go_keys_wf
              hm_p0 fms s go_new_position G B ltac:(lia)) as (g & C & A & I & L & _).
  exists g. auto.
Qed.

(* up to 600 plies (indeed up to the 1024 entries of the repetition stack): placement, side to move,
   castling rights and en-passant target are those of the FIDE position; only the two byte counters
   (half-move clock, ply) may have wrapped *)
Theorem go_position_startpos_reconstructs_600 (fms : list fmove) (s : bstate) :
  fide_game initial fms s -> (List.length fms <= 600)%nat ->
  exists g, new_position_cmd go_keys unicode_digit_tbl se_history_size
              (w_startpos :: w_moves :: map fide_text fms) = NPSet g /\
    b_at (abs (g_pos g)) = b_at s /\ b_turn (abs (g_pos g)) = b_turn s /\
    b_rights (abs (g_pos g)) = b_rights s /\ b_ep (abs (g_pos g)) = b_ep s /\
    Inv (g_pos g) /\ List.length (g_hist g) = List.length fms.
Proof.
  intros G B. pose proof history_holds_600 as H6.
  destruct (position_startpos_reconstructs_core go_keys unicode_digit_tbl se_history_size go_keys_wf
              hm_p0 fms s go_new_position G ltac:(lia)) as (g & C & A1 & A2 & A3 & A4 & I & L & _).
  exists g. repeat split; auto.
Qed.

(* ------------------------------------------------------------------------------------------ *)
(* 1. e4 e5 2. Nf3 from the initial position                                                    *)

Definition fm (f1 r1 f2 r2 : Z) : fmove := {| m_from := (f1, r1); m_to := (f2, r2); m_promo := None |}.
Definition fide_e4 : fmove := fm 4 1 4 3.
Definition fide_e5 : fmove := fm 4 6 4 4.
Definition fide_Nf3 : fmove := fm 6 0 5 2.
Definition open_game : list fmove := [fide_e4; fide_e5; fide_Nf3].

(* the state the specification computes, written out *)
Definition open_game_state : bstate := Eval vm_compute in fold_left apply open_game initial.

(* it is a game under the FIDE rules, from the FIDE initial position *)
Example open_game_is_fide_game : fide_game initial open_game open_game_state.
Proof. apply fide_game_b_spec. split; vm_compute; reflexivity. Qed.

(* a GUI writes it e2e4 e7e5 g1f3 *)
Example open_game_text : map fide_text open_game = toks "e2e4 e7e5 g1f3".
Proof. vm_compute. reflexivity. Qed.

(* the command: the searched position abstracts to the specification's state; three hashes on the stack *)
Example open_game_command :
  match go_position_cmd "startpos moves e2e4 e7e5 g1f3" with
  | NPSet g => abs (g_pos g) = open_game_state /\ List.length (g_hist g) = 3%nat /\ inv_b (g_pos g) = true
  | _ => False
  end.
Proof. vm_compute. auto. Qed.

Example open_game_state_facts :
  at_sq open_game_state (5, 2)%Z = Some {| p_color := White; p_type := Knight |} /\
  at_sq open_game_state (6, 0)%Z = None /\
  at_sq open_game_state (4, 4)%Z = Some {| p_color := Black; p_type := Pawn |} /\
  b_turn open_game_state = Black /\ b_ep open_game_state = None /\
  b_hmc open_game_state = 1%Z /\ b_full open_game_state = 2%Z.
Proof. vm_compute. repeat split; reflexivity. Qed.

(* the theorem gives the same without running the engine *)
Example open_game_by_theorem :
  exists g, go_position_cmd "startpos moves e2e4 e7e5 g1f3" = NPSet g /\ abs (g_pos g) = open_game_state /\
            Inv (g_pos g) /\ List.length (g_hist g) = 3%nat.
Proof.
  unfold go_position_cmd. change (toks "startpos moves e2e4 e7e5 g1f3") with (w_startpos :: w_moves :: toks "e2e4 e7e5 g1f3").
  rewrite <- open_game_text.
  apply (go_position_startpos_reconstructs open_game open_game_state open_game_is_fide_game).
  cbn. lia.
Qed.

(* ------------------------------------------------------------------------------------------ *)
(* en passant as a plain pawn move, castling as a king move, promotion by suffix - from a FEN     *)

Definition special_fen : string := "r3k2r/1P6/8/3pP3/8/8/8/R3K2R w KQkq d6 0 1".
Definition special_p0 : position := Eval vm_compute in get_pos (go_fen special_fen).

Definition fide_exd6 : fmove := fm 4 4 3 5.                        (* e5d6: the pawn on d5 disappears *)
Definition fide_OO : fmove := fm 4 7 6 7.                          (* e8g8: the rook goes h8 -> f8 *)
Definition fide_bxa8Q : fmove := {| m_from := (1, 6)%Z; m_to := (0, 7)%Z; m_promo := Some Queen |}.   (* b7a8q *)
Definition special_game : list fmove := [fide_exd6; fide_OO; fide_bxa8Q].
Definition special_state : bstate := Eval vm_compute in fold_left apply special_game (abs special_p0).

(* all the hypotheses of [position_fen_reconstructs] hold of this position and game *)
Example special_hyps :
  List.length (toks special_fen) = 6%nat /\
  new_from_fen go_keys unicode_digit_tbl (join_sp (toks special_fen)) = Ok special_p0 /\
  Inv special_p0 /\
  fide_game (abs special_p0) special_game special_state /\
  ply special_p0 + N.of_nat (List.length special_game) <= 255 /\
  hmc special_p0 + N.of_nat (List.length special_game) <= 255 /\
  N.of_nat (List.length special_game) <= se_history_size.
Proof.
  split; [vm_compute; reflexivity|]. split; [vm_compute; reflexivity|]. split; [vm_compute; reflexivity|].
  split; [apply fide_game_b_spec; split; vm_compute; reflexivity|].
  repeat split; vm_compute; discriminate.
Qed.

Example special_text : map fide_text special_game = toks "e5d6 e8g8 b7a8q".
Proof. vm_compute. reflexivity. Qed.

Example special_by_theorem :
  exists g, new_position_cmd go_keys unicode_digit_tbl se_history_size
              (w_fen :: toks special_fen ++ w_moves :: toks "e5d6 e8g8 b7a8q") = NPSet g /\
            abs (g_pos g) = special_state /\ Inv (g_pos g) /\ List.length (g_hist g) = 3%nat.
Proof.
  destruct special_hyps as (H1 & H2 & H3 & H4 & H5 & H6 & H7). rewrite <- special_text.
  destruct (position_fen_reconstructs go_keys unicode_digit_tbl se_history_size go_keys_wf
              (toks special_fen) special_p0 special_game special_state H1 H2 H3 H4 H5 H6 H7)
    as (g & C & A & I & L & _).
  exists g. auto.
Qed.

(* and by running the engine model *)
Example special_command :
  match go_position_cmd "fen r3k2r/1P6/8/3pP3/8/8/8/R3K2R w KQkq d6 0 1 moves e5d6 e8g8 b7a8q" with
  | NPSet g => abs (g_pos g) = special_state /\ List.length (g_hist g) = 3%nat
  | _ => False
  end.
Proof. vm_compute. auto. Qed.

Example special_state_facts :
  at_sq special_state (3, 4)%Z = None /\                                             (* the pawn taken en passant *)
  at_sq special_state (3, 5)%Z = Some {| p_color := White; p_type := Pawn |} /\
  at_sq special_state (6, 7)%Z = Some {| p_color := Black; p_type := King |} /\
  at_sq special_state (5, 7)%Z = Some {| p_color := Black; p_type := Rook |} /\     (* the castling rook *)
  at_sq special_state (7, 7)%Z = None /\
  at_sq special_state (0, 7)%Z = Some {| p_color := White; p_type := Queen |} /\    (* the promoted pawn *)
  at_sq special_state (1, 6)%Z = None /\
  b_rights special_state = {| wk := true; wq := true; bk := false; bq := false |} /\
  b_turn special_state = Black /\ b_hmc special_state = 0%Z /\ b_full special_state = 2%Z.
Proof. vm_compute. repeat split; reflexivity. Qed.

(* each single move through [uci_move_sound]: e.g. the en-passant capture written e5d6 is decoded to the
   EN_PASSANT move word *)
Example special_ep_word :
  move_from_string unicode_digit_tbl special_p0 (fide_text fide_exd6) = Ok (mk_move_kind 36 43 EN_PASSANT) /\
  decode (mk_move_kind 36 43 EN_PASSANT) = fide_exd6.
Proof. vm_compute. auto. Qed.

(* ------------------------------------------------------------------------------------------ *)
(* the counter bound of [position_fen_reconstructs] is needed: half-move clock 255 in the FEN and one
   quiet move - all other hypotheses hold; the engine's byte wraps to 0 where the specification says
   256. Placement, side, rights and en-passant target still agree ([position_fen_reconstructs_core]). *)
Definition wrap_fen : string := "4k3/8/8/8/8/8/8/4K3 w - - 255 100".
Definition wrap_p0 : position := Eval vm_compute in get_pos (go_fen wrap_fen).
Definition fide_Kd1 : fmove := fm 4 0 3 0.

Theorem position_fen_reconstructs_needs_hmc_bound :
  List.length (toks wrap_fen) = 6%nat /\
  new_from_fen go_keys unicode_digit_tbl (join_sp (toks wrap_fen)) = Ok wrap_p0 /\
  Inv wrap_p0 /\
  fide_game (abs wrap_p0) [fide_Kd1] (apply (abs wrap_p0) fide_Kd1) /\
  ply wrap_p0 + 1 <= 255 /\ hmc wrap_p0 = 255 /\
  exists g, new_position_cmd go_keys unicode_digit_tbl se_history_size
              (w_fen :: toks wrap_fen ++ w_moves :: map fide_text [fide_Kd1]) = NPSet g /\
    abs (g_pos g) <> apply (abs wrap_p0) fide_Kd1 /\
    b_hmc (abs (g_pos g)) = 0%Z /\ b_hmc (apply (abs wrap_p0) fide_Kd1) = 256%Z /\
    same_core (abs (g_pos g)) (apply (abs wrap_p0) fide_Kd1).
Proof.
  split; [vm_compute; reflexivity|]. split; [vm_compute; reflexivity|]. split; [vm_compute; reflexivity|].
  split; [apply fide_game_b_spec; split; vm_compute; reflexivity|].
  split; [vm_compute; discriminate|]. split; [vm_compute; reflexivity|].
  eexists. split; [vm_compute; reflexivity|].
  split; [intros E; apply (f_equal b_hmc) in E; vm_compute in E; discriminate E|].
  split; [vm_compute; reflexivity|]. split; [vm_compute; reflexivity|].
  unfold same_core. repeat split; vm_compute; reflexivity.
Qed.

Print Assumptions go_position_startpos_reconstructs.
Print Assumptions position_fen_reconstructs_needs_hmc_bound.
Print Assumptions go_position_startpos_reconstructs_600.
Print Assumptions open_game_by_theorem.
Print Assumptions special_by_theorem.
