(* C03, specification side, part 1: the UCI text of a move of the FIDE specification, written purely
   from its coordinates (file letter, rank digit, promotion letter) - no engine encoding involved -
   and the fact that Move.String prints exactly that text for the specification move [decode m] of
   EVERY 32-bit move word m. *)
From Coq Require Import NArith ZArith List Bool Lia ZifyBool ZifyN ZifyNat.
From Clemens Require Import Base.Res Base.Word Base.Bytes Pos.Types Att.Attacks Pos.Position Pos.Fen Pos.Inv
  Pos.ZobristProofs.
From Clemens.C03Text Require Import SquareText.
From Clemens.C01Att Require Import FideFacts.
From Clemens Require Import Rules.Abs Rules.Fide.
Import ListNotations.
Open Scope N_scope.

(* file letter 'a' + file, rank digit '1' + rank *)
Definition fide_sq_text (q : square) : bytes := [97 + Z.to_N (fst q); 49 + Z.to_N (snd q)].

(* the promotion suffix: n, b, r, q *)
Definition fide_promo_text (pr : option ptype) : bytes :=
  match pr with
  | Some Knight => [110]
  | Some Bishop => [98]
  | Some Rook => [114]
  | Some Queen => [113]
  | _ => []
  end.

(* UCI long algebraic notation of a specification move: castling is the king's move, the en-passant
   capture the pawn's move - the specification's move carries no kind *)
Definition fide_text (fm : fmove) : bytes :=
  fide_sq_text (m_from fm) ++ fide_sq_text (m_to fm) ++ fide_promo_text (m_promo fm).

Lemma fide_sq_text_abs (s : N) : fide_sq_text (abs_sq s) = sq_text s.
Proof. unfold fide_sq_text, abs_sq, sq_text. cbn [fst snd]. now rewrite !N2Z.id. Qed.

Lemma mv_promo_range (m : N) : mv_promo m = 1 \/ mv_promo m = 2 \/ mv_promo m = 3 \/ mv_promo m = 4.
Proof.
  unfold mv_promo. pose proof (N.mod_upper_bound (N.shiftr m 14) 4 ltac:(discriminate)) as H.
  replace (N.land (N.shiftr m 14) 3) with (N.shiftr m 14 mod 4)
    by (symmetry; exact (N.land_ones (N.shiftr m 14) 2)).
  lia.
Qed.

Lemma fide_promo_text_decode (m : N) : fide_promo_text (m_promo (decode m)) = uci_suffix (uci_promo m).
Proof.
  unfold decode, uci_promo. cbn [m_promo]. destruct (mv_kind m =? PROMOTION); [|reflexivity].
  cbn [uci_suffix]. destruct (mv_promo_range m) as [-> | [-> | [-> | ->]]]; reflexivity.
Qed.

(* Move.String of any move word is the coordinate text of its specification move *)
Theorem fide_text_decode (m : N) : move_to_string m = Ok (fide_text (decode m)).
Proof.
  rewrite move_to_string_text. unfold fide_text, uci_text.
  rewrite fide_promo_text_decode. unfold decode. cbn [m_from m_to].
  now rewrite !fide_sq_text_abs.
Qed.

(* the text determines the specification move (on the board, with a promotion piece the notation has a
   letter for): the GUI's text is unambiguous *)
Lemma fide_sq_text_inj (a b : square) :
  Fide.on_board a = true -> Fide.on_board b = true -> fide_sq_text a = fide_sq_text b -> a = b.
Proof.
  destruct a as [fa ra], b as [fb rb]. unfold Fide.on_board, fide_sq_text. cbn [fst snd].
  intros Ha Hb E. cbv beta iota in Ha, Hb.
  pose proof (f_equal (fun l => nth 0 l 0) E) as E1. pose proof (f_equal (fun l => nth 1 l 0) E) as E2.
  cbv beta in E1, E2. cbn [nth] in E1, E2. f_equal; lia.
Qed.

Lemma fide_promo_text_inj (a b : option ptype) :
  In a promo_options -> In b promo_options -> fide_promo_text a = fide_promo_text b -> a = b.
Proof.
  unfold promo_options. cbn [In].
  intros [<-|[<-|[<-|[<-|[<-|[]]]]]] [<-|[<-|[<-|[<-|[<-|[]]]]]]; cbn [fide_promo_text]; intros E;
    try reflexivity; discriminate E.
Qed.

(* over the candidate moves (squares on the board; no promotion piece, or N, B, R, Q) the text
   identifies the move; in particular over the legal moves of any state *)
Theorem fide_text_inj (a b : fmove) : In a candidates -> In b candidates -> fide_text a = fide_text b -> a = b.
Proof.
  intros Ha Hb E. apply in_candidates in Ha, Hb. destruct Ha as (A1 & A2 & A3), Hb as (B1 & B2 & B3).
  apply all_squares_on in A1, A2, B1, B2.
  unfold fide_text in E.
  pose proof (f_equal (firstn 2) E) as E1. pose proof (f_equal (fun l => firstn 2 (skipn 2 l)) E) as E2.
  pose proof (f_equal (skipn 4) E) as E3. cbv beta in E2.
  unfold fide_sq_text in E1, E2, E3. cbn [app firstn skipn] in E1, E2, E3.
  apply (fide_sq_text_inj _ _ A1 B1) in E1. apply (fide_sq_text_inj _ _ A2 B2) in E2.
  apply (fide_promo_text_inj _ _ A3 B3) in E3.
  destruct a as [a1 a2 a3], b as [b1 b2 b3]. cbn [m_from m_to m_promo] in *. congruence.
Qed.

Corollary fide_text_legal_inj (s : bstate) (a b : fmove) :
  In a (Fide.legal_moves s) -> In b (Fide.legal_moves s) -> fide_text a = fide_text b -> a = b.
Proof.
  unfold Fide.legal_moves. rewrite !filter_In. intros [Ha _] [Hb _]. now apply fide_text_inj.
Qed.

Print Assumptions fide_text_decode.
Print Assumptions fide_text_legal_inj.
