(* The whole engine as a sequential function of its input lines: pkg/uci/uci.go (Run's read loop),
   pkg/uci/input.go (handleInput), pkg/uci/game/game.go (IsReady, NewPosition, StartSearch with the body
   of the goroutine it starts, StopSearch) and search.Search with contextFromSearchParameter, composed
   from the models of their parts (Uci/Input.v, Uci/Game.v, Uci/ParseGo.v, Search/Time.v,
   Search/Negamax.v).  Model file: no proofs here.

   SEQUENTIAL means: a `go` is run to its `bestmove` before the next line is read - the dialogue of a
   GUI that waits for the answer (what interleavings of reader and search thread can do beyond that is
   the subject of Uci/Conc.v and property C06).  Time enters as the oracle of Search/Negamax.v: each
   line comes with [c : option N], for a `go` the index of the first poll of the search context that
   reports "done" (a stop or the expired deadline), [None] when no poll does.

   The shared tables (transposition table, evaluation cache) are process-global in Go and survive
   `ucinewgame` and `position`; they are fields of the engine state here.  The Search object is created
   by NewPosition; its killer/history/counter tables and its PV start empty for every `go` because a
   second `go` without a new `position` is refused (state IDLE).

   [render] gives the exact bytes of every line written to stdout, with the two fields that depend
   on the wall clock (time, nps) replaced by "*". *)
From Coq Require Import NArith ZArith List Bool String Ascii FMapPositive.
From Clemens Require Import Base.Res Base.Word Base.Bytes Pos.Types Att.Attacks Pos.Position Pos.Fen
     Eval.Eval Search.TT Search.Ordering Search.Negamax Search.Time Uci.ParseGo Uci.Input Uci.Game.
Import ListNotations.
Open Scope list_scope.
Open Scope N_scope.

(* state.State *)
Definition ST_IDLE : N := 0.
Definition ST_POSITION_SET : N := 1.
Definition ST_RUNNING : N := 2.

Inductive pos_msg :=
| PMWrongState                 (* info string wrong idle state to set new position *)
| PMNoTokens                   (* info string no new position set *)
| PMFenShort                   (* info string fen string to short, no new position set *)
| PMFenBroken                  (* info string broken fen string, <error> *)
| PMMoveError (tok : bytes).   (* info string error while making move <tok>, <error> *)

(* everything the engine writes to stdout, one constructor per fmt.Print* call *)
Inductive oev :=
| OUci                         (* the three lines of the answer to "uci", one Printf *)
| OReadyOk
| OPos (m : pos_msg)
| ONoPosition                  (* info string no position is set *)
| OGo (e : event)              (* what parseGo prints *)
| OTimeout (ms : Z)            (* info string calculated timeout <ms> *)
| OSearch (e : sevent)         (* info depth ... / info string windows ... *)
| OBestMove (m : N).

Record engine := {
  en_state : N;
  en_game : option game_pos;   (* g.search: root position and repetition stack *)
  en_tt : tt_state;
  en_cache : ecache
}.

Inductive eres :=
| EOk (e : engine) (out : list oev)
| EQuit                        (* os.Exit(0) *)
| EPanic (out : list oev)      (* the process dies with a Go panic (after having printed [out]) *)
| EStuck.                      (* a bound of the model was hit (loop bound, recursion fuel): never, see C05 *)

Section Engine.
Variable K : zkeys.
Variable EC : econsts.
Variable OC : oconsts.
Variable SC : sconsts.
Variable digit_tbl : list (N * N * N).
Variable valid : list token.       (* validFirstInputToken *)
Variable max_ms : Z.               (* maxTimeInMs *)
Variable tt0 : tt_state.           (* the zero-initialised transposition table *)
Variables iters fuel : nat.        (* bounds of the search model *)

Definition engine_init : engine :=
  {| en_state := ST_IDLE; en_game := None; en_tt := tt0; en_cache := [] |}.

Definition set_state (e : engine) (st : N) : engine :=
  {| en_state := st; en_game := en_game e; en_tt := en_tt e; en_cache := en_cache e |}.

(* ---------------------------------------------------------------- NewPosition *)
(* the tokens after "moves" (as NewPosition sees them), for the text of a move error *)
Definition moves_of (tokens : list bytes) : list bytes :=
  let rest := match tokens with
              | t :: r => if bytes_eqb t w_startpos then r else if bytes_eqb t w_fen then skipn 6 r else r
              | [] => []
              end in
  match rest with
  | mv :: ms => if bytes_eqb mv w_moves then ms else []
  | [] => []
  end.

Definition new_position (e : engine) (tokens : list bytes) : eres :=
  if en_state e =? ST_RUNNING then EOk e [OPos PMWrongState] else
  match tokens with
  | [] => EOk e [OPos PMNoTokens]
  | t :: _ =>
    match new_position_cmd K digit_tbl (sc_hist_size SC) tokens with
    | NPNone _ =>
      (* the only ways to no search object: too few FEN fields, or a FEN that does not parse *)
      if bytes_eqb t w_fen && (N.of_nat (List.length tokens) <? 7)
      then EOk e [OPos PMFenShort] else EOk e [OPos PMFenBroken]
    | NPSet g =>
      EOk {| en_state := ST_POSITION_SET; en_game := Some g; en_tt := en_tt e; en_cache := en_cache e |} []
    | NPMoveError g =>
      let tok := nth (List.length (g_hist g)) (moves_of tokens) [] in
      EOk {| en_state := ST_POSITION_SET; en_game := Some g; en_tt := en_tt e; en_cache := en_cache e |}
          [OPos (PMMoveError tok)]
    | NPPanic => EPanic []
    end
  end.

(* ---------------------------------------------------------------- StartSearch + the search goroutine *)
Definition to_go_params (sp : search_params) : go_params :=
  {| gp_wtime := sp_wtime sp; gp_btime := sp_btime sp; gp_winc := sp_winc sp; gp_binc := sp_binc sp;
     gp_movestogo := sp_movestogo sp; gp_movetime := sp_movetime sp |}.

Definition init_sst (t : tt_state) (c : ecache) (hist : list N) (cancel : option N) : sst :=
  {| s_tt := t; s_cache := c; s_nodes := 0; s_killers := PositiveMap.empty _; s_history := PositiveMap.empty _;
     s_counter := PositiveMap.empty _; s_hist := hist; s_pv := nil; s_out := nil; s_polls := 0; s_cancel := cancel |}.

Definition start_search (e : engine) (tokens : list token) (c : option N) : eres :=
  match en_game e with
  | Some g =>
    if negb (en_state e =? ST_POSITION_SET) then EOk e [ONoPosition] else
    match parse_go tokens with
    | Panic => EPanic []
    | Err => EStuck
    | Ok (sp, evs) =>
      let root := g_pos g in
      let hist := rev (g_hist g) in                    (* newest first *)
      (* contextFromSearchParameter: no deadline (and no line) for an infinite search *)
      let tmo := if sp_infinite sp then []
                 else [OTimeout (calc_time max_ms (side root =? BLACK) (Z.of_nat (List.length hist))
                                           (to_go_params sp))] in
      let pre := map OGo evs ++ tmo in
      match search K EC OC SC iters fuel true (init_sst (en_tt e) (en_cache e) hist c) root
                   (Z.to_N (sp_depth sp)) with
      | (ROk m, s') =>
        EOk {| en_state := ST_IDLE; en_game := Some g; en_tt := s_tt s'; en_cache := s_cache s' |}
            (pre ++ map OSearch (rev (s_out s')) ++ [OBestMove m])
      | (RPanic, s') => EPanic (pre ++ map OSearch (rev (s_out s')))
      | (_, _) => EStuck
      end
    end
  | None => EOk e [ONoPosition]
  end.

(* ---------------------------------------------------------------- handleInput *)
Definition handle (e : engine) (line : bytes) (c : option N) : eres :=
  match handle_line valid line with
  | CUci => EOk e [OUci]
  | CQuit => EQuit
  | CIsReady => EOk e [OReadyOk]
  | CNewGame =>                                  (* g = game.New(); the tables are not reset *)
    EOk {| en_state := ST_IDLE; en_game := None; en_tt := en_tt e; en_cache := en_cache e |} []
  | CPosition ts => new_position e ts
  | CGo ts => start_search e ts c
  | CStop => EOk e []                            (* StopSearch: state is not RUNNING between two lines *)
  | CNone => EOk e []
  end.

(* Run: the read loop. The result carries everything printed up to the end of the input, the quit
   or the crash. *)
Inductive session_end := SEof (e : engine) | SQuit | SPanic | SStuck.

Fixpoint run (e : engine) (ls : list (bytes * option N)) : session_end * list oev :=
  match ls with
  | [] => (SEof e, [])
  | (l, c) :: r =>
    match handle e l c with
    | EOk e' out => let '(fin, out') := run e' r in (fin, out ++ out')
    | EQuit => (SQuit, [])
    | EPanic out => (SPanic, out)
    | EStuck => (SStuck, [])
    end
  end.

End Engine.

(* ---------------------------------------------------------------- the text of the output *)
Definition bs (s : string) : bytes := map N_of_ascii (list_ascii_of_string s).

Definition star : bytes := [42].

Fixpoint join_moves (ms : list N) : bytes :=
  match ms with
  | [] => []
  | [m] => match move_to_string m with Ok t => t | _ => [63] end
  | m :: r => (match move_to_string m with Ok t => t | _ => [63] end) ++ 32 :: join_moves r
  end.

(* the constant pieces of text, as byte lists (no Coq string survives into the extracted code) *)
Definition t_0 : bytes := Eval compute in bs "id name ".
Definition t_1 : bytes := Eval compute in bs "id author ".
Definition t_2 : bytes := Eval compute in bs "uciok".
Definition t_readyok : bytes := Eval compute in bs "readyok".
Definition t_4 : bytes := Eval compute in bs "info string wrong idle state to set new position".
Definition t_5 : bytes := Eval compute in bs "info string no new position set".
Definition t_6 : bytes := Eval compute in bs "info string fen string to short, no new position set".
Definition t_7 : bytes := Eval compute in bs "info string broken fen string, ".
Definition t_8 : bytes := Eval compute in bs "info string error while making move ".
Definition t_9 : bytes := Eval compute in bs ", ".
Definition t_no_position : bytes := Eval compute in bs "info string no position is set".
Definition t_timeout : bytes := Eval compute in bs "info string calculated timeout ".
Definition t_info_depth : bytes := Eval compute in bs "info depth ".
Definition t_13 : bytes := Eval compute in bs " score cp ".
Definition t_14 : bytes := Eval compute in bs " time ".
Definition t_15 : bytes := Eval compute in bs " nodes ".
Definition t_16 : bytes := Eval compute in bs " nps ".
Definition t_17 : bytes := Eval compute in bs " hashfull ".
Definition t_18 : bytes := Eval compute in bs " pv ".
Definition t_19 : bytes := Eval compute in bs "info string windows [".
Definition t_20 : bytes := Eval compute in bs ",".
Definition t_21 : bytes := Eval compute in bs "] too small for value ".
Definition t_22 : bytes := Eval compute in bs ". Re-run search.".
Definition t_bestmove : bytes := Eval compute in bs "bestmove ".

Section Render.
Variables name version author : bytes.         (* pkg/metadata *)

(* [None]: the line contains the text of a Go error value that is not modelled (FEN and move
   errors); only its prefix is given then *)
Definition render (o : oev) : list bytes * bool :=
  match o with
  | OUci => ([t_0 ++ name ++ 32 :: version; t_1 ++ author; t_2], true)
  | OReadyOk => ([t_readyok], true)
  | OPos PMWrongState => ([t_4], true)
  | OPos PMNoTokens => ([t_5], true)
  | OPos PMFenShort => ([t_6], true)
  | OPos PMFenBroken => ([t_7], false)
  | OPos (PMMoveError tok) => ([t_8 ++ tok ++ t_9], false)
  | ONoPosition => ([t_no_position], true)
  | OGo ev => ([event_text ev], true)
  | OTimeout ms => ([t_timeout ++ itoa_z ms], true)
  | OSearch (EInfo d sc n h pv) =>
      ([t_info_depth ++ itoa d ++ t_13 ++ itoa_z sc ++ t_14 ++ star ++
        t_15 ++ itoa n ++ t_16 ++ star ++ t_17 ++ itoa h ++ t_18 ++ join_moves pv], true)
  | OSearch (EWindow a b v) =>
      ([t_19 ++ itoa_z a ++ t_20 ++ itoa_z b ++ t_21 ++
        itoa_z v ++ t_22], true)
  | OBestMove m => ([t_bestmove ++ join_moves [m]], true)
  end.
End Render.
