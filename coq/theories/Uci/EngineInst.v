(* The sequential engine model (Uci/Engine.v) instantiated with the constants of the current Go build.
   [go_handle], [go_run]: loop bound and recursion fuel as parameters (C05: 510 and 1282 always suffice). *)
From Coq Require Import NArith ZArith List.
From Clemens Require Import Base.Res Base.Bytes Pos.Position Eval.Eval Search.TT Search.Negamax Search.GoInst
     Uci.ParseGo Uci.Input Uci.Game Uci.Engine.
From ClemensGen Require Import GoConsts.

Definition go_engine_init : engine := engine_init go_tt_init.
Definition go_handle (iters fuel : nat) : engine -> bytes -> option N -> eres :=
  handle go_keys go_econsts go_oconsts go_sconsts unicode_digit_tbl validFirstInputToken maxTimeInMs iters fuel.
Definition go_run (iters fuel : nat) : engine -> list (bytes * option N) -> session_end * list oev :=
  run go_keys go_econsts go_oconsts go_sconsts unicode_digit_tbl validFirstInputToken maxTimeInMs iters fuel.
Definition go_render : oev -> list bytes * bool := render md_name md_version md_author.
