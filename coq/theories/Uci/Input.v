(* Model of pkg/uci/input.go: prepareInput, removePrefixGarbage and the dispatch of handleInput.

   [validFirstInputToken] is generated data (coq/gen/GoConsts.v); the model takes it as the
   parameter [valid].

   strings.Fields splits on Unicode white space; it is TRUSTED, and modelled here at the byte
   level for ASCII white space only ([fields]: tab, LF, VT, FF, CR, space). Lines that contain
   a UTF-8 encoded non-ASCII space (U+0085, U+00A0, U+1680, U+2000..U+200A, U+2028, U+2029,
   U+202F, U+205F, U+3000) are outside [fields]; everything after the split ([dispatch]) is
   modelled for arbitrary byte tokens.

   In removePrefixGarbage [ss[0]] and [ss[1:]] are guarded by [len(ss) == 0] two lines above;
   the pattern match below is exactly that guard. The same holds for [tokens[0]], [tokens[1:]]
   in handleInput ([if len(tokens) == 0 { return }]).

   No proofs here (model file). *)
From Coq Require Import NArith List Bool String.
Open Scope string_scope.
From Clemens Require Import Base.Res Uci.ParseGo.
Import ListNotations.

(* ---------------------------------------------------------------- strings.Fields, ASCII *)

Definition is_space (c : N) : bool :=
  ((c =? 9) || (c =? 10) || (c =? 11) || (c =? 12) || (c =? 13) || (c =? 32))%N.

(* [cur]: the bytes of the field being read, last byte first *)
Fixpoint fields_aux (s : list N) (cur : list N) : list token :=
  match s with
  | [] => match cur with [] => [] | _ => [rev cur] end
  | c :: s' =>
    if is_space c then
      match cur with [] => fields_aux s' [] | _ => rev cur :: fields_aux s' [] end
    else fields_aux s' (c :: cur)
  end.
Definition fields (s : list N) : list token := fields_aux s [].

(* ---------------------------------------------------------------- removePrefixGarbage *)

Definition valid_first (valid : list token) (t : token) : bool := existsb (tok_eqb t) valid.

Fixpoint remove_prefix_garbage (valid : list token) (ss : list token) : list token :=
  match ss with
  | [] => []
  | t :: rest => if valid_first valid t then ss else remove_prefix_garbage valid rest
  end.

Definition prepare_input (valid : list token) (line : list N) : list token :=
  remove_prefix_garbage valid (fields line).

(* ---------------------------------------------------------------- handleInput *)

(* What a line is dispatched to. [CNone]: nothing is called and nothing is printed. *)
Inductive cmd :=
| CUci | CQuit | CIsReady | CNewGame
| CPosition (ts : list token) | CGo (ts : list token) | CStop | CNone.

Definition w_uci : token := Eval compute in bytes_of_string "uci".
Definition w_quit : token := Eval compute in bytes_of_string "quit".
Definition w_isready : token := Eval compute in bytes_of_string "isready".
Definition w_ucinewgame : token := Eval compute in bytes_of_string "ucinewgame".
Definition w_position : token := Eval compute in bytes_of_string "position".
Definition w_go : token := Eval compute in bytes_of_string "go".
Definition w_stop : token := Eval compute in bytes_of_string "stop".

(* the words handleInput's switch has a case for *)
Definition command_words : list token :=
  [w_uci; w_quit; w_isready; w_ucinewgame; w_position; w_go; w_stop].

(* [dispatch valid ss]: handleInput from the result [ss] of strings.Fields on.
   "debug", "setoption", "ponderhit" are valid first tokens (they stop the skipping) for which
   the switch has no case: such a line is ignored. *)
Definition dispatch (valid : list token) (ss : list token) : cmd :=
  match remove_prefix_garbage valid ss with
  | [] => CNone
  | c :: tokens =>
    if tok_eqb c w_uci then CUci
    else if tok_eqb c w_quit then CQuit
    else if tok_eqb c w_isready then CIsReady
    else if tok_eqb c w_ucinewgame then CNewGame
    else if tok_eqb c w_position then CPosition tokens
    else if tok_eqb c w_go then CGo tokens
    else if tok_eqb c w_stop then CStop
    else CNone
  end.

Definition handle_line (valid : list token) (line : list N) : cmd := dispatch valid (fields line).
