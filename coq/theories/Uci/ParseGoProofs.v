(* Proofs about the parseGo model (Uci/ParseGo.v) against the specification (Uci/GoLineSpec.v). *)
From Coq Require Import NArith ZArith List Bool Lia.
From Clemens Require Import Base.Res Uci.ParseGo Uci.GoLineSpec.
Import ListNotations.

(* ------------------------------------------------------------------ token equality *)

Lemma tok_eqb_eq a b : tok_eqb a b = true <-> a = b.
Proof.
  revert b. induction a as [|x a IH]; intros [|y b]; cbn [tok_eqb]; split; intros H;
    try reflexivity; try discriminate.
  - apply andb_true_iff in H. destruct H as [H1 H2].
    apply N.eqb_eq in H1. apply IH in H2. congruence.
  - injection H as -> ->. rewrite N.eqb_refl. cbn. apply IH. reflexivity.
Qed.

Lemma tok_eqb_refl a : tok_eqb a a = true.
Proof. apply tok_eqb_eq. reflexivity. Qed.

(* ------------------------------------------------------------------ totality *)

Lemma int_case_result k on_err on_ok ack tokens sp evs :
  (exists sp' evs', int_case k on_err on_ok ack tokens sp evs = Ok (Return sp' evs')) \/
  (exists v rest sp' evs', tokens = v :: rest /\
     int_case k on_err on_ok ack tokens sp evs = Ok (Continue rest sp' evs')).
Proof.
  unfold int_case. destruct tokens as [|v rest]; cbn [is_empty index0 slice1 bind].
  - left. eauto.
  - destruct (atoi v) as [n [e|]].
    + left. eauto.
    + right. exists v, rest. eauto.
Qed.

(* The repaired loop body never panics on a non-empty slice and always consumes a token. *)
Lemma step_repaired_result t rest sp evs :
  (exists sp' evs', step true (t :: rest) sp evs = Ok (Return sp' evs')) \/
  (exists tokens' sp' evs', step true (t :: rest) sp evs = Ok (Continue tokens' sp' evs') /\
     (length tokens' < length (t :: rest))%nat).
Proof.
  unfold step. cbn [index0 slice1 bind].
  repeat match goal with
  | |- context [if tok_eqb t ?w then _ else _] => destruct (tok_eqb t w)
  end;
  try (left; eauto; fail);
  try (match goal with
       | |- context [int_case ?k ?a ?b ?c rest sp evs] =>
         destruct (int_case_result k a b c rest sp evs) as
           [(sp' & evs' & ->)|(v & r & sp' & evs' & -> & ->)];
         [left; eauto | right; do 3 eexists; split; [reflexivity | cbn [length]; lia]]
       end).
  right. do 3 eexists. split; [reflexivity | cbn [length]; lia].
Qed.

(* Whatever the variant, a [Continue] hands back strictly fewer tokens. *)
Lemma step_shrinks r tokens sp evs tokens' sp' evs' :
  step r tokens sp evs = Ok (Continue tokens' sp' evs') ->
  (length tokens' < length tokens)%nat.
Proof.
  destruct tokens as [|t rest]; [discriminate|].
  unfold step. cbn [index0 slice1 bind].
  repeat match goal with
  | |- context [if tok_eqb t ?w then _ else _] => destruct (tok_eqb t w)
  end;
  try discriminate;
  try (match goal with
       | |- context [int_case ?k ?a ?b ?c rest sp evs] =>
         destruct (int_case_result k a b c rest sp evs) as
           [(sp1 & evs1 & ->)|(v & r1 & sp1 & evs1 & -> & ->)];
         [discriminate | intros H; injection H as <- _ _; cbn [length]; lia]
       end).
  destruct r.
  - intros H; injection H as <- _ _. cbn [length]; lia.
  - destruct rest as [|x rest']; cbn [slice1 bind]; [discriminate|].
    intros H; injection H as <- _ _. cbn [length]; lia.
Qed.

Lemma go_loop_returns fuel : forall tokens sp evs,
  (length tokens <= fuel)%nat -> exists r, go_loop true fuel tokens sp evs = Ok r.
Proof.
  induction fuel as [|fuel IH]; intros tokens sp evs Hlen.
  - destruct tokens; [|cbn [length] in Hlen; lia]. cbn. eauto.
  - destruct tokens as [|t rest]; [cbn; eauto|].
    cbn [go_loop is_empty].
    destruct (step_repaired_result t rest sp evs) as
      [(sp' & evs' & ->)|(tokens' & sp' & evs' & -> & Hlt)].
    + eauto.
    + apply IH. cbn [length] in *. lia.
Qed.

(* parseGo (repaired) returns normally on every token list: no panic, and the model's fuel
   is never exhausted. *)
Lemma parse_go_returns ts : exists r, parse_go ts = Ok r.
Proof. unfold parse_go, parse_go_gen. apply go_loop_returns. lia. Qed.

Lemma parse_go_total ts : parse_go ts <> Panic.
Proof. destruct (parse_go_returns ts) as [r ->]. discriminate. Qed.

(* D3: the code as it stood panics on `go infinite`. *)
Lemma unrepaired_panics : exists ts, parse_go_unrepaired ts = Panic.
Proof. exists [kw_infinite]. vm_compute. reflexivity. Qed.

(* ... and silently drops what follows `infinite`: `go infinite depth 5` loses the depth *)
Lemma unrepaired_drops_depth :
  exists sp evs, parse_go_unrepaired [kw_infinite; kw_depth; [53%N]] = Ok (sp, evs) /\ sp_depth sp = 0%Z.
Proof. vm_compute. eauto. Qed.

(* ------------------------------------------------------------------ fuel is irrelevant *)

Lemma go_loop_fuel r f1 : forall f2 tokens sp evs,
  (length tokens <= f1)%nat -> (length tokens <= f2)%nat ->
  go_loop r f1 tokens sp evs = go_loop r f2 tokens sp evs.
Proof.
  induction f1 as [|f1 IH]; intros f2 tokens sp evs H1 H2.
  - destruct tokens; [|cbn [length] in H1; lia]. destruct f2; reflexivity.
  - destruct tokens as [|t rest]; [destruct f2; reflexivity|].
    destruct f2 as [|f2]; [cbn [length] in H2; lia|].
    cbn [go_loop is_empty].
    destruct (step r (t :: rest) sp evs) as [[tokens' sp' evs'|sp' evs']| |] eqn:E; try reflexivity.
    apply step_shrinks in E. apply IH; cbn [length] in *; lia.
Qed.

(* the loop with exactly the fuel parse_go gives it *)
Definition run (tokens : list token) (sp : search_params) (evs : list event) :=
  go_loop true (length tokens) tokens sp evs.

Lemma run_nil sp evs : run [] sp evs = Ok (sp, evs).
Proof. reflexivity. Qed.

Lemma run_step_continue t rest sp evs tokens' sp' evs' :
  step true (t :: rest) sp evs = Ok (Continue tokens' sp' evs') ->
  run (t :: rest) sp evs = run tokens' sp' evs'.
Proof.
  intros E. unfold run. cbn [length go_loop is_empty]. rewrite E.
  apply step_shrinks in E. apply go_loop_fuel; cbn [length] in *; lia.
Qed.

Lemma run_step_return t rest sp evs sp' evs' :
  step true (t :: rest) sp evs = Ok (Return sp' evs') ->
  run (t :: rest) sp evs = Ok (sp', evs').
Proof. intros E. unfold run. cbn [length go_loop is_empty]. rewrite E. reflexivity. Qed.

(* ------------------------------------------------------------------ atoi (itoa v) = v *)

Definition val (s : list N) (n0 : N) : N :=
  fold_left (fun a c => (a * 10 + (c - 48))%N) s n0.

Lemma val_ge s : forall n0, (n0 <= val s n0)%N.
Proof.
  induction s as [|c s IH]; intros n0; cbn [val fold_left]; [lia|].
  etransitivity; [|apply IH]. lia.
Qed.

Lemma scan_val s : forall n0,
  forallb is_digit s = true -> (val s n0 < two64)%N -> scan s n0 = SOk (val s n0).
Proof.
  induction s as [|c s IH]; intros n0 Hd Hv; [reflexivity|].
  cbn [forallb] in Hd. apply andb_true_iff in Hd. destruct Hd as [Hc Hs].
  cbn [scan]. rewrite Hc.
  change (val (c :: s) n0) with (val s (n0 * 10 + (c - 48))%N) in *.
  pose proof (val_ge s (n0 * 10 + (c - 48))%N) as Hge.
  destruct (N.leb_spec two64 (n0 * 10 + (c - 48))%N) as [Hle|Hlt]; [lia|].
  apply IH; assumption.
Qed.

Lemma digits_all_digits fuel : forall n acc,
  forallb is_digit acc = true -> forallb is_digit (digits fuel n acc) = true.
Proof.
  induction fuel as [|fuel IH]; intros n acc Hacc; cbn [digits]; [assumption|].
  assert (Hd : forallb is_digit ((48 + n mod 10)%N :: acc) = true).
  { cbn [forallb]. rewrite Hacc, andb_true_r. unfold is_digit.
    pose proof (N.mod_upper_bound n 10 ltac:(lia)) as Hm. revert Hm. generalize (n mod 10)%N. intros m Hm.
    apply andb_true_iff. split; apply N.leb_le; lia. }
  destruct (n <? 10)%N; [assumption|]. apply IH. assumption.
Qed.

Lemma digits_val fuel : forall n acc,
  (n < 10 ^ N.of_nat fuel)%N -> val (digits fuel n acc) 0 = val acc n.
Proof.
  induction fuel as [|fuel IH]; intros n acc Hn.
  - cbn in Hn. assert (n = 0%N) by lia. subst. reflexivity.
  - cbn [digits].
    destruct (N.ltb_spec n 10) as [Hlt|Hge].
    + unfold val. cbn [fold_left]. rewrite N.mod_small by assumption. f_equal. lia.
    + rewrite IH.
      * unfold val. cbn [fold_left]. f_equal.
        pose proof (N.div_mod n 10 ltac:(lia)) as Hdm. revert Hdm.
        generalize (n / 10)%N (n mod 10)%N. intros q m Hdm. lia.
      * rewrite Nnat.Nat2N.inj_succ, N.pow_succ_r' in Hn.
        apply N.div_lt_upper_bound; lia.
Qed.

Lemma digits_app fuel : forall n acc, digits fuel n acc = digits fuel n [] ++ acc.
Proof.
  induction fuel as [|fuel IH]; intros n acc; cbn [digits]; [reflexivity|].
  destruct (n <? 10)%N; [reflexivity|].
  rewrite IH. rewrite (IH _ [_]). rewrite <- app_assoc. reflexivity.
Qed.

Lemma digits_S f n acc :
  digits (S f) n acc =
  if (n <? 10)%N then (48 + n mod 10)%N :: acc else digits f (n / 10)%N ((48 + n mod 10)%N :: acc).
Proof. reflexivity. Qed.

Lemma digits_nonempty f n acc : digits (S f) n acc <> [].
Proof.
  rewrite digits_S. destruct (n <? 10)%N; [discriminate|].
  rewrite digits_app. destruct (digits f (n / 10) []); discriminate.
Qed.

Definition ten20 : N := Eval compute in (10 ^ 20)%N.

Lemma itoa_n_spec n : (n < two64)%N ->
  forallb is_digit (itoa_n n) = true /\ val (itoa_n n) 0 = n /\
  exists c r, itoa_n n = c :: r /\ is_digit c = true.
Proof.
  intros Hn. unfold itoa_n.
  assert (Hall : forallb is_digit (digits 20 n []) = true) by (apply digits_all_digits; reflexivity).
  split; [assumption|]. split.
  - rewrite digits_val; [reflexivity|].
    change (10 ^ N.of_nat 20)%N with ten20. unfold ten20, two64 in *. lia.
  - destruct (digits 20 n []) as [|c r] eqn:E.
    + exfalso. exact (digits_nonempty _ _ _ E).
    + exists c, r. split; [reflexivity|]. cbn [forallb] in Hall.
      apply andb_true_iff in Hall. tauto.
Qed.

Lemma digit_not_sign c : is_digit c = true -> (c =? 43)%N = false /\ (c =? 45)%N = false.
Proof.
  unfold is_digit. intros H. apply andb_true_iff in H. destruct H as [H1 H2].
  apply N.leb_le in H1. split; apply N.eqb_neq; lia.
Qed.

Lemma atoi_body_val neg s :
  s <> [] -> forallb is_digit s = true -> (val s 0 < two64)%N ->
  atoi_body neg s =
  if neg then
    if (two63 <? val s 0)%N then (min_int, Some ERange) else ((- Z.of_N (val s 0))%Z, None)
  else
    if (two63 <=? val s 0)%N then (max_int, Some ERange) else (Z.of_N (val s 0), None).
Proof.
  intros Hne Hd Hv. unfold atoi_body. destruct s as [|c r]; [congruence|].
  rewrite scan_val by assumption. reflexivity.
Qed.

Lemma atoi_itoa z : (min_int <= z <= max_int)%Z -> atoi (itoa z) = (z, None).
Proof.
  unfold min_int, max_int. intros Hz.
  destruct z as [|p|p].
  - vm_compute. reflexivity.
  - cbn [itoa]. set (n := Z.to_N (Z.pos p)).
    assert (Hn : (n < two63)%N) by (unfold two63, n; lia).
    destruct (itoa_n_spec n) as (Hall & Hval & c & r & E & Hc); [unfold two63, two64 in *; lia|].
    unfold atoi. rewrite E. destruct (digit_not_sign c Hc) as [-> ->].
    rewrite <- E. rewrite atoi_body_val; rewrite ?Hval; try assumption;
      [|rewrite E; discriminate|unfold two63, two64 in *; lia].
    destruct (N.leb_spec two63 n); [lia|]. unfold n. rewrite Z2N.id by lia. reflexivity.
  - cbn [itoa]. set (n := N.pos p).
    assert (Hn : (n <= two63)%N) by (unfold two63, n; lia).
    destruct (itoa_n_spec n) as (Hall & Hval & c & r & E & Hc); [unfold two63, two64 in *; lia|].
    unfold atoi. change ((45 =? 45)%N) with true. cbv iota.
    rewrite atoi_body_val; rewrite ?Hval; try assumption;
      [|rewrite E; discriminate|unfold two63, two64 in *; lia].
    destruct (N.ltb_spec two63 n); [lia|]. reflexivity.
Qed.

(* ------------------------------------------------------------------ one parameter, one step *)

(* what one well-formed parameter does to the record *)
Definition store (k : kw) (v : Z) (sp : search_params) : search_params :=
  match k with
  | KWtime => set_wtime v sp | KBtime => set_btime v sp
  | KWinc => set_winc v sp | KBinc => set_binc v sp
  | KMovestogo => set_movestogo v sp | KMovetime => set_movetime v sp
  | KDepth => set_depth (u8 v) sp
  | KNodes | KMate => sp
  end.
Definition apply_param (sp : search_params) (p : param) : search_params :=
  match p with PInt k v => store k v sp | PInfinite => set_infinite true sp end.
Definition apply_all (ps : list param) (sp : search_params) : search_params :=
  fold_left apply_param ps sp.

(* the record after a failed Atoi in case [k]: the time fields are assigned Atoi's result *)
Definition store_err (k : kw) (n : Z) (sp : search_params) : search_params :=
  match k with
  | KDepth | KNodes | KMate => sp
  | _ => store k n sp
  end.

Definition ack_kw (k : kw) : list event :=
  match k with KNodes => [EvNotImpl KNodes] | KMate => [EvNotImpl KMate] | _ => [] end.

(* the switch reaches the right case for each keyword *)
Lemma step_kw k tokens sp evs :
  step true (kw_token k :: tokens) sp evs =
  int_case k (store_err k) (store k) (ack_kw k) tokens sp evs.
Proof. destruct k; reflexivity. Qed.

Lemma step_infinite tokens sp evs :
  step true (kw_infinite :: tokens) sp evs = Ok (Continue tokens (set_infinite true sp) evs).
Proof. reflexivity. Qed.

Lemma value_ok_int64 k v : value_ok k v -> (min_int <= v <= max_int)%Z.
Proof. unfold value_ok, min_int, max_int. destruct k; lia. Qed.

Lemma run_param p rest sp evs :
  param_ok p ->
  run (render_param p ++ rest) sp evs = run rest (apply_param sp p) (evs ++ ack p).
Proof.
  intros Hok. destruct p as [k v|]; cbn [render_param app].
  - apply run_step_continue. rewrite step_kw. unfold int_case.
    cbn [is_empty index0 slice1 bind].
    rewrite atoi_itoa by (apply (value_ok_int64 k); exact Hok).
    destruct k; reflexivity.
  - rewrite (run_step_continue _ _ _ _ _ _ _ (step_infinite rest sp evs)).
    cbn [ack]. rewrite app_nil_r. reflexivity.
Qed.

Lemma run_render ps : forall rest sp evs,
  Forall param_ok ps ->
  run (render ps ++ rest) sp evs = run rest (apply_all ps sp) (evs ++ acks ps).
Proof.
  induction ps as [|p ps IH]; intros rest sp evs Hok.
  - cbn. rewrite app_nil_r. reflexivity.
  - inversion Hok as [|? ? Hp Hps]; subst.
    unfold render, acks. cbn [flat_map]. fold (render ps). fold (acks ps).
    rewrite <- app_assoc. rewrite run_param by assumption.
    rewrite IH by assumption. cbn [apply_all fold_left]. rewrite <- app_assoc. reflexivity.
Qed.

Lemma render_empty ps : is_empty (render ps) = is_empty ps.
Proof. destruct ps as [|[k v|] ps]; reflexivity. Qed.

(* parse_go on a rendered parameter list, as a fold *)
Lemma parse_go_render ps :
  Forall param_ok ps ->
  parse_go (render ps) =
  Ok (apply_all ps (if is_empty ps then set_infinite true sp_zero else sp_zero), acks ps).
Proof.
  intros Hok. unfold parse_go, parse_go_gen. rewrite render_empty.
  change (go_loop true (length (render ps)) (render ps)) with (run (render ps)).
  rewrite <- (app_nil_r (render ps)). rewrite run_render by assumption.
  rewrite run_nil. reflexivity.
Qed.

(* ------------------------------------------------------------------ the fold is the look-up *)

(* the numeric field keyword [k] stands for ([KNodes], [KMate]: none) *)
Definition field (k : kw) (sp : search_params) : Z :=
  match k with
  | KWtime => sp_wtime sp | KBtime => sp_btime sp | KWinc => sp_winc sp | KBinc => sp_binc sp
  | KMovestogo => sp_movestogo sp | KMovetime => sp_movetime sp | KDepth => sp_depth sp
  | KNodes | KMate => 0%Z
  end.
Definition is_field (k : kw) : Prop := k <> KNodes /\ k <> KMate.

Lemma field_store_same k v sp : is_field k -> value_ok k v -> field k (store k v sp) = v.
Proof.
  intros [H1 H2] Hv. destruct k; try reflexivity; try congruence.
  cbn. unfold u8. cbn in Hv. apply Z.mod_small. lia.
Qed.

Lemma field_store_other k k' v sp : k <> k' -> field k (store k' v sp) = field k sp.
Proof. intros Hne. destruct k, k'; try reflexivity; congruence. Qed.

Lemma field_set_infinite k b sp : field k (set_infinite b sp) = field k sp.
Proof. destruct k; reflexivity. Qed.

Lemma kw_beq_true k k' : kw_beq k k' = true <-> k = k'.
Proof. split; [apply internal_kw_dec_bl | apply internal_kw_dec_lb]. Qed.

Lemma find_none_of_not_in k ps : ~ In (Some k) (map kind ps) -> find (is_kw k) ps = None.
Proof.
  induction ps as [|p ps IH]; intros Hni; [reflexivity|].
  cbn [find]. destruct p as [k' v|]; cbn [is_kw].
  - destruct (kw_beq k k') eqn:E.
    + apply kw_beq_true in E. subst. exfalso. apply Hni. left. reflexivity.
    + apply IH. intros Hin. apply Hni. right. exact Hin.
  - apply IH. intros Hin. apply Hni. right. exact Hin.
Qed.

Lemma field_apply_all k : is_field k -> forall ps sp,
  NoDup (map kind ps) -> Forall param_ok ps ->
  field k (apply_all ps sp) =
  match find (is_kw k) ps with Some (PInt _ v) => v | _ => field k sp end.
Proof.
  intros Hk. induction ps as [|p ps IH]; intros sp Hnd Hok; [reflexivity|].
  inversion Hnd as [|? ? Hni Hnd']; subst. inversion Hok as [|? ? Hp Hps]; subst.
  cbn [apply_all fold_left]. fold (apply_all ps (apply_param sp p)).
  rewrite IH by assumption. cbn [find].
  destruct p as [k' v|]; cbn [is_kw apply_param].
  - destruct (kw_beq k k') eqn:E.
    + apply kw_beq_true in E. subst k'.
      rewrite find_none_of_not_in by exact Hni.
      apply field_store_same; assumption.
    + assert (Hne : k <> k') by (intros ->; rewrite (proj2 (kw_beq_true k' k') eq_refl) in E; discriminate).
      destruct (find (is_kw k) ps) as [[? ?|]|]; try reflexivity;
        apply field_store_other; exact Hne.
  - destruct (find (is_kw k) ps) as [[? ?|]|]; try reflexivity; apply field_set_infinite.
Qed.

Lemma infinite_store k v sp : sp_infinite (store k v sp) = sp_infinite sp.
Proof. destruct k; reflexivity. Qed.

Lemma infinite_apply_all ps : forall sp,
  sp_infinite (apply_all ps sp) = existsb is_infinite ps || sp_infinite sp.
Proof.
  induction ps as [|p ps IH]; intros sp; [reflexivity|].
  cbn [apply_all fold_left existsb]. fold (apply_all ps (apply_param sp p)). rewrite IH.
  destruct p as [k v|]; cbn [apply_param is_infinite].
  - rewrite infinite_store. reflexivity.
  - cbn. rewrite orb_true_r. reflexivity.
Qed.

Lemma sp_ext a b :
  sp_wtime a = sp_wtime b -> sp_btime a = sp_btime b -> sp_winc a = sp_winc b ->
  sp_binc a = sp_binc b -> sp_movestogo a = sp_movestogo b -> sp_depth a = sp_depth b ->
  sp_movetime a = sp_movetime b -> sp_infinite a = sp_infinite b -> a = b.
Proof. destruct a, b; cbn; intros; subst; reflexivity. Qed.

Lemma apply_all_denote ps :
  NoDup (map kind ps) -> Forall param_ok ps ->
  apply_all ps (if is_empty ps then set_infinite true sp_zero else sp_zero) = denote ps.
Proof.
  intros Hnd Hok.
  set (sp0 := if is_empty ps then set_infinite true sp_zero else sp_zero).
  assert (Hz : forall k, field k sp0 = 0%Z) by (intros k; unfold sp0; destruct ps, k; reflexivity).
  assert (Hf : forall k, is_field k -> field k (apply_all ps sp0) = value_of k ps).
  { intros k Hk. rewrite (field_apply_all k Hk ps sp0 Hnd Hok). unfold value_of. rewrite Hz.
    reflexivity. }
  apply sp_ext; unfold denote; cbn [sp_wtime sp_btime sp_winc sp_binc sp_movestogo sp_depth
                                     sp_movetime sp_infinite].
  - apply (Hf KWtime). split; discriminate.
  - apply (Hf KBtime). split; discriminate.
  - apply (Hf KWinc). split; discriminate.
  - apply (Hf KBinc). split; discriminate.
  - apply (Hf KMovestogo). split; discriminate.
  - apply (Hf KDepth). split; discriminate.
  - apply (Hf KMovetime). split; discriminate.
  - rewrite infinite_apply_all. unfold sp0. destruct ps; reflexivity.
Qed.

(* Every `go` line built from distinct standard parameters, in any order, with in-range values
   is parsed to exactly the record the parameters denote; nodes / mate are acknowledged. *)
Lemma parse_go_exact ps :
  NoDup (map kind ps) -> Forall param_ok ps ->
  parse_go (render ps) = Ok (denote ps, acks ps).
Proof.
  intros Hnd Hok. rewrite parse_go_render by assumption.
  rewrite apply_all_denote by assumption. reflexivity.
Qed.

(* ------------------------------------------------------------------ malformed values *)

Lemma reports_missing evs k : reports (evs ++ [EvMissing k]) k.
Proof. exists evs, (EvMissing k). eexists. split; reflexivity. Qed.

Lemma reports_broken evs k v e : reports (evs ++ [EvBroken k v e]) k.
Proof. exists evs, (EvBroken k v e). eexists. split; reflexivity. Qed.

(* After any well-formed parameters, a keyword whose value is missing ([bad = []], end of
   line) or is not an integer ([bad = [v]], whatever follows) makes parseGo return normally
   with a last output line that names the keyword. *)
Lemma malformed_reported ps k bad rest :
  Forall param_ok ps ->
  (bad = [] /\ rest = []) \/ (exists v, bad = [v] /\ not_an_integer v) ->
  exists sp evs, parse_go (render ps ++ kw_token k :: bad ++ rest) = Ok (sp, evs) /\ reports evs k.
Proof.
  intros Hok Hbad. unfold parse_go, parse_go_gen.
  set (ts := render ps ++ kw_token k :: bad ++ rest).
  set (sp0 := if is_empty ts then set_infinite true sp_zero else sp_zero).
  change (go_loop true (length ts) ts) with (run ts). unfold ts.
  rewrite run_render by assumption.
  destruct Hbad as [[-> ->]|(v & -> & Hv)]; cbn [app].
  - do 2 eexists. split.
    + apply run_step_return. rewrite step_kw. reflexivity.
    + apply reports_missing.
  - unfold not_an_integer in Hv. destruct (atoi v) as [n [e|]] eqn:E; [|cbn in Hv; congruence].
    do 2 eexists. split.
    + apply run_step_return. rewrite step_kw. unfold int_case.
      cbn [is_empty index0 bind]. rewrite E. reflexivity.
    + apply reports_broken.
Qed.

(* What "not an integer" covers: the empty token, and every token with a byte that is not an
   ASCII digit anywhere after an optional leading sign ("12x", "1_000", "0x10", "1e3", "--1"). *)
Definition non_digit (c : N) : bool := negb (is_digit c).

Lemma scan_non_digit s : forall n, existsb non_digit s = true ->
  scan s n = SSyntax \/ scan s n = SRange.
Proof.
  induction s as [|c s IH]; intros n H; [discriminate|].
  cbn [existsb] in H. cbn [scan]. unfold non_digit at 1 in H.
  destruct (is_digit c); cbn [negb orb] in H; [|left; reflexivity].
  destruct (two64 <=? n * 10 + (c - 48))%N; [right; reflexivity|]. apply IH. exact H.
Qed.

Lemma not_an_integer_nil : not_an_integer [].
Proof. unfold not_an_integer. cbn. discriminate. Qed.

Lemma atoi_body_non_digit neg s : existsb non_digit s = true -> snd (atoi_body neg s) <> None.
Proof.
  intros Hnd. unfold atoi_body. destruct s as [|c r]; [discriminate|].
  destruct (scan_non_digit (c :: r) 0 Hnd) as [-> | ->]; cbn; discriminate.
Qed.

Lemma atoi_body_nil neg : snd (atoi_body neg []) <> None.
Proof. cbn. discriminate. Qed.

Lemma not_an_integer_tail c r : existsb non_digit r = true -> not_an_integer (c :: r).
Proof.
  intros H. unfold not_an_integer, atoi.
  destruct (c =? 45)%N; [apply atoi_body_non_digit; exact H|].
  destruct (c =? 43)%N; [apply atoi_body_non_digit; exact H|].
  apply atoi_body_non_digit. cbn [existsb]. rewrite H. apply orb_true_r.
Qed.

Lemma not_an_integer_head c r :
  is_digit c = false -> c <> 43%N -> c <> 45%N -> not_an_integer (c :: r).
Proof.
  intros Hd H1 H2. unfold not_an_integer, atoi.
  apply N.eqb_neq in H1, H2. rewrite H1, H2.
  apply atoi_body_non_digit. cbn [existsb]. unfold non_digit at 1. rewrite Hd. reflexivity.
Qed.

(* a sign with nothing after it *)
Lemma not_an_integer_sign c : c = 43%N \/ c = 45%N -> not_an_integer [c].
Proof. intros [-> | ->]; unfold not_an_integer; cbn; discriminate. Qed.
