(* Model of pkg/uci/game/game.go: parseGo, and of strconv.Atoi as parseGo uses it.

   Tokens are byte lists ([list N], every element < 256): Go strings are byte sequences and
   parseGo only compares them with ASCII keywords, hands them to strconv.Atoi and prints them.

   Go slice semantics are explicit: [tokens[0]] and [tokens[1:]] on an empty slice are [Panic]
   ([index0], [slice1]); nothing is hidden behind a default.  The [for len(tokens) > 0] loop is
   one non-recursive [step] (a transliteration of the loop body) iterated on a fuel that is
   proved sufficient in ParseGoProofs.v ([parse_go_returns]: the fuel escape [Err] never shows).

   [parse_go] is the code WITH the repair of defect D3 (the line [tokens = tokens[1:]] deleted
   from [case "infinite":]); [parse_go_unrepaired] is the code as it stood.  They share [step];
   the only difference is that one line.

   What parseGo prints is an event list; [event_text] gives the exact bytes of each line
   (without the final newline).  Go prints a failed Atoi as
       strconv.Atoi: parsing <strconv.Quote(token)>: invalid syntax | value out of range
   and [quote] models strconv.Quote only for tokens made of printable ASCII other than the
   double quote and the backslash (it then just adds the quotes); for other tokens only the
   event itself (keyword, token, kind of error), not its text, is compared with the Go code.

   No proofs here (model file). *)
From Coq Require Import NArith ZArith List Bool String Ascii.
From Clemens Require Import Base.Res.
Import ListNotations.

Definition token := list N.

Definition bytes_of_string (s : string) : list N := map N_of_ascii (list_ascii_of_string s).

Fixpoint tok_eqb (a b : list N) : bool :=
  match a, b with
  | [], [] => true
  | x :: a', y :: b' => (x =? y)%N && tok_eqb a' b'
  | _, _ => false
  end.

(* ---------------------------------------------------------------- strconv.Atoi (64-bit int) *)

Definition two63 : N := Eval compute in (2 ^ 63)%N.
Definition two64 : N := Eval compute in (2 ^ 64)%N.
Definition max_int : Z := Eval compute in (2 ^ 63 - 1)%Z.
Definition min_int : Z := Eval compute in (- 2 ^ 63)%Z.

Inductive atoi_err := ESyntax | ERange.

Definition is_digit (c : N) : bool := ((48 <=? c) && (c <=? 57))%N.

(* strconv.ParseUint(s, 10, 64) on a non-empty string: left to right; the first byte that is
   not an ASCII digit is a syntax error; the first digit at which the value would exceed
   2^64-1 is a range error (returned at once: later garbage is never looked at). The fast
   path of Atoi (fewer than 19 bytes) cannot overflow and agrees with this. *)
Inductive scan_res := SOk (n : N) | SSyntax | SRange.

Fixpoint scan (s : list N) (n : N) : scan_res :=
  match s with
  | [] => SOk n
  | c :: s' =>
    if is_digit c then
      let n1 := (n * 10 + (c - 48))%N in
      if (two64 <=? n1)%N then SRange else scan s' n1
    else SSyntax
  end.

(* The value returned with an error is part of the model: parseGo assigns it to the field
   before it looks at the error (0 for a syntax error, the extreme int64 for a range error). *)
Definition atoi_body (neg : bool) (body : list N) : Z * option atoi_err :=
  match body with
  | [] => (0%Z, Some ESyntax)                       (* "", "+", "-" *)
  | _ =>
    match scan body 0 with
    | SSyntax => (0%Z, Some ESyntax)
    | SRange => ((if neg then min_int else max_int), Some ERange)
    | SOk un =>
      if neg then
        if (two63 <? un)%N then (min_int, Some ERange) else ((- Z.of_N un)%Z, None)
      else
        if (two63 <=? un)%N then (max_int, Some ERange) else (Z.of_N un, None)
    end
  end.

(* one optional leading '-' (45) or '+' (43) *)
Definition atoi (s : token) : Z * option atoi_err :=
  match s with
  | [] => atoi_body false []
  | c :: r =>
    if (c =? 45)%N then atoi_body true r
    else if (c =? 43)%N then atoi_body false r
    else atoi_body false s
  end.

(* ---------------------------------------------------------------- search.SearchParameter *)

Record search_params := {
  sp_wtime : Z; sp_btime : Z; sp_winc : Z; sp_binc : Z; sp_movestogo : Z;
  sp_depth : Z;            (* uint8: always 0..255 *)
  sp_movetime : Z; sp_infinite : bool
}.

Definition sp_zero : search_params :=
  {| sp_wtime := 0; sp_btime := 0; sp_winc := 0; sp_binc := 0; sp_movestogo := 0;
     sp_depth := 0; sp_movetime := 0; sp_infinite := false |}.

Definition set_wtime (v : Z) (sp : search_params) : search_params :=
  {| sp_wtime := v; sp_btime := sp_btime sp; sp_winc := sp_winc sp; sp_binc := sp_binc sp;
     sp_movestogo := sp_movestogo sp; sp_depth := sp_depth sp; sp_movetime := sp_movetime sp;
     sp_infinite := sp_infinite sp |}.
Definition set_btime (v : Z) (sp : search_params) : search_params :=
  {| sp_wtime := sp_wtime sp; sp_btime := v; sp_winc := sp_winc sp; sp_binc := sp_binc sp;
     sp_movestogo := sp_movestogo sp; sp_depth := sp_depth sp; sp_movetime := sp_movetime sp;
     sp_infinite := sp_infinite sp |}.
Definition set_winc (v : Z) (sp : search_params) : search_params :=
  {| sp_wtime := sp_wtime sp; sp_btime := sp_btime sp; sp_winc := v; sp_binc := sp_binc sp;
     sp_movestogo := sp_movestogo sp; sp_depth := sp_depth sp; sp_movetime := sp_movetime sp;
     sp_infinite := sp_infinite sp |}.
Definition set_binc (v : Z) (sp : search_params) : search_params :=
  {| sp_wtime := sp_wtime sp; sp_btime := sp_btime sp; sp_winc := sp_winc sp; sp_binc := v;
     sp_movestogo := sp_movestogo sp; sp_depth := sp_depth sp; sp_movetime := sp_movetime sp;
     sp_infinite := sp_infinite sp |}.
Definition set_movestogo (v : Z) (sp : search_params) : search_params :=
  {| sp_wtime := sp_wtime sp; sp_btime := sp_btime sp; sp_winc := sp_winc sp; sp_binc := sp_binc sp;
     sp_movestogo := v; sp_depth := sp_depth sp; sp_movetime := sp_movetime sp;
     sp_infinite := sp_infinite sp |}.
Definition set_depth (v : Z) (sp : search_params) : search_params :=
  {| sp_wtime := sp_wtime sp; sp_btime := sp_btime sp; sp_winc := sp_winc sp; sp_binc := sp_binc sp;
     sp_movestogo := sp_movestogo sp; sp_depth := v; sp_movetime := sp_movetime sp;
     sp_infinite := sp_infinite sp |}.
Definition set_movetime (v : Z) (sp : search_params) : search_params :=
  {| sp_wtime := sp_wtime sp; sp_btime := sp_btime sp; sp_winc := sp_winc sp; sp_binc := sp_binc sp;
     sp_movestogo := sp_movestogo sp; sp_depth := sp_depth sp; sp_movetime := v;
     sp_infinite := sp_infinite sp |}.
Definition set_infinite (b : bool) (sp : search_params) : search_params :=
  {| sp_wtime := sp_wtime sp; sp_btime := sp_btime sp; sp_winc := sp_winc sp; sp_binc := sp_binc sp;
     sp_movestogo := sp_movestogo sp; sp_depth := sp_depth sp; sp_movetime := sp_movetime sp;
     sp_infinite := b |}.

(* Go's conversion uint8(d) of an int *)
Definition u8 (d : Z) : Z := (d mod 256)%Z.

(* ---------------------------------------------------------------- keywords and events *)

(* The nine keywords that take an integer value. *)
Inductive kw := KWtime | KBtime | KWinc | KBinc | KMovestogo | KMovetime | KDepth | KNodes | KMate.

Definition kw_searchmoves : token := Eval compute in bytes_of_string "searchmoves".
Definition kw_wtime : token := Eval compute in bytes_of_string "wtime".
Definition kw_btime : token := Eval compute in bytes_of_string "btime".
Definition kw_winc : token := Eval compute in bytes_of_string "winc".
Definition kw_binc : token := Eval compute in bytes_of_string "binc".
Definition kw_movestogo : token := Eval compute in bytes_of_string "movestogo".
Definition kw_movetime : token := Eval compute in bytes_of_string "movetime".
Definition kw_depth : token := Eval compute in bytes_of_string "depth".
Definition kw_nodes : token := Eval compute in bytes_of_string "nodes".
Definition kw_mate : token := Eval compute in bytes_of_string "mate".
Definition kw_infinite : token := Eval compute in bytes_of_string "infinite".

Definition kw_token (k : kw) : token :=
  match k with
  | KWtime => kw_wtime | KBtime => kw_btime | KWinc => kw_winc | KBinc => kw_binc
  | KMovestogo => kw_movestogo | KMovetime => kw_movetime | KDepth => kw_depth
  | KNodes => kw_nodes | KMate => kw_mate
  end.

(* Literal texts, as byte lists computed once (no Coq [string] reaches the extracted code). *)
Definition l_white_time : list N := Eval compute in bytes_of_string "white time".
Definition l_black_time : list N := Eval compute in bytes_of_string "black time".
Definition l_white_inc : list N := Eval compute in bytes_of_string "white increment time".
Definition l_black_inc : list N := Eval compute in bytes_of_string "black increment time".
Definition l_moves_to_go : list N := Eval compute in bytes_of_string "moves to go".
Definition l_movetime : list N := Eval compute in bytes_of_string "movetime".
Definition l_depth : list N := Eval compute in bytes_of_string "depth".
Definition l_nodes : list N := Eval compute in bytes_of_string "nodes".
Definition l_mate : list N := Eval compute in bytes_of_string "mate".
Definition info_string : list N := Eval compute in bytes_of_string "info string ".
Definition t_searchmoves_ni : list N := Eval compute in bytes_of_string "searchmoves not implemented".
Definition t_missing : list N := Eval compute in bytes_of_string " missing".
Definition t_broken : list N := Eval compute in bytes_of_string " broken, strconv.Atoi: parsing ".
Definition t_colon : list N := Eval compute in bytes_of_string ": ".
Definition t_nodes_ni : list N := Eval compute in bytes_of_string "nodes limit not implemented".
Definition t_not_impl : list N := Eval compute in bytes_of_string " not implemented".
Definition t_unknown : list N := Eval compute in bytes_of_string "unknown go command ".
Definition t_syntax : list N := Eval compute in bytes_of_string "invalid syntax".
Definition t_range : list N := Eval compute in bytes_of_string "value out of range".

(* How the messages of parseGo call each keyword. *)
Definition kw_label (k : kw) : list N :=
  match k with
  | KWtime => l_white_time
  | KBtime => l_black_time
  | KWinc => l_white_inc
  | KBinc => l_black_inc
  | KMovestogo => l_moves_to_go
  | KMovetime => l_movetime
  | KDepth => l_depth
  | KNodes => l_nodes
  | KMate => l_mate
  end.

Inductive event :=
| EvSearchmoves                                   (* info string searchmoves not implemented *)
| EvMissing (k : kw)                              (* info string <label> missing *)
| EvBroken (k : kw) (v : token) (e : atoi_err)    (* info string <label> broken, <NumError> *)
| EvNotImpl (k : kw)                              (* nodes / mate acknowledged as unsupported *)
| EvUnknown (t : token).                          (* info string unknown go command <t> *)

(* strconv.Quote for tokens of printable ASCII without double quote and backslash. *)
Definition simple_byte (c : N) : bool :=
  ((32 <=? c) && (c <=? 126) && negb (c =? 34) && negb (c =? 92))%N.
Definition simple_token (t : token) : bool := forallb simple_byte t.
Definition quote (t : token) : list N := (34 :: t ++ [34])%N.

(* errors.New("invalid syntax") / errors.New("value out of range") *)
Definition err_text (e : atoi_err) : list N :=
  match e with
  | ESyntax => t_syntax
  | ERange => t_range
  end.

(* the line as printed (without the newline); a *strconv.NumError prints as
   "strconv." + Func + ": parsing " + Quote(Num) + ": " + Err *)
Definition event_text (ev : event) : list N :=
  info_string ++
  match ev with
  | EvSearchmoves => t_searchmoves_ni
  | EvMissing k => kw_label k ++ t_missing
  | EvBroken k v e => kw_label k ++ t_broken ++ quote v ++ t_colon ++ err_text e
  | EvNotImpl KNodes => t_nodes_ni
  | EvNotImpl k => kw_label k ++ t_not_impl
  | EvUnknown t => t_unknown ++ t
  end.

(* ---------------------------------------------------------------- Go slices *)

Definition index0 {A} (s : list A) : res A :=
  match s with a :: _ => Ok a | [] => Panic end.          (* s[0] *)
Definition slice1 {A} (s : list A) : res (list A) :=
  match s with _ :: r => Ok r | [] => Panic end.           (* s[1:] *)
Definition is_empty {A} (s : list A) : bool :=
  match s with [] => true | _ => false end.                (* len(s) == 0 *)

(* ---------------------------------------------------------------- the loop body *)

Inductive flow :=
| Continue (tokens : list token) (sp : search_params) (evs : list event)
| Return (sp : search_params) (evs : list event).

(* The shape every integer case of the switch has:
     if len(tokens) == 0 { print "<label> missing"; return }
     v, err := strconv.Atoi(tokens[0])      (the time fields are assigned here, error or not)
     if err != nil { print "<label> broken, err"; return }
     [sp.Depth = uint8(d)]  tokens = tokens[1:]  [print acknowledgement]
   [on_err] is what the assignment in the Atoi line does to sp, [on_ok] what sp is after the
   case when there was no error, [ack] what is printed after the value was consumed. *)
Definition int_case (k : kw) (on_err on_ok : Z -> search_params -> search_params)
    (ack : list event) (tokens : list token) (sp : search_params) (evs : list event) : res flow :=
  if is_empty tokens then Ok (Return sp (evs ++ [EvMissing k])) else
  v <- index0 tokens ;;
  let '(n, err) := atoi v in
  match err with
  | Some e => Ok (Return (on_err n sp) (evs ++ [EvBroken k v e]))
  | None => tokens' <- slice1 tokens ;; Ok (Continue tokens' (on_ok n sp) (evs ++ ack))
  end.

Definition keep (_ : Z) (sp : search_params) : search_params := sp.

(* One iteration of [for len(tokens) > 0 { t := tokens[0]; tokens = tokens[1:]; switch t {...} }].
   [repaired = false] keeps the line [tokens = tokens[1:]] in [case "infinite":] (defect D3). *)
Definition step (repaired : bool) (tokens : list token) (sp : search_params) (evs : list event)
    : res flow :=
  t <- index0 tokens ;;
  tokens <- slice1 tokens ;;
  if tok_eqb t kw_searchmoves then Ok (Return sp (evs ++ [EvSearchmoves]))
  else if tok_eqb t kw_wtime then int_case KWtime set_wtime set_wtime [] tokens sp evs
  else if tok_eqb t kw_btime then int_case KBtime set_btime set_btime [] tokens sp evs
  else if tok_eqb t kw_winc then int_case KWinc set_winc set_winc [] tokens sp evs
  else if tok_eqb t kw_binc then int_case KBinc set_binc set_binc [] tokens sp evs
  else if tok_eqb t kw_movestogo then int_case KMovestogo set_movestogo set_movestogo [] tokens sp evs
  else if tok_eqb t kw_movetime then int_case KMovetime set_movetime set_movetime [] tokens sp evs
  else if tok_eqb t kw_depth then
    int_case KDepth keep (fun d => set_depth (u8 d)) [] tokens sp evs
  else if tok_eqb t kw_nodes then int_case KNodes keep keep [EvNotImpl KNodes] tokens sp evs
  else if tok_eqb t kw_mate then int_case KMate keep keep [EvNotImpl KMate] tokens sp evs
  else if tok_eqb t kw_infinite then
    let sp := set_infinite true sp in
    if repaired then Ok (Continue tokens sp evs)
    else (tokens <- slice1 tokens ;; Ok (Continue tokens sp evs))
  else Ok (Return sp (evs ++ [EvUnknown t])).

(* The loop. Every iteration removes at least one token, so [length tokens] iterations are
   enough; [Err] is the fuel escape and is proved unreachable (parse_go_returns). *)
Fixpoint go_loop (repaired : bool) (fuel : nat) (tokens : list token) (sp : search_params)
    (evs : list event) : res (search_params * list event) :=
  if is_empty tokens then Ok (sp, evs) else
  match fuel with
  | O => Err
  | S fuel' =>
    match step repaired tokens sp evs with
    | Ok (Continue tokens' sp' evs') => go_loop repaired fuel' tokens' sp' evs'
    | Ok (Return sp' evs') => Ok (sp', evs')
    | Err => Err
    | Panic => Panic
    end
  end.

Definition parse_go_gen (repaired : bool) (tokens : list token) : res (search_params * list event) :=
  (* var sp SearchParameter; if len(tokens) == 0 { sp.Infinite = true } *)
  let sp := if is_empty tokens then set_infinite true sp_zero else sp_zero in
  go_loop repaired (List.length tokens) tokens sp [].

Definition parse_go : list token -> res (search_params * list event) := parse_go_gen true.
Definition parse_go_unrepaired : list token -> res (search_params * list event) := parse_go_gen false.
