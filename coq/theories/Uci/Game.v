(* pkg/uci/game/game.go: NewPosition (the part after the state test), and Search.MakeMoveFromString
   with its repetition stack. Tokens are byte strings (after strings.Fields). Model file. *)
From Coq Require Import NArith ZArith List Bool.
From Clemens Require Import Base.Res Base.Word Base.Bytes Pos.Types Pos.Position Pos.Fen.
Import ListNotations.
Open Scope N_scope.

Definition w_startpos : bytes := [115; 116; 97; 114; 116; 112; 111; 115].
Definition w_fen : bytes := [102; 101; 110].
Definition w_moves : bytes := [109; 111; 118; 101; 115].

Fixpoint join_sp (ts : list bytes) : bytes :=
  match ts with
  | [] => []
  | [t] => t
  | t :: r => t ++ 32 :: join_sp r
  end.

(* what the game object holds after the command *)
Record game_pos := {
  g_pos : position;
  g_hist : list N;          (* searchHistory[0..searchHistoryPly), oldest first *)
}.

Inductive np_result :=
| NPNone (state_set : bool)                (* no search object created (message printed) *)
| NPSet (g : game_pos)                     (* search object created; all moves applied *)
| NPMoveError (g : game_pos)               (* a move was rejected: the moves before it stay applied *)
| NPPanic.                                 (* nil position dereferenced: `position banana` *)

Section Game.
Variable K : zkeys.
Variable digit_tbl : list (N * N * N).
Variable hist_size : N.

Fixpoint play (p : position) (hist : list N) (ms : list bytes) : np_result :=
  match ms with
  | [] => NPSet {| g_pos := p; g_hist := hist |}
  | m :: r =>
    match make_move_from_string K digit_tbl p m with
    | Ok q =>
      (* pushHistory: index out of range once the stack is full *)
      if (N.of_nat (length hist) <? hist_size) then play q (hist ++ [hash q]) r else NPPanic
    | Err => NPMoveError {| g_pos := p; g_hist := hist |}
    | Panic => NPPanic
    end
  end.

Definition new_position_cmd (tokens : list bytes) : np_result :=
  match tokens with
  | [] => NPNone false
  | t :: rest =>
    let start : option (res position * list bytes) :=
      if bytes_eqb t w_startpos then Some (new_position K, rest)
      else if bytes_eqb t w_fen then
        if (N.of_nat (length tokens) <? 7) then None
        else Some (new_from_fen K digit_tbl (join_sp (firstn 6 rest)), skipn 6 rest)
      else Some (Panic, rest) in
    match start with
    | None => NPNone false
    | Some (Ok p, rest) =>
      (* if len(tokens) <= 1 || tokens[0] != "moves" { return } *)
      match rest with
      | mv :: m1 :: ms =>
        if bytes_eqb mv w_moves then play p [] (m1 :: ms) else NPSet {| g_pos := p; g_hist := [] |}
      | _ => NPSet {| g_pos := p; g_hist := [] |}
      end
    | Some (Err, _) => NPNone false
    | Some (Panic, _) => NPPanic
    end
  end.

End Game.
