(* Specification side of C07 (no model code, no proofs): how a `go` line is built from the
   standard parameters ([render], with decimal rendering [itoa]) and which SearchParameter
   record a list of parameters denotes ([denote], by look-up, independent of the parser);
   the vocabulary of the input-line theorems ([all_unknown], [switch], [join]). *)
From Coq Require Import NArith ZArith List Bool.
From Clemens Require Import Base.Res Uci.ParseGo Uci.Input.
Import ListNotations.

(* ---------------------------------------------------------------- decimal rendering *)

(* most significant digit first; 20 digits are enough for every value below 10^20 > 2^64 *)
Fixpoint digits (fuel : nat) (n : N) (acc : list N) : list N :=
  match fuel with
  | O => acc
  | S f =>
    let acc' := (48 + n mod 10)%N :: acc in
    if (n <? 10)%N then acc' else digits f (n / 10)%N acc'
  end.
Definition itoa_n (n : N) : list N := digits 20 n [].
Definition itoa (z : Z) : token :=
  match z with
  | Zneg p => 45%N :: itoa_n (Npos p)
  | _ => itoa_n (Z.to_N z)
  end.

(* ---------------------------------------------------------------- the standard parameters *)

Scheme Equality for kw.

(* the ten standard parameters: nine with an integer value, and `infinite` *)
Inductive param := PInt (k : kw) (v : Z) | PInfinite.

Definition kind (p : param) : option kw :=
  match p with PInt k _ => Some k | PInfinite => None end.

Definition render_param (p : param) : list token :=
  match p with
  | PInt k v => [kw_token k; itoa v]
  | PInfinite => [kw_infinite]
  end.
Definition render (ps : list param) : list token := flat_map render_param ps.

(* in-range values: depth what a uint8 holds, everything else any int64 *)
Definition value_ok (k : kw) (v : Z) : Prop :=
  match k with
  | KDepth => (0 <= v <= 255)%Z
  | _ => (min_int <= v <= max_int)%Z
  end.
Definition param_ok (p : param) : Prop :=
  match p with PInt k v => value_ok k v | PInfinite => True end.

(* ---------------------------------------------------------------- what a parameter list denotes *)

Definition is_kw (k : kw) (p : param) : bool :=
  match p with PInt k' _ => kw_beq k k' | PInfinite => false end.
Definition is_infinite (p : param) : bool :=
  match p with PInfinite => true | _ => false end.

(* the value given for keyword [k]; 0 (the zero value of the Go struct) when it is not given *)
Definition value_of (k : kw) (ps : list param) : Z :=
  match find (is_kw k) ps with
  | Some (PInt _ v) => v
  | _ => 0%Z
  end.

(* nodes and mate touch no field; Infinite iff `infinite` is present or nothing is given *)
Definition denote (ps : list param) : search_params :=
  {| sp_wtime := value_of KWtime ps; sp_btime := value_of KBtime ps;
     sp_winc := value_of KWinc ps; sp_binc := value_of KBinc ps;
     sp_movestogo := value_of KMovestogo ps; sp_depth := value_of KDepth ps;
     sp_movetime := value_of KMovetime ps;
     sp_infinite := existsb is_infinite ps || is_empty ps |}.

(* the acknowledgements nodes / mate are answered with, in the order given *)
Definition ack (p : param) : list event :=
  match p with
  | PInt KNodes _ => [EvNotImpl KNodes]
  | PInt KMate _ => [EvNotImpl KMate]
  | _ => []
  end.
Definition acks (ps : list param) : list event := flat_map ack ps.

(* [evs] ends with an `info string` line that names keyword [k] (by the label parseGo uses) *)
Definition reports (evs : list event) (k : kw) : Prop :=
  exists evs0 ev suffix,
    evs = evs0 ++ [ev] /\ event_text ev = info_string ++ kw_label k ++ suffix.

(* a value token that is not an integer strconv.Atoi accepts *)
Definition not_an_integer (v : token) : Prop := snd (atoi v) <> None.

(* ---------------------------------------------------------------- input lines *)

(* no token of [ts] is one of the valid first tokens *)
Definition all_unknown (valid : list token) (ts : list token) : Prop :=
  Forall (fun t => valid_first valid t = false) ts.

(* what handleInput's switch does with a first token [c] followed by [rest] *)
Definition switch (c : token) (rest : list token) : cmd :=
  if tok_eqb c w_uci then CUci
  else if tok_eqb c w_quit then CQuit
  else if tok_eqb c w_isready then CIsReady
  else if tok_eqb c w_ucinewgame then CNewGame
  else if tok_eqb c w_position then CPosition rest
  else if tok_eqb c w_go then CGo rest
  else if tok_eqb c w_stop then CStop
  else CNone.


(* Joining space-free, non-empty tokens with single blanks and splitting again gives the
   tokens back: the token-level theorems are about the lines one would write. *)
Definition join (ts : list token) : list N :=
  match ts with
  | [] => []
  | t :: r => t ++ flat_map (fun u => 32%N :: u) r
  end.

Definition plain_token (t : token) : Prop := t <> [] /\ forallb (fun c => negb (is_space c)) t = true.

