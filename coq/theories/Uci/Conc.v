(* pkg/uci (uci.go, input.go) and pkg/uci/game (game.go): the command loop, the handlers and the search
   goroutine as a labelled transition system, at the granularity of the scheduling points
   (pkg/verifsched.Point) placed in the Go code:

     reader thread        reader.line  -> (dispatch) -> ready.lock | pos.lock | stop.lock | start.lock
     IsReady/NewPosition/StopSearch    X.lock -> [Lock; body; Unlock] -> next reader.line
     StartSearch          start.lock -> [Lock] -> start.locked -> [state test; parseGo; ctx; (Set RUNNING)]
                          -> start.spawn -> [go func] -> start.spawned -> [(Set RUNNING)] -> start.end -> [Unlock]
     search goroutine     search.start -> [Search ...] -> search.return -> [(Set IDLE | print bestmove)]
                          -> search.mid -> [(print bestmove | Set IDLE)] -> search.end -> [cancel(); exit]

   One step of a thread = the code between two consecutive points. The search itself is abstract:
   it may take any amount of time; a finite search (go depth N) returns by itself, an infinite one
   (go infinite) returns only after its context has been cancelled (property C05: it polls at every node).
   The GUI is the environment: it sends `position` and `go` only after the previous `bestmove`
   (stop and isready at any time); lines wait in [c_lines] until the reader consumes them.

   Three [variant] flags select between the code as it stood and the repaired code:
     v_sync_go        input.go dispatches `go` synchronously (as every other command) instead of `go g.StartSearch`
     v_running_first  StartSearch stores RUNNING before it spawns the search goroutine instead of after
     v_idle_first     the search goroutine stores IDLE before it prints bestmove instead of after
   [repaired] has all three. Model file: definitions only, executable (extracted for the forced-schedule tie). *)
From Coq Require Import List Bool Arith.
Import ListNotations.

Inductive cmd := CPos | CGo (inf : bool) | CStop | CReady.
Inductive gstate := IDLE | POSSET | RUNNING.
Inductive event := EReady | EBest (k : nat) | ERefusePos | ERefuseGo.

Record variant := { v_sync_go : bool; v_running_first : bool; v_idle_first : bool }.
Definition repaired : variant := {| v_sync_go := true; v_running_first := true; v_idle_first := true |}.
Definition original : variant := {| v_sync_go := false; v_running_first := false; v_idle_first := false |}.

(* program counter of a thread that executes a command handler *)
Inductive hpc :=
| HLock (c : cmd)                 (* parked before Lock() of the handler of c *)
| HStartLocked (inf : bool)       (* StartSearch: lock held, before the state test *)
| HStartSpawn (inf : bool)        (* accepted: before `go func` *)
| HStartSpawned                   (* after `go func` *)
| HStartEnd.                      (* before returning (deferred Unlock) *)

(* program counter of a search goroutine *)
Inductive spc := SStart | SRunning | SMid | SEnd | SDone.
Record sthread := { s_inf : bool; s_cancelled : bool; s_pc : spc }.

Record cstate := {
  c_lines : list cmd;             (* sent by the GUI, not yet consumed by the reader *)
  c_gos : nat;                    (* `go` lines consumed so far *)
  c_phase : bool;                 (* ghost: the last position/go line consumed was a position *)
  c_rpc : option hpc;             (* handler the reader thread is inside; None = between lines *)
  c_gs : list (option hpc);       (* asynchronous StartSearch activations (only without v_sync_go); None = returned *)
  c_lock : bool;                  (* gameImpl.isWorking held *)
  c_gst : gstate;                 (* gameImpl.state *)
  c_has_search : bool;            (* gameImpl.search != nil *)
  c_searches : list sthread;      (* search goroutines in spawn order; searchCancel belongs to the last *)
  c_out : list event;             (* output lines, newest first *)
  c_stops : list nat              (* ghost: value of c_gos at each executed StopSearch *)
}.

Definition init (d : list cmd) : cstate :=
  {| c_lines := d; c_gos := 0; c_phase := false; c_rpc := None; c_gs := []; c_lock := false; c_gst := IDLE;
     c_has_search := false; c_searches := []; c_out := []; c_stops := [] |}.

(* field updates *)
Definition set_lines (s : cstate) (l : list cmd) (g : nat) (ph : bool) : cstate :=
  {| c_lines := l; c_gos := g; c_phase := ph; c_rpc := c_rpc s; c_gs := c_gs s; c_lock := c_lock s; c_gst := c_gst s;
     c_has_search := c_has_search s; c_searches := c_searches s; c_out := c_out s; c_stops := c_stops s |}.
Definition set_rpc (s : cstate) (h : option hpc) : cstate :=
  {| c_lines := c_lines s; c_gos := c_gos s; c_phase := c_phase s; c_rpc := h; c_gs := c_gs s; c_lock := c_lock s;
     c_gst := c_gst s; c_has_search := c_has_search s; c_searches := c_searches s; c_out := c_out s; c_stops := c_stops s |}.
Definition set_gs (s : cstate) (g : list (option hpc)) : cstate :=
  {| c_lines := c_lines s; c_gos := c_gos s; c_phase := c_phase s; c_rpc := c_rpc s; c_gs := g; c_lock := c_lock s;
     c_gst := c_gst s; c_has_search := c_has_search s; c_searches := c_searches s; c_out := c_out s; c_stops := c_stops s |}.
Definition set_lock (s : cstate) (b : bool) : cstate :=
  {| c_lines := c_lines s; c_gos := c_gos s; c_phase := c_phase s; c_rpc := c_rpc s; c_gs := c_gs s; c_lock := b;
     c_gst := c_gst s; c_has_search := c_has_search s; c_searches := c_searches s; c_out := c_out s; c_stops := c_stops s |}.
Definition set_gst (s : cstate) (g : gstate) : cstate :=
  {| c_lines := c_lines s; c_gos := c_gos s; c_phase := c_phase s; c_rpc := c_rpc s; c_gs := c_gs s; c_lock := c_lock s;
     c_gst := g; c_has_search := c_has_search s; c_searches := c_searches s; c_out := c_out s; c_stops := c_stops s |}.
Definition set_has_search (s : cstate) (b : bool) : cstate :=
  {| c_lines := c_lines s; c_gos := c_gos s; c_phase := c_phase s; c_rpc := c_rpc s; c_gs := c_gs s; c_lock := c_lock s;
     c_gst := c_gst s; c_has_search := b; c_searches := c_searches s; c_out := c_out s; c_stops := c_stops s |}.
Definition set_searches (s : cstate) (l : list sthread) : cstate :=
  {| c_lines := c_lines s; c_gos := c_gos s; c_phase := c_phase s; c_rpc := c_rpc s; c_gs := c_gs s; c_lock := c_lock s;
     c_gst := c_gst s; c_has_search := c_has_search s; c_searches := l; c_out := c_out s; c_stops := c_stops s |}.
Definition emit (s : cstate) (e : event) : cstate :=
  {| c_lines := c_lines s; c_gos := c_gos s; c_phase := c_phase s; c_rpc := c_rpc s; c_gs := c_gs s; c_lock := c_lock s;
     c_gst := c_gst s; c_has_search := c_has_search s; c_searches := c_searches s; c_out := e :: c_out s; c_stops := c_stops s |}.
Definition note_stop (s : cstate) : cstate :=
  {| c_lines := c_lines s; c_gos := c_gos s; c_phase := c_phase s; c_rpc := c_rpc s; c_gs := c_gs s; c_lock := c_lock s;
     c_gst := c_gst s; c_has_search := c_has_search s; c_searches := c_searches s; c_out := c_out s;
     c_stops := c_gos s :: c_stops s |}.

Definition gst_eqb (a b : gstate) : bool :=
  match a, b with IDLE, IDLE | POSSET, POSSET | RUNNING, RUNNING => true | _, _ => false end.

Fixpoint upd_nth {A} (l : list A) (i : nat) (v : A) : list A :=
  match l, i with
  | [], _ => []
  | _ :: t, O => v :: t
  | h :: t, S j => h :: upd_nth t j v
  end.

Definition with_pc (t : sthread) (p : spc) : sthread :=
  {| s_inf := s_inf t; s_cancelled := s_cancelled t; s_pc := p |}.
Definition with_cancel (t : sthread) : sthread :=
  {| s_inf := s_inf t; s_cancelled := true; s_pc := s_pc t |}.

(* searchCancel(): cancels the context created by the latest accepted StartSearch *)
Definition cancel_last (s : cstate) : cstate :=
  match rev (c_searches s) with
  | [] => s
  | t :: r => set_searches s (rev (with_cancel t :: r))
  end.

(* ---- one step of a handler: None = not enabled (blocked on the mutex);
        Some (s', None) = the handler returned *)
Definition hstep (v : variant) (s : cstate) (h : hpc) : option (cstate * option hpc) :=
  match h with
  | HLock c =>
    if c_lock s then None else
    match c with
    | CReady => Some (emit s EReady, None)
    | CPos =>
      if gst_eqb (c_gst s) RUNNING then Some (emit s ERefusePos, None)
      else Some (set_has_search (set_gst s POSSET) true, None)
    | CStop =>
      let s := note_stop s in
      if gst_eqb (c_gst s) RUNNING then Some (cancel_last s, None) else Some (s, None)
    | CGo inf => Some (set_lock s true, Some (HStartLocked inf))
    end
  | HStartLocked inf =>
    if negb (gst_eqb (c_gst s) POSSET) || negb (c_has_search s) then
      Some (emit (set_lock s false) ERefuseGo, None)
    else Some (if v_running_first v then set_gst s RUNNING else s, Some (HStartSpawn inf))
  | HStartSpawn inf =>
    Some (set_searches s (c_searches s ++ [{| s_inf := inf; s_cancelled := false; s_pc := SStart |}]),
          Some HStartSpawned)
  | HStartSpawned => Some (if v_running_first v then s else set_gst s RUNNING, Some HStartEnd)
  | HStartEnd => Some (set_lock s false, None)
  end.

(* ---- one step of search goroutine k *)
Definition sstep (v : variant) (s : cstate) (k : nat) : option cstate :=
  match nth_error (c_searches s) k with
  | None => None
  | Some t =>
    let move (p : spc) := set_searches s (upd_nth (c_searches s) k (with_pc t p)) in
    match s_pc t with
    | SStart => Some (move SRunning)
    | SRunning =>
      if negb (s_inf t) || s_cancelled t then
        Some (if v_idle_first v then set_gst (move SMid) IDLE else emit (move SMid) (EBest k))
      else None
    | SMid => Some (if v_idle_first v then emit (move SEnd) (EBest k) else set_gst (move SEnd) IDLE)
    | SEnd => Some (set_searches s (upd_nth (c_searches s) k (with_cancel (with_pc t SDone))))
    | SDone => None
    end
  end.

Definition is_best (e : event) : bool := match e with EBest _ => true | _ => false end.
Definition count_best (o : list event) : nat := length (filter is_best o).

(* the GUI sends position/go only after the previous bestmove *)
Definition gui_ready (s : cstate) (c : cmd) : bool :=
  match c with
  | CPos | CGo _ => count_best (c_out s) =? c_gos s
  | _ => true
  end.

(* ---- the reader thread *)
Definition rstep (v : variant) (s : cstate) : option cstate :=
  match c_rpc s with
  | Some h =>
    match hstep v s h with
    | Some (s', h') => Some (set_rpc s' h')
    | None => None
    end
  | None =>
    match c_lines s with
    | [] => None
    | c :: rest =>
      if gui_ready s c then
        match c with
        | CGo inf =>
          let s := set_lines s rest (S (c_gos s)) false in
          if v_sync_go v then Some (set_rpc s (Some (HLock c)))
          else Some (set_gs s (c_gs s ++ [Some (HLock c)]))
        | CPos => Some (set_rpc (set_lines s rest (c_gos s) true) (Some (HLock c)))
        | _ => Some (set_rpc (set_lines s rest (c_gos s) (c_phase s)) (Some (HLock c)))
        end
      else None
    end
  end.

(* ---- an asynchronous StartSearch activation *)
Definition gstep (v : variant) (s : cstate) (i : nat) : option cstate :=
  match nth_error (c_gs s) i with
  | Some (Some h) =>
    match hstep v s h with
    | Some (s', h') => Some (set_gs s' (upd_nth (c_gs s') i h'))
    | None => None
    end
  | _ => None
  end.

Inductive label := LR | LG (i : nat) | LS (k : nat).

Definition step (v : variant) (s : cstate) (l : label) : option cstate :=
  match l with
  | LR => rstep v s
  | LG i => gstep v s i
  | LS k => sstep v s k
  end.

(* a schedule is any list of labels; a label whose thread cannot move is a stutter step *)
Definition step_or_stay (v : variant) (s : cstate) (l : label) : cstate :=
  match step v s l with Some s' => s' | None => s end.
Definition run (v : variant) (s : cstate) (sched : list label) : cstate := fold_left (step_or_stay v) sched s.

Definition all_labels (s : cstate) : list label :=
  LR :: map LG (seq 0 (length (c_gs s))) ++ map LS (seq 0 (length (c_searches s))).
Definition is_some {A} (o : option A) : bool := match o with Some _ => true | None => false end.
Definition enabled (v : variant) (s : cstate) : list label := filter (fun l => is_some (step v s l)) (all_labels s).
Definition stuck (v : variant) (s : cstate) : bool := match enabled v s with [] => true | _ => false end.

(* ---- well-formed dialogues *)
(* a `go` is preceded by a `position` of its own *)
Fixpoint wf (ph : bool) (d : list cmd) : bool :=
  match d with
  | [] => true
  | CPos :: r => wf true r
  | CGo _ :: r => ph && wf false r
  | _ :: r => wf ph r
  end.
(* every `go infinite` is followed by a `stop` before the next position/go and before the end *)
Fixpoint stopped (need : bool) (d : list cmd) : bool :=
  match d with
  | [] => negb need
  | CStop :: r => stopped false r
  | CReady :: r => stopped need r
  | CPos :: r => negb need && stopped false r
  | CGo inf :: r => negb need && stopped inf r
  end.

(* ---- enumeration of all maximal executions (for the forced-schedule tie): depth-first, only enabled
        labels, up to [fuel] steps per execution and [cap] executions *)
Fixpoint enum (v : variant) (fuel : nat) (s : cstate) (pre : list label) (acc : list (list label * cstate))
  : list (list label * cstate) :=
  match fuel with
  | O => (rev pre, s) :: acc
  | S f =>
    match enabled v s with
    | [] => (rev pre, s) :: acc
    | ls => fold_left (fun acc l => match step v s l with
                                    | Some s' => enum v f s' (l :: pre) acc
                                    | None => acc end) ls acc
    end
  end.
Definition executions (v : variant) (fuel : nat) (d : list cmd) : list (list label * cstate) :=
  rev (enum v fuel (init d) [] []).
