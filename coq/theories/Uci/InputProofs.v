(* Proofs about the input model (Uci/Input.v): skipping of unknown leading tokens, dispatch. *)
From Coq Require Import NArith ZArith List Bool Lia.
From Clemens Require Import Base.Res Uci.ParseGo Uci.Input Uci.GoLineSpec Uci.ParseGoProofs.
Import ListNotations.

Section Dispatch.
  Variable valid : list token.

  Lemma rpg_skip garbage : forall l,
    all_unknown valid garbage ->
    remove_prefix_garbage valid (garbage ++ l) = remove_prefix_garbage valid l.
  Proof.
    induction garbage as [|t garbage IH]; intros l H; [reflexivity|].
    inversion H as [|? ? Ht Hg]; subst.
    cbn [app remove_prefix_garbage]. rewrite Ht. apply IH. exact Hg.
  Qed.

  Lemma rpg_valid c rest :
    valid_first valid c = true -> remove_prefix_garbage valid (c :: rest) = c :: rest.
  Proof. intros H. cbn [remove_prefix_garbage]. rewrite H. reflexivity. Qed.

  Lemma rpg_all_unknown ts : all_unknown valid ts -> remove_prefix_garbage valid ts = [].
  Proof.
    intros H. rewrite <- (app_nil_r ts). rewrite rpg_skip by exact H. reflexivity.
  Qed.

  Lemma dispatch_valid c rest :
    valid_first valid c = true -> dispatch valid (c :: rest) = switch c rest.
  Proof. intros H. unfold dispatch. rewrite rpg_valid by exact H. reflexivity. Qed.

  (* Unknown leading tokens are skipped: the line is handled exactly as if it began at the
     first valid token, and that is the token the switch sees. *)
  Lemma prefix_skipped garbage c rest :
    all_unknown valid garbage -> valid_first valid c = true ->
    dispatch valid (garbage ++ c :: rest) = dispatch valid (c :: rest) /\
    dispatch valid (c :: rest) = switch c rest.
  Proof.
    intros Hg Hc. split; [|apply dispatch_valid; exact Hc].
    unfold dispatch. rewrite rpg_skip by exact Hg. reflexivity.
  Qed.

  (* Unknown commands are ignored: a line without any valid first token, and a line whose
     first valid token is not a word the switch knows (debug, setoption, ponderhit), call
     nothing and print nothing. *)
  Lemma unknown_ignored ts : all_unknown valid ts -> dispatch valid ts = CNone.
  Proof. intros H. unfold dispatch. rewrite rpg_all_unknown by exact H. reflexivity. Qed.

  Lemma switch_not_command c rest : ~ In c command_words -> switch c rest = CNone.
  Proof.
    intros Hni. unfold switch.
    repeat match goal with
    | |- context [if tok_eqb c ?w then _ else _] =>
      destruct (tok_eqb c w) eqn:E;
      [apply tok_eqb_eq in E; subst c; exfalso; apply Hni; unfold command_words; cbn; tauto|clear E]
    end.
    reflexivity.
  Qed.

  Lemma no_case_ignored garbage c rest :
    all_unknown valid garbage -> valid_first valid c = true -> ~ In c command_words ->
    dispatch valid (garbage ++ c :: rest) = CNone.
  Proof.
    intros Hg Hc Hni. destruct (prefix_skipped garbage c rest Hg Hc) as [-> ->].
    apply switch_not_command. exact Hni.
  Qed.
End Dispatch.

(* the switch, word by word *)
Lemma switch_words rest :
  switch w_uci rest = CUci /\ switch w_quit rest = CQuit /\ switch w_isready rest = CIsReady /\
  switch w_ucinewgame rest = CNewGame /\ switch w_position rest = CPosition rest /\
  switch w_go rest = CGo rest /\ switch w_stop rest = CStop.
Proof. repeat split; reflexivity. Qed.

(* ------------------------------------------------------------------ fields (ASCII) *)

Lemma fields_aux_token t : forall cur s,
  forallb (fun c => negb (is_space c)) t = true ->
  fields_aux (t ++ s) cur = fields_aux s (rev t ++ cur).
Proof.
  induction t as [|c t IH]; intros cur s H; [reflexivity|].
  cbn [forallb] in H. apply andb_true_iff in H. destruct H as [Hc Ht].
  cbn [app fields_aux]. apply negb_true_iff in Hc. rewrite Hc.
  rewrite IH by exact Ht. cbn [rev]. rewrite <- app_assoc. reflexivity.
Qed.

Lemma fields_sep_tokens r : forall cur,
  cur <> [] -> Forall plain_token r ->
  fields_aux (flat_map (fun u => 32%N :: u) r) cur = rev cur :: r.
Proof.
  induction r as [|u r IH]; intros cur Hcur Hr.
  - cbn. destruct cur; [congruence|reflexivity].
  - inversion Hr as [|? ? [Hne Hu] Hr']; subst.
    cbn [flat_map app fields_aux]. change (is_space 32) with true. cbv iota.
    destruct cur as [|x cur']; [congruence|]. f_equal.
    rewrite fields_aux_token by exact Hu. rewrite app_nil_r.
    rewrite IH.
    + rewrite rev_involutive. reflexivity.
    + destruct u; [congruence|]. cbn [rev]. intros E. apply app_eq_nil in E. destruct E; discriminate.
    + exact Hr'.
Qed.

Lemma fields_join ts : Forall plain_token ts -> fields (join ts) = ts.
Proof.
  intros H. destruct ts as [|t r]; [reflexivity|].
  inversion H as [|? ? [Hne Ht] Hr]; subst.
  unfold fields, join. rewrite fields_aux_token by exact Ht. rewrite app_nil_r.
  rewrite fields_sep_tokens.
  - rewrite rev_involutive. reflexivity.
  - destruct t; [congruence|]. cbn [rev]. intros E. apply app_eq_nil in E. destruct E; discriminate.
  - exact Hr.
Qed.

(* ------------------------------------------------------------------ command words are reachable *)

Section Reachable.
  Variable valid : list token.
  (* checked by computation on the generated list in Props/C07.v *)
  Hypothesis Hcw : forallb (valid_first valid) command_words = true.

  Lemma command_word_valid c : In c command_words -> valid_first valid c = true.
  Proof. intros H. exact (proj1 (forallb_forall _ _) Hcw c H). Qed.

  (* after any unknown leading tokens each command word reaches its case of the switch *)
  Lemma commands_dispatched garbage rest :
    all_unknown valid garbage ->
    dispatch valid (garbage ++ w_uci :: rest) = CUci /\
    dispatch valid (garbage ++ w_quit :: rest) = CQuit /\
    dispatch valid (garbage ++ w_isready :: rest) = CIsReady /\
    dispatch valid (garbage ++ w_ucinewgame :: rest) = CNewGame /\
    dispatch valid (garbage ++ w_position :: rest) = CPosition rest /\
    dispatch valid (garbage ++ w_go :: rest) = CGo rest /\
    dispatch valid (garbage ++ w_stop :: rest) = CStop.
  Proof.
    intros Hg.
    assert (H : forall c, In c command_words ->
                dispatch valid (garbage ++ c :: rest) = switch c rest).
    { intros c Hc. destruct (prefix_skipped valid garbage c rest Hg (command_word_valid c Hc)) as [-> ->].
      reflexivity. }
    repeat split; rewrite H; try reflexivity; unfold command_words; cbn; tauto.
  Qed.
End Reachable.

(* ------------------------------------------------------------------ whole `go` lines *)


Lemma digit_not_space c : is_digit c = true -> negb (is_space c) = true.
Proof.
  unfold is_digit, is_space. intros H. apply andb_true_iff in H. destruct H as [H1 H2].
  apply N.leb_le in H1. apply N.leb_le in H2.
  repeat match goal with |- context [(c =? ?k)%N] =>
    let E := fresh in destruct (N.eqb_spec c k) as [E|E]; [lia|clear E] end.
  reflexivity.
Qed.

Lemma digits_plain s : s <> [] -> forallb is_digit s = true -> plain_token s.
Proof.
  intros Hne H. split; [exact Hne|]. apply forallb_forall. intros c Hc.
  apply digit_not_space. exact (proj1 (forallb_forall _ _) H c Hc).
Qed.

Lemma itoa_plain (z : Z) : (min_int <= z <= max_int)%Z -> plain_token (itoa z).
Proof.
  unfold min_int, max_int. intros Hz.
  assert (Hn : forall n, (n < two64)%N -> plain_token (itoa_n n)).
  { intros n Hlt. destruct (itoa_n_spec n Hlt) as (Hall & _ & c & r & E & _).
    apply digits_plain; [rewrite E; discriminate|exact Hall]. }
  destruct z as [|p|p]; cbn [itoa].
  - apply Hn. unfold two64. lia.
  - apply Hn. unfold two64. lia.
  - destruct (Hn (N.pos p)) as [_ H]; [unfold two64; lia|].
    split; [discriminate|]. cbn [forallb]. rewrite H. reflexivity.
Qed.

Lemma kw_token_plain k : plain_token (kw_token k).
Proof. destruct k; split; try discriminate; reflexivity. Qed.

Lemma render_plain ps : Forall param_ok ps -> Forall plain_token (render ps).
Proof.
  induction ps as [|p ps IH]; intros H; [constructor|].
  inversion H as [|? ? Hp Hps]; subst. unfold render. cbn [flat_map]. fold (render ps).
  apply Forall_app. split; [|apply IH; exact Hps].
  destruct p as [k v|]; cbn [render_param].
  - constructor; [apply kw_token_plain|]. constructor; [|constructor].
    apply itoa_plain, (value_ok_int64 k), Hp.
  - constructor; [|constructor]. split; [discriminate | reflexivity].
Qed.

(* The input LINE "<unknown words> go <parameters>" (single blanks) reaches parseGo with
   exactly the parameter tokens, and parseGo yields exactly the record they denote. *)
Lemma go_line_exact valid garbage ps :
  valid_first valid w_go = true ->
  Forall plain_token garbage -> all_unknown valid garbage ->
  NoDup (map kind ps) -> Forall param_ok ps ->
  handle_line valid (join (garbage ++ w_go :: render ps)) = CGo (render ps) /\
  parse_go (render ps) = Ok (denote ps, acks ps).
Proof.
  intros Hgo Hpl Hg Hnd Hok. split; [|apply parse_go_exact; assumption].
  unfold handle_line. rewrite fields_join.
  - destruct (prefix_skipped valid garbage w_go (render ps) Hg Hgo) as [-> ->]. reflexivity.
  - apply Forall_app. split; [exact Hpl|]. constructor.
    + split; [discriminate|reflexivity].
    + apply render_plain. exact Hok.
Qed.
