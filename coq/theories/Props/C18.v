(* C18 — the static exchange evaluation classifies every capture correctly.
   "For every capture in every legal position, the static exchange evaluation is negative, zero or
   positive exactly when the full minimax of the capture sequence on the target square - each side
   recapturing with its least valuable attacker, pieces behind it joining in, either side free to stop -
   is negative, zero or positive."  Quantifier: all non-en-passant captures in all legal positions.

   Model: [see] (Eval/Eval.v: int16 arithmetic, pruned swap list, incrementally maintained attacker
   sets, x-ray refresh only behind pawns, bishops, rooks and queens).
   Reference: [see_ref] (Eval/SeeRef.v: attackers recomputed from scratch on the square array with the
   coordinate geometry of Att/Geometry.v, least valuable first, recursive minimax). [sign z] is -1, 0, 1.
   This file contains only the property theorems, each closed by [exact] of a lemma proved in
   Eval/SeeProofs.v or Eval/SeeFinal.v, with its assumptions printed. *)
From Coq Require Import NArith ZArith List Bool.
From Clemens Require Import Base.Res Base.Word Pos.Types Att.Attacks Pos.Position Pos.Inv Pos.CapturesProofs.
From Clemens Require Import Att.Geometry Eval.Eval Eval.SeeRef Eval.SeeGeo Eval.SeeProofs Eval.SeeFinal Eval.SeeInst.
Import ListNotations.
Open Scope Z_scope.

(* ---- (i) on ANY sequence of values: v0 the victim, l = a1, a2, ... the pieces in the order they
   capture. [swap_full]: gain[0] = v0, gain[d] = a_d - gain[d-1]; [swap_pruned]: the same, cut at the
   first d with max(-gain[d-1], gain[d]) < 0 as the engine cuts it; [zfold]: the engine's second loop;
   [minimax (c :: r)] = c - max 0 (minimax r). All over unbounded integers; no assumption on the
   values (they need not even be sorted or non-negative). ---- *)
Theorem C18_pruning_preserves_sign : forall v0 l, l <> [] ->
  sign (zfold (swap_pruned [v0] l)) = sign (zfold (swap_full [v0] l)).
Proof. exact pruning_preserves_sign. Qed.
Print Assumptions C18_pruning_preserves_sign.

(* the statement is about the SIGN because the values do differ: enumeration over all victims and all
   attacker sequences of length 1..4 on the engine's five distinct values (3900 cases; done before the
   proof): the sign never differs, the value differs in 925 of them (23.7 %) *)
Example C18_list_enumeration :
  length enum_cases = 3900%nat /\ forallb enum_sign_ok enum_cases = true /\
  length (filter enum_value_differs enum_cases) = 925%nat.
Proof. repeat split; vm_compute; reflexivity. Qed.
Print Assumptions C18_list_enumeration.

(* the complete swap list is the recursive minimax; the last attacker's own value never matters *)
Theorem C18_swap_is_minimax : forall v0 l, l <> [] ->
  zfold (swap_full [v0] l) = minimax (v0 :: removelast l).
Proof. exact swap_is_minimax. Qed.
Print Assumptions C18_swap_is_minimax.

(* no int16 wrap: at most 31 attackers of value <= 1000 on a victim of value <= 1000 keep every gain
   entry within 32 * 1000 < 2^15, and on such entries the model's int16 second loop [see_fold] is the
   integer fold *)
Theorem C18_gain_no_wrap : forall v0 l, l <> [] ->
  0 <= v0 <= 1000 -> Forall (fun a => 0 <= a <= 1000) l -> (length l <= 31)%nat ->
  Forall (fun g => - 32000 <= g <= 32000) (swap_pruned [v0] l) /\
  see_fold (swap_pruned [v0] l) = Ok (zfold (swap_pruned [v0] l)).
Proof. exact gain_no_wrap_fold. Qed.
Print Assumptions C18_gain_no_wrap.

(* ---- (iii) a capture made by a piece of value 0 (the king): whatever is captured before it, the
   line is worth exactly what it was worth without the continuation - taking the king (0) and then
   facing a reply worth >= 0 never beats stopping. So what the engine misses behind a king (no x-ray
   refresh) cannot change the result. Found by enumeration first: not only the sign, the VALUE is
   independent of the tail, for the minimax, for the full and for the pruned swap list. ---- *)
Theorem C18_king_capture_tail : forall pre t, pre <> [] -> minimax (pre ++ 0 :: t) = minimax pre.
Proof. exact king_capture_tail. Qed.
Print Assumptions C18_king_capture_tail.

Theorem C18_king_capture_tail_swap : forall v0 pre t1 t2,
  zfold (swap_pruned [v0] (pre ++ 0 :: t1)) = zfold (swap_pruned [v0] (pre ++ 0 :: t2)) /\
  zfold (swap_full [v0] (pre ++ 0 :: t1)) = zfold (swap_full [v0] (pre ++ 0 :: t2)).
Proof. intros. split; [apply king_capture_tail_pruned|apply king_capture_tail_full]. Qed.
Print Assumptions C18_king_capture_tail_swap.

(* two lines of captured values that are equal until one of them ends or goes on with the capture of
   a 0-valued piece ([agree]) have the same minimax *)
Theorem C18_agree_minimax : forall l1 l2, agree l1 l2 -> forall c, minimax (c :: l1) = minimax (c :: l2).
Proof. exact agree_minimax. Qed.
Print Assumptions C18_agree_minimax.

(* ---- (ii) the first loop of [see] on attackers of types tys (as [eng_line] lists them: the model's
   own set updates, refresh and least-valuable choice, without pruning) returns exactly the pruned swap
   list of their values ---- *)
Theorem C18_see_swap_trace : forall C, pv_ok C ->
  forall fuel p target mx gain d ty src attacks occ already stm tys K,
  eng_line fuel p target mx ty src attacks occ already stm = Ok tys ->
  Forall (fun t => (t < 6)%N) tys ->
  (d + length tys < 32)%nat ->
  gain <> [] -> Forall (fun g => - K <= g <= K) gain -> K + 1000 * Z.of_nat (length tys) <= 32767 ->
  see_swap C fuel p target mx gain d ty src attacks occ already stm = Ok (swap_pruned gain (map (val C) tys)).
Proof. exact see_swap_trace. Qed.
Print Assumptions C18_see_swap_trace.

(* ... and the incrementally maintained attacker sets yield the reference's line of captured values up
   to a king capture: the premise [slider_exact] is property C12 (the slider lookups are the geometric
   rays); [capture_ok p m]: m moves a man of the side to move that attacks the occupied target *)
Theorem C18_incremental_attackers_exact : slider_exact ->
  forall C, pv_ok C -> forall p, facts p -> material_ok p -> forall m, capture_ok p m ->
  exists tys rest,
    eng_attackers p m = Ok tys /\
    ref_line C 40 (board p) (mv_src m) (mv_dst m) = piece_value C (piece_at p (mv_dst m)) :: rest /\
    agree (removelast (map (val C) tys)) rest.
Proof. exact incremental_attackers_exact. Qed.
Print Assumptions C18_incremental_attackers_exact.

(* ---- (iv) gain[32] is sufficient: with at most 32 men on the board at most 31 can capture on one
   square one after the other, the loop ends by itself and [see] does not panic; it returns the folded
   pruned swap list of the attackers' values ---- *)
Theorem C18_gain_bound : forall (K : zkeys) (C : econsts) (p : position) (l : list N) (m : N),
  Inv p -> material_ok p -> pv_ok C ->
  legal_moves K p = Ok l -> In m l -> mv_kind m <> EN_PASSANT -> piece_at p (mv_dst m) <> 0%N ->
  exists tys, eng_attackers p m = Ok tys /\ (1 <= length tys <= 31)%nat /\
    see C p m = Ok (zfold (swap_pruned [piece_value C (piece_at p (mv_dst m))] (map (val C) tys))).
Proof. exact see_total. Qed.
Print Assumptions C18_gain_bound.

(* ---- (v) the property. [material_ok p]: at most 32 men; [pv_ok C]: six piece values in 0..1000, the
   king's 0 (met by the Go build, see C18_hyps_met) ---- *)
Theorem C18_see_sign_statement_def : C18_see_sign_statement =
  (forall (K : zkeys) (C : econsts) (p : position) (l : list N) (m : N) (v : Z),
    Inv p -> material_ok p -> pv_ok C ->
    legal_moves K p = Ok l -> In m l -> mv_kind m <> EN_PASSANT -> piece_at p (mv_dst m) <> 0%N ->
    see C p m = Ok v -> sign v = sign (see_ref C p m)).
Proof. reflexivity. Qed.
Print Assumptions C18_see_sign_statement_def.

(* as proved in Eval/SeeProofs.v: everything except C12, which is an explicit premise *)
Theorem C18_see_sign_partial : slider_exact -> C18_see_sign_statement.
Proof. exact see_sign_partial. Qed.
Print Assumptions C18_see_sign_partial.

(* with C12 (Att/SlidingProofs.v) *)
Theorem C18_slider_exact : slider_exact.
Proof. exact slider_exact_holds. Qed.
Print Assumptions C18_slider_exact.

Theorem C18_see_sign : forall (K : zkeys) (C : econsts) (p : position) (l : list N) (m : N) (v : Z),
  Inv p -> material_ok p -> pv_ok C ->
  legal_moves K p = Ok l -> In m l -> mv_kind m <> EN_PASSANT -> piece_at p (mv_dst m) <> 0%N ->
  see C p m = Ok v -> sign v = sign (see_ref C p m).
Proof. exact see_sign. Qed.
Print Assumptions C18_see_sign.

(* ---- non-vacuity: the hypotheses are met by the Go build's constants and by a battery position
   (1k1r3q/1ppn3p/p4b2/4p3/8/P2N2P1/1PP1R1BP/2K1Q3 w - - 0 1, Nd3xe5: knight, knight, rook, bishop,
   queen, queen on the pawn e5; engine and reference both -210) ---- *)
Example C18_hyps_met :
  pv_ok go_econsts /\
  see_parse see_fen_1 = Ok see_pos_1 /\ Inv see_pos_1 /\ material_ok see_pos_1 /\
  (exists l, legal_moves go_keys see_pos_1 = Ok l /\ In mv_d3e5 l) /\
  mv_kind mv_d3e5 <> EN_PASSANT /\ piece_at see_pos_1 (mv_dst mv_d3e5) <> 0%N /\
  see go_econsts see_pos_1 mv_d3e5 = Ok (-210) /\ see_ref go_econsts see_pos_1 mv_d3e5 = -210 /\
  eng_attackers see_pos_1 mv_d3e5 = Ok [KNIGHT; KNIGHT; ROOK; BISHOP; QUEEN; QUEEN].
Proof.
  split; [repeat split; try (vm_compute; reflexivity); repeat constructor; vm_compute; discriminate|].
  split; [vm_compute; reflexivity|]. split; [vm_compute; reflexivity|].
  split; [unfold material_ok; vm_compute; repeat constructor|].
  split.
  { destruct (legal_moves go_keys see_pos_1) as [l| |] eqn:E; [|vm_compute in E; discriminate..].
    exists l. split; [reflexivity|]. vm_compute in E. injection E as <-. vm_compute. tauto. }
  repeat split; try (vm_compute; reflexivity); vm_compute; discriminate.
Qed.
Print Assumptions C18_hyps_met.

(* ---- the engine and the reference on concrete positions: same sign on every legal non-en-passant
   capture (values differ, e.g. Kiwipete e2xa6: -810 against -300: pruning); in position 5 the lines
   differ after the king's capture (the reference sees the rook behind the king, the engine does not)
   and [agree] holds ---- *)
Example C18_ref_agrees_on_samples :
  forallb signs_agree [see_pos_1; see_pos_2; see_pos_3; see_pos_4; see_pos_5; see_pos_6; see_pos_7; see_pos_8] = true /\
  map (fun p => List.length (see_table p)) [see_pos_1; see_pos_2; see_pos_3; see_pos_4; see_pos_5; see_pos_6; see_pos_7; see_pos_8]
    = [3; 1; 1; 1; 1; 1; 8; 11]%nat /\
  sign_of_res (see go_econsts see_pos_1 mv_d3e5) = Some (sign (see_ref go_econsts see_pos_1 mv_d3e5)) /\
  (* Bg2xd5 in 6k1/8/1n3n2/3p4/3K4/8/3R2B1/8: bishop, knight, king, knight - and for the reference then the rook *)
  eng_attackers see_pos_5 (mk_move 14 35) = Ok [BISHOP; KNIGHT; KING; KNIGHT] /\
  ref_line go_econsts 40 (board see_pos_5) 14 35 = [100; 310; 310; 0; 310] /\
  agree_b (removelast (map (val go_econsts) [BISHOP; KNIGHT; KING; KNIGHT])) [310; 310; 0; 310] = true /\
  see go_econsts see_pos_5 (mk_move 14 35) = Ok 100 /\ see_ref go_econsts see_pos_5 (mk_move 14 35) = 100.
Proof. repeat split; vm_compute; reflexivity. Qed.
Print Assumptions C18_ref_agrees_on_samples.
