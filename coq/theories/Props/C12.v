(* C12 — attack computation is exact.
   "For every square and every board occupancy, the attack sets the engine computes for rook, bishop
   and queen equal the squares reachable along open lines up to and including the first blocker;
   knight, king and pawn attack sets and pawn pushes equal their geometric definitions; and for every
   position the set of pieces reported as attacking a square, and hence whether a king is in check,
   is exactly right."
   The reference is Att/Geometry.v (coordinates, no bit tricks). This file contains only the property
   theorems, each closed by [exact] of a lemma proved elsewhere, with its assumptions printed.
   Bit t of an attack set = square t is attacked; the statements hold for every t (for t >= 64 both
   sides are false), every occ (no bound is needed) and every sq < 64. *)
From Coq Require Import NArith ZArith List Bool.
From Clemens Require Import Base.Res Base.Word Pos.Types Att.Attacks Att.Geometry
  Att.ShiftsProofs Att.SlidingProofs Att.Magic Att.MagicInst Att.LeaperInst
  Pos.Position Pos.Inv Att.AttackersProofs.
From ClemensGen Require Import GoConsts.
Import ListNotations.
Open Scope N_scope.

(* ---- bit level: the one-step shifts, for every board ---- *)
Theorem C12_shifts_exact : forall b i,
  N.testbit (north_one b) i = (i <? 64) && (8 <=? i) && N.testbit b (i - 8) /\
  N.testbit (south_one b) i = N.testbit b (i + 8) /\
  N.testbit (east_one b) i = (i <? 64) && negb (i mod 8 =? 0) && (1 <=? i) && N.testbit b (i - 1) /\
  N.testbit (west_one b) i = (i <? 64) && negb (i mod 8 =? 7) && N.testbit b (i + 1) /\
  N.testbit (north_east_one b) i = (i <? 64) && negb (i mod 8 =? 0) && (9 <=? i) && N.testbit b (i - 9) /\
  N.testbit (north_west_one b) i = (i <? 64) && negb (i mod 8 =? 7) && (7 <=? i) && N.testbit b (i - 7) /\
  N.testbit (south_east_one b) i = (i <? 64) && negb (i mod 8 =? 0) && N.testbit b (i + 7) /\
  N.testbit (south_west_one b) i = (i <? 64) && negb (i mod 8 =? 7) && N.testbit b (i + 9).
Proof.
  exact (fun b i => conj (north_one_spec b i) (conj (south_one_spec b i) (conj (east_one_spec b i)
    (conj (west_one_spec b i) (conj (north_east_one_spec b i) (conj (north_west_one_spec b i)
    (conj (south_east_one_spec b i) (south_west_one_spec b i)))))))).
Qed.
Print Assumptions C12_shifts_exact.

(* ---- the ray walker (utils.SlidingAttacks), origin clear in occ ---- *)
Theorem C12_rook_walker_exact : forall sq occ, sq < 64 -> N.testbit occ sq = false ->
  forall t, N.testbit (rook_walk sq occ) t = geo_ray_attacks rook_dirs_geo sq occ t.
Proof. exact rook_walk_geom. Qed.
Print Assumptions C12_rook_walker_exact.

Theorem C12_bishop_walker_exact : forall sq occ, sq < 64 -> N.testbit occ sq = false ->
  forall t, N.testbit (bishop_walk sq occ) t = geo_ray_attacks bishop_dirs_geo sq occ t.
Proof. exact bishop_walk_geom. Qed.
Print Assumptions C12_bishop_walker_exact.

(* the model's walker carries a fuel of 8 (Go's loop has none): 7 already suffice, more change nothing *)
Theorem C12_walker_fuel_sufficient : forall dir, In dir (rook_dirs ++ bishop_dirs) ->
  forall occ n sq acc, sq < 64 -> (7 <= n)%nat ->
  walk n dir (bit sq) occ acc = walk 8 dir (bit sq) occ acc.
Proof. exact fuel_sufficient. Qed.
Print Assumptions C12_walker_fuel_sufficient.

(* the hypothesis is not idle: with the origin set in occ the Go walker returns the empty set *)
Theorem C12_walker_origin_set : forall sq occ, sq < 64 -> N.testbit occ sq = true ->
  rook_walk sq occ = 0 /\ bishop_walk sq occ = 0.
Proof. exact (fun sq occ Hsq Hset => conj (rook_walk_origin_set sq occ Hsq Hset) (bishop_walk_origin_set sq occ Hsq Hset)). Qed.
Print Assumptions C12_walker_origin_set.

(* masking with the relevant-occupancy mask = clearing the origin: edge squares and everything off
   the rays do not matter *)
Theorem C12_mask_irrelevant : forall sq occ, sq < 64 ->
  rook_walk sq (N.land occ (rook_mask sq)) = rook_walk sq (N.ldiff occ (bit sq)) /\
  bishop_walk sq (N.land occ (bishop_mask sq)) = bishop_walk sq (N.ldiff occ (bit sq)).
Proof. exact (fun sq occ Hsq => conj (rook_mask_irrelevant sq occ Hsq) (bishop_mask_irrelevant sq occ Hsq)). Qed.
Print Assumptions C12_mask_irrelevant.

(* ---- sliders: every square, every occupancy ---- *)
Theorem C12_rook_exact : forall sq occ, sq < 64 ->
  forall t, N.testbit (rook_attacks sq occ) t = geo_ray_attacks rook_dirs_geo sq occ t.
Proof. exact rook_attacks_exact. Qed.
Print Assumptions C12_rook_exact.

Theorem C12_bishop_exact : forall sq occ, sq < 64 ->
  forall t, N.testbit (bishop_attacks sq occ) t = geo_ray_attacks bishop_dirs_geo sq occ t.
Proof. exact bishop_attacks_exact. Qed.
Print Assumptions C12_bishop_exact.

Theorem C12_queen_exact : forall sq occ, sq < 64 ->
  forall t, N.testbit (queen_attacks sq occ) t = geo_ray_attacks queen_dirs_geo sq occ t.
Proof. exact queen_attacks_exact. Qed.
Print Assumptions C12_queen_exact.

(* ---- the magic tables of the Go build ---- *)
(* AttacksBySquare = Attacks[Index(occ)] on the table magic.Init fills with the generated mask,
   multiplier and shift: the fill completes (no collision, no index out of range) and the lookup is
   the attack function above *)
Theorem C12_magic_lookup_exact : forall sq occ, sq < 64 ->
  rook_lookup sq occ = Ok (rook_attacks sq occ) /\ bishop_lookup sq occ = Ok (bishop_attacks sq occ).
Proof. exact (fun sq occ Hsq => conj (rook_magic_lookup_exact sq occ Hsq) (bishop_magic_lookup_exact sq occ Hsq)). Qed.
Print Assumptions C12_magic_lookup_exact.

(* whatever multiplier and shift magic.Init settles on: if its fill loop completes, the lookup is exact *)
Theorem C12_magic_any_multiplier : forall sq magic shift tbl, sq < 64 ->
  (magic_fill (rook_mask sq) magic shift (rook_walk sq) = Ok (Some tbl) ->
   forall occ, magic_lookup (rook_mask sq) magic shift tbl occ = Ok (rook_attacks sq occ)) /\
  (magic_fill (bishop_mask sq) magic shift (bishop_walk sq) = Ok (Some tbl) ->
   forall occ, magic_lookup (bishop_mask sq) magic shift tbl occ = Ok (bishop_attacks sq occ)).
Proof.
  exact (fun sq magic shift tbl Hsq =>
    conj (rook_lookup_any_multiplier sq magic shift tbl Hsq) (bishop_lookup_any_multiplier sq magic shift tbl Hsq)).
Qed.
Print Assumptions C12_magic_any_multiplier.

(* every subset of a mask is enumerated by AllSubnetsOf *)
Theorem C12_subsets_complete : forall sq, sq < 64 ->
  (forall o, N.land o (rook_mask sq) = o -> In o (all_subsets (rook_mask sq))) /\
  (forall o, N.land o (bishop_mask sq) = o -> In o (all_subsets (bishop_mask sq))).
Proof. exact (fun sq Hsq => conj (rook_subsets_complete sq Hsq) (bishop_subsets_complete sq Hsq)). Qed.
Print Assumptions C12_subsets_complete.

(* ---- leapers and pawns ---- *)
Theorem C12_knight_exact : forall sq, sq < 64 ->
  forall t, N.testbit (knight_attacks sq) t = geo_knight sq t.
Proof. exact knight_attacks_exact. Qed.
Print Assumptions C12_knight_exact.

Theorem C12_king_exact : forall sq, sq < 64 ->
  forall t, N.testbit (king_attacks sq) t = geo_king sq t.
Proof. exact king_attacks_exact. Qed.
Print Assumptions C12_king_exact.

Theorem C12_pawn_attacks_exact : forall c sq, sq < 64 ->
  forall t, N.testbit (pawn_attacks c sq) t = geo_pawn_attack c sq t.
Proof. exact pawn_attacks_exact. Qed.
Print Assumptions C12_pawn_attacks_exact.

Theorem C12_pawn_pushes_exact : forall c sq occ, sq < 64 ->
  forall t, N.testbit (pushes_by_square c sq occ) t = geo_pawn_push c sq occ t.
Proof. exact pushes_exact. Qed.
Print Assumptions C12_pawn_pushes_exact.

(* ---- what the Go build holds is what the model computes ---- *)
Theorem C12_tables_match_build : forall sq, sq < 64 ->
  nth (N.to_nat sq) knight_table 0 = knight_attacks sq /\
  nth (N.to_nat sq) king_table 0 = king_attacks sq /\
  nth (N.to_nat sq) pawn_table_white 0 = pawn_attacks WHITE sq /\
  nth (N.to_nat sq) pawn_table_black 0 = pawn_attacks BLACK sq /\
  (nth (N.to_nat sq) rook_masks 0 = rook_mask sq /\
   nth (N.to_nat sq) rook_shifts 0 = 64 - popcount (rook_mask sq) /\
   nth (N.to_nat sq) rook_tablens 0 = 2 ^ popcount (rook_mask sq)) /\
  (nth (N.to_nat sq) bishop_masks 0 = bishop_mask sq /\
   nth (N.to_nat sq) bishop_shifts 0 = 64 - popcount (bishop_mask sq) /\
   nth (N.to_nat sq) bishop_tablens 0 = 2 ^ popcount (bishop_mask sq)).
Proof.
  exact (fun sq Hsq => conj (knight_table_match sq Hsq) (conj (king_table_match sq Hsq)
    (conj (pawn_table_white_match sq Hsq) (conj (pawn_table_black_match sq Hsq)
    (conj (rook_masks_match sq Hsq) (bishop_masks_match sq Hsq)))))).
Qed.
Print Assumptions C12_tables_match_build.

(* ---- positions ---- *)
(* SquareAttackedBy returns exactly the squares s whose piece attacks sq:
   attacks_geo p s sq = geo_piece_attacks (occupied_in p) (piece_at p s) s sq *)
Theorem C12_attackers_exact : forall p sq,
  board_wf p = true -> bbs_agree p = true -> helpers_agree p = true -> sq < 64 ->
  exists a, square_attacked_by p sq = Ok a /\ a < two64 /\
            forall s, s < 64 -> N.testbit a s = attacks_geo p s sq.
Proof. exact attackers_exact. Qed.
Print Assumptions C12_attackers_exact.

(* IsInCheck c = some piece of the other colour attacks the square of c's (only) king *)
Theorem C12_in_check_exact : forall p c,
  board_wf p = true -> bbs_agree p = true -> helpers_agree p = true -> one_king_each p = true ->
  c < 2 ->
  exists ksq, ksq < 64 /\ piece_at p ksq = new_piece c KING /\
              (forall s, s < 64 -> piece_at p s = new_piece c KING -> s = ksq) /\
              is_in_check p c = Ok (attacked_by_color p (switch_color c) ksq).
Proof. exact in_check_exact. Qed.
Print Assumptions C12_in_check_exact.

(* the C10 invariant gives the hypotheses of the last two theorems *)
Theorem C12_inv_gives_hyps : forall p, Inv p ->
  board_wf p = true /\ bbs_agree p = true /\ helpers_agree p = true /\ one_king_each p = true.
Proof. exact Inv_views. Qed.
Print Assumptions C12_inv_gives_hyps.

(* ---- non-vacuity: concrete instances ---- *)
Example C12_hyps_met :
  (* a rook on d4 (27); pieces on d4, d6, b4, f4, d2 and d8 *)
  let occ := bit 27 + bit 43 + bit 25 + bit 29 + bit 11 + bit 59 in
  (27 < 64 /\ occ < two64) /\
  bits (rook_attacks 27 occ) = [11; 19; 25; 26; 28; 29; 35; 43] /\
  rook_lookup 27 occ = Ok (rook_attacks 27 occ) /\
  geo_ray_attacks rook_dirs_geo 27 occ 43 = true /\ geo_ray_attacks rook_dirs_geo 27 occ 51 = false /\
  bits (bishop_attacks 27 occ) = [0; 6; 9; 13; 18; 20; 34; 36; 41; 45; 48; 54; 63] /\
  geo_knight 6 21 = true /\ geo_king 4 13 = true /\ geo_pawn_attack 0 12 21 = true /\
  geo_pawn_push 0 12 occ 28 = true /\ geo_pawn_push 0 11 occ 27 = false /\ geo_pawn_push 1 52 occ 36 = true /\
  (* the start position: f3 is attacked by the knight g1 and the pawns e2, g2; nobody is in check *)
  (exists p, new_position c12_keys = Ok p /\ Inv p /\
             square_attacked_by p 21 = Ok (bit 6 + bit 12 + bit 14) /\
             attacks_geo p 6 21 = true /\ attacks_geo p 5 21 = false /\
             is_in_check p 0 = Ok false /\ attacked_by_color p 1 4 = false) /\
  (* after fool's mate white is in check: the queen h4 attacks e1 *)
  (exists p, c12_fools_mate = Ok p /\ board_wf p = true /\ bbs_agree p = true /\ helpers_agree p = true /\
             one_king_each p = true /\
             is_in_check p 0 = Ok true /\ attacked_by_color p 1 4 = true /\ attacks_geo p 31 4 = true).
Proof.
  cbv zeta.
  split; [split; vm_compute; reflexivity|].
  do 11 (split; [vm_compute; reflexivity|]).
  split.
  - eexists. split; [vm_compute; reflexivity|]. unfold Inv.
    do 5 (split; [vm_compute; reflexivity|]). vm_compute; reflexivity.
  - eexists. split; [vm_compute; reflexivity|].
    do 6 (split; [vm_compute; reflexivity|]). vm_compute; reflexivity.
Qed.
Print Assumptions C12_hyps_met.
