(* C10 - position invariant.
   "After any sequence of legal moves (and null moves made while not in check) from a position satisfying the
   invariant, all views of the board agree (square array, twelve bitboards, occupancy sets), each side has
   exactly one king, no pawn stands on a back rank, castling rights imply king and rook on their home
   squares, an en-passant target lies behind a pawn that has just advanced two squares, the side that just
   moved is not in check, and the counters are bytes; the engine never indexes out of range or scans an
   empty king bitboard on the way."
   The invariant is the executable predicate [inv_b] / [Inv] of Pos/Inv.v.  This file contains only the
   property theorems, each closed by [exact] of a lemma proved elsewhere, with its assumptions printed. *)
From Coq Require Import NArith List Bool.
From Clemens Require Import Base.Res Base.Word Pos.Types Att.Attacks Pos.Position Pos.Inv Pos.ZobristProofs
  Pos.ZobristInst.
From Clemens.C10Inv Require Import InvStep InvTotal InvReach.
Import ListNotations.
Open Scope N_scope.

(* ---- preservation ---- *)
(* a legal move (a member of the list [legal_moves] computes: generated, made, successor passes IsLegal) *)
Theorem C10_inv_step : forall (K : zkeys) p m q ls,
  Inv p -> legal_moves K p = Ok ls -> In m ls -> make_move K p m = Ok q -> Inv q.
Proof. exact inv_step. Qed.
Print Assumptions C10_inv_step.

(* every GENERATED (pseudo-legal) move keeps every clause except "the side that just moved is not in check";
   in particular kings are never captured *)
Theorem C10_gen_step_nocheck : forall (K : zkeys) p ms m q,
  Inv p -> gen_moves p = Ok ms -> In m ms -> make_move K p m = Ok q -> inv_nocheck_b q = true.
Proof. exact gen_step_nocheck. Qed.
Print Assumptions C10_gen_step_nocheck.

(* a null move, made when the side to move is not in check *)
Theorem C10_null_step : forall (K : zkeys) p q e,
  Inv p -> is_in_check p (side p) = Ok false -> make_null_move K p = Ok (q, e) -> Inv q.
Proof. exact null_inv. Qed.
Print Assumptions C10_null_step.

(* the start position *)
Theorem C10_new_position : forall (K : zkeys) p, new_position K = Ok p -> Inv p.
Proof. exact new_position_inv. Qed.
Print Assumptions C10_new_position.

(* ---- sequences of operations ---- *)
(* [steps K p0 ops ps]: the operations (OpMove m with m in the current legal-move list | OpNull with the
   mover not in check) are carried out one after the other from p0; ps are the positions after each *)
Theorem C10_steps_inv : forall (K : zkeys) p0 ops ps,
  Inv p0 -> steps K p0 ops ps -> Forall Inv ps.
Proof. exact steps_inv. Qed.
Print Assumptions C10_steps_inv.

Theorem C10_steps_inv_hash : forall (K : zkeys) p0 ops ps,
  Inv p0 -> hash_ok K p0 -> steps K p0 ops ps -> Forall (fun p => Inv p /\ hash_ok K p) ps.
Proof. exact steps_inv_hash. Qed.
Print Assumptions C10_steps_inv_hash.

(* everything the engine can reach ([reachable], Pos/ZobristProofs.v) *)
Theorem C10_reachable_inv : forall (K : zkeys) p, reachable K p -> Inv p.
Proof. exact reachable_inv. Qed.
Print Assumptions C10_reachable_inv.

Theorem C10_reachable_hash_ok : forall (K : zkeys) p, reachable K p -> hash_ok K p.
Proof. exact reachable_hash_ok_closed. Qed.
Print Assumptions C10_reachable_hash_ok.

(* ---- no panic ---- *)
Theorem C10_gen_moves_total : forall p, Inv p -> exists ms, gen_moves p = Ok ms.
Proof. exact gen_moves_total. Qed.
Print Assumptions C10_gen_moves_total.

Theorem C10_make_move_total : forall (K : zkeys), keys_wf K = true -> forall p ms m,
  Inv p -> gen_moves p = Ok ms -> In m ms -> exists q, make_move K p m = Ok q.
Proof. exact make_move_total. Qed.
Print Assumptions C10_make_move_total.

Theorem C10_is_legal_total : forall (K : zkeys) p ms m q,
  Inv p -> gen_moves p = Ok ms -> In m ms -> make_move K p m = Ok q -> exists b, is_legal q = Ok b.
Proof. exact is_legal_total. Qed.
Print Assumptions C10_is_legal_total.

Theorem C10_legal_moves_total : forall (K : zkeys), keys_wf K = true -> forall p,
  Inv p -> exists ls, legal_moves K p = Ok ls.
Proof. exact legal_moves_total. Qed.
Print Assumptions C10_legal_moves_total.

(* ---- non-vacuity: the Go build's key table, New(), its 20 legal moves, 1. e4 and a null move ---- *)
Example C10_hyps_met :
  keys_wf go_keys = true /\
  new_position go_keys = Ok p_start /\ Inv p_start /\
  legal_moves go_keys p_start = Ok ls_start /\ length ls_start = 20%nat /\ In e2e4 ls_start /\
  make_move go_keys p_start e2e4 = Ok q_e4 /\
  Inv q_e4 /\ inv_b q_e4 = true /\
  piece_at q_e4 28 = 1 /\ piece_at q_e4 12 = 0 /\ ep q_e4 = 20 /\ side q_e4 = BLACK /\
  board q_e4 <> board p_start /\
  steps go_keys p_start [OpMove e2e4; OpNull] [q_e4; q_e4_null] /\
  Forall Inv [q_e4; q_e4_null].
Proof. exact inv_step_example. Qed.
Print Assumptions C10_hyps_met.
