(* C15 - static evaluation is colour-symmetric and never looks like a mate score.
   This file contains only the property theorems, each closed by [exact] of a lemma proved in
   C15Mirror/*.v (symmetry) or C15Bound/*.v (bound), with its assumptions printed.
   [mirror] (C15Mirror/Mirror.v, executable): board flipped top to bottom, colours and side to move
   swapped, castling rights exchanged, en-passant square flipped; [go_econsts] = the tables and
   constants of the current Go build (coq/gen/GoConsts.v), the same record the extracted model runs with. *)
From Coq Require Import NArith ZArith List Bool.
From Clemens Require Import Base.Res Base.Word Pos.Types Att.Attacks Pos.Position Pos.Inv Eval.Eval.
From Clemens.C15Mirror Require Import Mirror MirrorEval MirrorGo MirrorExamples MirrorInv.
From Clemens Require Search.GoInst Eval.SeeInst.
From Clemens Require Import Pos.ZobristProofs.
From Clemens.C15Bound Require Import Material EvalZ EvalW Bound Play Game.
From Clemens.C15Bound Require Examples.
From Clemens.C10Inv Require InvStep InvReach.
Open Scope Z_scope.

(* the Go build: no side condition *)
Theorem C15_eval_mirror : forall p, Inv p -> eval_raw go_econsts (mirror p) = eval_raw go_econsts p.
Proof. exact eval_mirror. Qed.
Print Assumptions C15_eval_mirror.

(* the same from the weakest premise: twelve 64-bit piece sets, two 64-bit colour sets, a 64-bit occupancy
   and one king per colour; the square array, the rights, the clocks and the hash do not matter *)
Theorem C15_eval_mirror_shape : forall p, shape_ok p = true ->
  eval_raw go_econsts (mirror p) = eval_raw go_econsts p.
Proof. exact eval_mirror_go_shape. Qed.
Print Assumptions C15_eval_mirror_shape.

(* the tables of the Go build are mirror images of each other (768 comparisons) and have the array shapes *)
Theorem C15_go_tables_symmetric : pst_symmetric go_econsts = true /\ econsts_wf go_econsts = true.
Proof. exact (conj go_pst_symmetric go_econsts_wf). Qed.
Print Assumptions C15_go_tables_symmetric.

(* any constants with mirror-image piece-square tables: the score is symmetric unless the tapered int16 sum
   mid*phase + end*(max-phase) is exactly -32768 *)
Theorem C15_eval_mirror_any_consts : forall C p,
  econsts_wf C = true -> pst_symmetric C = true -> Inv p -> no_min16 C p ->
  eval_raw C (mirror p) = eval_raw C p.
Proof. exact eval_mirror_any_consts. Qed.
Print Assumptions C15_eval_mirror_any_consts.

(* ... and that exception is real (for other constants than those of the Go build) *)
Theorem C15_side_condition_needed :
  exists C p, econsts_wf C = true /\ pst_symmetric C = true /\ Inv p /\
              tapered C p = Ok (-32768) /\ tapered C (mirror p) = Ok (-32768) /\
              eval_raw C p = Ok (-1266) /\ eval_raw C (mirror p) = Ok 1464 /\
              eval_raw C (mirror p) <> eval_raw C p.
Proof. exact eval_mirror_without_side_condition_refuted. Qed.
Print Assumptions C15_side_condition_needed.

(* for the Go build it cannot occur, and in general it holds of both images or of neither *)
Theorem C15_go_no_min16 : forall p, shape_ok p = true -> no_min16 go_econsts p.
Proof. exact go_no_min16. Qed.
Print Assumptions C15_go_no_min16.

Theorem C15_no_min16_mirror : forall C p,
  econsts_wf C = true -> pst_symmetric C = true -> shape_ok p = true ->
  (no_min16 C (mirror p) <-> no_min16 C p).
Proof. intros C p HC Hsym. exact (no_min16_mirror C HC Hsym p). Qed.
Print Assumptions C15_no_min16_mirror.

(* term by term: the three accumulators are negated (int16 negation), phase, draw test and contempt stay *)
Theorem C15_eval_parts_mirror : forall C p,
  econsts_wf C = true -> pst_symmetric C = true -> shape_ok p = true ->
  eval_parts C (mirror p) = neg16_parts (eval_parts C p).
Proof. intros C p HC Hsym. exact (eval_parts_mirror C HC Hsym p). Qed.
Print Assumptions C15_eval_parts_mirror.

Theorem C15_phase_draw_contempt_mirror : forall C p,
  econsts_wf C = true -> shape_ok p = true ->
  game_phase C (mirror p) = game_phase C p /\ is_draw (mirror p) = is_draw p /\
  contempt C (mirror p) = contempt C p.
Proof. intros C p HC. exact (phase_draw_contempt_mirror C HC p). Qed.
Print Assumptions C15_phase_draw_contempt_mirror.

(* the hypothesis is closed under mirroring, and mirroring is an involution on it *)
Theorem C15_Inv_mirror : forall p, Inv p -> Inv (mirror p).
Proof. exact Inv_mirror. Qed.
Print Assumptions C15_Inv_mirror.

Theorem C15_mirror_involutive : forall p, Inv p -> mirror (mirror p) = p.
Proof. exact mirror_involutive. Qed.
Print Assumptions C15_mirror_involutive.

Theorem C15_Inv_shape : forall p, Inv p -> shape_ok p = true.
Proof. exact Inv_shape. Qed.
Print Assumptions C15_Inv_shape.

(* the constants the theorems are about are the ones the extracted model (and so the correspondence check) uses *)
Theorem C15_constants_tied : go_econsts = Search.GoInst.go_econsts /\ Eval.SeeInst.go_econsts = Search.GoInst.go_econsts.
Proof. split; reflexivity. Qed.
Print Assumptions C15_constants_tied.

(* non-vacuity: three asymmetric positions (Kiwipete; a Sicilian with an en-passant square; a black-to-move
   endgame) satisfy the hypotheses, so do their mirror images, and both evaluate to the same non-zero number *)
Example C15_hyps_met :
  (Inv mx_p1 /\ Inv (mirror mx_p1) /\ board (mirror mx_p1) <> board mx_p1 /\
   eval_raw go_econsts mx_p1 = Ok 115 /\ eval_raw go_econsts (mirror mx_p1) = Ok 115) /\
  (Inv mx_p2 /\ Inv (mirror mx_p2) /\ board (mirror mx_p2) <> board mx_p2 /\ ep (mirror mx_p2) = 18%N /\
   eval_raw go_econsts mx_p2 = Ok 58 /\ eval_raw go_econsts (mirror mx_p2) = Ok 58) /\
  (Inv mx_p3 /\ Inv (mirror mx_p3) /\ side (mirror mx_p3) = WHITE /\ ep (mirror mx_p3) = 43%N /\
   eval_raw go_econsts mx_p3 = Ok (-257) /\ eval_raw go_econsts (mirror mx_p3) = Ok (-257)).
Proof. exact eval_mirror_hyps_met. Qed.
Print Assumptions C15_hyps_met.

(* ================= second half: the static score never looks like a mate score; no int16 operation wraps ================= *)
(* [material_ok] (C15Bound/Material.v, executable, reads the square array only): per side one king, at most 8
   pawns, and promoted pieces paid for by missing pawns:
   max(0,N-2) + max(0,B-2) + max(0,R-2) + max(0,Q-1) <= 8 - P.  The mate range is |v| > INF - maxPlies = 32667. *)
Theorem C15_eval_safe : forall p, Inv p -> material_ok p = true ->
  exists v, eval_raw Eval.SeeInst.go_econsts p = Ok v /\ eval_raw_Z Eval.SeeInst.go_econsts p = Ok v /\
            Z.abs v <= 14193 /\ is_checkmate_value Eval.SeeInst.go_econsts v = false.
Proof. exact eval_safe. Qed.
Print Assumptions C15_eval_safe.

(* no int16 operation wraps: the result is that of the same formula over the unbounded integers.
   [eval_raw_Z] is Eval/Eval.v with +, -, * for add16, sub16, mul16 and no wrap16; that this is the ONLY difference is
   machine-checked: both are instances of one text [eval_raw_W] with the wrap as a parameter *)
Theorem C15_eval_no_wrap : forall p, Inv p -> material_ok p = true ->
  eval_raw Eval.SeeInst.go_econsts p = eval_raw_Z Eval.SeeInst.go_econsts p.
Proof. exact eval_no_wrap. Qed.
Print Assumptions C15_eval_no_wrap.

Theorem C15_eval_raw_W_instances : forall C p,
  eval_raw_W wrap16 C p = eval_raw C p /\ eval_raw_W (fun x => x) C p = eval_raw_Z C p.
Proof. exact (fun C p => conj (eval_raw_W_is_model C p) (eval_raw_W_is_Z C p)). Qed.
Print Assumptions C15_eval_raw_W_instances.

(* the accumulators: |mid|, |end| <= 1145 (calculateScore multiplies them by at most 24: 27480 <= 32767), |base| <= 13048 *)
Theorem C15_eval_parts_no_wrap : forall p, Inv p -> material_ok p = true ->
  eval_parts Eval.SeeInst.go_econsts p = eval_parts_Z Eval.SeeInst.go_econsts p /\
  exists m e b, eval_parts Eval.SeeInst.go_econsts p = Ok (m, e, b) /\
    Z.abs m <= 1145 /\ Z.abs e <= 1145 /\ Z.abs b <= 13048.
Proof. exact eval_parts_no_wrap. Qed.
Print Assumptions C15_eval_parts_no_wrap.

Theorem C15_eval_no_panic : forall p, Inv p -> material_ok p = true ->
  eval_raw Eval.SeeInst.go_econsts p <> Panic /\ eval_raw Eval.SeeInst.go_econsts p <> Err.
Proof. exact eval_no_panic. Qed.
Print Assumptions C15_eval_no_panic.

(* the material hypothesis is needed: positions that satisfy the invariant but not the accounting of legal chess
   (nine pawns; 27 knights; 36 queens) make the evaluation panic, wrap, or return a mate-range score *)
Theorem C15_eval_bound_needs_material :
  ~ (forall p, Inv p -> exists v, eval_raw Eval.SeeInst.go_econsts p = Ok v /\ is_checkmate_value Eval.SeeInst.go_econsts v = false) /\
  ~ (forall p, Inv p -> eval_raw Eval.SeeInst.go_econsts p = eval_raw_Z Eval.SeeInst.go_econsts p) /\
  ~ (forall p, Inv p -> eval_raw Eval.SeeInst.go_econsts p <> Panic).
Proof. exact Examples.eval_bound_needs_material. Qed.
Print Assumptions C15_eval_bound_needs_material.

(* [material_ok] is an invariant of play: New() has it, every generated move keeps it (captures only remove men, a
   promotion turns one pawn into one piece; no king is captured: C10) *)
Theorem C15_material_new_position : forall (K : zkeys) p, new_position K = Ok p -> material_ok p = true.
Proof. exact material_new_position. Qed.
Print Assumptions C15_material_new_position.

Theorem C15_material_step : forall (K : zkeys) p ms m q,
  material_ok p = true -> Inv p -> gen_moves p = Ok ms -> In m ms -> make_move K p m = Ok q -> material_ok q = true.
Proof. exact (material_step_from_C10 InvStep.gen_step_nocheck). Qed.
Print Assumptions C15_material_step.

(* hence the bound for every position of every game from the start position *)
Theorem C15_eval_bound_game : forall (K : zkeys) p, game_pos K p ->
  exists v, eval_raw Eval.SeeInst.go_econsts p = Ok v /\ eval_raw_Z Eval.SeeInst.go_econsts p = Ok v /\
            Z.abs v <= 14193 /\ is_checkmate_value Eval.SeeInst.go_econsts v = false.
Proof. exact (fun K => eval_bound_game K (InvReach.inv_step_holds K)). Qed.
Print Assumptions C15_eval_bound_game.

(* non-vacuity of the second half: the start position, a three-queen and a nine-queen position meet the hypotheses *)
Example C15_bound_hyps_met :
  (Inv Examples.start_pos /\ material_ok Examples.start_pos = true /\ eval_raw Eval.SeeInst.go_econsts Examples.start_pos = Ok 0) /\
  (Inv Examples.three_queens /\ material_ok Examples.three_queens = true /\ eval_raw Eval.SeeInst.go_econsts Examples.three_queens = Ok 3292) /\
  (Inv Examples.nine_queens /\ material_ok Examples.nine_queens = true /\ eval_raw Eval.SeeInst.go_econsts Examples.nine_queens = Ok 10408).
Proof. unfold Inv. repeat split; vm_compute; reflexivity. Qed.
Print Assumptions C15_bound_hyps_met.
