(* C15 - static evaluation is colour-symmetric and never looks like a mate score.
   This file contains only the property theorems, each closed by [exact] of a lemma proved in
   C15Mirror/*.v (symmetry) or C15Bound/*.v (bound), with its assumptions printed.
   [mirror] (C15Mirror/Mirror.v, executable): board flipped top to bottom, colours and side to move
   swapped, castling rights exchanged, en-passant square flipped; [go_econsts] = the tables and
   constants of the current Go build (coq/gen/GoConsts.v), the same record the extracted model runs with. *)
From Coq Require Import NArith ZArith List Bool.
From Clemens Require Import Base.Res Base.Word Pos.Types Att.Attacks Pos.Position Pos.Inv Eval.Eval.
From Clemens.C15Mirror Require Import Mirror MirrorEval MirrorGo MirrorExamples MirrorInv.
From Clemens Require Search.GoInst.
Open Scope Z_scope.

(* the Go build: no side condition *)
Theorem C15_eval_mirror : forall p, Inv p -> eval_raw go_econsts (mirror p) = eval_raw go_econsts p.
Proof. exact eval_mirror. Qed.
Print Assumptions C15_eval_mirror.

(* the same from the weakest premise: twelve 64-bit piece sets, two 64-bit colour sets, a 64-bit occupancy
   and one king per colour; the square array, the rights, the clocks and the hash do not matter *)
Theorem C15_eval_mirror_shape : forall p, shape_ok p = true ->
  eval_raw go_econsts (mirror p) = eval_raw go_econsts p.
Proof. exact eval_mirror_go_shape. Qed.
Print Assumptions C15_eval_mirror_shape.

(* the tables of the Go build are mirror images of each other (768 comparisons) and have the array shapes *)
Theorem C15_go_tables_symmetric : pst_symmetric go_econsts = true /\ econsts_wf go_econsts = true.
Proof. exact (conj go_pst_symmetric go_econsts_wf). Qed.
Print Assumptions C15_go_tables_symmetric.

(* any constants with mirror-image piece-square tables: the score is symmetric unless the tapered int16 sum
   mid*phase + end*(max-phase) is exactly -32768 *)
Theorem C15_eval_mirror_any_consts : forall C p,
  econsts_wf C = true -> pst_symmetric C = true -> Inv p -> no_min16 C p ->
  eval_raw C (mirror p) = eval_raw C p.
Proof. exact eval_mirror_any_consts. Qed.
Print Assumptions C15_eval_mirror_any_consts.

(* ... and that exception is real (for other constants than those of the Go build) *)
Theorem C15_side_condition_needed :
  exists C p, econsts_wf C = true /\ pst_symmetric C = true /\ Inv p /\
              tapered C p = Ok (-32768) /\ tapered C (mirror p) = Ok (-32768) /\
              eval_raw C p = Ok (-1266) /\ eval_raw C (mirror p) = Ok 1464 /\
              eval_raw C (mirror p) <> eval_raw C p.
Proof. exact eval_mirror_without_side_condition_refuted. Qed.
Print Assumptions C15_side_condition_needed.

(* for the Go build it cannot occur, and in general it holds of both images or of neither *)
Theorem C15_go_no_min16 : forall p, shape_ok p = true -> no_min16 go_econsts p.
Proof. exact go_no_min16. Qed.
Print Assumptions C15_go_no_min16.

Theorem C15_no_min16_mirror : forall C p,
  econsts_wf C = true -> pst_symmetric C = true -> shape_ok p = true ->
  (no_min16 C (mirror p) <-> no_min16 C p).
Proof. intros C p HC Hsym. exact (no_min16_mirror C HC Hsym p). Qed.
Print Assumptions C15_no_min16_mirror.

(* term by term: the three accumulators are negated (int16 negation), phase, draw test and contempt stay *)
Theorem C15_eval_parts_mirror : forall C p,
  econsts_wf C = true -> pst_symmetric C = true -> shape_ok p = true ->
  eval_parts C (mirror p) = neg16_parts (eval_parts C p).
Proof. intros C p HC Hsym. exact (eval_parts_mirror C HC Hsym p). Qed.
Print Assumptions C15_eval_parts_mirror.

Theorem C15_phase_draw_contempt_mirror : forall C p,
  econsts_wf C = true -> shape_ok p = true ->
  game_phase C (mirror p) = game_phase C p /\ is_draw (mirror p) = is_draw p /\
  contempt C (mirror p) = contempt C p.
Proof. intros C p HC. exact (phase_draw_contempt_mirror C HC p). Qed.
Print Assumptions C15_phase_draw_contempt_mirror.

(* the hypothesis is closed under mirroring, and mirroring is an involution on it *)
Theorem C15_Inv_mirror : forall p, Inv p -> Inv (mirror p).
Proof. exact Inv_mirror. Qed.
Print Assumptions C15_Inv_mirror.

Theorem C15_mirror_involutive : forall p, Inv p -> mirror (mirror p) = p.
Proof. exact mirror_involutive. Qed.
Print Assumptions C15_mirror_involutive.

Theorem C15_Inv_shape : forall p, Inv p -> shape_ok p = true.
Proof. exact Inv_shape. Qed.
Print Assumptions C15_Inv_shape.

(* the constants the theorems are about are the ones the extracted model (and so the correspondence check) uses *)
Theorem C15_constants_tied : go_econsts = Search.GoInst.go_econsts.
Proof. reflexivity. Qed.
Print Assumptions C15_constants_tied.

(* non-vacuity: three asymmetric positions (Kiwipete; a Sicilian with an en-passant square; a black-to-move
   endgame) satisfy the hypotheses, so do their mirror images, and both evaluate to the same non-zero number *)
Example C15_hyps_met :
  (Inv mx_p1 /\ Inv (mirror mx_p1) /\ board (mirror mx_p1) <> board mx_p1 /\
   eval_raw go_econsts mx_p1 = Ok 115 /\ eval_raw go_econsts (mirror mx_p1) = Ok 115) /\
  (Inv mx_p2 /\ Inv (mirror mx_p2) /\ board (mirror mx_p2) <> board mx_p2 /\ ep (mirror mx_p2) = 18%N /\
   eval_raw go_econsts mx_p2 = Ok 58 /\ eval_raw go_econsts (mirror mx_p2) = Ok 58) /\
  (Inv mx_p3 /\ Inv (mirror mx_p3) /\ side (mirror mx_p3) = WHITE /\ ep (mirror mx_p3) = 43%N /\
   eval_raw go_econsts mx_p3 = Ok (-257) /\ eval_raw go_econsts (mirror mx_p3) = Ok (-257)).
Proof. exact eval_mirror_hyps_met. Qed.
Print Assumptions C15_hyps_met.
