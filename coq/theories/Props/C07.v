(* C07 — UCI command lines are parsed totally and faithfully.
   This file contains only the property theorems, each closed by [exact] of a lemma proved
   elsewhere, with its assumptions printed.

   Model: Uci/ParseGo.v (parseGo WITH the repair of D3, strconv.Atoi), Uci/Input.v
   (prepareInput, removePrefixGarbage, the switch of handleInput); specification of `go`
   lines: Uci/GoLineSpec.v.  [validFirstInputToken] is generated from the Go build.

   Trusted / outside these theorems: strings.Fields is modelled for ASCII white space only
   ([fields]); strconv.Quote only for printable-ASCII tokens without double quote and backslash;
   what `position`, `go` and the other commands then DO (C03, C05, C06, C11) — [dispatch] says
   which handler is called with which tokens; lines longer than 64 KiB never reach handleInput
   (bufio.Scanner) and garbage inside `position` is outside the property's domain. *)
From Coq Require Import NArith ZArith List Bool String.
From Clemens Require Import Base.Res Uci.ParseGo Uci.GoLineSpec Uci.ParseGoProofs Uci.Input Uci.InputProofs.
From ClemensGen Require Import GoConsts.
Import ListNotations.

Notation V := validFirstInputToken.

(* The generated list contains every word handleInput's switch has a case for (otherwise that
   command could never be reached). Checked by computation on the generated data. *)
Lemma command_words_valid : forallb (valid_first V) command_words = true.
Proof. vm_compute. reflexivity. Qed.

(* No token list after `go` makes parseGo panic ... *)
Theorem C07_parse_go_total : forall ts : list token, parse_go ts <> Panic.
Proof. exact parse_go_total. Qed.
Print Assumptions C07_parse_go_total.

(* ... it always returns a record and a list of printed lines (and the fuel of the model's
   loop is never exhausted). *)
Theorem C07_parse_go_returns : forall ts : list token, exists r, parse_go ts = Ok r.
Proof. exact parse_go_returns. Qed.
Print Assumptions C07_parse_go_returns.

(* Every `go` line built from distinct standard parameters, in any order and combination, with
   in-range values (depth 0..255, every other value any int64) is parsed to exactly the record
   the parameters denote: each field is the value given for it, 0 when it is not given;
   Infinite iff `infinite` is present or the line is empty; nodes / mate leave every field
   untouched and are acknowledged, and nothing else is printed. *)
Theorem C07_parse_go_exact : forall ps : list param,
  NoDup (map kind ps) -> Forall param_ok ps ->
  parse_go (render ps) = Ok (denote ps, acks ps).
Proof. exact parse_go_exact. Qed.
Print Assumptions C07_parse_go_exact.

(* [render] writes values with [itoa]; Atoi reads them back. *)
Theorem C07_atoi_itoa : forall z : Z, (min_int <= z <= max_int)%Z -> atoi (itoa z) = (z, None).
Proof. exact atoi_itoa. Qed.
Print Assumptions C07_atoi_itoa.

(* Unknown leading tokens are skipped. *)
Theorem C07_prefix_skipped : forall (garbage : list token) (c : token) (rest : list token),
  all_unknown V garbage -> valid_first V c = true ->
  dispatch V (garbage ++ c :: rest) = dispatch V (c :: rest) /\
  dispatch V (c :: rest) = switch c rest.
Proof. exact (prefix_skipped V). Qed.
Print Assumptions C07_prefix_skipped.

(* After any unknown leading tokens every command word reaches its handler, with the rest of
   the line as its tokens. *)
Theorem C07_commands_dispatched : forall (garbage rest : list token),
  all_unknown V garbage ->
  dispatch V (garbage ++ w_uci :: rest) = CUci /\
  dispatch V (garbage ++ w_quit :: rest) = CQuit /\
  dispatch V (garbage ++ w_isready :: rest) = CIsReady /\
  dispatch V (garbage ++ w_ucinewgame :: rest) = CNewGame /\
  dispatch V (garbage ++ w_position :: rest) = CPosition rest /\
  dispatch V (garbage ++ w_go :: rest) = CGo rest /\
  dispatch V (garbage ++ w_stop :: rest) = CStop.
Proof. exact (commands_dispatched V command_words_valid). Qed.
Print Assumptions C07_commands_dispatched.

(* Unknown commands are ignored: a line with no valid first token calls nothing ... *)
Theorem C07_unknown_ignored : forall ts : list token, all_unknown V ts -> dispatch V ts = CNone.
Proof. exact (unknown_ignored V). Qed.
Print Assumptions C07_unknown_ignored.

(* ... and so does a line whose first valid token has no case in the switch (debug, setoption,
   ponderhit). *)
Theorem C07_no_case_ignored : forall (garbage : list token) (c : token) (rest : list token),
  all_unknown V garbage -> valid_first V c = true -> ~ In c command_words ->
  dispatch V (garbage ++ c :: rest) = CNone.
Proof. exact (no_case_ignored V). Qed.
Print Assumptions C07_no_case_ignored.

(* Malformed or missing values are reported and do not crash: after any well-formed
   parameters, a keyword at the end of the line without its value, or followed by a token
   that is not an integer, gives a normal return whose last printed line is an `info string`
   naming the keyword. *)
Theorem C07_malformed_reported : forall (ps : list param) (k : kw) (bad rest : list token),
  Forall param_ok ps ->
  (bad = [] /\ rest = []) \/ (exists v, bad = [v] /\ not_an_integer v) ->
  exists sp evs,
    parse_go (render ps ++ kw_token k :: bad ++ rest) = Ok (sp, evs) /\ reports evs k.
Proof. exact malformed_reported. Qed.
Print Assumptions C07_malformed_reported.

(* what [not_an_integer] covers at least: a byte that is not an ASCII digit anywhere after the
   first byte of the token (and see not_an_integer_nil / _head / _sign in ParseGoProofs.v) *)
Theorem C07_non_digit_not_integer : forall (c : N) (r : list N),
  existsb non_digit r = true -> not_an_integer (c :: r).
Proof. exact not_an_integer_tail. Qed.
Print Assumptions C07_non_digit_not_integer.

(* From the input line to the record: "<unknown words> go <parameters>" written with single
   blanks reaches parseGo with exactly the parameter tokens and is parsed exactly. *)
Theorem C07_go_line_exact : forall (garbage : list token) (ps : list param),
  Forall plain_token garbage -> all_unknown V garbage ->
  NoDup (map kind ps) -> Forall param_ok ps ->
  handle_line V (join (garbage ++ w_go :: render ps)) = CGo (render ps) /\
  parse_go (render ps) = Ok (denote ps, acks ps).
Proof. exact (fun g ps => go_line_exact V g ps (command_word_valid V command_words_valid w_go
                (or_intror (or_intror (or_intror (or_intror (or_intror (or_introl eq_refl)))))))). Qed.
Print Assumptions C07_go_line_exact.

(* The statement was false of the code as it stood before the fix: commit (D3): `go infinite`. *)
Theorem C07_unrepaired_refuted : exists ts : list token, parse_go_unrepaired ts = Panic.
Proof. exact unrepaired_panics. Qed.
Print Assumptions C07_unrepaired_refuted.

(* Non-vacuity: an ordinary tournament line meets every hypothesis, with unknown words in front:
   "xyzzy 42 go wtime 300000 btime 295000 winc 2000 binc 2000 movestogo 40". *)
Example C07_hyps_met :
  let ps := [PInt KWtime 300000; PInt KBtime 295000; PInt KWinc 2000; PInt KBinc 2000;
             PInt KMovestogo 40]%Z in
  let garbage := [bytes_of_string "xyzzy"%string; bytes_of_string "42"%string] in
  NoDup (map kind ps) /\ Forall param_ok ps /\ Forall plain_token garbage /\ all_unknown V garbage /\
  join (garbage ++ w_go :: render ps) =
    bytes_of_string "xyzzy 42 go wtime 300000 btime 295000 winc 2000 binc 2000 movestogo 40"%string /\
  handle_line V (join (garbage ++ w_go :: render ps)) = CGo (render ps) /\
  parse_go (render ps) =
    Ok ({| sp_wtime := 300000; sp_btime := 295000; sp_winc := 2000; sp_binc := 2000;
           sp_movestogo := 40; sp_depth := 0; sp_movetime := 0; sp_infinite := false |}%Z, []) /\
  (* and a malformed one: "go depth x" is reported *)
  not_an_integer (bytes_of_string "x"%string) /\
  exists sp, parse_go [kw_depth; bytes_of_string "x"%string] = Ok (sp, [EvBroken KDepth (bytes_of_string "x"%string) ESyntax]).
Proof.
  cbv zeta. repeat split.
  - repeat constructor; cbn; intuition discriminate.
  - repeat constructor; cbn; unfold min_int, max_int; intuition discriminate.
  - repeat constructor; discriminate.
  - repeat constructor.
  - vm_compute. discriminate.
  - eexists. vm_compute. reflexivity.
Qed.

(* ======================= the WHOLE engine (Uci/Engine.v, tied to the real handleInput by the SESSION runs) =======================
   [go_handle iters fuel e line c]: handleInput on one input line from engine state e (game-object state, Search object, the two
   global tables), with the search it starts run to its bestmove under cancellation oracle c; [go_run]: the read loop.
   Results: [EOk e' out] | [EQuit] | [EPanic out] (the process dies) | [EStuck] (a bound of the model was hit). *)
From Clemens Require Uci.Engine Uci.EngineInst.
From Clemens.EngineE2E Require EngBase EngDispatch EngState EngExamples.
Import Clemens.Uci.Engine Clemens.Uci.EngineInst.

(* every line is handled to its end: the model's bounds are never hit (loop bound 510, recursion bound 1282), for EVERY engine
   state, line and oracle, except the one go line whose depth parameter is 255 modulo 256 ... *)
Theorem C07_engine_never_stuck : forall iters fuel e line c,
  (510 <= iters)%nat -> (1282 <= fuel)%nat -> EngBase.depth_below_255 line ->
  go_handle iters fuel e line c <> EStuck.
Proof. exact EngBase.handle_never_stuck. Qed.
Print Assumptions C07_engine_never_stuck.

(* ... and the engine function does not depend on the bounds *)
Theorem C07_engine_bounds_irrelevant : forall it1 f1 it2 f2 e line c,
  (510 <= it1)%nat -> (1282 <= f1)%nat -> (510 <= it2)%nat -> (1282 <= f2)%nat ->
  EngBase.depth_below_255 line ->
  go_handle it1 f1 e line c = go_handle it2 f2 e line c.
Proof. exact EngBase.handle_bounds_irrelevant. Qed.
Print Assumptions C07_engine_bounds_irrelevant.

(* `go depth 255`: SearchIterative's loop `for depth <= maxDepth` runs on a uint8, so with maxDepth = 255 the test is always
   true; under an oracle that never reports done no answer is produced, whatever the bounds (in the Go engine: the loop ends
   only at the deadline of the go or at a stop - which every non-infinite go has, so no listed property is violated) *)
Theorem C07_go_depth_255_needs_the_deadline : forall iters fuel e line,
  EngBase.accepts_go e -> EngBase.go_depth_of line = Some 255%Z ->
  go_handle iters fuel e line None = EStuck \/ exists out, go_handle iters fuel e line None = EPanic out.
Proof. exact EngBase.go_depth_255_no_answer. Qed.
Print Assumptions C07_go_depth_255_needs_the_deadline.

(* unknown commands are ignored: nothing printed, nothing changed *)
Theorem C07_engine_ignores_unknown : forall iters fuel e line c,
  match prepare_input V line with [] => True | w :: _ => ~ In w command_words end ->
  go_handle iters fuel e line c = EOk e [].
Proof. exact EngDispatch.handle_ignored. Qed.
Print Assumptions C07_engine_ignores_unknown.

(* unknown leading tokens are skipped: the line behaves as the line without them *)
Theorem C07_engine_skips_prefix : forall iters fuel e c (garbage : list N) (sp : N) (line : list N),
  all_unknown V (fields garbage) -> is_space sp = true ->
  go_handle iters fuel e (garbage ++ sp :: line) c = go_handle iters fuel e line c.
Proof. exact EngDispatch.handle_garbage_prefix. Qed.
Print Assumptions C07_engine_skips_prefix.

Theorem C07_engine_isready : forall iters fuel e line c rest,
  EngDispatch.first_command line w_isready rest -> go_handle iters fuel e line c = EOk e [OReadyOk].
Proof. exact EngDispatch.handle_isready. Qed.
Print Assumptions C07_engine_isready.

(* a go without a position set prints exactly the refusal and changes nothing; an accepted go prints one block that ends in
   its only bestmove and leaves the engine idle with the same game *)
Theorem C07_engine_go_refused : forall iters fuel e line c,
  EngState.is_go_line line = true -> ~ EngBase.accepts_go e ->
  go_handle iters fuel e line c = EOk e [ONoPosition].
Proof. exact EngState.go_refused. Qed.
Print Assumptions C07_engine_go_refused.

Theorem C07_engine_go_accepted : forall iters fuel e line c e' out,
  EngState.is_go_line line = true -> EngBase.accepts_go e ->
  go_handle iters fuel e line c = EOk e' out ->
  en_state e' = ST_IDLE /\ en_game e' = en_game e /\ exists m, EngState.go_block out m.
Proof. exact EngState.go_accepted. Qed.
Print Assumptions C07_engine_go_accepted.

(* sessions: as many bestmove lines as go lines that met an accepting state; the state flag is never RUNNING between lines;
   the shared tables change only in an accepted go *)
Theorem C07_engine_one_bestmove_per_accepted_go : forall iters fuel ls e fin out,
  go_run iters fuel e ls = (fin, out) -> EngState.count_best out = EngState.answered_gos iters fuel e ls.
Proof. exact EngState.run_best_count. Qed.
Print Assumptions C07_engine_one_bestmove_per_accepted_go.

Theorem C07_engine_session_never_stuck : forall iters fuel ls e,
  (510 <= iters)%nat -> (1282 <= fuel)%nat -> Forall (fun lc => EngBase.depth_below_255 (fst lc)) ls ->
  fst (go_run iters fuel e ls) <> SStuck.
Proof. exact EngState.run_never_stuck. Qed.
Print Assumptions C07_engine_session_never_stuck.

Theorem C07_engine_tables_change_only_in_go : forall iters fuel e line c e' out,
  go_handle iters fuel e line c = EOk e' out ->
  (en_tt e' <> en_tt e \/ en_cache e' <> en_cache e) -> EngState.is_go_line line = true /\ EngBase.accepts_go e.
Proof. exact EngState.tables_change_only_in_go. Qed.
Print Assumptions C07_engine_tables_change_only_in_go.

(* SESSION INVARIANT (GameThm/GameInv.v): "provided the positions it is given are legal game states, no input line kills the engine",
   over whole sessions.  An in-domain line is anything that is not a position command, or a position command with a FIDE-legal game
   from a legal position (or one the engine rejects with a message).  From process start every in-domain session that reaches the end
   of its input leaves an engine whose state flag is not RUNNING, whose game (if any) has a legal root within the repetition stack,
   and whose shared tables are those of a session of searches from legal positions (in particular: no mate value in the cache). *)
From Clemens.GameThm Require GameInv.
Theorem C07_session_invariant : forall iters fuel ls roots e e' out,
  GameInv.engine_ok roots e -> GameInv.in_domain_session iters fuel e ls -> go_run iters fuel e ls = (SEof e', out) ->
  GameInv.engine_ok (GameInv.searched_in iters fuel e ls ++ roots) e'.
Proof. exact GameInv.session_invariant. Qed.
Print Assumptions C07_session_invariant.

Theorem C07_engine_init_ok : GameInv.engine_ok [] go_engine_init.
Proof. exact GameInv.engine_init_ok. Qed.
Print Assumptions C07_engine_init_ok.
