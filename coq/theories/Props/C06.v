(* C06 - the UCI dialogue stays live under every interleaving of commands and search.
   This file contains only the property theorems, each closed by [exact] of a lemma proved in
   C06Conc/*.v, with its assumptions printed. The model is the labelled transition system of
   Uci/Conc.v (reader thread with the command handlers, optional asynchronous StartSearch activations,
   search goroutines; one step = the code between two scheduling points of the Go code); [repaired] is
   the statement order of the code after the three repairs (D6-D8), [original] the one before.
   A schedule is ANY list of thread labels (a thread that cannot move stutters), a dialogue any list of
   GUI lines with [wf false d] (every go preceded by a position of its own); the GUI's rule "position/go
   only after the previous bestmove" is part of the semantics ([gui_ready]). *)
From Coq Require Import List Bool Arith.
From Clemens Require Import Uci.Conc.
From Clemens.C06Conc Require Import ConcLemmas ConcInv ConcInvS ConcInvR ConcTheorems ConcRefuted.
Import ListNotations.

(* once bestmove has been printed the next position/go pair is accepted: no refusal, ever *)
Theorem C06_no_refusal : forall d sched,
  wf false d = true ->
  let s := run repaired (init d) sched in
  ~ In ERefusePos (c_out s) /\ ~ In ERefuseGo (c_out s).
Proof. exact no_refusal. Qed.
Print Assumptions C06_no_refusal.

(* ... and the reader does take the next position/go as soon as every bestmove is out (any variant) *)
Theorem C06_position_go_consumed : forall v s c rest,
  c_rpc s = None -> c_lines s = c :: rest -> count_best (c_out s) = c_gos s -> step v s LR <> None.
Proof. exact position_go_consumed. Qed.
Print Assumptions C06_position_go_consumed.

(* at most one bestmove per go, only for a go that was consumed, only by a search that exists *)
Theorem C06_at_most_one_bestmove : forall d sched,
  wf false d = true ->
  let s := run repaired (init d) sched in
  (forall k, best_occ k (c_out s) <= 1) /\
  (forall k, In (EBest k) (c_out s) -> k < c_gos s /\ exists t, nth_error (c_searches s) k = Some t) /\
  count_best (c_out s) <= c_gos s.
Proof. exact at_most_one_bestmove. Qed.
Print Assumptions C06_at_most_one_bestmove.

Theorem C06_at_most_one_live_search : forall d sched,
  wf false d = true ->
  let s := run repaired (init d) sched in
  forall i t, nth_error (c_searches s) i = Some t -> S i < length (c_searches s) -> s_pc t = SEnd \/ s_pc t = SDone.
Proof. exact at_most_one_live_search. Qed.
Print Assumptions C06_at_most_one_live_search.

(* exactly one: in every maximal execution (nothing can move) of a dialogue in which every go infinite is
   stopped, every line has been consumed, every go has been answered exactly once and every isready too *)
Theorem C06_exactly_one_when_quiescent : forall d sched,
  wf false d = true -> stopped false d = true ->
  let s := run repaired (init d) sched in
  stuck repaired s = true ->
  c_lines s = [] /\ c_rpc s = None /\
  (forall t, In t (c_searches s) -> s_pc t = SDone) /\
  length (c_searches s) = c_gos s /\ c_gos s = count_cgos d /\
  (forall k, k < c_gos s -> best_occ k (c_out s) = 1) /\
  count_best (c_out s) = c_gos s /\
  count_ready (c_out s) = count_creadys d.
Proof. exact exactly_one_when_quiescent. Qed.
Print Assumptions C06_exactly_one_when_quiescent.

(* a stop executed after m go lines were consumed finds search m-1 and cancels it (or it is past its search) *)
Theorem C06_stop_not_lost : forall d sched,
  wf false d = true ->
  let s := run repaired (init d) sched in
  forall m, In m (c_stops s) -> 1 <= m ->
    exists t, nth_error (c_searches s) (m - 1) = Some t /\
      (s_cancelled t = true \/ s_pc t = SMid \/ s_pc t = SEnd \/ s_pc t = SDone).
Proof. exact stop_not_lost. Qed.
Print Assumptions C06_stop_not_lost.

(* ... and the answer then arrives within three steps of that search goroutine, whatever else is interleaved *)
Theorem C06_stop_answered : forall d sched m sched2,
  wf false d = true ->
  let s := run repaired (init d) sched in
  In m (c_stops s) -> 1 <= m -> 3 <= count_LS (m - 1) sched2 ->
  In (EBest (m - 1)) (c_out (run repaired s sched2)).
Proof. exact stop_answered. Qed.
Print Assumptions C06_stop_answered.

Theorem C06_prompt_after_cancel : forall d sched k t sched2,
  wf false d = true ->
  let s := run repaired (init d) sched in
  nth_error (c_searches s) k = Some t -> s_cancelled t = true \/ s_inf t = false ->
  3 <= count_LS k sched2 ->
  In (EBest k) (c_out (run repaired s sched2)).
Proof. exact prompt_after_cancel. Qed.
Print Assumptions C06_prompt_after_cancel.

(* the reader never blocks on the mutex; a handler returns after at most five of its own steps;
   isready and stop are consumed at once *)
Theorem C06_reader_never_blocks : forall d sched,
  wf false d = true ->
  let s := run repaired (init d) sched in
  (forall h, c_rpc s = Some h ->
     hmeasure h <= 5 /\
     exists s', step repaired s LR = Some s' /\
       (c_rpc s' = None \/ exists h', c_rpc s' = Some h' /\ hmeasure h' < hmeasure h)) /\
  (forall c rest, c_rpc s = None -> c_lines s = c :: rest -> c = CReady \/ c = CStop ->
     step repaired s LR <> None).
Proof. exact reader_never_blocks. Qed.
Print Assumptions C06_reader_never_blocks.

(* isready is always answered: seven further reader steps, however interleaved, answer it *)
Theorem C06_isready_answered : forall d sched rest sched2,
  wf false d = true ->
  let s := run repaired (init d) sched in
  c_lines s = CReady :: rest -> 7 <= count_LR sched2 ->
  let s' := run repaired s sched2 in
  count_creadys d <= count_ready (c_out s') + count_creadys rest.
Proof. exact isready_answered. Qed.
Print Assumptions C06_isready_answered.

Theorem C06_readyok_accounting : forall d sched,
  wf false d = true ->
  let s := run repaired (init d) sched in
  count_ready (c_out s) + count_creadys (c_lines s) <= count_creadys d <=
  count_ready (c_out s) + count_creadys (c_lines s) + 1.
Proof. exact readyok_accounting. Qed.
Print Assumptions C06_readyok_accounting.

(* deadlock freedom: when nothing can move, either everything is finished or the engine waits for the GUI
   (an uncancelled infinite search is running and the GUI's next line, if any, is a position/go that it
   does not send before the bestmove) *)
Theorem C06_progress : forall d sched,
  wf false d = true ->
  let s := run repaired (init d) sched in
  stuck repaired s = true ->
  c_rpc s = None /\
  ( (c_lines s = [] /\ forall t, In t (c_searches s) -> s_pc t = SDone)
    \/
    (exists t, length (c_searches s) = c_gos s /\ nth_error (c_searches s) (c_gos s - 1) = Some t /\
       s_inf t = true /\ s_cancelled t = false /\ s_pc t = SRunning /\
       count_best (c_out s) < c_gos s /\
       (c_lines s = [] \/ exists c rest, c_lines s = c :: rest /\ gui_ready s c = false /\
                                        (c = CPos \/ exists inf, c = CGo inf))) ).
Proof. exact progress. Qed.
Print Assumptions C06_progress.

(* ---- the code as it stood (defects D6, D7, D8): each statement order, taken alone, breaks the property *)
Theorem C06_original_stop_lost : stop_lost_in only_async_go /\ stop_lost_in original.
Proof. exact (conj async_go_stop_lost original_stop_lost). Qed.
Print Assumptions C06_original_stop_lost.

Theorem C06_original_stuck_running :
  let s := run only_running_late (init d_two) sched_stuck_running in
  wf false d_two = true /\ stopped false d_two = true /\
  In (EBest 0) (c_out s) /\ In ERefusePos (c_out s) /\ c_gst s = RUNNING /\
  (forall t, In t (c_searches s) -> printed t = true).
Proof. exact original_stuck_running. Qed.
Print Assumptions C06_original_stuck_running.

Theorem C06_original_refused_after_bestmove :
  let s := run only_idle_late (init d_two) sched_refused_after_bestmove in
  wf false d_two = true /\ stopped false d_two = true /\ c_out s = [ERefusePos; EBest 0].
Proof. exact original_refused_after_bestmove. Qed.
Print Assumptions C06_original_refused_after_bestmove.

(* non-vacuity: a concrete dialogue (position, isready, go infinite, isready, stop, isready) satisfies the
   hypotheses, has 75 maximal executions, and one of them ends as the theorems say *)
Example C06_hyps_met :
  let d := [CPos; CReady; CGo true; CReady; CStop; CReady] in
  wf false d = true /\ stopped false d = true /\ length (executions repaired 60 d) = 75 /\
  match executions repaired 60 d with
  | (sched, s) :: _ => stuck repaired s = true /\ s = run repaired (init d) sched /\
                       rev (c_out s) = [EReady; EReady; EReady; EBest 0] /\ c_stops s = [1]
  | [] => False
  end.
Proof. vm_compute. repeat split; reflexivity. Qed.
Print Assumptions C06_hyps_met.

(* ======================= the LTS and the whole-engine model agree (SeqRef/*.v) =======================
   Uci/Conc.v (search abstract, all schedules) and Uci/Engine.v (the real search, parsers and positions, sequential) are two models
   of the same handlers, each tied to the Go code by its own differential runs.  On a sequential dialogue - the reader executes
   each handler to its end, and after an accepted go the search goroutine runs to its end before the next line - the LTS under
   the sequential schedule prints exactly the abstraction of what the engine model prints and ends in the abstraction of its state.
   Abstraction: position (with a search object created) -> CPos, go -> CGo (finite; or CGo true; CStop with [infin] = the parsed
   infinite flag), isready -> CReady, stop -> CStop, all other lines stutter; OReadyOk -> EReady, OBestMove -> EBest k,
   "wrong idle state" -> ERefusePos, "no position is set" -> ERefuseGo, info lines -> nothing. *)
From Clemens Require Uci.Engine Uci.EngineInst Uci.Input.
From Clemens.SeqRef Require SeqConc SeqAbs SeqMain SeqGo.
Import Clemens.Uci.Engine Clemens.Uci.EngineInst.

Theorem C06_sequential_refinement : forall infin iters fuel lcs e e' out,
  Forall (fun lc => SeqGo.go_admitted (fst lc)) lcs ->
  en_state e <> ST_RUNNING ->
  go_run iters fuel e lcs = (SEof e', out) ->
  let d := SeqGo.go_abs_dialogue infin (map fst lcs) in
  SeqConc.seq_ok (SeqAbs.ready_e e) d = true ->
  let s' := Conc.run Conc.repaired (SeqAbs.abs_state e d) (SeqConc.seq_sched (SeqAbs.ready_e e) 0 d) in
  Conc.c_out s' = rev (SeqAbs.abs_out 0 out) /\
  Conc.c_gst s' = SeqAbs.abs_gst (en_state e') /\ Conc.c_has_search s' = SeqAbs.has_game e' /\
  Conc.c_lines s' = [] /\ Conc.c_rpc s' = None /\ Conc.c_gs s' = [] /\ Conc.c_lock s' = false /\
  (forall t, In t (Conc.c_searches s') -> Conc.s_pc t = Conc.SDone) /\
  Conc.stuck Conc.repaired s' = true.
Proof. exact SeqGo.go_seq_refinement. Qed.
Print Assumptions C06_sequential_refinement.

(* [seq_ok] (no position/go line follows a refused go; implied by well-formedness) is EXACT: without it the two models part,
   because the LTS's GUI waits for a bestmove even after a refused go while the engine model has no GUI - a difference in the
   environment assumption, not in the engine; invisible inside C06, whose theorems assume well-formed dialogues *)
Theorem C06_sequential_agreement_iff : forall infin iters fuel lcs e e' out,
  Forall (fun lc => SeqGo.go_admitted (fst lc)) lcs ->
  en_state e <> ST_RUNNING ->
  go_run iters fuel e lcs = (SEof e', out) ->
  let d := SeqGo.go_abs_dialogue infin (map fst lcs) in
  let s' := Conc.run Conc.repaired (SeqAbs.abs_state e d) (SeqConc.seq_sched (SeqAbs.ready_e e) 0 d) in
  Conc.c_lines s' = [] <-> SeqConc.seq_ok (SeqAbs.ready_e e) d = true.
Proof. exact SeqGo.go_seq_agreement_iff. Qed.
Print Assumptions C06_sequential_agreement_iff.

(* the clauses of C06, proved above for ALL schedules of the LTS, transferred to the sessions of the engine model: in a
   well-formed session from process start nothing is refused, and there is exactly one bestmove per go, one readyok per isready *)
Theorem C06_engine_no_refusal : forall infin iters fuel lcs e' out,
  Forall (fun lc => SeqGo.go_admitted (fst lc)) lcs ->
  go_run iters fuel go_engine_init lcs = (SEof e', out) ->
  Conc.wf false (SeqGo.go_abs_dialogue infin (map fst lcs)) = true ->
  ~ In ONoPosition out /\ ~ In (OPos PMWrongState) out.
Proof. exact SeqGo.go_engine_no_refusal. Qed.
Print Assumptions C06_engine_no_refusal.

Theorem C06_engine_exactly_one_bestmove : forall infin iters fuel lcs e' out,
  Forall (fun lc => SeqGo.go_admitted (fst lc)) lcs ->
  go_run iters fuel go_engine_init lcs = (SEof e', out) ->
  Conc.wf false (SeqGo.go_abs_dialogue infin (map fst lcs)) = true ->
  SeqMain.count_bestmoves out = List.length (filter (SeqMain.is_go_line GoConsts.validFirstInputToken) (map fst lcs)) /\
  SeqMain.count_readyoks out = List.length (filter (SeqMain.is_isready_line GoConsts.validFirstInputToken) (map fst lcs)) /\
  forall k, k < List.length (filter (SeqMain.is_go_line GoConsts.validFirstInputToken) (map fst lcs)) ->
            ConcLemmas.best_occ k (SeqAbs.abs_out 0 out) = 1.
Proof. exact SeqGo.go_engine_exactly_one_bestmove. Qed.
Print Assumptions C06_engine_exactly_one_bestmove.

(* both models evaluated by the kernel on a twelve-line session (stutter lines, a rejected move, oracle-ended searches,
   go infinite, a final refused go): equal outputs and states *)
Example C06_sequential_agreement_example := SeqGo.session_agree_both_models.
