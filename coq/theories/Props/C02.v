(* C02 - applying a legal move yields exactly the FIDE successor position.
   This file contains only the property theorems, each closed by [exact] of a lemma proved in
   C02Refine/*.v (and C10Inv for the invariant along a game), with its assumptions printed.
   [apply] is the successor function of the independent specification Rules/Fide.v (placement incl. castling
   rook, en-passant victim, promotion piece; side; castling rights lost when king or rook moves or a rook is
   captured at home; en-passant target after every double push; half-move clock; full-move number);
   [abs]/[decode] (Rules/Abs.v) read the engine's position / move word as the specification's.
   The theorems hold for EVERY generated (pseudo-legal) move, a fortiori for the legal ones. *)
From Coq Require Import NArith ZArith List Bool.
From Clemens Require Import Base.Res Base.Word Pos.Types Pos.Position Pos.Fen Pos.Inv Pos.ZobristProofs Pos.ZobristInst
  Rules.Abs.
From Clemens.C02Refine Require Import RefineBase GenClass MakeRefines AbsInj FenParity KindAgree RefineGame.
From Clemens.C10Inv Require InvStep InvReach.
From Clemens Require Import Rules.Fide.
Import ListNotations.
Open Scope N_scope.

(* [ply_parity p]: the parity of the ply counter matches the side to move (the engine prints the full-move
   number as Ply/2 + 1); true of New(), of every parsed FEN, and kept by MakeMove *)
Theorem C02_make_refines : forall K p ms m q,
  Inv p -> gen_moves p = Ok ms -> In m ms -> make_move K p m = Ok q ->
  hmc p < 255 -> ply p < 255 -> ply_parity p ->
  abs q = apply (abs p) (decode m).
Proof. exact make_refines. Qed.
Print Assumptions C02_make_refines.

(* the counter hypotheses are exactly the range the byte counters can represent: necessary and sufficient *)
Theorem C02_make_refines_iff : forall K p ms m q,
  Inv p -> gen_moves p = Ok ms -> In m ms -> make_move K p m = Ok q ->
  (abs q = apply (abs p) (decode m) <->
   (ply p < 255 /\ ply_parity p /\ (hmc p < 255 \/ is_reset p m = true))).
Proof. exact make_refines_iff. Qed.
Print Assumptions C02_make_refines_iff.

(* placement, side, rights and en-passant target need no counter hypothesis at all *)
Theorem C02_make_refines_nocount : forall K p ms m q,
  Inv p -> gen_moves p = Ok ms -> In m ms -> make_move K p m = Ok q ->
  let r := apply (abs p) (decode m) in
  b_at (abs q) = b_at r /\ b_turn (abs q) = b_turn r /\ b_rights (abs q) = b_rights r /\ b_ep (abs q) = b_ep r.
Proof. exact make_refines_nocount. Qed.
Print Assumptions C02_make_refines_nocount.

(* what happens at the edge of the range (uint8 wrap), stated rather than hidden *)
Theorem C02_counter_wrap : forall K p ms m q,
  Inv p -> gen_moves p = Ok ms -> In m ms -> make_move K p m = Ok q ->
  (hmc p = 255 -> is_reset p m = false -> b_hmc (abs q) = 0%Z /\ b_hmc (apply (abs p) (decode m)) = 256%Z) /\
  (ply p = 255 -> b_full (abs q) = 1%Z /\ (128 <= b_full (apply (abs p) (decode m)))%Z).
Proof.
  exact (fun K p ms m q I G Hin M =>
    conj (make_refines_hmc_wrap K p ms m q I G Hin M) (make_refines_ply_wrap K p ms m q I G Hin M)).
Qed.
Print Assumptions C02_counter_wrap.

(* the hypotheses are maintained: parity and counters after a move; parity of New() and of every parsed FEN *)
Theorem C02_parity_and_counters_step : forall K p ms m q,
  Inv p -> gen_moves p = Ok ms -> In m ms -> make_move K p m = Ok q -> ply p < 255 ->
  (ply_parity p -> ply_parity q) /\ ply q = ply p + 1 /\ hmc q <= hmc p + 1.
Proof.
  exact (fun K p ms m q I G Hin M Hp =>
    conj (fun Par => ply_parity_step K p m q I M Par Hp) (counters_step K p ms m q I G Hin M Hp)).
Qed.
Print Assumptions C02_parity_and_counters_step.

Theorem C02_fen_ply_parity : forall K tbl s p, new_from_fen K tbl s = Ok p -> ply_parity p.
Proof. exact fen_ply_parity. Qed.
Print Assumptions C02_fen_ply_parity.

(* the move kind the engine carries in the word is the one the rules recognise from the board *)
Theorem C02_kinds_agree : forall p ms m,
  Inv p -> gen_moves p = Ok ms -> In m ms ->
  is_castling_move (abs p) (decode m) = (mv_kind m =? CASTLING) /\
  is_ep_move (abs p) (decode m) = (mv_kind m =? EN_PASSANT) /\
  Position.is_capture p m = Ok (is_capture_move (abs p) (decode m)).
Proof. exact kinds_agree. Qed.
Print Assumptions C02_kinds_agree.

(* "the position before the move is recoverable unchanged from a copy": a position is a value (no reference-typed
   field: checked on the Go type by the harness); what the theorem can add is that the successor is a function of
   the rules-level position alone - two engine positions with the same abstraction (other hash, other key table)
   have successors with the same abstraction *)
Theorem C02_successor_depends_on_abs : forall K K' p p' ms m q q',
  Inv p -> Inv p' -> ply_parity p -> ply_parity p' -> abs p = abs p' ->
  gen_moves p = Ok ms -> In m ms -> make_move K p m = Ok q -> make_move K' p' m = Ok q' ->
  hmc p < 255 -> ply p < 255 -> abs q = abs q'.
Proof. exact succ_depends_on_abs. Qed.
Print Assumptions C02_successor_depends_on_abs.

Theorem C02_abs_injective : forall K p p',
  Inv p -> Inv p' -> ply_parity p -> ply_parity p' -> hash_ok K p -> hash_ok K p' -> abs p = abs p' -> p = p'.
Proof. exact abs_injective. Qed.
Print Assumptions C02_abs_injective.

(* along every legal game within the counter range the engine's position is the fold of the rules' successor *)
Theorem C02_legal_game_refines : forall K p ms r,
  legal_game K p ms r -> Inv p -> ply_parity p ->
  ply p + N.of_nat (List.length ms) <= 255 -> hmc p + N.of_nat (List.length ms) <= 255 ->
  abs r = spec_play (abs p) ms /\ Inv r /\ ply_parity r.
Proof. exact (fun K => legal_game_refines K (InvReach.inv_step_holds K)). Qed.
Print Assumptions C02_legal_game_refines.

Theorem C02_start_game_refines : forall K p0 ms r,
  new_position K = Ok p0 -> legal_game K p0 ms r -> (List.length ms <= 255)%nat ->
  abs r = spec_play (abs p0) ms.
Proof. exact (fun K => start_game_refines K (InvReach.inv_step_holds K)). Qed.
Print Assumptions C02_start_game_refines.

(* non-vacuity: castling, en passant, a double push and a promotion-capture on a rook's home square meet every
   hypothesis, with the equation evaluated by the kernel; and the boundary witnesses *)
Example C02_hyps_met :
  refines_b ex_castle_pos ex_castle_mv /\ refines_b ex_castle_pos_b ex_castle_mv_b /\
  refines_b ex_ep_pos ex_ep_mv /\ refines_b ex_push_pos (mk_move 12 28) /\ refines_b ex_promo_pos ex_promo_mv.
Proof. exact (conj ex_castle (conj ex_castle_b (conj ex_ep (conj ex_push ex_promo)))). Qed.
Print Assumptions C02_hyps_met.

Example C02_promotion_capture_on_rook_square :
  let r := apply (abs ex_promo_pos) (decode ex_promo_mv) in
  nth 56 (b_at r) None = Some {| p_color := White; p_type := Queen |} /\ nth 49 (b_at r) None = None /\
  b_rights r = {| wk := false; wq := false; bk := true; bq := false |} /\ b_hmc r = 0%Z.
Proof. exact ex_promo_result. Qed.
Print Assumptions C02_promotion_capture_on_rook_square.
