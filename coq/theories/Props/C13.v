(* C13 - a mate in one is always played.
   This file contains only the property theorems, each closed by [exact] of a lemma proved in
   C13Mate/*.v, with its assumptions printed. The model is the full search of Search/Negamax.v
   (iterative deepening with int16 aspiration windows, PVS negamax with every pruning, quiescence,
   shared transposition table and evaluation cache as explicit state, cancellation oracle).
   Hypothesis groups (definitions in C13Mate/MateMain.v, unfolded by [C13_defs]):
     C13_consts    INF = 32767, maxPlies >= 2, aspiration half-width in 1..32767 (the Go build: 32767, 100, 50)
     C13_root      the root satisfies the C10 invariant, it and its successors have fewer than 256 generated moves
                   (the move loop counts legal moves in a uint8), and a mating move exists
     C13_universe  a set of positions containing the root, closed under the moves the search makes, on which the
                   static evaluation is not a mate value (property C15) and no position with a legal move shares its
                   64-bit hash with a checkmated successor of the root
     C13_state     the shared tables before the search: no entry of depth >= 1 under the hash of a checkmated
                   successor (the engine never stores a checkmated node), no mate value in the evaluation cache,
                   no line adopted yet.  Both table hypotheses are NECESSARY (witnesses below); every state the
                   engine itself can produce satisfies them unless two positions collide in the hash. *)
From Coq Require Import NArith ZArith List Bool.
From Clemens Require Import Base.Res Base.Word Pos.Types Pos.Position Pos.Inv Eval.Eval Search.TT Search.Ordering
  Search.Negamax Search.SearchLines Search.SearchIter Search.GoInst.
From Clemens.C13Mate Require Import MateDefs MateRange MateRoot MateMain MateExamples MateRuns.
From Clemens.C15Bound Require Import Material.
From Clemens.C13Bridge Require Import Bridge Seq Few.
Import ListNotations.
Open Scope Z_scope.

(* Search answers a mating move: every requested depth (0 = default), every cancellation point (None, Some 0 =
   immediate timeout, Some k), repaired or unrepaired window test, every heuristic state, every sane table/cache *)
Theorem C13_mate_in_one : forall K EC OC SC (U : position -> Prop) root iters fuel rep s req answer s',
  C13_consts EC SC -> C13_root K root -> C13_universe K EC root U -> C13_state K EC root s ->
  (fuel <= 255)%nat -> (req_to_depth SC req <= 254)%N ->
  search K EC OC SC iters fuel rep s root req = (ROk answer, s') ->
  mating K root answer.
Proof. exact MateMain.C13_mate_in_one. Qed.
Print Assumptions C13_mate_in_one.

(* the Go build *)
Theorem C13_go : forall (U : position -> Prop) root iters fuel rep s req answer s',
  C13_root go_keys root -> C13_universe go_keys go_econsts root U -> C13_state go_keys go_econsts root s ->
  (fuel <= 255)%nat -> (req <= 254)%N ->
  go_search iters fuel rep s root req = (ROk answer, s') ->
  mating go_keys root answer.
Proof. exact MateExamples.C13_go. Qed.
Print Assumptions C13_go.

(* the immediate timeout: only the uncancellable depth-1 fallback search runs to completion *)
Theorem C13_immediate_timeout : forall K EC OC SC (U : position -> Prop) root iters fuel rep s req answer s',
  C13_consts EC SC -> C13_root K root -> C13_universe K EC root U -> C13_state K EC root s ->
  (fuel <= 255)%nat -> (req_to_depth SC req <= 254)%N -> s_cancel s = Some 0%N ->
  search K EC OC SC iters fuel rep s root req = (ROk answer, s') ->
  mating K root answer.
Proof. exact MateMain.C13_immediate_timeout. Qed.
Print Assumptions C13_immediate_timeout.

(* one root search under (a, INF): the returned line is headed by a mating move; under any other PV window it fails
   high and the iteration is rejected *)
Theorem C13_root_search : forall K EC OC SC (U : position -> Prop) root fuel s a depth v line s',
  C13_consts EC SC -> C13_root K root -> C13_universe K EC root U ->
  tt_clean (mate_hash K root) (s_tt s) -> cache_sane EC (s_cache s) ->
  (fuel <= 255)%nat -> (1 <= depth <= 254)%N -> -32767 <= a <= 32765 ->
  search_root K EC OC SC fuel s root depth a 32767 = (ROk (v, line), s') ->
  exists m t, line = m :: t /\ mating K root m.
Proof. exact MateMain.C13_root_search. Qed.
Print Assumptions C13_root_search.

Theorem C13_root_search_fails_high : forall K EC OC SC (U : position -> Prop) root fuel s a b depth v line s',
  C13_consts EC SC -> C13_root K root -> C13_universe K EC root U ->
  tt_clean (mate_hash K root) (s_tt s) -> cache_sane EC (s_cache s) ->
  (fuel <= 255)%nat -> (1 <= depth <= 254)%N -> b <= 32766 -> sub16 b a <> 1 ->
  search_root K EC OC SC fuel s root depth a b = (ROk (v, line), s') ->
  b <= v.
Proof. exact MateMain.C13_root_search_fails_high. Qed.
Print Assumptions C13_root_search_fails_high.

(* the value of a checkmated node: exactly -INF + ply, whatever the window, with nothing written anywhere *)
Theorem C13_mated_child_value : forall K EC OC SC (P : N -> Prop) f s q alpha beta depth ply cn pm rh v line s',
  mated K q -> (depth < 255)%N -> tt_clean P (s_tt s) -> P (hash q) ->
  negamax K EC OC SC f s q alpha beta depth ply cn pm rh = (ROk (v, line), s') ->
  v = add16 (- INF EC) (Z.of_N ply) /\ line = [] /\
  s_tt s' = s_tt s /\ s_cache s' = s_cache s /\ s_killers s' = s_killers s /\
  s_history s' = s_history s /\ s_counter s' = s_counter s /\ s_hist s' = s_hist s /\
  s_pv s' = s_pv s /\ s_out s' = s_out s /\ s_cancel s' = s_cancel s /\
  s_polls s' = (s_polls s + 1)%N /\ s_nodes s' = w64 (s_nodes s + 1).
Proof. exact MateMain.C13_mated_child_value. Qed.
Print Assumptions C13_mated_child_value.

(* the table hypotheses survive a root search ("whatever earlier searches left in the shared tables") *)
Theorem C13_state_preserved : forall K EC OC SC (U : position -> Prop) root fuel s a b depth r s',
  C13_universe K EC root U ->
  tt_clean (mate_hash K root) (s_tt s) -> cache_sane EC (s_cache s) ->
  search_root K EC OC SC fuel s root depth a b = (r, s') ->
  tt_clean (mate_hash K root) (s_tt s') /\ cache_sane EC (s_cache s').
Proof. exact MateMain.C13_state_preserved. Qed.
Print Assumptions C13_state_preserved.

(* the hypotheses are satisfiable: the constants of the Go build; the empty tables; two concrete roots *)
Example C13_hyps_met :
  C13_consts go_econsts go_sconsts /\
  (forall root c, C13_state go_keys go_econsts root (go_empty_sst c)) /\
  C13_root go_keys (root_of fen1) /\ C13_root go_keys (root_of fen2) /\
  mating_moves fen1 = [a1a8] /\ mating_moves fen2 = [d8h4].
Proof. exact (conj go_consts_ok (conj empty_state_ok (conj root1_ok (conj root2_ok (conj mates1 mates2))))). Qed.
Print Assumptions C13_hyps_met.

(* the model run by the kernel: depth 1-3, no cancellation / immediate timeout / cancellation at poll 7, and a second
   search from the tables a depth-3 search left *)
Example C13_runs :
  answer fen1 1 None = ROk a1a8 /\ answer fen1 2 (Some 0%N) = ROk a1a8 /\ answer fen1 3 (Some 7%N) = ROk a1a8 /\
  answer fen2 1 None = ROk d8h4 /\ answer fen2 2 (Some 0%N) = ROk d8h4 /\ answer fen2 3 (Some 7%N) = ROk d8h4 /\
  second_answer fen1 3 2 None = ROk a1a8 /\ second_answer fen2 3 4 (Some 0%N) = ROk d8h4.
Proof.
  exact (conj answer1_d1 (conj answer1_d2_timeout (conj answer1_d3_cancel7 (conj answer2_d1
        (conj answer2_d2_timeout (conj answer2_d3_cancel7 (conj again1 again2_timeout))))))).
Qed.
Print Assumptions C13_runs.

(* the table hypotheses cannot be dropped: one junk table entry under the mated child's hash, or one junk cache entry,
   and the engine answers another move *)
Example C13_state_hypotheses_needed :
  (junk_table_answer fen2 d8h4 1 = Some (ROk 2745%N) /\ junk_table_answer fen1 a1a8 1 = Some (ROk 708%N)) /\
  junk_cache_answer fen2 1661 1 (-32766) = Some (ROk 1661%N).
Proof. exact (conj table_hypothesis_needed cache_hypothesis_needed). Qed.
Print Assumptions C13_state_hypotheses_needed.

(* ================= the hypotheses discharged as far as they can be (C13Bridge) ================= *)
(* [legal_pos p] = the C10 invariant and the material accounting of legal chess (both executable, both invariants of
   play: C10, C15). [visited K root] = the least set containing root and closed under the moves the search makes.
   [no_collision root]: no position of [visited root] with a legal move shares its 64-bit Zobrist hash with a checkmated
   successor of the root - the one hypothesis no proof can remove; it is the WEAKEST form any universe's clause implies. *)
Theorem C13_universe_from_legal_pos : forall root,
  legal_pos root -> no_collision root -> C13_universe go_keys go_econsts root (visited go_keys root).
Proof. exact universe_visited. Qed.
Print Assumptions C13_universe_from_legal_pos.

Theorem C13_no_collision_weakest : forall root (U : position -> Prop),
  C13_universe go_keys go_econsts root U -> no_collision root.
Proof. exact no_collision_weakest. Qed.
Print Assumptions C13_no_collision_weakest.

(* stated over ALL legal positions instead of the visited ones the clause would be refutable (the invariant does not read
   the hash field), i.e. the theorem would be vacuous - which is why it is stated over [visited] *)
Theorem C13_no_collision_over_all_positions_refuted : forall root,
  (exists m0, mating go_keys root m0) -> ~ no_collision_all root.
Proof. exact no_collision_all_refuted. Qed.
Print Assumptions C13_no_collision_over_all_positions_refuted.

Theorem C13_mate_in_one_legal : forall root iters fuel rep s req answer s',
  legal_pos root -> few_gen root ->
  (forall m q, gen_of root m -> make_move go_keys root m = Ok q -> few_gen q) ->
  (exists m0, mating go_keys root m0) -> no_collision root ->
  C13_state go_keys go_econsts root s -> (fuel <= 255)%nat -> (req <= 254)%N ->
  go_search iters fuel rep s root req = (ROk answer, s') ->
  mating go_keys root answer.
Proof. exact Bridge.C13_mate_in_one_legal. Qed.
Print Assumptions C13_mate_in_one_legal.

(* "whatever earlier searches left in the shared tables": [session roots s] = s is the state of an engine that started with
   empty tables and has run any number of searches (any depth, any cancellation, any result) from the legal positions
   [roots], the caller changing anything but the two tables in between *)
Theorem C13_mate_in_one_session : forall root roots iters fuel rep s req answer s',
  session roots s -> s_pv s = [] ->
  legal_pos root -> few_gen root ->
  (forall m q, gen_of root m -> make_move go_keys root m = Ok q -> few_gen q) ->
  (exists m0, mating go_keys root m0) ->
  no_collision root -> (forall root1, In root1 roots -> no_collision_from root1 root) ->
  (fuel <= 255)%nat -> (req <= 254)%N ->
  go_search iters fuel rep s root req = (ROk answer, s') ->
  mating go_keys root answer.
Proof. exact Seq.C13_mate_in_one_session. Qed.
Print Assumptions C13_mate_in_one_session.

(* the uint8 move counter: [few_gen] is not implied by the invariant alone (271 generated moves with illegal material);
   the two known 218-move record positions satisfy it *)
Example C13_few_gen_facts :
  (Inv (root_of fen271) /\ material_ok (root_of fen271) = false /\
   gen_count (root_of fen271) = Some 271%nat /\ legal_count (root_of fen271) = Some 271%nat /\ ~ few_gen (root_of fen271)) /\
  (legal_pos (root_of fen218a) /\ gen_count (root_of fen218a) = Some 218%nat /\
   legal_count (root_of fen218a) = Some 218%nat /\ few_gen (root_of fen218a)).
Proof. exact (conj inv_alone_not_few max218_a). Qed.
Print Assumptions C13_few_gen_facts.

(* ======================= END TO END (GameThm/GameMate.v, over the whole-engine model Uci/Engine.v) =======================
   If the FIDE position reached by the game of a `position startpos moves ...` command has a FIDE mate in one - a legal move after
   which the opponent is in check and has no legal move, judged by the independent specification Rules/Fide.v - then the bestmove the
   engine prints for the following go line (standard parameters, depth not 255, any oracle) is a FIDE mating move; from ANY engine
   state reached from process start by in-domain lines ([reached roots e], roots = the positions searched so far: "whatever earlier
   searches left in the shared tables").  Hypotheses that remain are those of C13_mate_in_one_session, stated on the root the command
   denotes: no 64-bit hash collision on the visited sets, fewer than 256 generated moves at the root and its successors; plus the
   bounded-recursion run hypothesis of the end-to-end theorems. *)
From Clemens Require Uci.Engine Uci.EngineInst Uci.Input Uci.GoLineSpec Uci.ParseGo Rules.Fide Rules.Abs.
From Clemens.C03Recon Require Recon.
From Clemens.EngineE2E Require EngState EngE2E.
From Clemens.GameThm Require GameInv GameAfter GameMate GameMateExamples.
Import Clemens.Uci.Engine Clemens.Uci.EngineInst.

Theorem C13_engine_plays_mate :
  forall roots e iters fuel it0 f0 c0 c fms s garbage ps,
  GameInv.reached roots e ->
  (510 <= iters)%nat -> (f0 <= fuel)%nat -> (f0 <= 255)%nat -> (it0 <= 510)%nat ->
  Recon.fide_game Fide.initial fms s -> (List.length fms + f0 <= 1024)%nat ->
  Forall GoLineSpec.plain_token garbage -> GoLineSpec.all_unknown GoConsts.validFirstInputToken garbage ->
  NoDup (map GoLineSpec.kind ps) -> Forall GoLineSpec.param_ok ps -> GoLineSpec.value_of ParseGo.KDepth ps <> 255%Z ->
  GameMate.fide_mate_in_one s -> GameMate.c13_root_hyps roots (GameAfter.game_root fms) ->
  let pos_line := GoLineSpec.join (Input.w_position :: EngE2E.startpos_tokens fms) in
  let go_line := GoLineSpec.join (garbage ++ Input.w_go :: GoLineSpec.render ps) in
  fst (go_run it0 f0 e [(pos_line, c0); (go_line, c)]) <> SStuck ->
  exists e' out m,
    go_run iters fuel e [(pos_line, c0); (go_line, c)] = (SEof e', out) /\
    EngState.count_best out = 1%nat /\ last out OReadyOk = OBestMove m /\
    en_state e' = ST_IDLE /\ GameMate.fide_mating s (Abs.decode m) /\ GameInv.reached (GameAfter.game_root fms :: roots) e'.
Proof. exact GameMate.mate_in_one_after_any_session_startpos. Qed.
Print Assumptions C13_engine_plays_mate.

Theorem C13_fide_mating_defs : forall s fm,
  (GameMate.fide_mating s fm <-> In fm (Fide.legal_moves s) /\ GameMate.fide_mated (Fide.apply s fm)) /\
  (GameMate.fide_mate_in_one s <-> exists fm, GameMate.fide_mating s fm) /\
  (GameMate.fide_mated s <-> Fide.checkmate s = true).
Proof. intros. split; [apply iff_refl|]. split; [apply iff_refl|]. apply GameMate.fide_mated_checkmate. Qed.
Print Assumptions C13_fide_mating_defs.
