(* C04 — the answer is legal; every PV is legal.
   Only the property theorems, each closed by [exact] of a lemma proved in Search/SearchLines.v,
   Search/SearchRoot.v, Search/SearchIter.v or Search/SearchGo.v, with its assumptions printed.
   The model (Search/Negamax.v) is instantiated with the constants of the Go build.

   Reading guide.  States [s] are ARBITRARY.  [gen_of p m]: up to its score bits (bits 16..31,
   written by scoreMoves, never read by MakeMove) [m] is one of [gen_moves p]; [move_ok K p m]:
   [gen_of p m], [make_move K p m = Ok q] and [is_legal q = Ok true]; [line_legal K p l]: every move
   of [l] is such a move from the successor of the previous one; [head_ok K p l]: [l] is empty or
   begins with the null move or with a [move_ok] move.  [J EC a b]: the window is closed
   ([b <= a + 1]) or lies within [-INF, INF]; for the Go build (INF = 32767) every int16 window
   with [a <> -32768] qualifies.  [ev_ok .. e]: the info line [e] has a depth within the bounds of
   the request and its pv is the line of a root search that completed with its score strictly
   inside its window (or, repaired, under the full window). *)
From Coq Require Import NArith ZArith List Bool.
From Clemens Require Import Base.Res Base.Word Pos.Types Pos.Position Eval.Eval Search.TT Search.Ordering
     Search.Negamax Search.SearchStruct Search.SearchLines Search.SearchRoot Search.SearchIter
     Search.GoInst Search.SearchGo Pos.Inv Pos.GenWords.
From Clemens.C13Mate Require Import MateDefs MateSane MateRange.
From Clemens.C13Bridge Require Import Bridge Seq.
From Clemens.C04Null Require Import NullRoot NullGo.
From Clemens.C05NoPanic Require Import NoPanicS.
Import ListNotations.
Open Scope Z_scope.

(* (e) the central lemma: every line negamax returns is legal move by move *)
Theorem C04_pv_legal : forall f s p alpha beta depth ply cn pm rh v line s',
  J go_econsts alpha beta ->
  go_negamax f s p alpha beta depth ply cn pm rh = (ROk (v, line), s') ->
  line_legal go_keys p line.
Proof. exact (negamax_pv_legal go_keys go_econsts go_oconsts go_sconsts go_inf_ok). Qed.
Print Assumptions C04_pv_legal.

Theorem C04_window_int16 : forall a b,
  -32768 <= a <= 32767 -> -32768 <= b <= 32767 -> (a <> -32768 \/ b <= a + 1) -> J go_econsts a b.
Proof. exact go_J_int16. Qed.
Print Assumptions C04_window_int16.

(* every window, junk ones included: the head of the line *)
Theorem C04_pv_head_any_window : forall f s p alpha beta depth ply cn pm rh v line s',
  go_negamax f s p alpha beta depth ply cn pm rh = (ROk (v, line), s') ->
  head_ok go_keys p line.
Proof. exact (negamax_head_ok go_keys go_econsts go_oconsts go_sconsts go_inf_ok). Qed.
Print Assumptions C04_pv_head_any_window.

(* the window hypothesis of C04_pv_legal is needed when the state is arbitrary (junk cache) *)
Theorem C04_pv_legal_needs_window : cx_run = Some (ROk (-32767, [NULL_MOVE]), false).
Proof. exact pv_legal_needs_window. Qed.
Print Assumptions C04_pv_legal_needs_window.

(* the move word with its score bits and the move proper make the same position *)
Theorem C04_make_move_reads_low_bits : forall p m, make_move go_keys p (mv_low m) = make_move go_keys p m.
Proof. exact (make_move_low go_keys). Qed.
Print Assumptions C04_make_move_reads_low_bits.

Theorem C04_generated_move_proper : forall p m g,
  gen_moves p = Ok g -> Forall (fun x => (x < 65536)%N) g -> gen_of p m -> In (mv_low m) g.
Proof. exact gen_of_low. Qed.
Print Assumptions C04_generated_move_proper.

(* (f) s.PV changes only to the line of a completed root search that scored inside its window;
   every info line is such a line; the lines are legal move by move provided no info line of the
   run carries the score -INF + 49 (the one score whose aspiration window has alpha = -32768) *)
Theorem C04_adopted_only_completed : forall iters fuel rep s root req r s',
  (req < 255)%N ->
  go_search iters fuel rep s root req = (r, s') ->
  exists new,
    s_out s' = new ++ s_out s /\
    Forall (ev_ok go_keys go_econsts go_oconsts go_sconsts fuel rep root 1
                  (N.max 1 (req_to_depth go_sconsts req))) new /\
    s_pv s' = last_pv new (s_pv s) /\
    (Forall ev_score_ok new -> Forall (ev_legal go_keys root) new) /\
    (forall m, r = ROk m -> m = best_move s').
Proof. exact go_search_spec. Qed.
Print Assumptions C04_adopted_only_completed.

Theorem C04_adopted_line_legal : forall iters fuel rep s root req r s',
  (req < 255)%N ->
  go_search iters fuel rep s root req = (r, s') ->
  exists new,
    s_out s' = new ++ s_out s /\
    (Forall ev_score_ok new -> line_legal go_keys root (s_pv s) -> line_legal go_keys root (s_pv s')).
Proof. exact go_adopted_line_legal. Qed.
Print Assumptions C04_adopted_line_legal.

(* the answer: for every depth, cancellation point, table, cache and heuristic state *)
Theorem C04_answer_legal_or_null : forall iters fuel rep s root req m s',
  (req < 255)%N -> s_pv s = [] ->
  go_search iters fuel rep s root req = (ROk m, s') ->
  m = NULL_MOVE \/ move_ok go_keys root m.
Proof.
  exact (fun iters fuel rep s root req m s' H =>
           answer_legal_or_null go_keys go_econsts go_oconsts go_sconsts go_inf_ok iters fuel rep s root req m s'
                                (go_req_depth req H)).
Qed.
Print Assumptions C04_answer_legal_or_null.

(* the same against the engine's own legal-move enumeration, at a root satisfying the C10 invariant
   (under which generated moves carry no score bits: C04_generated_below_2_16) *)
Theorem C04_answer_in_legal_moves : forall iters fuel rep s root req m s' l,
  Inv root -> (req < 255)%N -> s_pv s = [] ->
  legal_moves go_keys root = Ok l ->
  go_search iters fuel rep s root req = (ROk m, s') ->
  m = NULL_MOVE \/ In (mv_low m) l.
Proof.
  exact (fun iters fuel rep s root req m s' l HI H =>
           answer_in_legal_moves go_keys go_econsts go_oconsts go_sconsts go_inf_ok
                                 iters fuel rep s root req m s' l HI (go_req_depth req H)).
Qed.
Print Assumptions C04_answer_in_legal_moves.

Theorem C04_generated_below_2_16 : forall p g,
  Inv p -> gen_moves p = Ok g -> Forall (fun m => (m < 65536)%N) g.
Proof. exact gen_moves_low16. Qed.
Print Assumptions C04_generated_below_2_16.

Theorem C04_answer_is_last_info : forall iters fuel rep s root req m s',
  (req < 255)%N -> s_pv s = [] ->
  go_search iters fuel rep s root req = (ROk m, s') ->
  exists new, s_out s' = new ++ s_out s /\
    m = nth 0 (last_pv new []) NULL_MOVE /\ (has_info new = false -> m = NULL_MOVE).
Proof.
  exact (fun iters fuel rep s root req m s' H =>
           answer_is_last_info go_keys go_econsts go_oconsts go_sconsts go_inf_ok iters fuel rep s root req m s'
                               (go_req_depth req H)).
Qed.
Print Assumptions C04_answer_is_last_info.

(* (g) "only when no legal move exists does the engine answer with the null move" (C04Null/NullRoot.v, NullGo.v).
   [legal_pos root] = the C10 invariant and the material accounting of legal chess (both invariants of play);
   [cache_sane]: no evaluation-cache entry is a mate value - NECESSARY (C04Null/NullExamples.v: one junk entry and
   the engine answers the null move at a root with a legal move), true of the empty cache and preserved by every
   search ([session]); nothing is assumed about the transposition table, the heuristics or the cancellation point;
   [fuel <= 255]: the recursion stays within the range of Go's uint8 ply counter (by C05_fuel_irrelevant the
   answer is then the same for every larger bound). *)
Theorem C04_null_defs : forall K EC root U p m c,
  (null_universe K EC root U <->
     U root /\
     (forall p m q, U p -> movable p m -> make_move K p m = Ok q -> is_legal q = Ok true -> U q) /\
     (forall p q x, U p -> is_in_check p (side p) = Ok false -> make_null_move K p = Ok (q, x) -> U q) /\
     (forall p, U p -> eval_sane_at EC p)) /\
  (movable p m <-> exists g m0, (gen_moves p = Ok g \/ gen_captures p = Ok g) /\ In m0 g /\ mv_low m = mv_low m0) /\
  (eval_sane_at EC p <-> (forall v, eval_raw EC p = Ok v -> is_checkmate_value EC v = false) /\
                         (forall v, contempt EC p = Ok v -> is_checkmate_value EC v = false)) /\
  (cache_sane EC c <-> forall slot, is_checkmate_value EC (snd (cache_lookup c slot)) = false) /\
  (legal_pos p <-> Inv p /\ C15Bound.Material.material_ok p = true).
Proof. exact NullGo.C04_null_defs. Qed.
Print Assumptions C04_null_defs.

Theorem C04_null_only_without_moves : forall root iters fuel rep s req s',
  legal_pos root -> cache_sane go_econsts (s_cache s) -> (fuel <= 255)%nat ->
  go_search iters fuel rep s root req = (ROk NULL_MOVE, s') ->
  legal_moves go_keys root = Ok [].
Proof. exact null_only_without_moves_legal. Qed.
Print Assumptions C04_null_only_without_moves.

(* a freshly started engine; any state reached by earlier searches from legal positions *)
Theorem C04_null_only_without_moves_fresh : forall root iters fuel rep c req s',
  legal_pos root -> (fuel <= 255)%nat ->
  go_search iters fuel rep (go_empty_sst c) root req = (ROk NULL_MOVE, s') ->
  legal_moves go_keys root = Ok [].
Proof. exact null_only_without_moves_fresh. Qed.
Print Assumptions C04_null_only_without_moves_fresh.

Theorem C04_null_only_without_moves_session : forall root roots iters fuel rep s req s',
  session roots s -> legal_pos root -> (fuel <= 255)%nat ->
  go_search iters fuel rep s root req = (ROk NULL_MOVE, s') ->
  legal_moves go_keys root = Ok [].
Proof. exact null_only_without_moves_session. Qed.
Print Assumptions C04_null_only_without_moves_session.

(* the answer IS one of the legal moves whenever there is one ... *)
Theorem C04_answer_is_legal_move : forall root iters fuel rep s req m s' l,
  legal_pos root -> cache_sane go_econsts (s_cache s) ->
  (fuel <= 255)%nat -> (req < 255)%N -> s_pv s = [] ->
  legal_moves go_keys root = Ok l -> l <> [] ->
  go_search iters fuel rep s root req = (ROk m, s') ->
  m <> NULL_MOVE /\ In (mv_low m) l.
Proof. exact answer_is_legal_move. Qed.
Print Assumptions C04_answer_is_legal_move.

(* ... and the null move exactly when there is none *)
Theorem C04_null_iff_no_moves : forall root iters fuel rep s req m s',
  legal_pos root -> cache_sane go_econsts (s_cache s) ->
  (fuel <= 255)%nat -> (req < 255)%N -> s_pv s = [] ->
  go_search iters fuel rep s root req = (ROk m, s') ->
  (m = NULL_MOVE <-> legal_moves go_keys root = Ok []).
Proof. exact null_iff_no_moves. Qed.
Print Assumptions C04_null_iff_no_moves.

(* (h) the search does not crash: on a legal root NO call of the search returns a Go panic as long as the
   1024-entry repetition stack has room for the nesting of the calls - for every state of the shared tables,
   heuristics, PV and cancellation oracle (C05NoPanic/*.v).  The stack hypothesis is necessary
   (C05_full_stack_panics).  Together with termination: an answer is always produced. *)
Theorem C04_search_no_panic : forall iters f rep s root req,
  legal_pos root -> (List.length (s_hist s) + f <= 1024)%nat ->
  fst (go_search iters f rep s root req) <> RPanic.
Proof. exact go_search_no_panic_gen. Qed.
Print Assumptions C04_search_no_panic.

Theorem C04_search_answers : forall (U : position -> Prop) (cb : position -> nat),
  (forall p m q, U p -> movable p m -> make_move go_keys p m = Ok q -> is_legal q = Ok true ->
     U q /\ (cb q <= cb p)%nat /\ (is_in_check p (side p) = Ok true -> (cb q < cb p)%nat)) ->
  (forall p q x, U p -> is_in_check p (side p) = Ok false -> make_null_move go_keys p = Ok (q, x) ->
     U q /\ (cb q <= cb p)%nat) ->
  forall iters f s root req,
  legal_pos root -> U root -> (req < 255)%N -> (510 <= iters)%nat ->
  (N.to_nat (N.max 1 (req_to_depth go_sconsts req)) + cb root + 258 <= f)%nat ->
  (List.length (s_hist s) + N.to_nat (N.max 1 (req_to_depth go_sconsts req)) + cb root + 1 <= 1024)%nat ->
  exists m s', go_search iters f true s root req = (ROk m, s').
Proof. exact go_search_answers_ranked. Qed.
Print Assumptions C04_search_answers.

(* what holds of a null answer for ARBITRARY states (no hypothesis at all): it comes from the uncancellable depth-1
   full-window search, whose line then begins with a generated, made, legal move equal to the null
   word, or is empty with the root's contempt value as score, or (repaired test) is empty with a
   score not strictly inside (-INF, INF) *)
Theorem C04_null_answer_partial : forall iters fuel rep s root req s',
  go_search iters fuel rep s root req = (ROk NULL_MOVE, s') ->
  exists sc n h pv rest s1 s2,
    s_out s' = EInfo 1 sc n h pv :: rest /\
    go_search_root fuel s1 root 1 (- INF go_econsts) (INF go_econsts) = (ROk (sc, pv), s2) /\
    ( (exists l, pv = NULL_MOVE :: l /\ move_ok go_keys root NULL_MOVE)
      \/ (pv = [] /\ contempt go_econsts root = Ok sc)
      \/ (pv = [] /\ rep = true /\ (sc <= - INF go_econsts \/ INF go_econsts <= sc)) ).
Proof. exact (null_answer_partial go_keys go_econsts go_oconsts go_sconsts go_inf_ok). Qed.
Print Assumptions C04_null_answer_partial.

(* a root search that scores strictly inside a window with alpha >= -INF returns a non-empty line,
   unless its value is that of one of the two no-legal-move exits *)
Theorem C04_root_line_nonempty_partial : forall f s p alpha beta depth cn pm rh v line s',
  (0 < depth < 255)%N -> - INF go_econsts <= alpha ->
  go_negamax f s p alpha beta depth 0 cn pm rh = (ROk (v, line), s') ->
  alpha < v < beta ->
  line <> [] \/ v = add16 (- INF go_econsts) 0 \/ contempt go_econsts p = Ok v.
Proof. exact (root_line_nonempty_partial go_keys go_econsts go_oconsts go_sconsts). Qed.
Print Assumptions C04_root_line_nonempty_partial.

(* Non-vacuity: a depth-2 search of the start position from a freshly started engine answers with
   a move whose low 16 bits are generated at the root, that can be made, and whose result is legal;
   its two info lines and the adopted line are as printed (move words with their score bits). *)
Example C04_hyps_met :
  match go_new_position with
  | Ok root =>
      match go_search 50 400 true (go_empty_sst None) root 2 with
      | (ROk m, s) =>
          match gen_moves root, make_move go_keys root m with
          | Ok g, Ok q => (negb (m =? NULL_MOVE)%N && existsb (N.eqb (mv_low m)) g, is_legal q, s_pv s)
          | _, _ => (false, Panic, [])
          end
      | _ => (false, Panic, [])
      end
  | _ => (false, Panic, [])
  end = (true, Ok true, [65537153%N; 58985145%N]).
Proof. vm_compute. reflexivity. Qed.

(* ======================= END TO END: the whole engine (Uci/Engine.v, tied to the real handleInput by the SESSION runs) =======
   C07 (line -> command), C03 (position -> FIDE game state), C07 (go line -> parameters), C08 (budget), C05 (termination),
   C05NoPanic (no crash), C04 + C04Null (answer legal / null move only without moves), C01 (engine-legal = FIDE-legal) composed.
   From ANY engine state that is not RUNNING and whose evaluation cache holds no mate value, for any two oracles:
       position startpos moves m1 .. mn        (a FIDE-legal game from the initial position; unknown tokens in front allowed)
       go <standard parameters, any order>      (depth parameter not 255)
   prints exactly: parseGo's acknowledgements, the timeout line, the info lines, ONE bestmove - a FIDE-legal move of the
   position reached if there is one, else the null move -, the answer is the head of the last printed PV, every printed PV
   begins with a FIDE-legal move (and is FIDE-legal throughout unless an info line scores exactly -INF+49), and the engine is
   IDLE again with the same game.  Hypotheses that remain: the search from this root needs recursion depth at most f0 <= 255
   ([.. 510 f0 .. <> SStuck]: no unbounded chain of check extensions; discharged for ranked universes, C04_recursion_ranked)
   and the repetition stack has room for n + f0 <= 1024 entries.  [e2e_result] is unfolded by C04_e2e_defs. *)
From Clemens Require Uci.Engine Uci.EngineInst Uci.Input Uci.Game Uci.GoLineSpec Uci.ParseGo Rules.Abs Rules.Fide.
From Clemens.C01Att Require FideFacts.
From Clemens.C03Recon Require FideText Recon.
From Clemens.C05Term Require KK.
From Clemens.EngineE2E Require EngBase EngDispatch EngState EngSearch EngE2E EngText EngRank EngExamples EngFinal.
Import Clemens.Uci.Engine Clemens.Uci.EngineInst.

Theorem C04_e2e_defs : forall s g sp evs res m,
  (EngE2E.e2e_result s g sp evs res <->
     exists e' infos m,
       res = (SEof e', map OGo evs ++ EngBase.timeout_line g sp ++ map OSearch infos ++ [OBestMove m]) /\
       en_state e' = ST_IDLE /\ en_game e' = Some g /\ cache_sane go_econsts (en_cache e') /\
       EngSearch.answer_spec s m /\
       m = nth 0 (SearchIter.last_pv (rev infos) []) NULL_MOVE /\
       Forall (EngSearch.pv_head_fide s) infos /\
       (Forall ev_score_ok infos -> Forall (EngSearch.pv_fide s) infos)) /\
  (EngSearch.answer_spec s m <->
     (Fide.legal_moves s <> [] -> m <> NULL_MOVE /\ In (Abs.decode m) (Fide.legal_moves s)) /\
     (Fide.legal_moves s = [] -> m = NULL_MOVE)).
Proof. intros. split; apply iff_refl. Qed.
Print Assumptions C04_e2e_defs.

Theorem C04_engine_answers_startpos :
  forall iters fuel f0 e c0 c fms s garbage ps,
  (510 <= iters)%nat -> (f0 <= fuel)%nat -> (f0 <= 255)%nat ->
  en_state e <> ST_RUNNING -> cache_sane go_econsts (en_cache e) ->
  Recon.fide_game Fide.initial fms s -> (List.length fms + f0 <= 1024)%nat ->
  Forall GoLineSpec.plain_token garbage -> GoLineSpec.all_unknown GoConsts.validFirstInputToken garbage ->
  NoDup (map GoLineSpec.kind ps) -> Forall GoLineSpec.param_ok ps -> GoLineSpec.value_of ParseGo.KDepth ps <> 255%Z ->
  let pos_line := GoLineSpec.join (Input.w_position :: EngE2E.startpos_tokens fms) in
  let go_line := GoLineSpec.join (garbage ++ Input.w_go :: GoLineSpec.render ps) in
  fst (go_run 510 f0 e [(pos_line, c0); (go_line, c)]) <> SStuck ->
  exists g,
    FideFacts.same_core (Abs.abs (Game.g_pos g)) s /\ ((List.length fms <= 255)%nat -> Abs.abs (Game.g_pos g) = s) /\
    List.length (Game.g_hist g) = List.length fms /\
    EngE2E.e2e_result s g (GoLineSpec.denote ps) (GoLineSpec.acks ps) (go_run iters fuel e [(pos_line, c0); (go_line, c)]).
Proof. exact EngFinal.engine_answers_startpos_final. Qed.
Print Assumptions C04_engine_answers_startpos.

Theorem C04_engine_answers_fen :
  forall iters fuel f0 e c0 c six p0 fms s garbage ps,
  (510 <= iters)%nat -> (f0 <= fuel)%nat -> (f0 <= 255)%nat ->
  en_state e <> ST_RUNNING -> cache_sane go_econsts (en_cache e) ->
  List.length six = 6%nat -> Forall GoLineSpec.plain_token six ->
  Fen.new_from_fen go_keys GoConsts.unicode_digit_tbl (Game.join_sp six) = Ok p0 -> legal_pos p0 ->
  Recon.fide_game (Abs.abs p0) fms s -> (List.length fms + f0 <= 1024)%nat ->
  Forall GoLineSpec.plain_token garbage -> GoLineSpec.all_unknown GoConsts.validFirstInputToken garbage ->
  NoDup (map GoLineSpec.kind ps) -> Forall GoLineSpec.param_ok ps -> GoLineSpec.value_of ParseGo.KDepth ps <> 255%Z ->
  let pos_line := GoLineSpec.join (Input.w_position :: EngE2E.fen_tokens six fms) in
  let go_line := GoLineSpec.join (garbage ++ Input.w_go :: GoLineSpec.render ps) in
  fst (go_run 510 f0 e [(pos_line, c0); (go_line, c)]) <> SStuck ->
  exists g,
    FideFacts.same_core (Abs.abs (Game.g_pos g)) s /\
    ((ply p0 + N.of_nat (List.length fms) <= 255)%N -> (hmc p0 + N.of_nat (List.length fms) <= 255)%N ->
       Abs.abs (Game.g_pos g) = s) /\
    List.length (Game.g_hist g) = List.length fms /\
    EngE2E.e2e_result s g (GoLineSpec.denote ps) (GoLineSpec.acks ps) (go_run iters fuel e [(pos_line, c0); (go_line, c)]).
Proof. exact EngFinal.engine_answers_fen_final. Qed.
Print Assumptions C04_engine_answers_fen.

(* the remaining search hypothesis discharged: in a universe with check budget cb (as in C05_search_ranked) the recursion depth is
   at most depth + cb root + 66 (quiescence bounded by the men on the board) *)
Theorem C04_recursion_ranked : forall (U : position -> Prop) (cb : position -> nat),
  (forall p m q, U p -> movable p m -> make_move go_keys p m = Ok q -> is_legal q = Ok true ->
     U q /\ (cb q <= cb p)%nat /\ (is_in_check p (side p) = Ok true -> (cb q < cb p)%nat)) ->
  (forall p q x, U p -> is_in_check p (side p) = Ok false -> make_null_move go_keys p = Ok (q, x) ->
     U q /\ (cb q <= cb p)%nat) ->
  forall iters f s root req,
  U root -> legal_pos root -> (req < 255)%N -> (510 <= iters)%nat ->
  (N.to_nat (N.max 1 (SearchIter.req_to_depth go_sconsts req)) + cb root + 66 <= f)%nat ->
  fst (go_search iters f true s root req) <> ROutOfFuel.
Proof. exact EngRank.go_search_ranked_men. Qed.
Print Assumptions C04_recursion_ranked.

(* an instance with NO hypothesis on the search: FEN roots with the two kings only, every engine state (not RUNNING, sane cache),
   both oracles, every depth 1..189 *)
Theorem C04_engine_answers_kings_only :
  forall iters fuel e c0 c six p0 garbage ps,
  let d := Z.to_nat (GoLineSpec.value_of ParseGo.KDepth ps) in
  (1 <= GoLineSpec.value_of ParseGo.KDepth ps <= 189)%Z ->
  (510 <= iters)%nat -> (d + 66 <= fuel)%nat ->
  en_state e <> ST_RUNNING -> cache_sane go_econsts (en_cache e) ->
  List.length six = 6%nat -> Forall GoLineSpec.plain_token six ->
  Fen.new_from_fen go_keys GoConsts.unicode_digit_tbl (Game.join_sp six) = Ok p0 -> legal_pos p0 -> KK.kings_only_pos p0 ->
  Forall GoLineSpec.plain_token garbage -> GoLineSpec.all_unknown GoConsts.validFirstInputToken garbage ->
  NoDup (map GoLineSpec.kind ps) -> Forall GoLineSpec.param_ok ps ->
  let pos_line := GoLineSpec.join (Input.w_position :: EngE2E.fen_tokens six []) in
  let go_line := GoLineSpec.join (garbage ++ Input.w_go :: GoLineSpec.render ps) in
  EngE2E.e2e_result (Abs.abs p0) {| Game.g_pos := p0; Game.g_hist := [] |} (GoLineSpec.denote ps) (GoLineSpec.acks ps)
             (go_run iters fuel e [(pos_line, c0); (go_line, c)]).
Proof. exact EngFinal.engine_answers_kings_only_final. Qed.
Print Assumptions C04_engine_answers_kings_only.

(* non-vacuity: every hypothesis of C04_engine_answers_startpos discharged for the session
   `position startpos moves e2e4 e7e5` / `go depth 1` from a freshly started engine, and the session evaluated by the kernel *)
Example C04_e2e_instance_computed := EngExamples.e2e_startpos_computed.

(* the null-move clause: executable witnesses (C04Null/NullExamples.v).  A stalemated and a checkmated root are answered with the
   null move, a root with one legal move with that move (immediate timeout); [cache_sane] cannot be dropped: with ONE junk entry in the
   evaluation cache (+INF for the position after Ka1-a2) the engine answers the null move at a root that has a legal move - so the
   clause is false for arbitrary states, which is why it is stated for sane caches (every engine-produced cache is sane) *)
From Clemens.C04Null Require NullExamples.
Theorem C04_null_needs_cache_sane :
  ~ (forall iters fuel s root req s',
       legal_pos root -> (fuel <= 255)%nat -> (req < 255)%N -> s_pv s = [] ->
       go_search iters fuel true s root req = (ROk NULL_MOVE, s') -> legal_moves go_keys root = Ok []).
Proof. exact NullExamples.null_only_without_moves_any_state_refuted. Qed.
Print Assumptions C04_null_needs_cache_sane.
Example C04_stalemate_answers_null := NullExamples.stalemate_answers_null.
Example C04_checkmate_answers_null := NullExamples.checkmate_answers_null.
Example C04_one_move_answered := NullExamples.one_move_answered.
Example C04_null_hyps_met_session := NullExamples.hyps_met_session.

(* ======================= A WHOLE GAME against the engine (GameThm/*.v) =======================
   [reached roots e]: e is the engine after ANY in-domain lines from process start (position commands with FIDE-legal games from legal
   positions, any go lines, anything else), roots = the positions searched so far.  It replaces every hypothesis on the engine state
   (not RUNNING, evaluation cache sane, ...): those are invariants of in-domain sessions (GameInv.session_invariant).
   [gui_game iters fuel opp e fms0 rds]: the dialogue of a GUI playing a game: round k sends `position startpos moves <all moves so far>`
   and `go <parameters of round k>`, reads the bestmove, appends it and the reply of the opponent [opp] - ANY strategy that answers with
   FIDE-legal moves.  Then, as long as the repetition stack has room and no round gets stuck under the small bounds (it0, f0 <= 255):
   every round prints exactly one bestmove, last; it is a FIDE-legal move of the FIDE position of the game so far, the null move exactly
   when that position has no legal move; the moves so far form a FIDE game; the engine is idle after each round; the game ends because
   all rounds are played or one side has no legal move - never broken. *)
From Clemens.GameThm Require GameInv GameAfter GameWhole.

Theorem C04_whole_game : forall iters fuel it0 f0 opp rds roots e fms0 s0,
  (510 <= iters)%nat -> (f0 <= fuel)%nat -> (f0 <= 255)%nat -> (it0 <= 510)%nat ->
  GameInv.reached roots e -> Recon.fide_game Fide.initial fms0 s0 -> GameWhole.legal_strategy opp -> Forall GameWhole.round_ok rds ->
  (List.length fms0 + 2 * List.length rds + f0 <= 1024)%nat ->
  GameWhole.gl_end (GameWhole.gui_game it0 f0 opp e fms0 rds) <> GameWhole.GBroken SStuck ->
  GameWhole.gui_game iters fuel opp e fms0 rds = GameWhole.gui_game it0 f0 opp e fms0 rds /\
  GameWhole.game_ok iters fuel it0 f0 opp roots fms0 (List.length rds) (GameWhole.gui_game iters fuel opp e fms0 rds).
Proof. exact GameWhole.whole_game. Qed.
Print Assumptions C04_whole_game.

Theorem C04_whole_game_rounds : forall iters fuel it0 f0 opp roots fms0 n r,
  GameWhole.game_ok iters fuel it0 f0 opp roots fms0 n r ->
  Forall (fun l =>
    EngState.count_best (GameWhole.rl_out l) = 1%nat /\ last (GameWhole.rl_out l) OReadyOk = OBestMove (GameWhole.rl_best l) /\
    en_state (GameWhole.rl_after l) = ST_IDLE /\
    exists s, Recon.fide_game Fide.initial (GameWhole.rl_moves l) s /\
      (Fide.legal_moves s <> [] -> GameWhole.rl_best l <> NULL_MOVE /\ In (Abs.decode (GameWhole.rl_best l)) (Fide.legal_moves s)) /\
      (Fide.legal_moves s = [] -> GameWhole.rl_best l = NULL_MOVE)) (GameWhole.gl_rounds r).
Proof. exact GameWhole.game_ok_rounds. Qed.
Print Assumptions C04_whole_game_rounds.

(* the end-to-end theorem with every hypothesis on the engine state replaced by "reached from process start" *)
Theorem C04_engine_answers_after_any_session :
  forall roots e iters fuel it0 f0 c0 c fms s garbage ps,
  GameInv.reached roots e ->
  (510 <= iters)%nat -> (f0 <= fuel)%nat -> (f0 <= 255)%nat -> (it0 <= 510)%nat ->
  Recon.fide_game Fide.initial fms s -> (List.length fms + f0 <= 1024)%nat ->
  Forall GoLineSpec.plain_token garbage -> GoLineSpec.all_unknown GoConsts.validFirstInputToken garbage ->
  NoDup (map GoLineSpec.kind ps) -> Forall GoLineSpec.param_ok ps -> GoLineSpec.value_of ParseGo.KDepth ps <> 255%Z ->
  let pos_line := GoLineSpec.join (Input.w_position :: EngE2E.startpos_tokens fms) in
  let go_line := GoLineSpec.join (garbage ++ Input.w_go :: GoLineSpec.render ps) in
  fst (go_run it0 f0 e [(pos_line, c0); (go_line, c)]) <> SStuck ->
  exists g,
    FideFacts.same_core (Abs.abs (Game.g_pos g)) s /\ ((List.length fms <= 255)%nat -> Abs.abs (Game.g_pos g) = s) /\
    legal_pos (Game.g_pos g) /\ List.length (Game.g_hist g) = List.length fms /\ Game.g_pos g = GameAfter.game_root fms /\
    EngE2E.e2e_result s g (GoLineSpec.denote ps) (GoLineSpec.acks ps) (go_run iters fuel e [(pos_line, c0); (go_line, c)]) /\
    (forall e' out, go_run iters fuel e [(pos_line, c0); (go_line, c)] = (SEof e', out) -> GameInv.reached (Game.g_pos g :: roots) e').
Proof. exact GameAfter.engine_answers_after_any_session_startpos. Qed.
Print Assumptions C04_engine_answers_after_any_session.

(* non-vacuity: a three-round game with the engine as White and a two-round game with the engine as Black, computed by the kernel *)
From Clemens.GameThm Require GameExamples GameExBlack.
