(* C17 — the capture generator yields exactly the capturing moves of the full generator.
   "For every legal position, the moves produced for quiescence search are exactly those moves of
   the full generator that capture something - ordinary captures, en-passant captures and capturing
   promotions with all four pieces - no more and no fewer."
   This file contains only the property theorems, each closed by [exact] of a lemma proved in
   Pos/CapturesProofs.v, with its assumptions printed. *)
From Coq Require Import NArith List Bool Permutation.
From Clemens Require Import Base.Res Base.Word Pos.Types Att.Attacks Pos.Position Pos.Inv.
From Clemens Require Import Pos.CapturesProofs Pos.CapturesExample.
Import ListNotations.
Open Scope N_scope.

(* the boolean reading of [is_capture] used below, spelled out *)
Theorem C17_is_capture_b_def : forall p m,
  is_capture_b p m = (mv_kind m =? EN_PASSANT) || negb (piece_at p (mv_dst m) =? NO_PIECE).
Proof. reflexivity. Qed.
Print Assumptions C17_is_capture_b_def.

(* the model's [is_capture] never fails under [Inv] and equals that reading, for every move word,
   in particular for every generated move *)
Theorem C17_is_capture_total : forall p m,
  Inv p -> is_capture p m = Ok (is_capture_b p m).
Proof. exact is_capture_total. Qed.
Print Assumptions C17_is_capture_total.

Theorem C17_is_capture_generated : forall p ms m,
  Inv p -> gen_moves p = Ok ms -> In m ms -> is_capture p m = Ok (is_capture_b p m).
Proof. exact is_capture_generated. Qed.
Print Assumptions C17_is_capture_generated.

(* the property: equal as multisets of encoded moves *)
Theorem C17_captures_exact : forall p ms cs,
  Inv p -> gen_moves p = Ok ms -> gen_captures p = Ok cs ->
  Permutation cs (filter (fun m => is_capture_b p m) ms).
Proof. exact captures_exact. Qed.
Print Assumptions C17_captures_exact.

(* stronger: equal as lists (the two generators emit their moves in the same relative order) *)
Theorem C17_captures_same_order : forall p ms cs,
  Inv p -> gen_moves p = Ok ms -> gen_captures p = Ok cs ->
  cs = filter (is_capture_b p) ms.
Proof. exact captures_same_order. Qed.
Print Assumptions C17_captures_same_order.

(* it does not depend on the "side that just moved is not in check" clause: also after a null move *)
Theorem C17_captures_same_order_nocheck : forall p ms cs,
  inv_nocheck_b p = true -> gen_moves p = Ok ms -> gen_captures p = Ok cs ->
  cs = filter (is_capture_b p) ms.
Proof. exact captures_same_order_nocheck. Qed.
Print Assumptions C17_captures_same_order_nocheck.

(* the same with the filter written with the model's own [is_capture] *)
Theorem C17_captures_same_order_model : forall p ms cs,
  Inv p -> gen_moves p = Ok ms -> gen_captures p = Ok cs ->
  cs = filter (fun m => match is_capture p m with Ok b => b | _ => false end) ms.
Proof. exact captures_same_order_model. Qed.
Print Assumptions C17_captures_same_order_model.

(* no panic asymmetry *)
Theorem C17_gen_captures_ok : forall p ms,
  Inv p -> gen_moves p = Ok ms -> exists cs, gen_captures p = Ok cs.
Proof. exact gen_captures_ok. Qed.
Print Assumptions C17_gen_captures_ok.

Theorem C17_gen_captures_total : forall p,
  Inv p -> exists cs, gen_captures p = Ok cs.
Proof. exact gen_captures_total. Qed.
Print Assumptions C17_gen_captures_total.

Theorem C17_captures_of_moves : forall p ms,
  Inv p -> gen_moves p = Ok ms -> gen_captures p = Ok (filter (is_capture_b p) ms).
Proof. exact captures_of_moves. Qed.
Print Assumptions C17_captures_of_moves.

(* Non-vacuity: the hypotheses are met, with every kind of move the statement speaks about present.
   Position a (rnbqkb1r/pp1p1pPp/8/2p1pP2/1P1P4/3P3P/P1P1P3/RNBQKBNR w KQkq e6 0 1): 42 moves,
   12 of them captures, among them the en-passant capture f5xe6 and the eight capturing promotions
   g7xf8, g7xh8; the four push promotions g7-g8 are generated and are not captures.
   Position b (Kiwipete): 48 moves, 8 captures; both castling moves are generated and are not captures. *)
Example C17_hyps_met :
  (c17_parse c17_fen_a = Ok c17_pos_a /\ Inv c17_pos_a /\
   exists ms cs, gen_moves c17_pos_a = Ok ms /\ gen_captures c17_pos_a = Ok cs /\
     length ms = 42%nat /\ length cs = 12%nat /\
     count (fun m => mv_kind m =? EN_PASSANT) cs = 1%nat /\
     count (fun m => mv_kind m =? PROMOTION) cs = 8%nat /\
     count (fun m => (mv_kind m =? PROMOTION) && negb (is_capture_b c17_pos_a m)) ms = 4%nat /\
     count (fun m => (mv_kind m =? NORMAL) && is_capture_b c17_pos_a m) ms = 3%nat) /\
  (c17_parse c17_fen_b = Ok c17_pos_b /\ Inv c17_pos_b /\
   exists ms cs, gen_moves c17_pos_b = Ok ms /\ gen_captures c17_pos_b = Ok cs /\
     length ms = 48%nat /\ length cs = 8%nat /\
     count (fun m => mv_kind m =? CASTLING) ms = 2%nat /\
     count (fun m => mv_kind m =? CASTLING) cs = 0%nat).
Proof.
  split.
  - split; [vm_compute; reflexivity|]. split; [vm_compute; reflexivity|].
    destruct (gen_moves c17_pos_a) as [ms| |] eqn:Em; [|vm_compute in Em; discriminate..].
    destruct (gen_captures c17_pos_a) as [cs| |] eqn:Ec; [|vm_compute in Ec; discriminate..].
    exists ms, cs. split; [reflexivity|]. split; [reflexivity|].
    vm_compute in Em. vm_compute in Ec. injection Em as <-. injection Ec as <-.
    repeat split; vm_compute; reflexivity.
  - split; [vm_compute; reflexivity|]. split; [vm_compute; reflexivity|].
    destruct (gen_moves c17_pos_b) as [ms| |] eqn:Em; [|vm_compute in Em; discriminate..].
    destruct (gen_captures c17_pos_b) as [cs| |] eqn:Ec; [|vm_compute in Ec; discriminate..].
    exists ms, cs. split; [reflexivity|]. split; [reflexivity|].
    vm_compute in Em. vm_compute in Ec. injection Em as <-. injection Ec as <-.
    repeat split; vm_compute; reflexivity.
Qed.
Print Assumptions C17_hyps_met.
