(* C08 — the time budget never exceeds what is on the clock.
   This file contains only the property theorems, each closed by [exact] of a lemma
   proved elsewhere, with its assumptions printed. *)
From Coq Require Import ZArith Lia.
From Clemens Require Import Search.Time Search.TimeProofs Search.TimeMore.
From ClemensGen Require Import GoConsts.
Open Scope Z_scope.

(* The generated constant is within the range the no-overflow argument needs. *)
Lemma max_ms_ok : 0 <= maxTimeInMs < lim.
Proof. unfold lim. vm_compute. split; [discriminate | reflexivity]. Qed.

Theorem C08_budget_lt_clock : forall (black : bool) plys sp,
  in_range plys sp ->
  let t := if black then gp_btime sp else gp_wtime sp in
  0 < t -> calc_time maxTimeInMs black plys sp < t.
Proof. intros black plys sp. exact (budget_lt_clock _ black plys sp max_ms_ok). Qed.
Print Assumptions C08_budget_lt_clock.

Theorem C08_budget_lt_movetime : forall (black : bool) plys sp,
  in_range plys sp ->
  0 < gp_movetime sp -> calc_time maxTimeInMs black plys sp < gp_movetime sp.
Proof. intros black plys sp. exact (budget_lt_movetime _ black plys sp max_ms_ok). Qed.
Print Assumptions C08_budget_lt_movetime.

Theorem C08_budget_indep : forall (black : bool) plys sp sp',
  mover_view black sp = mover_view black sp' ->
  calc_time maxTimeInMs black plys sp = calc_time maxTimeInMs black plys sp'.
Proof. exact (budget_indep maxTimeInMs). Qed.
Print Assumptions C08_budget_indep.

(* The bounds for EVERY int64 input (no 2^40 range premise): whatever wraps happen on the way, the margin the code
   intends is kept - at least 50 ms and at least a tenth below the mover's clock. *)
Lemma max_ms_nonneg : 0 <= maxTimeInMs.
Proof. vm_compute. discriminate. Qed.

Theorem C08_budget_margin_any_i64 : forall (black : bool) plys sp,
  all_i64 plys sp ->
  let t := if black then gp_btime sp else gp_wtime sp in
  0 < t -> calc_time maxTimeInMs black plys sp <= t - Z.max (Z.quot t 10) 50.
Proof. intros black plys sp. exact (budget_margin_any_i64 _ black plys sp max_ms_nonneg). Qed.
Print Assumptions C08_budget_margin_any_i64.

Theorem C08_budget_lt_clock_any_i64 : forall (black : bool) plys sp,
  all_i64 plys sp ->
  let t := if black then gp_btime sp else gp_wtime sp in
  0 < t -> calc_time maxTimeInMs black plys sp < t.
Proof. intros black plys sp. exact (budget_lt_clock_any_i64 _ black plys sp max_ms_nonneg). Qed.
Print Assumptions C08_budget_lt_clock_any_i64.

Theorem C08_budget_lt_movetime_any_i64 : forall (black : bool) plys sp,
  all_i64 plys sp ->
  0 < gp_movetime sp -> calc_time maxTimeInMs black plys sp <= gp_movetime sp - 50.
Proof. exact (budget_lt_movetime_any_i64 maxTimeInMs). Qed.
Print Assumptions C08_budget_lt_movetime_any_i64.

(* Without a movetime the budget stays below the configured maximum; with nothing known it is 900 ms. *)
Theorem C08_budget_lt_max : forall (black : bool) plys sp,
  in_range plys sp -> gp_movetime sp = 0 ->
  let t := if black then gp_btime sp else gp_wtime sp in
  0 < t -> calc_time maxTimeInMs black plys sp <= maxTimeInMs - 50.
Proof. intros black plys sp. exact (budget_lt_max _ black plys sp max_ms_ok). Qed.
Print Assumptions C08_budget_lt_max.

Theorem C08_budget_unknown : forall (black : bool) plys sp,
  (if black then gp_btime sp else gp_wtime sp) <= 0 -> gp_movetime sp <= 0 ->
  calc_time maxTimeInMs black plys sp = 900.
Proof. exact (budget_unknown maxTimeInMs). Qed.
Print Assumptions C08_budget_unknown.

(* Non-vacuity of the int64 statement: a clock of 2^61 ms with an increment whose product with the
   remaining moves wraps. *)
Example C08_any_i64_hyps_met :
  let sp := {| gp_wtime := 2305843009213693952; gp_btime := 1; gp_winc := 2305843009213693951; gp_binc := 0;
               gp_movestogo := 0; gp_movetime := 0 |} in
  all_i64 0 sp /\ calc_time maxTimeInMs false 0 sp < gp_wtime sp.
Proof. unfold all_i64, is_i64. cbn -[calc_time]. repeat split; try (vm_compute; congruence); vm_compute; reflexivity. Qed.

(* The statement was false of the formula as it stood before the fix: commit (D4). *)
Theorem C08_unrepaired_refuted :
  exists plys sp, in_range plys sp /\ 0 < gp_wtime sp /\
    gp_wtime sp <= calc_time_unrepaired 1000000 false plys sp.
Proof. exact unrepaired_exceeds_clock. Qed.

(* Non-vacuity: the hypotheses are met by an ordinary tournament clock. *)
Example C08_hyps_met :
  let sp := {| gp_wtime := 300000; gp_btime := 295000; gp_winc := 2000; gp_binc := 2000;
               gp_movestogo := 0; gp_movetime := 0 |} in
  in_range 24 sp /\ 0 < gp_wtime sp /\ calc_time maxTimeInMs false 24 sp = 7425.
Proof. unfold in_range, lim. cbn -[calc_time]. repeat split; try lia; vm_compute; reflexivity. Qed.
