(* C08 — the time budget never exceeds what is on the clock.
   This file contains only the property theorems, each closed by [exact] of a lemma
   proved elsewhere, with its assumptions printed. *)
From Coq Require Import ZArith Lia.
From Clemens Require Import Search.Time Search.TimeProofs.
From ClemensGen Require Import GoConsts.
Open Scope Z_scope.

(* The generated constant is within the range the no-overflow argument needs. *)
Lemma max_ms_ok : 0 <= maxTimeInMs < lim.
Proof. unfold lim. vm_compute. split; [discriminate | reflexivity]. Qed.

Theorem C08_budget_lt_clock : forall (black : bool) plys sp,
  in_range plys sp ->
  let t := if black then gp_btime sp else gp_wtime sp in
  0 < t -> calc_time maxTimeInMs black plys sp < t.
Proof. intros black plys sp. exact (budget_lt_clock _ black plys sp max_ms_ok). Qed.
Print Assumptions C08_budget_lt_clock.

Theorem C08_budget_lt_movetime : forall (black : bool) plys sp,
  in_range plys sp ->
  0 < gp_movetime sp -> calc_time maxTimeInMs black plys sp < gp_movetime sp.
Proof. intros black plys sp. exact (budget_lt_movetime _ black plys sp max_ms_ok). Qed.
Print Assumptions C08_budget_lt_movetime.

Theorem C08_budget_indep : forall (black : bool) plys sp sp',
  mover_view black sp = mover_view black sp' ->
  calc_time maxTimeInMs black plys sp = calc_time maxTimeInMs black plys sp'.
Proof. exact (budget_indep maxTimeInMs). Qed.
Print Assumptions C08_budget_indep.

(* The statement was false of the formula as it stood before the fix: commit (D4). *)
Theorem C08_unrepaired_refuted :
  exists plys sp, in_range plys sp /\ 0 < gp_wtime sp /\
    gp_wtime sp <= calc_time_unrepaired 1000000 false plys sp.
Proof. exact unrepaired_exceeds_clock. Qed.

(* Non-vacuity: the hypotheses are met by an ordinary tournament clock. *)
Example C08_hyps_met :
  let sp := {| gp_wtime := 300000; gp_btime := 295000; gp_winc := 2000; gp_binc := 2000;
               gp_movestogo := 0; gp_movetime := 0 |} in
  in_range 24 sp /\ 0 < gp_wtime sp /\ calc_time maxTimeInMs false 24 sp = 7425.
Proof. unfold in_range, lim. cbn -[calc_time]. repeat split; try lia; vm_compute; reflexivity. Qed.
