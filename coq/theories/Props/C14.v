(* C14 — the transposition table never invents information.
   This file contains only the property theorems, each closed by [exact] of a lemma proved in
   Search/TTProofs.v, with its assumptions printed.  The model (Search/TT.v) is instantiated
   with the dimensions and the mate bound of the Go build (coq/gen/GoConsts.v).

   Reading guide.  [tt_run nb bs ops] is the table reached from the empty table by the
   operation sequence [ops] (saves, probes, resets, in any order and number); [saves_of ops]
   is the ghost log of its saves.  [explains inf sv alpha beta depth ply sc mv] says that the
   usable result (sc, mv) is justified by the payload [sv]: [depth <= sv_depth sv], [mv] is
   its move, and according to the stored bound (the two low bits of the node type, which is
   what the packed byte keeps) sc is the mate-adjusted stored score (exact), or alpha with
   adjusted score <= alpha (upper bound), or beta with adjusted score >= beta (lower bound).
   [hit] is the complete description of Get's result once it has found the payload. *)
From Coq Require Import NArith ZArith List Lia.
From Clemens Require Import Search.TT Search.TTProofs.
From ClemensGen Require Import GoConsts.
Import ListNotations.
Open Scope N_scope.

(* The generated bucket size is not zero (the store-then-probe lemma needs a slot to write to). *)
Lemma bucket_size_ok : N.to_nat tt_bucketSize <> O.
Proof. vm_compute. discriminate. Qed.

Theorem C14_tt_sound : forall ops h alpha beta depth ply sc use mv,
  h <> 0 ->
  tt_get tt_numberOfBuckets eval_INF (tt_run tt_numberOfBuckets (N.to_nat tt_bucketSize) ops)
         h alpha beta depth ply = (sc, use, mv) ->
  (use = true ->
     exists sv, In sv (saves_of ops) /\ sv_hash sv = h /\
                explains eval_INF sv alpha beta depth ply sc mv) /\
  (use = false ->
     mv = NullMove \/ exists sv, In sv (saves_of ops) /\ sv_hash sv = h /\ mv = sv_move sv).
Proof. exact (tt_sound tt_numberOfBuckets (N.to_nat tt_bucketSize) eval_INF). Qed.
Print Assumptions C14_tt_sound.

(* "exact scores as stored" for scores outside the mate range; valid node types are kept as is. *)
Theorem C14_score_outside_mate_range : forall s ply,
  outside_mate_range eval_INF s -> mate_adjust eval_INF s ply = s.
Proof. exact (mate_adjust_outside eval_INF). Qed.
Print Assumptions C14_score_outside_mate_range.

Theorem C14_valid_node_type_kept : forall nt, nt <= 3 -> stored_node_type nt = nt.
Proof. exact stored_node_type_id. Qed.
Print Assumptions C14_valid_node_type_kept.

Theorem C14_never_stored : forall ops h alpha beta depth ply,
  h <> 0 -> (forall sv, In sv (saves_of ops) -> sv_hash sv <> h) ->
  tt_get tt_numberOfBuckets eval_INF (tt_run tt_numberOfBuckets (N.to_nat tt_bucketSize) ops)
         h alpha beta depth ply = (0%Z, false, NullMove).
Proof. exact (tt_never_stored tt_numberOfBuckets (N.to_nat tt_bucketSize) eval_INF). Qed.
Print Assumptions C14_never_stored.

(* The strongest statement that is true of the code: the probe right after a save finds an
   entry for that hash and returns exactly what that entry's payload [sv'] dictates ([hit]);
   [sv'] is the payload just stored, or an EARLIER payload for the same hash that the
   replacement scan passed over: deeper than the new one, or with a smaller stored (6-bit) age
   than the new (8-bit) age.  PotentiallySave never looks for the hash it stores. *)
Theorem C14_store_then_probe : forall ops sv alpha beta depth ply,
  sv_hash sv <> 0 ->
  exists sv',
    In sv' (saves_of ops ++ [sv]) /\ sv_hash sv' = sv_hash sv /\
    hit eval_INF sv' alpha beta depth ply
      (tt_get tt_numberOfBuckets eval_INF
         (tt_save_rec tt_numberOfBuckets (tt_run tt_numberOfBuckets (N.to_nat tt_bucketSize) ops) sv)
         (sv_hash sv) alpha beta depth ply) /\
    (sv' = sv \/
     (In sv' (saves_of ops) /\
      (sv_depth sv < sv_depth sv' \/ stored_age (sv_age sv') < sv_age sv))).
Proof.
  intros ops sv alpha beta depth ply.
  exact (tt_store_then_probe tt_numberOfBuckets (N.to_nat tt_bucketSize) eval_INF
           ops sv alpha beta depth ply bucket_size_ok).
Qed.
Print Assumptions C14_store_then_probe.

(* The naive reading "the probe returns exactly what was just stored" is false of the code:
   save (hash 1, move 11, depth 5, score 100, exact) then (hash 1, move 22, depth 3, score 200,
   exact); the probe for hash 1 at depth 1 answers (100, usable, move 11). *)
Lemma naive_witness :
  sv_hash naive_sv2 <> 0 /\ 1 <= sv_depth naive_sv2 /\
  stored_node_type (sv_nt naive_sv2) = PVNode /\ outside_mate_range eval_INF (sv_score naive_sv2) /\
  tt_get tt_numberOfBuckets eval_INF
    (tt_save_rec tt_numberOfBuckets
       (tt_run tt_numberOfBuckets (N.to_nat tt_bucketSize) [OSave naive_sv1]) naive_sv2)
    (sv_hash naive_sv2) (-30000)%Z 30000%Z 1 0
  <> (sv_score naive_sv2, true, sv_move naive_sv2).
Proof.
  split; [vm_compute; discriminate |]. split; [vm_compute; discriminate |].
  split; [vm_compute; reflexivity |]. split; [vm_compute; split; discriminate |].
  vm_compute. intro H. discriminate H.
Qed.

Theorem C14_store_then_probe_naive_refuted :
  exists ops sv alpha beta depth ply,
    sv_hash sv <> 0 /\ depth <= sv_depth sv /\
    stored_node_type (sv_nt sv) = PVNode /\ outside_mate_range eval_INF (sv_score sv) /\
    tt_get tt_numberOfBuckets eval_INF
      (tt_save_rec tt_numberOfBuckets (tt_run tt_numberOfBuckets (N.to_nat tt_bucketSize) ops) sv)
      (sv_hash sv) alpha beta depth ply
    <> (sv_score sv, true, sv_move sv).
Proof.
  exact (ex_intro _ [OSave naive_sv1] (ex_intro _ naive_sv2 (ex_intro _ (-30000)%Z
          (ex_intro _ 30000%Z (ex_intro _ 1 (ex_intro _ 0 naive_witness)))))).
Qed.
Print Assumptions C14_store_then_probe_naive_refuted.

(* What a run records for a probe in the middle of a sequence is the probe of the table
   reached by the operations in front of it, so the theorems above speak about every probe of
   every sequence. *)
Theorem C14_probe_in_run : forall pre post h alpha beta depth ply,
  let nb := tt_numberOfBuckets in
  let bs := N.to_nat tt_bucketSize in
  snd (tt_exec nb bs eval_INF (tt_init bs) (pre ++ OGet h alpha beta depth ply :: post)) =
  snd (tt_exec nb bs eval_INF (tt_init bs) pre) ++
  tt_get nb eval_INF (tt_run nb bs pre) h alpha beta depth ply ::
  snd (tt_exec nb bs eval_INF (tt_run nb bs pre) post).
Proof.
  intros pre post h alpha beta depth ply.
  exact (tt_exec_probe tt_numberOfBuckets (N.to_nat tt_bucketSize) eval_INF pre
           (tt_init (N.to_nat tt_bucketSize)) post h alpha beta depth ply).
Qed.
Print Assumptions C14_probe_in_run.

(* Non-vacuity: a history with three hashes in one bucket (5, 5 + numberOfBuckets,
   5 + 2 numberOfBuckets), an age above 63, a reset in front and a probe in between; the probe
   for the second hash is usable as an upper bound, the hypotheses of C14_tt_sound hold, and a
   hash never stored (5 + 3 numberOfBuckets, same bucket) satisfies those of C14_never_stored. *)
Example C14_hyps_met :
  let nb := tt_numberOfBuckets in
  let bs := N.to_nat tt_bucketSize in
  let sv1 := {| sv_hash := 5; sv_move := 77; sv_depth := 6; sv_score := 120%Z; sv_nt := PVNode; sv_age := 3 |} in
  let sv2 := {| sv_hash := 5 + nb; sv_move := 88; sv_depth := 4; sv_score := (-50)%Z; sv_nt := AlphaNode; sv_age := 70 |} in
  let sv3 := {| sv_hash := 5 + 2 * nb; sv_move := 99; sv_depth := 1; sv_score := 32700%Z; sv_nt := BetaNode; sv_age := 0 |} in
  let ops := [OReset; OSave sv1; OGet 5 0%Z 1%Z 9 0; OSave sv2; OSave sv3] in
  5 + nb <> 0 /\
  tt_get nb eval_INF (tt_run nb bs ops) (5 + nb) (-10)%Z (-9)%Z 3 2 = ((-10)%Z, true, 88) /\
  explains eval_INF sv2 (-10)%Z (-9)%Z 3 2 (-10)%Z 88 /\
  In sv2 (saves_of ops) /\
  map te_hash (st_tab (tt_run nb bs ops) (tt_index nb 5)) = [5; 5 + nb; 5 + 2 * nb; 0] /\
  st_he (tt_run nb bs ops) = 3 /\
  5 + 3 * nb <> 0 /\ (forall sv, In sv (saves_of ops) -> sv_hash sv <> 5 + 3 * nb) /\
  tt_get nb eval_INF (tt_run nb bs ops) (5 + 3 * nb) (-10)%Z (-9)%Z 3 2 = (0%Z, false, NullMove).
Proof.
  cbv zeta.
  split; [vm_compute; discriminate |].
  split; [vm_compute; reflexivity |].
  split.
  { unfold explains. cbn [sv_depth sv_move sv_score sv_nt].
    split; [vm_compute; discriminate |]. split; [reflexivity |].
    right; left. split; [vm_compute; reflexivity |]. split; [vm_compute; discriminate | reflexivity]. }
  split; [cbn [saves_of In]; right; left; reflexivity |].
  split; [vm_compute; reflexivity |].
  split; [vm_compute; reflexivity |].
  split; [vm_compute; discriminate |].
  split; [| vm_compute; reflexivity].
  intros sv Hin. cbn [saves_of In] in Hin.
  destruct Hin as [<- | [<- | [<- | []]]]; vm_compute; discriminate.
Qed.

(* ======================= inside the search (Compose/TT*.v) =======================
   The theorems above are about operation lists.  The search model reaches the table only through tt_get / tt_save: the table after
   ANY call of the search is the table before it with a list of saves applied, each for the hash of a position visited from the root,
   with depth > 0 and a valid bound type; hence the table of any session of searches from the empty table IS the table of an operation
   list, and every usable probe on it - in particular every table cutoff a node of a later search takes - is justified by a record
   stored earlier in the session for exactly that 64-bit hash, with at least the requested depth, whose bound allows the result. *)
From Clemens Require Search.Negamax Search.GoInst.
From Clemens.C13Bridge Require Seq.
From Clemens.Compose Require TTGrow TTSession TTExamples.
Import Clemens.Search.Negamax Clemens.Search.GoInst.

Theorem C14_search_table_grows : forall root iters fuel rep s req,
  TTSession.grows (TTSession.stored_by root) (s_tt s) (s_tt (snd (go_search iters fuel rep s root req))).
Proof. exact TTSession.go_search_table_grows. Qed.
Print Assumptions C14_search_table_grows.

Theorem C14_session_table_log : forall roots s, Seq.session roots s -> TTSession.session_table roots (s_tt s).
Proof. exact TTSession.session_table_log. Qed.
Print Assumptions C14_session_table_log.

Theorem C14_session_probe_justified : forall roots t h alpha beta depth ply sc mv,
  TTSession.session_table roots t -> h <> 0%N ->
  tt_get tt_numberOfBuckets eval_INF t h alpha beta depth ply = (sc, true, mv) ->
  exists sv, TTSession.stored_in roots sv /\ sv_hash sv = h /\ explains eval_INF sv alpha beta depth ply sc mv.
Proof. exact TTSession.session_probe_justified. Qed.
Print Assumptions C14_session_probe_justified.

(* unlike the evaluation cache the table is NOT transparent: the next search on the table a depth-3 search left visits 237 nodes
   instead of 538 (kernel-evaluated) - the property is soundness of what is returned, not invisibility *)
Example C14_table_changes_the_search := TTExamples.second_search_observed.
