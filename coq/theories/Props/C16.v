(* C16 — the evaluation cache is transparent.
   "The score returned for a position is the same whether or not it, or any other position, was
   evaluated before: caching never changes a result. In particular the draw score applied once the
   fifty-move counter is exhausted never leaks to the same placement with a lower counter, nor the
   other way round."
   This file contains only the property theorems, each closed by [exact] of a lemma proved in
   Eval/CacheProofs.v (general, for every table of evaluation constants C) or Eval/CacheInst.v
   (the constants and Zobrist keys of the current Go build), with its assumptions printed.

   Reading guide (definitions of Eval/CacheProofs.v; their unfoldings are C16_defs below).
   [eval_raw C p] is the evaluation without the cache, [eval_cached C c p] evalWithCache (with the
   D9 repair) from the cache state c, [eval_cached_unrepaired] the function as it stood.
   [eval_key p] = (piece bitboards, occupancy, per-colour occupancies, side to move): what the
   evaluation reads of a position apart from the bit [100 <= hmc p].
   [cache_sound C U c]: every entry of c that a position of the universe U with clock below 100
   would hit tells the truth about that position.  [hash_injective U]: inside U equal hashes imply
   equal eval_key (the no-collision hypothesis that any hashed cache needs; it is a hypothesis,
   not a theorem: it is false for the set of all positions by counting).  [hash_nonzero U]: no
   position of U has hash 0 (the table is zero-initialised, in the model as in the Go code, so hash
   0 "hits" an empty slot with score 0; C16_empty_cache_sound states exactly what is needed).
   [run_cached C c ps]: the list of results (score, Err or Panic) of evaluating the positions ps in
   this order through the cache starting from c; a failed evaluation leaves the cache unchanged.
   [clock_twins p q]: p and q are equal in every field except the half-move clock. *)
From Coq Require Import NArith ZArith List Bool.
From Clemens Require Import Base.Res Pos.Position Pos.ZobristProofs Eval.Eval Eval.CacheProofs Eval.CacheInst Eval.CacheKeys.
Import ListNotations.
Open Scope N_scope.

Theorem C16_defs : forall C U c p r ps,
  (eval_key p = (bbs p, all_pieces p, by_color p, side p)) /\
  (cache_sound C U c <->
     forall p, In p U -> hmc p < 100 ->
       let '(s, found) := cache_get C c (hash p) in found = true -> eval_raw C p = Ok s) /\
  (hash_injective U <-> forall p q, In p U -> In q U -> hash p = hash q -> eval_key p = eval_key q) /\
  (hash_nonzero U <-> forall p, In p U -> hash p <> 0) /\
  run_cached C c [] = [] /\
  run_cached C c (p :: ps) =
    score_of (eval_cached C c p) :: run_cached C (cache_after c (eval_cached C c p)) ps /\
  run_unrepaired C c (p :: ps) =
    score_of (eval_cached_unrepaired C c p) ::
    run_unrepaired C (cache_after c (eval_cached_unrepaired C c p)) ps /\
  score_of r = match r with Ok (v, _) => Ok v | Err => Err | Panic => Panic end /\
  cache_after c r = match r with Ok (_, c') => c' | _ => c end.
Proof. exact c16_defs. Qed.
Print Assumptions C16_defs.

(* 1. what the uncached evaluation depends on: not castling rights, en-passant state, hash, ply, the
   board array, nor the value of the clock on either side of the limit *)
Theorem C16_eval_raw_depends : forall C p q,
  bbs p = bbs q -> all_pieces p = all_pieces q -> by_color p = by_color q -> side p = side q ->
  (100 <=? hmc p) = (100 <=? hmc q) ->
  eval_raw C p = eval_raw C q.
Proof. exact eval_raw_depends. Qed.
Print Assumptions C16_eval_raw_depends.

Theorem C16_eval_raw_ignores : forall C p cast' ep' hash' ply' board' hmc',
  (100 <=? hmc') = (100 <=? hmc p) ->
  eval_raw C {| bbs := bbs p; hash := hash'; all_pieces := all_pieces p; by_color := by_color p;
                board := board'; side := side p; castling := cast'; ep := ep'; hmc := hmc'; ply := ply' |}
  = eval_raw C p.
Proof. exact eval_raw_ignores. Qed.
Print Assumptions C16_eval_raw_ignores.

(* 2. one evaluation through the cache *)
Theorem C16_cache_step : forall C U c p v,
  cache_sound C U c -> hash_injective U -> In p U -> eval_raw C p = Ok v ->
  exists c', eval_cached C c p = Ok (v, c') /\ cache_sound C U c' /\ (100 <= hmc p -> c' = c).
Proof. exact eval_cached_correct. Qed.
Print Assumptions C16_cache_step.

(* the same without assuming that the uncached evaluation succeeds: also the failure class agrees *)
Theorem C16_cache_step_total : forall C U c p,
  cache_sound C U c -> hash_injective U -> In p U ->
  score_of (eval_cached C c p) = eval_raw C p /\
  cache_sound C U (cache_after c (eval_cached C c p)) /\
  (100 <= hmc p -> cache_after c (eval_cached C c p) = c).
Proof. exact eval_cached_step. Qed.
Print Assumptions C16_cache_step_total.

(* the empty cache is sound exactly when a position of U with hash 0 (and clock < 100) scores 0;
   in particular when no position of U has hash 0 *)
Theorem C16_empty_cache_sound : forall C U,
  (cache_sound C U [] <->
     (forall p, In p U -> hmc p < 100 -> hash p = 0 -> eval_raw C p = Ok 0%Z)) /\
  (hash_nonzero U -> cache_sound C U []).
Proof. exact (fun C U => conj (cache_sound_empty_iff C U) (cache_sound_empty C U)). Qed.
Print Assumptions C16_empty_cache_sound.

(* 3. the property: every result of every sequence of evaluations equals the uncached result *)
Theorem C16_cache_transparent : forall C U c ps,
  hash_injective U -> cache_sound C U c -> Forall (fun p => In p U) ps ->
  run_cached C c ps = map (eval_raw C) ps.
Proof. exact cache_transparent. Qed.
Print Assumptions C16_cache_transparent.

Theorem C16_cache_transparent_from_empty : forall C U ps,
  hash_injective U -> hash_nonzero U -> Forall (fun p => In p U) ps ->
  run_cached C [] ps = map (eval_raw C) ps.
Proof. exact cache_transparent_from_empty. Qed.
Print Assumptions C16_cache_transparent_from_empty.

(* the cache any history leaves is again sound, and the results after a prefix are the results from
   the cache the prefix left: the theorems speak about every evaluation inside every history *)
Theorem C16_history_invariant : forall C U ps c,
  hash_injective U -> cache_sound C U c -> Forall (fun p => In p U) ps ->
  cache_sound C U (final_cache C c ps).
Proof. exact cache_sound_final. Qed.
Print Assumptions C16_history_invariant.

Theorem C16_history_split : forall C pre post c,
  run_cached C c (pre ++ post) = run_cached C c pre ++ run_cached C (final_cache C c pre) post.
Proof. exact run_cached_app. Qed.
Print Assumptions C16_history_split.

(* 4. the fifty-move clause *)
Theorem C16_fifty_move_no_leak : forall C U c p q,
  hash_injective U -> cache_sound C U c -> In p U -> In q U ->
  clock_twins p q -> 100 <= hmc p -> hmc q < 100 ->
  run_cached C c [p; q] = [eval_raw C p; eval_raw C q] /\
  run_cached C c [q; p] = [eval_raw C q; eval_raw C p] /\
  eval_raw C p = contempt C p.
Proof. exact fifty_move_no_leak. Qed.
Print Assumptions C16_fifty_move_no_leak.

(* for the pair alone no collision hypothesis is left *)
Theorem C16_fifty_move_no_leak_from_empty : forall C p q,
  clock_twins p q -> hash p <> 0 -> 100 <= hmc p -> hmc q < 100 ->
  run_cached C [] [p; q] = [eval_raw C p; eval_raw C q] /\
  run_cached C [] [q; p] = [eval_raw C q; eval_raw C p].
Proof. exact fifty_move_no_leak_from_empty. Qed.
Print Assumptions C16_fifty_move_no_leak_from_empty.

(* The unrepaired evalWithCache violates exactly this (defect D9), with all hypotheses of
   C16_fifty_move_no_leak met: p = 4k3/8/8/8/8/8/4P3/4K3 w - - 100 80, q = the same with clock 0,
   parsed with the Zobrist keys and evaluated with the tables of the Go build, from the empty
   cache: p then q answers 0 for q (uncached: 83); q then p answers 83 for p (uncached: 0). *)
Theorem C16_unrepaired_refuted :
  exists U c p q,
    hash_injective U /\ cache_sound c16_econsts U c /\ In p U /\ In q U /\
    clock_twins p q /\ 100 <= hmc p /\ hmc q < 100 /\
    eval_raw c16_econsts p = Ok 0%Z /\ eval_raw c16_econsts q = Ok 83%Z /\
    run_unrepaired c16_econsts c [p; q] = [Ok 0%Z; Ok 0%Z] /\
    run_unrepaired c16_econsts c [q; p] = [Ok 83%Z; Ok 83%Z] /\
    run_unrepaired c16_econsts c [p; q] <> [eval_raw c16_econsts p; eval_raw c16_econsts q] /\
    run_unrepaired c16_econsts c [q; p] <> [eval_raw c16_econsts q; eval_raw c16_econsts p].
Proof. exact unrepaired_refuted. Qed.
Print Assumptions C16_unrepaired_refuted.

(* What the key table of the Go build decides about the no-collision hypothesis: all 781 Zobrist keys are
   non-zero and pairwise distinct, so no two positions that differ in exactly one component (one square's
   occupant, side to move, castling rights, en-passant file) share a hash - the collisions a defective key
   table would produce first.  Re-checked by the kernel whenever the generated keys change. *)
Theorem C16_keys_injective : forall i j a b,
  i <> j -> nth_error (all_keys c16_keys) i = Some a -> nth_error (all_keys c16_keys) j = Some b ->
  a <> b /\ a <> 0.
Proof. exact c16_keys_injective. Qed.
Print Assumptions C16_keys_injective.

Theorem C16_one_component_no_collision : forall p1 p2,
  pos_wf p1 -> pos_wf p2 -> differ_in_one_component p1 p2 ->
  scratch_hash c16_keys p1 <> scratch_hash c16_keys p2.
Proof. exact c16_one_component_no_collision. Qed.
Print Assumptions C16_one_component_no_collision.

(* Non-vacuity.  A universe of six concrete positions of the Go build: the clock twins above (equal
   hashes), rights-only twins r3k2r/8/8/8/8/8/4P3/R3K2R w KQkq|- - 0 1 and en-passant-only twins
   8/8/8/2k5/2pP4/8/B7/4K3 b - d3|- 0 3 (different hashes, equal eval_key).  The hypotheses of
   C16_cache_transparent_from_empty hold (injectivity and non-zero hashes decided by vm_compute),
   and the history with revisits and the twins in both orders gives through the cache the scores the
   uncached evaluation gives. *)
Example C16_hyps_met :
  c16_parse fen_clock100 = Ok pos_clock100 /\ c16_parse fen_clock0 = Ok pos_clock0 /\
  c16_parse fen_rights_all = Ok pos_rights_all /\ c16_parse fen_rights_none = Ok pos_rights_none /\
  c16_parse fen_ep_set = Ok pos_ep_set /\ c16_parse fen_ep_none = Ok pos_ep_none /\
  c16_universe = [pos_clock100; pos_clock0; pos_rights_all; pos_rights_none; pos_ep_set; pos_ep_none] /\
  c16_history = [pos_clock100; pos_clock0; pos_clock100; pos_rights_all; pos_rights_none; pos_rights_all;
                 pos_ep_set; pos_ep_none; pos_clock0; pos_clock100] /\
  hash_injective c16_universe /\ hash_nonzero c16_universe /\
  cache_sound c16_econsts c16_universe [] /\
  Forall (fun p => In p c16_universe) c16_history /\
  clock_twins pos_clock100 pos_clock0 /\ 100 <= hmc pos_clock100 /\ hmc pos_clock0 < 100 /\
  hash pos_clock100 = hash pos_clock0 /\
  hash pos_rights_all <> hash pos_rights_none /\ eval_key pos_rights_all = eval_key pos_rights_none /\
  hash pos_ep_set <> hash pos_ep_none /\ eval_key pos_ep_set = eval_key pos_ep_none /\
  map (eval_raw c16_econsts) c16_history =
    [Ok 0; Ok 83; Ok 0; Ok 72; Ok 72; Ok 72; Ok (-257); Ok (-257); Ok 83; Ok 0]%Z /\
  run_cached c16_econsts [] c16_history =
    [Ok 0; Ok 83; Ok 0; Ok 72; Ok 72; Ok 72; Ok (-257); Ok (-257); Ok 83; Ok 0]%Z.
Proof. exact c16_hyps_met. Qed.
Print Assumptions C16_hyps_met.

(* ======================= the cache is transparent for WHOLE SEARCHES (Compose/Cache*.v) =======================
   "caching never changes a result" lifted from single evaluations to what the engine plays and prints.  [visited go_keys root]: the
   positions a search from root can reach; [go_eval_injective root]: C16's no-collision hypothesis on that set, only for positions the
   cache is consulted for (clock below 100); [go_cache_sound root c]: wherever a visited position would hit the cache c, the entry is that
   position's uncached evaluation (entries for other positions are unconstrained unless they share a stored hash with a visited one).
   Two states that differ ONLY in the evaluation cache, both caches sound: Search returns the same answer, prints the same info lines,
   counts the same nodes, makes the same polls and leaves the same transposition table, heuristics and PV; both caches stay sound. *)
From Clemens Require Search.Negamax Search.GoInst.
From Clemens.C13Bridge Require Bridge Seq.
From Clemens.Compose Require CacheSound CacheCalls CacheGo CacheExamples.
Import Clemens.Search.Negamax Clemens.Search.GoInst.

Theorem C16_search_cache_transparent : forall root iters fuel rep s1 s2 req,
  CacheGo.go_eval_injective root ->
  CacheSound.eq_but_cache s1 s2 -> CacheGo.go_cache_sound root (s_cache s1) -> CacheGo.go_cache_sound root (s_cache s2) ->
  CacheCalls.agree go_econsts (Bridge.visited go_keys root)
    (go_search iters fuel rep s1 root req) (go_search iters fuel rep s2 root req).
Proof. exact CacheGo.go_search_cache_transparent. Qed.
Print Assumptions C16_search_cache_transparent.

Theorem C16_search_defs : forall (V : position -> Prop) (X Y : sresult N * sst) s1 s2,
  (CacheCalls.agree go_econsts V X Y <->
     fst X = fst Y /\ CacheSound.eq_but_cache (snd X) (snd Y) /\
     CacheSound.cache_sound_on go_econsts V (s_cache (snd X)) /\ CacheSound.cache_sound_on go_econsts V (s_cache (snd Y))) /\
  (CacheSound.eq_but_cache s1 s2 <->
     s_tt s1 = s_tt s2 /\ s_nodes s1 = s_nodes s2 /\ s_killers s1 = s_killers s2 /\
     s_history s1 = s_history s2 /\ s_counter s1 = s_counter s2 /\ s_hist s1 = s_hist s2 /\
     s_pv s1 = s_pv s2 /\ s_out s1 = s_out s2 /\ s_polls s1 = s_polls s2 /\ s_cancel s1 = s_cancel s2).
Proof. intros. split; apply iff_refl. Qed.
Print Assumptions C16_search_defs.

(* in particular: the next search of ANY session of searches answers, prints and counts exactly as it would with the cache emptied *)
Theorem C16_session_search_as_from_empty_cache : forall root0 roots s root iters fuel rep req,
  CacheGo.go_eval_injective root0 -> CacheGo.go_hash_nonzero root0 ->
  (forall r, In r (root :: roots) -> Bridge.visited go_keys root0 r) ->
  Seq.session roots s ->
  CacheCalls.agree go_econsts (Bridge.visited go_keys root0)
    (go_search iters fuel rep (upd_cache s []) root req) (go_search iters fuel rep s root req).
Proof. exact CacheGo.session_search_as_from_empty_cache. Qed.
Print Assumptions C16_session_search_as_from_empty_cache.

(* soundness cannot be dropped (the same cache with every score replaced by 900: another move is played), and the hypotheses are
   satisfiable with a non-empty cache; both by kernel evaluation *)
Example C16_unsound_cache_changes_the_move := CacheExamples.unsound_cache_changes_the_move.
Example C16_search_hypotheses_satisfiable := CacheExamples.hypotheses_satisfiable.
