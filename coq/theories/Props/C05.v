(* C05 — every search terminates within its limit; a stop is noticed at the next node.
   Only the property theorems, each closed by [exact] of a lemma proved in Search/SearchStruct.v,
   Search/SearchIter.v or Search/SearchGo.v, with its assumptions printed.  The model
   (Search/Negamax.v) is instantiated with the constants of the Go build (Search/GoInst.v).

   Reading guide.  States [s] are ARBITRARY (any table, cache, heuristic, repetition-stack
   content).  [s_cancel s = Some k] is the oracle "the k-th poll of ctx.Done() and all later ones
   report done"; [cancelled s]: the next poll reports done; [fired s]: some poll has reported
   done.  [go_negamax (S f)] is a call with non-zero recursion fuel. *)
From Coq Require Import NArith ZArith List Bool.
From Clemens Require Import Base.Res Base.Word Pos.Types Pos.Position Eval.Eval Search.TT Search.Ordering
     Search.Negamax Search.SearchStruct Search.SearchLines Search.SearchIter Search.GoInst Search.SearchGo.
Import ListNotations.
Open Scope Z_scope.

(* (a) a node entered after the stop does nothing but poll: no node counted, nothing written,
   the error returned *)
Theorem C05_stop_next_node : forall f s p alpha beta depth ply cn pm rh,
  cancelled s ->
  go_negamax (S f) s p alpha beta depth ply cn pm rh = (RCancel, set_polls s (s_polls s + 1)).
Proof. exact (negamax_cancelled go_keys go_econsts go_oconsts go_sconsts). Qed.
Print Assumptions C05_stop_next_node.

(* quiescence counts its node before polling: exactly that one increment *)
Theorem C05_stop_next_node_quiescence : forall f s p alpha beta ply,
  cancelled s ->
  go_quiescence (S f) s p alpha beta ply =
    (RCancel, set_polls (upd_nodes s (w64 (s_nodes s + 1))) (s_polls s + 1)).
Proof. exact (quiescence_cancelled go_keys go_econsts go_oconsts go_sconsts). Qed.
Print Assumptions C05_stop_next_node_quiescence.

Theorem C05_no_write_after_cancel : forall f s p alpha beta depth ply cn pm rh r s',
  cancelled s ->
  go_negamax f s p alpha beta depth ply cn pm rh = (r, s') ->
  s_tt s' = s_tt s /\ s_cache s' = s_cache s /\ s_nodes s' = s_nodes s /\
  s_killers s' = s_killers s /\ s_history s' = s_history s /\ s_counter s' = s_counter s /\
  s_hist s' = s_hist s /\ s_pv s' = s_pv s /\ s_out s' = s_out s /\
  (r = RCancel \/ r = ROutOfFuel).
Proof. exact (no_write_after_cancel go_keys go_econsts go_oconsts go_sconsts). Qed.
Print Assumptions C05_no_write_after_cancel.

Theorem C05_no_write_after_cancel_quiescence : forall f s p alpha beta ply r s',
  cancelled s ->
  go_quiescence f s p alpha beta ply = (r, s') ->
  s_tt s' = s_tt s /\ s_cache s' = s_cache s /\
  (s_nodes s' = s_nodes s \/ s_nodes s' = w64 (s_nodes s + 1)) /\
  s_killers s' = s_killers s /\ s_history s' = s_history s /\ s_counter s' = s_counter s /\
  s_hist s' = s_hist s /\ s_pv s' = s_pv s /\ s_out s' = s_out s /\
  (r = RCancel \/ r = ROutOfFuel).
Proof. exact (no_write_after_cancel_q go_keys go_econsts go_oconsts go_sconsts). Qed.
Print Assumptions C05_no_write_after_cancel_quiescence.

(* every frame returns the error: a call during which a poll reported done never returns a value *)
Theorem C05_cancel_propagates : forall f s p alpha beta depth ply cn pm rh r s',
  go_negamax f s p alpha beta depth ply cn pm rh = (r, s') ->
  fired s' -> r = RCancel \/ r = RPanic \/ r = ROutOfFuel.
Proof. exact (cancel_propagates go_keys go_econsts go_oconsts go_sconsts). Qed.
Print Assumptions C05_cancel_propagates.

Theorem C05_cancel_propagates_quiescence : forall f s p alpha beta ply r s',
  go_quiescence f s p alpha beta ply = (r, s') ->
  fired s' -> r = RCancel \/ r = RPanic \/ r = ROutOfFuel.
Proof. exact (cancel_propagates_q go_keys go_econsts go_oconsts go_sconsts). Qed.
Print Assumptions C05_cancel_propagates_quiescence.

(* why [fired s'] and not [cancelled s']: a value can be returned with the oracle due at the NEXT poll *)
Theorem C05_value_returned_with_oracle_due : cx2_run = Some (ROk (-32767, []), 1%N, Some 1%N).
Proof. exact value_returned_with_oracle_due. Qed.
Print Assumptions C05_value_returned_with_oracle_due.

(* and the error is returned only then *)
Theorem C05_error_only_if_fired : forall f s p alpha beta depth ply cn pm rh s',
  go_negamax f s p alpha beta depth ply cn pm rh = (RCancel, s') -> fired s'.
Proof. exact (rcancel_only_if_fired go_keys go_econsts go_oconsts go_sconsts). Qed.
Print Assumptions C05_error_only_if_fired.

Theorem C05_polls_monotone : forall f s p alpha beta depth ply cn pm rh r s',
  go_negamax f s p alpha beta depth ply cn pm rh = (r, s') ->
  (s_polls s <= s_polls s')%N /\ s_cancel s' = s_cancel s.
Proof. exact (polls_monotone go_keys go_econsts go_oconsts go_sconsts). Qed.
Print Assumptions C05_polls_monotone.

Theorem C05_once_cancelled_always : forall f s p alpha beta depth ply cn pm rh r s',
  go_negamax f s p alpha beta depth ply cn pm rh = (r, s') -> cancelled s -> cancelled s'.
Proof. exact (once_cancelled_always go_keys go_econsts go_oconsts go_sconsts). Qed.
Print Assumptions C05_once_cancelled_always.

(* the deferred popHistory: whatever a call returns (value, error, panic, out of fuel), the
   repetition stack is back to what it was; negamax never touches s.PV or the output *)
Theorem C05_history_balanced : forall f s p alpha beta depth ply cn pm rh r s',
  go_negamax f s p alpha beta depth ply cn pm rh = (r, s') ->
  s_hist s' = s_hist s /\ s_pv s' = s_pv s /\ s_out s' = s_out s.
Proof. exact (history_balanced go_keys go_econsts go_oconsts go_sconsts). Qed.
Print Assumptions C05_history_balanced.

(* (b) output is only appended, and no info line reports a depth above the requested one
   (the fallback reports depth 1) *)
Theorem C05_depth_respected : forall iters fuel rep s root req r s',
  (req < 255)%N ->
  go_search iters fuel rep s root req = (r, s') ->
  exists new, s_out s' = new ++ s_out s /\
    forall d sc n h pv, In (EInfo d sc n h pv) new ->
      (1 <= d <= N.max 1 (req_to_depth go_sconsts req))%N.
Proof.
  exact (fun iters fuel rep s root req r s' H =>
           depth_respected go_keys go_econsts go_oconsts go_sconsts go_inf_ok iters fuel rep s root req r s'
                           (go_req_depth req H)).
Qed.
Print Assumptions C05_depth_respected.

(* (c) with the D5 repair the loop runs out of iterations only if one of its root searches ran out
   of recursion fuel *)
Theorem C05_id_loop_bound : forall fuel root md iters s d a b s',
  (md < 255)%N -> (d <= md + 1)%N ->
  (2 * (N.to_nat md + 1 - N.to_nat d) + 2 <= iters)%nat ->
  go_search_iterative iters fuel true s root md d a b = (ROutOfFuel, s') ->
  exists s1 d1 a1 b1, (d <= d1 <= md)%N /\ go_search_root fuel s1 root d1 a1 b1 = (ROutOfFuel, s').
Proof. exact (id_loop_bound go_keys go_econsts go_oconsts go_sconsts). Qed.
Print Assumptions C05_id_loop_bound.

(* the unchanged loop (D5): at the fool's-mate position it spins; repaired, it returns *)
Theorem C05_unrepaired_refuted :
  iter_result fools_mate_fen 50 400 false 3 = Some ROutOfFuel /\
  iter_result fools_mate_fen 50 400 true 3 = Some (ROk tt).
Proof. exact unrepaired_loop_spins. Qed.
Print Assumptions C05_unrepaired_refuted.

(* (d) exactly the one fallback loop runs iff the first loop returned with no move known; it runs
   with the oracle off, cannot be cancelled, and prints an info line if it returns *)
Theorem C05_fallback_only_if_nothing : forall iters fuel rep s root req r s',
  go_search iters fuel rep s root req = (r, s') ->
  exists r1 s1,
    go_search_iterative iters fuel rep s root (req_to_depth go_sconsts req) 1
                        (- INF go_econsts) (INF go_econsts) = (r1, s1) /\
    ( (r1 = ROk tt /\ best_move s1 <> NULL_MOVE /\ r = ROk (best_move s1) /\ s' = s1)
      \/
      (r1 = ROk tt /\ best_move s1 = NULL_MOVE /\
       exists r2 s2 new2,
         go_search_iterative iters fuel rep (set_cancel s1 None) root 1 1
                             (- INF go_econsts) (INF go_econsts) = (r2, s2) /\
         s_cancel s2 = None /\ s_out s2 = new2 ++ s_out s1 /\
         match r2 with
         | ROk _ => r = ROk (best_move s2) /\ s' = set_polls s2 (s_polls s1) /\ has_info new2 = true
         | RCancel => False
         | RPanic => r = RPanic /\ s' = s2
         | ROutOfFuel => r = ROutOfFuel /\ s' = s2
         end)
      \/
      ((r1 = RPanic /\ r = RPanic \/ r1 = ROutOfFuel /\ r = ROutOfFuel) /\ s' = s1) ).
Proof. exact (fallback_only_if_nothing go_keys go_econsts go_oconsts go_sconsts go_inf_ok). Qed.
Print Assumptions C05_fallback_only_if_nothing.

Theorem C05_uncancellable_without_oracle : forall fuel s root d a b s',
  s_cancel s = None -> go_search_root fuel s root d a b <> (RCancel, s').
Proof. exact (root_not_cancel go_keys go_econsts go_oconsts go_sconsts). Qed.
Print Assumptions C05_uncancellable_without_oracle.

(* Non-vacuity: a depth-2 search of the start position from a freshly started engine whose
   oracle fires at poll 3: the first loop is cut short (4 polls of the caller's context in all,
   2 nodes counted there), nothing was adopted, the fallback ran (22 more nodes), printed its
   depth-1 line and the answer is its move. *)
Example C05_hyps_met :
  match go_new_position with
  | Ok root =>
      let '(r, s) := go_search 50 400 true (go_empty_sst (Some 3%N)) root 2 in
      (r, s_nodes s, s_polls s, s_out s)
  | _ => (RPanic, 0%N, 0%N, [])
  end = (ROk 1153%N, 24%N, 4%N, [EInfo 1 50 24 0 [1153%N]]).
Proof. vm_compute. reflexivity. Qed.
