(* C05 — every search terminates within its limit; a stop is noticed at the next node.
   Only the property theorems, each closed by [exact] of a lemma proved in Search/SearchStruct.v,
   Search/SearchIter.v or Search/SearchGo.v, with its assumptions printed.  The model
   (Search/Negamax.v) is instantiated with the constants of the Go build (Search/GoInst.v).

   Reading guide.  States [s] are ARBITRARY (any table, cache, heuristic, repetition-stack
   content).  [s_cancel s = Some k] is the oracle "the k-th poll of ctx.Done() and all later ones
   report done"; [cancelled s]: the next poll reports done; [fired s]: some poll has reported
   done.  [go_negamax (S f)] is a call with non-zero recursion fuel. *)
From Coq Require Import NArith ZArith List Bool.
From Clemens Require Import Base.Res Base.Word Pos.Types Pos.Position Eval.Eval Search.TT Search.Ordering
     Search.Negamax Search.SearchStruct Search.SearchLines Search.SearchIter Search.GoInst Search.SearchGo.
From Clemens Require Import Pos.Inv.
From Clemens.C13Mate Require Import MateDefs MateExamples.
From Clemens.C05Term Require Import Mono NoFuel Rank QMen GoTerm KK.
From Clemens.C13Bridge Require Import Bridge.
From Clemens.C05NoPanic Require Import NoPanicS NoPanicEx.
Import ListNotations.
Open Scope Z_scope.

(* (a) a node entered after the stop does nothing but poll: no node counted, nothing written,
   the error returned *)
Theorem C05_stop_next_node : forall f s p alpha beta depth ply cn pm rh,
  cancelled s ->
  go_negamax (S f) s p alpha beta depth ply cn pm rh = (RCancel, set_polls s (s_polls s + 1)).
Proof. exact (negamax_cancelled go_keys go_econsts go_oconsts go_sconsts). Qed.
Print Assumptions C05_stop_next_node.

(* quiescence counts its node before polling: exactly that one increment *)
Theorem C05_stop_next_node_quiescence : forall f s p alpha beta ply,
  cancelled s ->
  go_quiescence (S f) s p alpha beta ply =
    (RCancel, set_polls (upd_nodes s (w64 (s_nodes s + 1))) (s_polls s + 1)).
Proof. exact (quiescence_cancelled go_keys go_econsts go_oconsts go_sconsts). Qed.
Print Assumptions C05_stop_next_node_quiescence.

Theorem C05_no_write_after_cancel : forall f s p alpha beta depth ply cn pm rh r s',
  cancelled s ->
  go_negamax f s p alpha beta depth ply cn pm rh = (r, s') ->
  s_tt s' = s_tt s /\ s_cache s' = s_cache s /\ s_nodes s' = s_nodes s /\
  s_killers s' = s_killers s /\ s_history s' = s_history s /\ s_counter s' = s_counter s /\
  s_hist s' = s_hist s /\ s_pv s' = s_pv s /\ s_out s' = s_out s /\
  (r = RCancel \/ r = ROutOfFuel).
Proof. exact (no_write_after_cancel go_keys go_econsts go_oconsts go_sconsts). Qed.
Print Assumptions C05_no_write_after_cancel.

Theorem C05_no_write_after_cancel_quiescence : forall f s p alpha beta ply r s',
  cancelled s ->
  go_quiescence f s p alpha beta ply = (r, s') ->
  s_tt s' = s_tt s /\ s_cache s' = s_cache s /\
  (s_nodes s' = s_nodes s \/ s_nodes s' = w64 (s_nodes s + 1)) /\
  s_killers s' = s_killers s /\ s_history s' = s_history s /\ s_counter s' = s_counter s /\
  s_hist s' = s_hist s /\ s_pv s' = s_pv s /\ s_out s' = s_out s /\
  (r = RCancel \/ r = ROutOfFuel).
Proof. exact (no_write_after_cancel_q go_keys go_econsts go_oconsts go_sconsts). Qed.
Print Assumptions C05_no_write_after_cancel_quiescence.

(* every frame returns the error: a call during which a poll reported done never returns a value *)
Theorem C05_cancel_propagates : forall f s p alpha beta depth ply cn pm rh r s',
  go_negamax f s p alpha beta depth ply cn pm rh = (r, s') ->
  fired s' -> r = RCancel \/ r = RPanic \/ r = ROutOfFuel.
Proof. exact (cancel_propagates go_keys go_econsts go_oconsts go_sconsts). Qed.
Print Assumptions C05_cancel_propagates.

Theorem C05_cancel_propagates_quiescence : forall f s p alpha beta ply r s',
  go_quiescence f s p alpha beta ply = (r, s') ->
  fired s' -> r = RCancel \/ r = RPanic \/ r = ROutOfFuel.
Proof. exact (cancel_propagates_q go_keys go_econsts go_oconsts go_sconsts). Qed.
Print Assumptions C05_cancel_propagates_quiescence.

(* why [fired s'] and not [cancelled s']: a value can be returned with the oracle due at the NEXT poll *)
Theorem C05_value_returned_with_oracle_due : cx2_run = Some (ROk (-32767, []), 1%N, Some 1%N).
Proof. exact value_returned_with_oracle_due. Qed.
Print Assumptions C05_value_returned_with_oracle_due.

(* and the error is returned only then *)
Theorem C05_error_only_if_fired : forall f s p alpha beta depth ply cn pm rh s',
  go_negamax f s p alpha beta depth ply cn pm rh = (RCancel, s') -> fired s'.
Proof. exact (rcancel_only_if_fired go_keys go_econsts go_oconsts go_sconsts). Qed.
Print Assumptions C05_error_only_if_fired.

Theorem C05_polls_monotone : forall f s p alpha beta depth ply cn pm rh r s',
  go_negamax f s p alpha beta depth ply cn pm rh = (r, s') ->
  (s_polls s <= s_polls s')%N /\ s_cancel s' = s_cancel s.
Proof. exact (polls_monotone go_keys go_econsts go_oconsts go_sconsts). Qed.
Print Assumptions C05_polls_monotone.

Theorem C05_once_cancelled_always : forall f s p alpha beta depth ply cn pm rh r s',
  go_negamax f s p alpha beta depth ply cn pm rh = (r, s') -> cancelled s -> cancelled s'.
Proof. exact (once_cancelled_always go_keys go_econsts go_oconsts go_sconsts). Qed.
Print Assumptions C05_once_cancelled_always.

(* the deferred popHistory: whatever a call returns (value, error, panic, out of fuel), the
   repetition stack is back to what it was; negamax never touches s.PV or the output *)
Theorem C05_history_balanced : forall f s p alpha beta depth ply cn pm rh r s',
  go_negamax f s p alpha beta depth ply cn pm rh = (r, s') ->
  s_hist s' = s_hist s /\ s_pv s' = s_pv s /\ s_out s' = s_out s.
Proof. exact (history_balanced go_keys go_econsts go_oconsts go_sconsts). Qed.
Print Assumptions C05_history_balanced.

(* (b) output is only appended, and no info line reports a depth above the requested one
   (the fallback reports depth 1) *)
Theorem C05_depth_respected : forall iters fuel rep s root req r s',
  (req < 255)%N ->
  go_search iters fuel rep s root req = (r, s') ->
  exists new, s_out s' = new ++ s_out s /\
    forall d sc n h pv, In (EInfo d sc n h pv) new ->
      (1 <= d <= N.max 1 (req_to_depth go_sconsts req))%N.
Proof.
  exact (fun iters fuel rep s root req r s' H =>
           depth_respected go_keys go_econsts go_oconsts go_sconsts go_inf_ok iters fuel rep s root req r s'
                           (go_req_depth req H)).
Qed.
Print Assumptions C05_depth_respected.

(* (c) with the D5 repair the loop runs out of iterations only if one of its root searches ran out
   of recursion fuel *)
Theorem C05_id_loop_bound : forall fuel root md iters s d a b s',
  (md < 255)%N -> (d <= md + 1)%N ->
  (2 * (N.to_nat md + 1 - N.to_nat d) + 2 <= iters)%nat ->
  go_search_iterative iters fuel true s root md d a b = (ROutOfFuel, s') ->
  exists s1 d1 a1 b1, (d <= d1 <= md)%N /\ go_search_root fuel s1 root d1 a1 b1 = (ROutOfFuel, s').
Proof. exact (id_loop_bound go_keys go_econsts go_oconsts go_sconsts). Qed.
Print Assumptions C05_id_loop_bound.

(* the unchanged loop (D5): at the fool's-mate position it spins; repaired, it returns *)
Theorem C05_unrepaired_refuted :
  iter_result fools_mate_fen 50 400 false 3 = Some ROutOfFuel /\
  iter_result fools_mate_fen 50 400 true 3 = Some (ROk tt).
Proof. exact unrepaired_loop_spins. Qed.
Print Assumptions C05_unrepaired_refuted.

(* (d) exactly the one fallback loop runs iff the first loop returned with no move known; it runs
   with the oracle off, cannot be cancelled, and prints an info line if it returns *)
Theorem C05_fallback_only_if_nothing : forall iters fuel rep s root req r s',
  go_search iters fuel rep s root req = (r, s') ->
  exists r1 s1,
    go_search_iterative iters fuel rep s root (req_to_depth go_sconsts req) 1
                        (- INF go_econsts) (INF go_econsts) = (r1, s1) /\
    ( (r1 = ROk tt /\ best_move s1 <> NULL_MOVE /\ r = ROk (best_move s1) /\ s' = s1)
      \/
      (r1 = ROk tt /\ best_move s1 = NULL_MOVE /\
       exists r2 s2 new2,
         go_search_iterative iters fuel rep (set_cancel s1 None) root 1 1
                             (- INF go_econsts) (INF go_econsts) = (r2, s2) /\
         s_cancel s2 = None /\ s_out s2 = new2 ++ s_out s1 /\
         match r2 with
         | ROk _ => r = ROk (best_move s2) /\ s' = set_polls s2 (s_polls s1) /\ has_info new2 = true
         | RCancel => False
         | RPanic => r = RPanic /\ s' = s2
         | ROutOfFuel => r = ROutOfFuel /\ s' = s2
         end)
      \/
      ((r1 = RPanic /\ r = RPanic \/ r1 = ROutOfFuel /\ r = ROutOfFuel) /\ s' = s1) ).
Proof. exact (fallback_only_if_nothing go_keys go_econsts go_oconsts go_sconsts go_inf_ok). Qed.
Print Assumptions C05_fallback_only_if_nothing.

Theorem C05_uncancellable_without_oracle : forall fuel s root d a b s',
  s_cancel s = None -> go_search_root fuel s root d a b <> (RCancel, s').
Proof. exact (root_not_cancel go_keys go_econsts go_oconsts go_sconsts). Qed.
Print Assumptions C05_uncancellable_without_oracle.

(* (e) TERMINATION.  The recursion of the model is on explicit fuel (= recursion depth) and the loop of
   SearchIterative on an explicit bound; [ROutOfFuel] is the only result that has no counterpart in the
   Go code.  It never occurs: for EVERY state, root, window and requested depth < 255 a loop bound of 510
   and a recursion bound of 1282 suffice, and then the result (value and final state) is the same for all
   larger bounds - Search is a total function.  The unconditional bound rests on the repetition stack:
   every node that is not handed to quiescence pushes one entry and the push fails when the 1024-entry stack
   is full, so an unbounded chain of check extensions ends in a panic, not in divergence
   (C05_full_stack_panics shows the panic; it needs a game of more than a thousand plies). *)
Theorem C05_quiescence_terminates : forall f s p alpha beta ply,
  (257 <= f)%nat -> fst (go_quiescence f s p alpha beta ply) <> ROutOfFuel.
Proof. exact go_quiescence_terminates. Qed.
Print Assumptions C05_quiescence_terminates.

(* ... and by material: every recursive call of quiescence follows a capture *)
Theorem C05_quiescence_terminates_by_material : forall f s p alpha beta ply,
  Inv p -> (Nat.min (men p) 256 < f)%nat -> fst (go_quiescence f s p alpha beta ply) <> ROutOfFuel.
Proof. exact go_quiescence_terminates_men. Qed.
Print Assumptions C05_quiescence_terminates_by_material.

Theorem C05_negamax_terminates : forall f s p alpha beta depth ply cn pm rh,
  (1024 - List.length (s_hist s) + 258 <= f)%nat ->
  fst (go_negamax f s p alpha beta depth ply cn pm rh) <> ROutOfFuel.
Proof. exact go_negamax_terminates_room. Qed.
Print Assumptions C05_negamax_terminates.

Theorem C05_search_terminates : forall iters f s root req,
  (req < 255)%N -> (510 <= iters)%nat -> (1282 <= f)%nat ->
  fst (go_search iters f true s root req) <> ROutOfFuel.
Proof. exact go_search_terminates. Qed.
Print Assumptions C05_search_terminates.

(* Search as a total function of (state, root, requested depth) *)
Theorem C05_search_total : forall s root req, (req < 255)%N ->
  exists r s', r <> ROutOfFuel /\
    forall iters f, (510 <= iters)%nat -> (1282 <= f)%nat -> go_search iters f true s root req = (r, s').
Proof. exact go_search_total. Qed.
Print Assumptions C05_search_total.

Theorem C05_root_search_total : forall s root depth alpha beta,
  exists r s', r <> ROutOfFuel /\
    forall f, (1282 <= f)%nat -> go_search_root f s root depth alpha beta = (r, s').
Proof. exact go_search_root_total. Qed.
Print Assumptions C05_root_search_total.

(* fuel is irrelevant once it suffices: a run that does not report ROutOfFuel is reproduced by every larger bound *)
Theorem C05_fuel_irrelevant : forall it0 iters f0 f rep s root req r s',
  go_search it0 f0 rep s root req = (r, s') -> r <> ROutOfFuel -> (it0 <= iters)%nat -> (f0 <= f)%nat ->
  go_search iters f rep s root req = (r, s').
Proof. exact (search_fuel_irrelevant go_keys go_econsts go_oconsts go_sconsts). Qed.
Print Assumptions C05_fuel_irrelevant.

(* the bound that does not lean on the repetition stack: under a budget [cb] on positions that strictly decreases
   with every move made out of check and never increases (= bounded chains of consecutive checks), the recursion
   depth is at most  requested depth + cb root + 258  *)
Theorem C05_search_ranked : forall (U : position -> Prop) (cb : position -> nat),
  (forall p m q, U p -> movable p m -> make_move go_keys p m = Ok q -> is_legal q = Ok true ->
     U q /\ (cb q <= cb p)%nat /\ (is_in_check p (side p) = Ok true -> (cb q < cb p)%nat)) ->
  (forall p q x, U p -> is_in_check p (side p) = Ok false -> make_null_move go_keys p = Ok (q, x) ->
     U q /\ (cb q <= cb p)%nat) ->
  forall iters f s root req,
  U root -> (req < 255)%N -> (510 <= iters)%nat ->
  (N.to_nat (N.max 1 (req_to_depth go_sconsts req)) + cb root + 258 <= f)%nat ->
  fst (go_search iters f true s root req) <> ROutOfFuel.
Proof. exact go_search_ranked. Qed.
Print Assumptions C05_search_ranked.

(* a non-degenerate universe that meets the ranking hypotheses: all positions with the two kings only *)
Theorem C05_search_kings_only : forall iters f s root req,
  kings_only_pos root -> (req < 255)%N -> (510 <= iters)%nat ->
  (N.to_nat (N.max 1 (req_to_depth go_sconsts req)) + 258 <= f)%nat ->
  fst (go_search iters f true s root req) <> ROutOfFuel.
Proof. exact go_search_kings_only. Qed.
Print Assumptions C05_search_kings_only.

(* "every go ends with exactly one answer": termination composed with crash-freedom (C05NoPanic/*.v: on a legal root no
   call of the search panics while the repetition stack has room).  For every legal root of a universe with bounded check
   chains, every state of the shared tables and heuristics, every cancellation point and every requested depth, Search
   returns a move (never the cancellation error, a panic or the fuel escape) provided the 1024-entry repetition stack has
   room for  requested depth + check budget + 1  more entries. *)
Theorem C05_search_answers : forall (U : position -> Prop) (cb : position -> nat),
  (forall p m q, U p -> movable p m -> make_move go_keys p m = Ok q -> is_legal q = Ok true ->
     U q /\ (cb q <= cb p)%nat /\ (is_in_check p (side p) = Ok true -> (cb q < cb p)%nat)) ->
  (forall p q x, U p -> is_in_check p (side p) = Ok false -> make_null_move go_keys p = Ok (q, x) ->
     U q /\ (cb q <= cb p)%nat) ->
  forall iters f s root req,
  legal_pos root -> U root -> (req < 255)%N -> (510 <= iters)%nat ->
  (N.to_nat (N.max 1 (req_to_depth go_sconsts req)) + cb root + 258 <= f)%nat ->
  (List.length (s_hist s) + N.to_nat (N.max 1 (req_to_depth go_sconsts req)) + cb root + 1 <= 1024)%nat ->
  exists m s', go_search iters f true s root req = (ROk m, s').
Proof. exact go_search_answers_ranked. Qed.
Print Assumptions C05_search_answers.

Theorem C05_search_never_reports_cancel : forall iters f rep s root req,
  fst (go_search iters f rep s root req) <> RCancel.
Proof. exact (search_not_cancel go_keys go_econsts go_oconsts go_sconsts). Qed.
Print Assumptions C05_search_never_reports_cancel.

Theorem C05_quiescence_no_panic : forall f s p alpha beta ply,
  legal_pos p -> fst (go_quiescence f s p alpha beta ply) <> RPanic.
Proof. exact NoPanicQ.go_quiescence_no_panic. Qed.
Print Assumptions C05_quiescence_no_panic.

(* the hypotheses of C05_search_answers are met: kings only, depth 3, any state with at most 1020 stack entries *)
Example C05_search_answers_example : forall s f, (List.length (s_hist s) <= 1020)%nat -> (261 <= f)%nat ->
  exists m s', go_search 510 f true s (root_of kk_fen) 3 = (ROk m, s').
Proof. exact kk_answers_any_fuel. Qed.

(* what "terminates" means at the edge: with 1023 entries on the repetition stack a depth-2 search panics
   (Go: index out of range [1024] in pkg/search/history.go) - outside the 600-ply games of C03 *)
Example C05_full_stack_panics :
  match go_new_position with
  | Ok root => fst (go_search 510 1282 true (go_init_sst go_tt_init [] (repeat 1%N 1023) None) root 2)
  | _ => ROutOfFuel
  end = RPanic.
Proof. exact go_full_stack_panics. Qed.

(* check extensions at work: a position with 14 consecutive mutual checks; recursion bound 12 is too small at depth 1 *)
Example C05_check_chain :
  chain14_run 12 = ROutOfFuel /\ chain14_run 16 = ROk 982%N /\ chain14_run 40 = ROk 982%N.
Proof. exact chain14_depth1. Qed.

(* Non-vacuity: a depth-2 search of the start position from a freshly started engine whose
   oracle fires at poll 3: the first loop is cut short (4 polls of the caller's context in all,
   2 nodes counted there), nothing was adopted, the fallback ran (22 more nodes), printed its
   depth-1 line and the answer is its move. *)
Example C05_hyps_met :
  match go_new_position with
  | Ok root =>
      let '(r, s) := go_search 50 400 true (go_empty_sst (Some 3%N)) root 2 in
      (r, s_nodes s, s_polls s, s_out s)
  | _ => (RPanic, 0%N, 0%N, [])
  end = (ROk 1153%N, 24%N, 4%N, [EInfo 1 50 24 0 [1153%N]]).
Proof. vm_compute. reflexivity. Qed.

(* ======================= "noticed at the very next node, wherever it lands": whole-call form (C05Prompt/*.v) =======================
   The theorems at the top of this file are about the NODE entered after the stop.  These are about a whole call - any state,
   position, window, depth, fuel - during which the oracle fires at poll k ([s_cancel s = Some k], not yet fired). *)
From Clemens.C05Prompt Require PromptBase PromptGo PromptSyncGo PromptAdjacentGo.

(* (1) the poll that reports done is the LAST poll of the call: every frame above it returns the error without polling again *)
Theorem C05_one_firing_poll : forall f s p alpha beta depth ply cn pm rh r s' k,
  s_cancel s = Some k -> ~ fired s ->
  go_negamax f s p alpha beta depth ply cn pm rh = (r, s') ->
  (s_polls s' <= k + 1)%N /\ (r = RCancel -> s_polls s' = (k + 1)%N) /\ (r <> RCancel -> (s_polls s' <= k)%N).
Proof. exact PromptGo.go_negamax_one_firing_poll. Qed.
Print Assumptions C05_one_firing_poll.

(* (2) every counted node was preceded by a poll of its own ([addw a n]: the uint64 counter a after n increments, n unwrapped) *)
Theorem C05_every_node_polls : forall f s p alpha beta depth ply cn pm rh r s',
  go_negamax f s p alpha beta depth ply cn pm rh = (r, s') ->
  exists n, s_nodes s' = PromptBase.addw (s_nodes s) n /\
    (n <= s_polls s' - s_polls s)%N /\ (r = RCancel -> (n + 1 <= s_polls s' - s_polls s)%N).
Proof. exact PromptGo.go_negamax_every_node_polls. Qed.
Print Assumptions C05_every_node_polls.

(* (3) hence no node after the stop: a call cancelled at poll k has counted at most one node per poll BEFORE the firing one *)
Theorem C05_no_node_after_stop : forall f s p alpha beta depth ply cn pm rh s' k,
  s_cancel s = Some k -> ~ fired s ->
  go_negamax f s p alpha beta depth ply cn pm rh = (RCancel, s') ->
  s_polls s' = (k + 1)%N /\
  exists n, s_nodes s' = PromptBase.addw (s_nodes s) n /\ (n <= k - s_polls s)%N.
Proof. exact PromptGo.go_negamax_no_node_after_stop. Qed.
Print Assumptions C05_no_node_after_stop.

(* the same stop one poll later costs at most one more node *)
Theorem C05_stop_one_poll_later : forall f s p alpha beta depth ply cn pm rh k sx r2 sy,
  s_cancel s = Some k ->
  go_negamax f s p alpha beta depth ply cn pm rh = (RCancel, sx) ->
  go_negamax f (set_cancel s (Some (k + 1)%N)) p alpha beta depth ply cn pm rh = (r2, sy) ->
  (s_nodes sy = s_nodes sx \/ s_nodes sy = w64 (s_nodes sx + 1)) /\
  (r2 <> RCancel -> s_polls sy = (k + 1)%N).
Proof. exact PromptAdjacentGo.go_negamax_stop_one_poll_later. Qed.
Print Assumptions C05_stop_one_poll_later.

(* (4) the stop lands in ONE fixed search tree: a run that is not cancelled is the same run under every later (or no) stop *)
Theorem C05_prefix_deterministic : forall f s p alpha beta depth ply cn pm rh k c2 r s',
  s_cancel s = Some k -> PromptSyncGo.later k c2 ->
  go_negamax f s p alpha beta depth ply cn pm rh = (r, s') -> r <> RCancel ->
  go_negamax f (set_cancel s c2) p alpha beta depth ply cn pm rh = (r, set_cancel s' c2).
Proof. exact PromptSyncGo.go_negamax_prefix_deterministic. Qed.
Print Assumptions C05_prefix_deterministic.

(* Search as a whole: the first loop makes no poll after the firing one, and an answering Search has polled at most k+1 times;
   afterwards exactly the one fallback loop of C05_fallback_only_if_nothing runs (see PromptGo.go_search_stop for the full split) *)
Theorem C05_search_polls : forall iters fuel rep s root req m s' k,
  s_cancel s = Some k -> ~ fired s ->
  go_search iters fuel rep s root req = (ROk m, s') ->
  (s_polls s <= s_polls s' <= k + 1)%N.
Proof. exact PromptGo.go_search_polls. Qed.
Print Assumptions C05_search_polls.

(* the node counter is a uint64 that wraps: read over Z without a no-wrap hypothesis "nodes <= polls" is false (witness) *)
Theorem C05_nodes_monotone_refuted :
  exists s root r s', go_search_root 50 s root 2 (- INF go_econsts) (INF go_econsts) = (r, s') /\
    (s_nodes s' < s_nodes s)%N /\
    ~ (Z.of_N (s_nodes s') - Z.of_N (s_nodes s) >= 0).
Proof. exact PromptGo.go_nodes_monotone_refuted. Qed.
Print Assumptions C05_nodes_monotone_refuted.
