(* C01 - legal move generation matches the rules of chess exactly.
   This file contains only the property theorems, each closed by [exact] of a lemma proved in
   C01Gen/*.v (the pseudo-legal generator), C01Att/*.v (attacks, check, the legality filter, perft) -
   which use C02Refine (the successor) and C10Inv (the invariant) - with its assumptions printed.
   The reference is the independent specification Rules/Fide.v (mailbox and coordinates; no bitboards, no
   tables): [Fide.legal_moves s] = the candidates (every from/to pair, with and without each promotion
   piece) that are [legal]; [abs], [decode] (Rules/Abs.v) read a position / a move word as the specification's
   board state / move. [Inv] is the C10 invariant = "legal position" of the property's quantifier. *)
From Coq Require Import NArith ZArith List Bool Permutation.
From Clemens Require Import Base.Res Base.Word Pos.Types Pos.Position Pos.Inv Pos.ZobristProofs Pos.ZobristInst
  Att.AttackersProofs Rules.Abs.
From Clemens.C01Gen Require GenExact GenPerm Examples.
From Clemens.C01Att Require Import AttRefines FideFacts Filter Combine Final.
From Clemens.C01Att Require Examples Examples2.
From Clemens Require Import Rules.Fide.
Import ListNotations.
Open Scope N_scope.

(* ---- the main statement: no move missing, duplicated or extra ---- *)
Theorem C01_movegen : forall K p ls, Inv p -> Position.legal_moves K p = Ok ls ->
  Permutation (map decode ls) (Fide.legal_moves (abs p)).
Proof. exact C01_movegen_closed. Qed.
Print Assumptions C01_movegen.

(* ... and the engine's computation of that list never fails (well-formed key table) *)
Theorem C01_movegen_total : forall K p, keys_wf K = true -> Inv p ->
  exists ls, Position.legal_moves K p = Ok ls /\ Permutation (map decode ls) (Fide.legal_moves (abs p)).
Proof. exact C01_movegen_total. Qed.
Print Assumptions C01_movegen_total.

(* the specification's list has no duplicates and is exactly the legal candidates *)
Theorem C01_spec_list : forall s,
  NoDup (Fide.legal_moves s) /\ (forall m, In m (Fide.legal_moves s) <-> legal s m = true) /\
  legal_moves_fast s = Fide.legal_moves s.
Proof. exact (fun s => conj (NoDup_legal_moves s) (conj (legal_moves_iff s) (legal_moves_fast_eq s))). Qed.
Print Assumptions C01_spec_list.

(* ---- the pseudo-legal generator is exact (castling with rights / empty path / not out of, through or into
        check; en passant; double pushes; all four promotions and only on the last rank) ---- *)
Theorem C01_gen_moves_exact : forall p ms, Inv p -> gen_moves p = Ok ms ->
  (forall fm, pseudo_legal (abs p) fm = true <-> In fm (map decode ms)) /\ NoDup (map decode ms).
Proof. exact GenExact.gen_moves_exact. Qed.
Print Assumptions C01_gen_moves_exact.

Theorem C01_gen_moves_nodup_injective : forall p ms, Inv p -> gen_moves p = Ok ms ->
  NoDup ms /\ forall m1 m2, In m1 ms -> In m2 ms -> decode m1 = decode m2 -> m1 = m2.
Proof. exact (fun p ms HI G => conj (GenExact.gen_moves_NoDup p ms HI G) (GenExact.decode_injective_on_generated p ms HI G)). Qed.
Print Assumptions C01_gen_moves_nodup_injective.

(* ---- attacks and check are those of the rules ---- *)
Theorem C01_attacked_by_refines : forall p c t, board_wf p = true -> c < 2 -> t < 64 ->
  attacked_by (abs p) (abs_color c) (abs_sq t) = attacked_by_color p c t.
Proof. exact attacked_by_refines. Qed.
Print Assumptions C01_attacked_by_refines.

Theorem C01_in_check_refines : forall p c, Inv p -> c < 2 ->
  is_in_check p c = Ok (in_check (abs p) (abs_color c)).
Proof. exact in_check_refines_inv. Qed.
Print Assumptions C01_in_check_refines.

(* ---- the legality filter "make on a copy, then IsLegal" is "does not leave the mover's king attacked",
        also for en passant captures that expose the king ---- *)
Theorem C01_legality_filter : forall K p ms m q,
  Inv p -> gen_moves p = Ok ms -> In m ms -> make_move K p m = Ok q ->
  is_legal q = Ok (negb (in_check (apply (abs p) (decode m)) (b_turn (abs p)))).
Proof. exact legality_filter_closed. Qed.
Print Assumptions C01_legality_filter.

(* ---- consequently the perft count of cmd/perft (generate, make on a copy, recurse if IsLegal) is the true count,
        for every depth ---- *)
Theorem C01_perft : forall K d p, keys_wf K = true -> Inv p ->
  perft_engine K d p = Ok (perft d (abs p)).
Proof. exact C01_perft_closed. Qed.
Print Assumptions C01_perft.

Theorem C01_generated_keys_wf : keys_wf go_keys = true.
Proof. exact go_keys_wf. Qed.
Print Assumptions C01_generated_keys_wf.

(* ---- non-vacuity and sanity, evaluated by the kernel: a pinned bishop (its moves are pseudo-legal, not
        legal, and both sides say so); castling through an attacked square; the start position ---- *)
Example C01_hyps_met :
  (Inv Examples.pin_pos /\
   Examples.same_moves (Examples.engine_moves Examples.pin_pos) (Fide.legal_moves (abs Examples.pin_pos)) = true /\
   List.length (Examples.engine_moves Examples.pin_pos) = 4%nat /\
   pseudo_legal (abs Examples.pin_pos) {| m_from := abs_sq 12; m_to := abs_sq 19; m_promo := None |} = true /\
   legal (abs Examples.pin_pos) {| m_from := abs_sq 12; m_to := abs_sq 19; m_promo := None |} = false) /\
  (perft_engine go_keys 2 hm_p0 = Ok 400%Z /\ perft 1 (abs hm_p0) = 20%Z).
Proof.
  split.
  - destruct Examples.pin_inv as [HI _]. destruct Examples.pin_moves as (A & B & _ & C & D). repeat split; assumption.
  - exact Examples2.start_perft.
Qed.
Print Assumptions C01_hyps_met.

(* The move list of the Go code is a fixed-capacity buffer (pkg/move: [moveListSize]Move, uint8 size): the 256th Append would be an
   index panic, which the model's unbounded lists do not represent.  Decided by the kernel for the constant of the build: the capacity
   covers 218 - the largest number of moves of a legal chess position (known result, not proved here) - and fits the uint8 counter; the
   two known 218-move positions are legal positions with exactly 218 generated moves and fit. *)
From Clemens.C13Mate Require MateDefs MateExamples.
From Clemens.C13Bridge Require Bridge Few.
From Clemens Require Pos.MoveListInst.
Theorem C01_movelist_capacity :
  (218 <= GoConsts.ml_moveListSize)%N /\ (GoConsts.ml_moveListSize < 256)%N /\
  (Bridge.legal_pos (MateExamples.root_of Few.fen218a) /\ Few.gen_count (MateExamples.root_of Few.fen218a) = Some 218%nat /\
   MoveListInst.fits_movelist (MateExamples.root_of Few.fen218a)) /\
  (Bridge.legal_pos (MateExamples.root_of Few.fen218b) /\ Few.gen_count (MateExamples.root_of Few.fen218b) = Some 218%nat /\
   MoveListInst.fits_movelist (MateExamples.root_of Few.fen218b)).
Proof.
  exact (conj (proj1 MoveListInst.movelist_capacity_ok) (conj (proj2 MoveListInst.movelist_capacity_ok) MoveListInst.record_positions_fit)).
Qed.
Print Assumptions C01_movelist_capacity.
