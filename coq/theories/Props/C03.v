(* C03 - the UCI position command reconstructs the game state exactly; printed moves parse back.
   This file contains only the property theorems, each closed by [exact] of a lemma proved in
   C03Text/*.v and C03Recon/*.v (which use C01, C02 and C10), with its assumptions printed.
   Byte-level models: [move_to_string] = Move.String, [move_from_string] / [make_move_from_string] =
   Position.MakeMoveFromString, [play] / [new_position_cmd] = the body of game.NewPosition with the
   repetition stack; the digit table [tbl] (unicode.IsDigit) is arbitrary: nothing is needed of it. *)
From Coq Require Import NArith ZArith List Bool String.
From Clemens Require Import Base.Res Base.Word Base.Bytes Pos.Types Pos.Position Pos.Fen Pos.Inv Pos.ZobristProofs
  Pos.ZobristInst Uci.Game.
From Clemens.C03Text Require Import SquareText GenClass MoveText GameReplay TextExamples.
From Clemens.C10Inv Require InvReach.
From Clemens Require Import Rules.Abs.
From Clemens.C02Refine Require Import MakeRefines.
From Clemens.C03Recon Require Import FideText MoveSound Recon ReconExamples.
From Clemens Require Import Rules.Fide.
From ClemensGen Require Import GoConsts.
Import ListNotations.
Open Scope string_scope.
Open Scope N_scope.

(* ---- every move the engine prints is accepted back with the same meaning ---- *)
(* Move.String never fails; its text is source square, target square and the promotion letter *)
Theorem C03_move_prints : forall m, move_to_string m = Ok (uci_text (mv_src m) (mv_dst m) (uci_promo m)).
Proof. exact move_to_string_text. Qed.
Print Assumptions C03_move_prints.

(* for every generated move of every position satisfying the invariant the parser rebuilds the SAME 32-bit word:
   the kind inferred from the text and the board (castling = king moving two files, en passant = pawn changing
   file onto an empty square, promotion = fifth character) is the generated kind *)
Theorem C03_move_text_roundtrip : forall tbl p ms m s,
  Inv p -> gen_moves p = Ok ms -> In m ms -> move_to_string m = Ok s -> move_from_string tbl p s = Ok m.
Proof. exact move_text_roundtrip. Qed.
Print Assumptions C03_move_text_roundtrip.

Theorem C03_printed_move_makes_the_same_move : forall K tbl p ls m s,
  Inv p -> Position.legal_moves K p = Ok ls -> In m ls -> move_to_string m = Ok s ->
  move_from_string tbl p s = Ok m /\ make_move_from_string K tbl p s = make_move K p m.
Proof. exact legal_move_text_roundtrip. Qed.
Print Assumptions C03_printed_move_makes_the_same_move.

Theorem C03_move_text_injective : forall p ms m1 m2 s,
  Inv p -> gen_moves p = Ok ms -> In m1 ms -> In m2 ms ->
  move_to_string m1 = Ok s -> move_to_string m2 = Ok s -> m1 = m2.
Proof. exact move_text_injective. Qed.
Print Assumptions C03_move_text_injective.

(* what the inference rests on, as facts about generated moves *)
Theorem C03_generated_kind_spec : forall p ms m,
  Inv p -> gen_moves p = Ok ms -> In m ms ->
  let s := mv_src m in let t := mv_dst m in
  (mv_kind m = CASTLING <-> is_own p s KING /\ abs_diff s t = 2) /\
  (mv_kind m = CASTLING -> s = king_home (side p) /\ rank_of t = rank_of s /\ abs_diff (file_of s) (file_of t) = 2) /\
  (mv_kind m = EN_PASSANT <-> is_own p s PAWN /\ file_of s <> file_of t /\ piece_at p t = NO_PIECE) /\
  (mv_kind m = EN_PASSANT -> t = ep p) /\
  (mv_kind m = PROMOTION <-> is_own p s PAWN /\ rank_of t = promo_rank (side p)) /\
  (mv_kind m = PROMOTION -> exists c, uci_suffix (uci_promo m) = [c] /\ In c [110; 98; 114; 113] /\
                                      piece_type_from_char c = Ok (mv_promo m)) /\
  (mv_kind m <> PROMOTION -> uci_suffix (uci_promo m) = []).
Proof. exact generated_kind_spec. Qed.
Print Assumptions C03_generated_kind_spec.

(* ---- the position command replays the game ---- *)
(* [game_line K p ms qs]: ms are played from p, each in the legal-move list of the position it is played from;
   qs are the successive positions. [printed ms toks]: toks are the texts Move.String gives for ms. *)
Theorem C03_play_replays : forall K tbl hist_size p ms qs hist toks,
  Inv p -> game_line K p ms qs -> printed ms toks ->
  N.of_nat (List.length hist) + N.of_nat (List.length ms) <= hist_size ->
  play K tbl hist_size p hist toks = NPSet {| g_pos := last qs p; g_hist := hist ++ map hash qs |}.
Proof. exact (fun K tbl hs => play_replays K tbl hs (InvReach.inv_step_holds K)). Qed.
Print Assumptions C03_play_replays.

Theorem C03_position_startpos_replays : forall K tbl hist_size p0 ms qs toks,
  new_position K = Ok p0 -> game_line K p0 ms qs -> printed ms toks -> N.of_nat (List.length ms) <= hist_size ->
  new_position_cmd K tbl hist_size (w_startpos :: w_moves :: toks) =
    NPSet {| g_pos := last qs p0; g_hist := map hash qs |}.
Proof. exact (fun K tbl hs => position_startpos_replays K tbl hs (InvReach.inv_step_holds K)). Qed.
Print Assumptions C03_position_startpos_replays.

Theorem C03_position_fen_replays : forall K tbl hist_size six p0 ms qs toks,
  List.length six = 6%nat -> new_from_fen K tbl (join_sp six) = Ok p0 -> Inv p0 ->
  game_line K p0 ms qs -> printed ms toks -> N.of_nat (List.length ms) <= hist_size ->
  new_position_cmd K tbl hist_size (w_fen :: six ++ w_moves :: toks) =
    NPSet {| g_pos := last qs p0; g_hist := map hash qs |}.
Proof. exact (fun K tbl hs => position_fen_replays K tbl hs (InvReach.inv_step_holds K)). Qed.
Print Assumptions C03_position_fen_replays.

(* the bound is the size of the repetition stack (1024 in the Go build: the property's 600 plies fit), and it is
   sharp: one move more is an index panic *)
Theorem C03_play_overflows : forall K tbl hist_size p ms qs hist toks,
  Inv p -> game_line K p ms qs -> printed ms toks ->
  N.of_nat (List.length hist) <= hist_size -> hist_size < N.of_nat (List.length hist) + N.of_nat (List.length ms) ->
  play K tbl hist_size p hist toks = NPPanic.
Proof. exact (fun K tbl hs => play_overflows K tbl hs (InvReach.inv_step_holds K)). Qed.
Print Assumptions C03_play_overflows.

Theorem C03_history_holds_600 : 600 <= se_history_size.
Proof. exact history_holds_600. Qed.
Print Assumptions C03_history_holds_600.

(* non-vacuity, evaluated by the kernel with the keys of the Go build: `position startpos moves e2e4 e7e5 g1f3`;
   every legal move of a castling, an en-passant and a promotion position round-trips *)
Example C03_hyps_met :
  res_fen (go_position_cmd "startpos moves e2e4 e7e5 g1f3") =
    Ok (bytes_of_string "rnbqkbnr/pppp1ppp/8/4p3/4P3/5N2/PPPP1PPP/RNBQKB1R b KQkq - 1 2") /\
  (exists qs, game_line go_keys hm_p0 [e2e4; e7e5; g1f3] qs /\ printed [e2e4; e7e5; g1f3] (toks "e2e4 e7e5 g1f3")) /\
  (all_roundtrip (go_fen fen_castle) = true /\ has_kind (go_fen fen_castle) CASTLING = true) /\
  (all_roundtrip (go_fen fen_ep) = true /\ has_kind (go_fen fen_ep) EN_PASSANT = true) /\
  (all_roundtrip (go_fen fen_promo) = true /\ has_kind (go_fen fen_promo) PROMOTION = true).
Proof.
  exact (conj startpos_three_moves_board (conj startpos_three_moves_line
        (conj castle_all_roundtrip (conj ep_all_roundtrip promo_all_roundtrip)))).
Qed.
Print Assumptions C03_hyps_met.

(* ================= end to end, against the independent FIDE specification (Rules/Fide.v) ================= *)
(* [fide_text fm]: the UCI text of a specification move, from coordinates alone (file letter, rank digit, promotion
   letter); it is what Move.String prints for any move word that decodes to fm *)
Theorem C03_fide_text_is_printed_text : forall m, move_to_string m = Ok (fide_text (decode m)).
Proof. exact fide_text_decode. Qed.
Print Assumptions C03_fide_text_is_printed_text.

(* every FIDE-legal move, written the way a GUI writes it (castling as a king move of two files, en passant as a plain
   pawn move, promotion by a suffix - the specification's move carries no kind), is accepted and yields the FIDE successor *)
Theorem C03_uci_move_sound : forall K tbl p fm,
  keys_wf K = true -> Inv p -> In fm (Fide.legal_moves (abs p)) ->
  exists m q,
    move_from_string tbl p (fide_text fm) = Ok m /\ decode m = fm /\
    (exists ls, Position.legal_moves K p = Ok ls /\ In m ls) /\
    make_move_from_string K tbl p (fide_text fm) = Ok q /\ make_move K p m = Ok q /\ Inv q /\
    b_at (abs q) = b_at (apply (abs p) fm) /\ b_turn (abs q) = b_turn (apply (abs p) fm) /\
    b_rights (abs q) = b_rights (apply (abs p) fm) /\ b_ep (abs q) = b_ep (apply (abs p) fm) /\
    (hmc p < 255 -> ply p < 255 -> ply_parity p -> abs q = apply (abs p) fm).
Proof. exact uci_move_sound. Qed.
Print Assumptions C03_uci_move_sound.

(* New() is the FIDE initial position *)
Theorem C03_start_is_initial : forall K p0, new_position K = Ok p0 -> abs p0 = initial.
Proof. exact start_abs_initial. Qed.
Print Assumptions C03_start_is_initial.

(* [fide_game s fms s']: fms are played from s, each FIDE-legal where it is played; s' is the resulting state.
   `position startpos moves <texts>` gives exactly s' (up to 255 plies: all six components incl. the byte counters) *)
Theorem C03_position_startpos_reconstructs : forall K tbl hist_size, keys_wf K = true -> forall p0 fms s,
  new_position K = Ok p0 -> fide_game (abs p0) fms s ->
  (List.length fms <= 255)%nat -> N.of_nat (List.length fms) <= hist_size ->
  exists g, new_position_cmd K tbl hist_size (w_startpos :: w_moves :: map fide_text fms) = NPSet g /\
    abs (g_pos g) = s /\ Inv (g_pos g) /\ List.length (g_hist g) = List.length fms /\
    exists ms qs, game_line K p0 ms qs /\ map decode ms = fms /\
                  g_pos g = last qs p0 /\ g_hist g = map hash qs.
Proof. exact position_startpos_reconstructs. Qed.
Print Assumptions C03_position_startpos_reconstructs.

Theorem C03_position_fen_reconstructs : forall K tbl hist_size, keys_wf K = true -> forall six p0 fms s,
  List.length six = 6%nat -> new_from_fen K tbl (join_sp six) = Ok p0 -> Inv p0 ->
  fide_game (abs p0) fms s ->
  ply p0 + N.of_nat (List.length fms) <= 255 -> hmc p0 + N.of_nat (List.length fms) <= 255 ->
  N.of_nat (List.length fms) <= hist_size ->
  exists g, new_position_cmd K tbl hist_size (w_fen :: six ++ w_moves :: map fide_text fms) = NPSet g /\
    abs (g_pos g) = s /\ Inv (g_pos g) /\ List.length (g_hist g) = List.length fms /\
    exists ms qs, game_line K p0 ms qs /\ map decode ms = fms /\
                  g_pos g = last qs p0 /\ g_hist g = map hash qs.
Proof. exact position_fen_reconstructs. Qed.
Print Assumptions C03_position_fen_reconstructs.

(* games up to 600 plies with the Go build's constants: placement, side to move, castling rights and en-passant target
   are those of the FIDE game (the byte counters wrap beyond 255 plies, which is why they are not in this statement) *)
Theorem C03_go_600_plies : forall fms s,
  fide_game initial fms s -> (List.length fms <= 600)%nat ->
  exists g, new_position_cmd go_keys unicode_digit_tbl se_history_size
              (w_startpos :: w_moves :: map fide_text fms) = NPSet g /\
    b_at (abs (g_pos g)) = b_at s /\ b_turn (abs (g_pos g)) = b_turn s /\
    b_rights (abs (g_pos g)) = b_rights s /\ b_ep (abs (g_pos g)) = b_ep s /\
    Inv (g_pos g) /\ List.length (g_hist g) = List.length fms.
Proof. exact go_position_startpos_reconstructs_600. Qed.
Print Assumptions C03_go_600_plies.

(* ======================= at the level of the WHOLE engine (Uci/Engine.v, tied to the real handleInput by the SESSION runs) ====== *)
From Clemens Require Uci.Engine Uci.EngineInst Uci.Input Uci.Game Uci.GoLineSpec.
From Clemens.C13Bridge Require Bridge.
From Clemens.C01Att Require FideFacts.
From Clemens.EngineE2E Require EngBase EngDispatch EngSearch EngE2E EngText.
Import Clemens.Uci.Engine Clemens.Uci.EngineInst.

(* the input line `position startpos moves m1 .. mn` (unknown tokens in front allowed) of a FIDE-legal game, from ANY engine state
   that is not RUNNING, for any bounds and oracle: accepted silently, the engine's root is the FIDE position (exactly up to 255
   plies, up to the two byte counters beyond), it is a legal position, and the repetition stack holds n entries *)
Theorem C03_engine_position_startpos : forall e fms s line,
  en_state e <> ST_RUNNING -> fide_game initial fms s -> (List.length fms <= 1024)%nat ->
  EngDispatch.first_command line Input.w_position (EngE2E.startpos_tokens fms) ->
  exists g,
    (forall iters fuel c, go_handle iters fuel e line c = EOk (EngE2E.with_game e g) []) /\
    FideFacts.same_core (abs (Game.g_pos g)) s /\ ((List.length fms <= 255)%nat -> abs (Game.g_pos g) = s) /\
    Bridge.legal_pos (Game.g_pos g) /\ List.length (Game.g_hist g) = List.length fms.
Proof. exact EngE2E.position_startpos_sets. Qed.
Print Assumptions C03_engine_position_startpos.

Theorem C03_engine_position_fen : forall e six p0 fms s line,
  en_state e <> ST_RUNNING ->
  List.length six = 6%nat -> new_from_fen go_keys unicode_digit_tbl (Game.join_sp six) = Ok p0 -> Bridge.legal_pos p0 ->
  fide_game (abs p0) fms s -> (List.length fms <= 1024)%nat ->
  EngDispatch.first_command line Input.w_position (EngE2E.fen_tokens six fms) ->
  exists g,
    (forall iters fuel c, go_handle iters fuel e line c = EOk (EngE2E.with_game e g) []) /\
    FideFacts.same_core (abs (Game.g_pos g)) s /\
    ((ply p0 + N.of_nat (List.length fms) <= 255)%N -> (hmc p0 + N.of_nat (List.length fms) <= 255)%N ->
       abs (Game.g_pos g) = s) /\
    Bridge.legal_pos (Game.g_pos g) /\ List.length (Game.g_hist g) = List.length fms.
Proof. exact EngE2E.position_fen_sets. Qed.
Print Assumptions C03_engine_position_fen.

(* "every move the engine itself prints is accepted back with the same meaning", as a dialogue: the text of the bestmove line,
   appended to the moves of the next position command, is accepted and sets the FIDE successor position *)
Theorem C03_engine_bestmove_text : forall m,
  go_render (OBestMove m) = ([t_bestmove ++ fide_text (decode m)], true).
Proof. exact EngText.bestmove_text_fide. Qed.
Print Assumptions C03_engine_bestmove_text.

Theorem C03_engine_gui_dialogue : forall e' fms s m t,
  fide_game initial fms s -> EngSearch.answer_spec s m -> Fide.legal_moves s <> [] ->
  (List.length fms < 1024)%nat ->
  go_render (OBestMove m) = ([t_bestmove ++ t], true) ->
  en_state e' <> ST_RUNNING ->
  let line := GoLineSpec.join (Input.w_position :: Game.w_startpos :: Game.w_moves :: map fide_text fms ++ [t]) in
  exists g',
    (forall iters fuel c, go_handle iters fuel e' line c = EOk (EngE2E.with_game e' g') []) /\
    FideFacts.same_core (abs (Game.g_pos g')) (apply s (decode m)) /\
    ((List.length fms < 255)%nat -> abs (Game.g_pos g') = apply s (decode m)) /\
    Bridge.legal_pos (Game.g_pos g') /\ List.length (Game.g_hist g') = S (List.length fms).
Proof. exact EngText.gui_dialogue_startpos. Qed.
Print Assumptions C03_engine_gui_dialogue.
