(* C19 - move ordering only reorders.
   "Scoring and incrementally sorting a generated move list yields a permutation of exactly the
   generated moves (same squares, kinds and promotion pieces), visited in non-increasing score order;
   no move is dropped, repeated or changed by ordering, for any table move, PV move, killer and
   history state."
   Quantifier: all legal positions x all heuristic states left by earlier searches. Here: every
   position satisfying [Inv], every [hctx] (PV move, table move, two killers, ARBITRARY history and
   counter-move functions), and - where the statement is about lists only - every list.
   This file contains only the property theorems, each closed by [exact] of a lemma proved in
   Search/OrderingProofs.v (instances in Search/OrderingInst.v), with its assumptions printed.

   Reading aids: [mv_low m] = bits 0..15 of the move word = source, target, kind, promotion piece;
   [mv_score m] = bits 16..31; [score_ge a b] = [mv_score b <= mv_score a];
   [visit_order l] = the sequence of moves seen by `for i := range Length() { SortIndex(i); visit(Get(i)) }`;
   [sweep k l 0] = the same loop left after k iterations (beta cutoff);
   [unscored m] = [mv_score m = 0 /\ m < 2^16];
   [gen_oconsts] = the constants of the Go build (pvMoveScore ... MVV_LVA_SCORES). *)
From Coq Require Import NArith List Bool Permutation Sorted.
From Clemens Require Import Base.Res Base.Word Pos.Types Att.Attacks Pos.Position Pos.Inv.
From Clemens Require Import Search.Ordering Search.OrderingProofs Search.OrderingInst.
Import ListNotations.
Open Scope N_scope.

(* scoreMoves changes no source, target, kind or promotion piece - entry by entry, for every list,
   every constants record and every heuristic state *)
Theorem C19_score_preserves_low : forall C p h ms ms',
  score_moves C p h ms = Ok ms' -> map mv_low ms' = map mv_low ms /\ length ms' = length ms.
Proof. exact score_preserves_low_length. Qed.
Print Assumptions C19_score_preserves_low.

(* for a list with clear score bits (as the generators produce it, C19_generated_unscored): the scored
   list with its score bits stripped IS the generated list, and the score field of each entry holds
   [score_of] of that move modulo 2^16 *)
Theorem C19_score_preserves_moves : forall C p h ms ms',
  score_moves C p h ms = Ok ms' -> Forall unscored ms ->
  map mv_low ms' = ms /\
  Forall2 (fun m m' => exists s, score_of C p h m = Ok s /\ mv_score m' = s mod 65536) ms ms'.
Proof. exact score_preserves. Qed.
Print Assumptions C19_score_preserves_moves.

(* with 16-bit constants (true of the Go build: [gen_oconsts_ok]) and uint16 history values the
   stored score is the value of [score_of] itself *)
Theorem C19_score_preserves_exact : forall p h ms ms',
  hctx_ok h -> score_moves gen_oconsts p h ms = Ok ms' -> Forall unscored ms ->
  Forall2 (fun m m' => score_of gen_oconsts p h m = Ok (mv_score m')) ms ms'.
Proof. exact score_preserves_exact_go. Qed.
Print Assumptions C19_score_preserves_exact.

(* one SortIndex(i) call: a permutation that leaves the entries before i in place and puts an entry
   of maximal score among positions >= i at position i *)
Theorem C19_sort_index_step : forall l i, (i < length l)%nat ->
  Permutation (sort_index l i) l /\
  firstn i (sort_index l i) = firstn i l /\
  forall k x y, (i < k)%nat -> nth_error (sort_index l i) i = Some y -> nth_error (sort_index l i) k = Some x ->
    mv_score x <= mv_score y.
Proof. exact sort_index_step. Qed.
Print Assumptions C19_sort_index_step.

(* ... namely the FIRST entry of maximal score (strict `>` in SortIndex): the order is deterministic *)
Theorem C19_sort_index_first_max : forall l i, (i < length l)%nat ->
  exists j b, (i <= j)%nat /\ nth_error l j = Some b /\ nth_error (sort_index l i) i = Some b /\
    (forall k x, (i <= k)%nat -> nth_error l k = Some x -> mv_score x <= mv_score b) /\
    (forall k x, (i <= k < j)%nat -> nth_error l k = Some x -> mv_score x < mv_score b).
Proof. exact sort_index_first_max. Qed.
Print Assumptions C19_sort_index_first_max.

(* the loop visits a permutation of the list: nothing dropped, repeated or changed. EVERY list. *)
Theorem C19_visit_order_permutation : forall l, Permutation (visit_order l) l.
Proof. exact visit_order_perm. Qed.
Print Assumptions C19_visit_order_permutation.

(* ... in non-increasing score order: every move has a score >= every move visited later *)
Theorem C19_visit_order_sorted : forall l, StronglySorted score_ge (visit_order l).
Proof. exact visit_order_sorted. Qed.
Print Assumptions C19_visit_order_sorted.

(* the adjacent-pairs form of the same *)
Theorem C19_visit_order_sorted_adjacent : forall l, Sorted score_ge (visit_order l).
Proof. exact visit_order_sorted_adjacent. Qed.
Print Assumptions C19_visit_order_sorted_adjacent.

(* leaving the loop early: the k moves visited so far are the first k of the full visiting order,
   hence (with the moves not yet visited) a permutation of the list, non-increasing, and no move
   still to come scores more than a move already visited *)
Theorem C19_sweep_prefix : forall l k, (k <= length l)%nat ->
  sweep k l 0 = firstn k (visit_order l) /\
  length (sweep k l 0) = k /\
  Permutation (sweep k l 0 ++ skipn k (visit_order l)) l /\
  StronglySorted score_ge (sweep k l 0) /\
  forall x y, In x (sweep k l 0) -> In y (skipn k (visit_order l)) -> mv_score y <= mv_score x.
Proof. exact sweep_prefix_all. Qed.
Print Assumptions C19_sweep_prefix.

(* the move constructors of the generators leave the score bits clear, for all squares < 64 ... *)
Theorem C19_constructors_unscored : forall s t m, s < 64 -> t < 64 -> move_shape s t m ->
  m < 65536 /\ mv_score m = 0 /\ mv_src m = s /\ mv_dst m = t.
Proof. exact constructors_unscored. Qed.
Print Assumptions C19_constructors_unscored.

(* ... and so do both generators on every position satisfying the invariant *)
Theorem C19_generated_unscored : forall p ms,
  Inv p -> gen_moves p = Ok ms \/ gen_captures p = Ok ms -> Forall unscored ms.
Proof. exact generated_unscored. Qed.
Print Assumptions C19_generated_unscored.

(* no panic. [no_king_target p ms] := no move of ms has a king on its target square; it follows from
   Inv's clause "the side that just moved is not in check" and the exactness of the attack tables
   (C12), and is a NAMED HYPOTHESIS here (see Search/OrderingProofs.v, section D). Without it the
   statement is false for the model AND for the Go code: C19_king_target_panics. *)
Theorem C19_ordering_total : forall p h ms,
  Inv p -> gen_moves p = Ok ms \/ gen_captures p = Ok ms -> no_king_target p ms ->
  exists ms', score_moves gen_oconsts p h ms = Ok ms'.
Proof. exact ordering_total_go. Qed.
Print Assumptions C19_ordering_total.

Theorem C19_king_target_panics : forall p h m,
  Inv p -> m <> h_pv h -> m <> h_tt h -> mv_kind m <> EN_PASSANT ->
  piece_type (piece_at p (mv_dst m)) = KING -> score_of gen_oconsts p h m = Panic.
Proof. exact king_target_panics_go. Qed.
Print Assumptions C19_king_target_panics.

(* THE PROPERTY. For every position satisfying the invariant, either generator, every heuristic
   state: if scoreMoves returns (C19_ordering_total), then the scored list is the generated list
   entry by entry up to the score bits; the moves visited by the SortIndex loop, score bits stripped,
   are a permutation of exactly the generated moves, as many as were generated; they come in
   non-increasing score order; and each carries the score [score_of] gives it (mod 2^16). *)
Theorem C19_main : forall p h ms ms',
  Inv p -> gen_moves p = Ok ms \/ gen_captures p = Ok ms ->
  score_moves gen_oconsts p h ms = Ok ms' ->
  map mv_low ms' = ms /\
  Permutation (map mv_low (visit_order ms')) ms /\
  StronglySorted score_ge (visit_order ms') /\
  length (visit_order ms') = length ms /\
  Forall (fun v => exists s, score_of gen_oconsts p h (mv_low v) = Ok s /\ mv_score v = s mod 65536)
         (visit_order ms').
Proof. exact (ordering_main gen_oconsts). Qed.
Print Assumptions C19_main.

(* it does not depend on the values of the constants *)
Theorem C19_main_any_constants : forall C p h ms ms',
  Inv p -> gen_moves p = Ok ms \/ gen_captures p = Ok ms ->
  score_moves C p h ms = Ok ms' ->
  map mv_low ms' = ms /\
  Permutation (map mv_low (visit_order ms')) ms /\
  StronglySorted score_ge (visit_order ms') /\
  length (visit_order ms') = length ms /\
  Forall (fun v => exists s, score_of C p h (mv_low v) = Ok s /\ mv_score v = s mod 65536) (visit_order ms').
Proof. exact ordering_main. Qed.
Print Assumptions C19_main_any_constants.

(* with uint16 history values (what the Go arrays hold) the visited move's score is [score_of] itself *)
Theorem C19_main_scores_exact : forall p h ms ms',
  hctx_ok h -> Inv p -> gen_moves p = Ok ms \/ gen_captures p = Ok ms ->
  score_moves gen_oconsts p h ms = Ok ms' ->
  Forall (fun v => score_of gen_oconsts p h (mv_low v) = Ok (mv_score v)) (visit_order ms').
Proof. exact ordering_main_exact_go. Qed.
Print Assumptions C19_main_scores_exact.

(* Non-vacuity: all hypotheses are met together, on a position whose list has every kind of move the
   statement speaks about, with a heuristic state in which every source of a score occurs
   (Search/OrderingInst.v: PV move b1c3 -> 1000, table move g1f3 -> 900, capturing promotions 640/630,
   captures incl. en passant 610, push promotions 500, killers 100 and 99, history 37, counter-move
   bonus 10, and the uint16 wrap 65530 + 10 -> 4). Permutation and order are established here by
   boolean checkers evaluated with vm_compute, not by the theorems above; the loop really reorders
   (the visiting order differs from the scored list). Same for the capture list (12 captures). *)
Example C19_hyps_met :
  oconsts_ok gen_oconsts = true /\ hctx_ok c19_h /\ Inv c19_pos /\
  (exists ms ms', gen_moves c19_pos = Ok ms /\ no_king_target c19_pos ms /\ Forall unscored ms /\
     score_moves gen_oconsts c19_pos c19_h ms = Ok ms' /\ length ms = 42%nat /\
     map mv_low ms' = ms /\
     Permutation (map mv_low (visit_order ms')) ms /\
     StronglySorted score_ge (visit_order ms') /\
     map mv_score (visit_order ms') = c19_scores_all /\
     visit_order ms' <> ms' /\
     hd_error (visit_order ms') = Some (mv_set_score (h_pv c19_h) 1000)) /\
  (exists cs cs', gen_captures c19_pos = Ok cs /\ no_king_target c19_pos cs /\ Forall unscored cs /\
     score_moves gen_oconsts c19_pos c19_h cs = Ok cs' /\ length cs = 12%nat /\
     map mv_low cs' = cs /\
     Permutation (map mv_low (visit_order cs')) cs /\
     StronglySorted score_ge (visit_order cs') /\
     map mv_score (visit_order cs') = c19_scores_captures /\
     visit_order cs' <> cs').
Proof.
  split; [exact gen_oconsts_ok|]. split; [exact c19_h_ok|]. split; [vm_compute; reflexivity|]. split.
  - destruct (gen_moves c19_pos) as [ms| |] eqn:Em; [|vm_compute in Em; discriminate..].
    destruct (score_moves gen_oconsts c19_pos c19_h ms) as [ms'| |] eqn:Es;
      [|vm_compute in Em; injection Em as <-; vm_compute in Es; discriminate..].
    exists ms, ms'. vm_compute in Em. injection Em as <-. vm_compute in Es. injection Es as <-.
    split; [reflexivity|]. split; [apply no_king_target_b_sound; vm_compute; reflexivity|].
    split; [apply unscored_b_sound; vm_compute; reflexivity|].
    split; [reflexivity|]. split; [reflexivity|]. split; [vm_compute; reflexivity|].
    split; [apply perm_b_sound; vm_compute; reflexivity|].
    split; [apply sorted_b_sound; vm_compute; reflexivity|].
    split; [vm_compute; reflexivity|]. split; [vm_compute; discriminate|vm_compute; reflexivity].
  - destruct (gen_captures c19_pos) as [cs| |] eqn:Em; [|vm_compute in Em; discriminate..].
    destruct (score_moves gen_oconsts c19_pos c19_h cs) as [cs'| |] eqn:Es;
      [|vm_compute in Em; injection Em as <-; vm_compute in Es; discriminate..].
    exists cs, cs'. vm_compute in Em. injection Em as <-. vm_compute in Es. injection Es as <-.
    split; [reflexivity|]. split; [apply no_king_target_b_sound; vm_compute; reflexivity|].
    split; [apply unscored_b_sound; vm_compute; reflexivity|].
    split; [reflexivity|]. split; [reflexivity|]. split; [vm_compute; reflexivity|].
    split; [apply perm_b_sound; vm_compute; reflexivity|].
    split; [apply sorted_b_sound; vm_compute; reflexivity|].
    split; [vm_compute; reflexivity|]. vm_compute; discriminate.
Qed.
Print Assumptions C19_hyps_met.
