(* C11 - FEN round-trips exactly and the FEN parser never crashes.
   "For every legal position p, parsing the FEN text the engine prints for p yields a position equal
   to p in every field, and printing a parsed canonical FEN reproduces the text. For every input
   string whatsoever, FEN parsing returns either a position or an error - it never panics."
   This file contains only the property theorems, each closed by [exact] of a lemma proved in
   Pos/FenTotal.v, Pos/FenRoundtrip.v, Pos/FenInst.v, with its assumptions printed.

   Hypotheses of the round trip that are not clauses of [Inv] (Pos/Inv.v), stated explicitly:
   - [hash_scratch_ok K p]: the stored hash is the from-scratch hash (C09's hash_ok);
   - [ply_parity p]: ply is even iff white is to move.  FEN carries the full-move number, not the
     ply, so a position with the other parity cannot be reproduced by ANY parser.  Everything
     NewFromFen returns satisfies both extra hypotheses (C11_parsed_meets_hyps below) and a null
     move keeps the parity (FenRoundtrip.null_move_parity); MakeMove adds one to ply and flips the
     side as well (not proved here - it belongs with C10's preservation theorem).
   The counters are the engine's uint8 fields ([Inv] bounds hmc, ply < 256), which is the
   property's "full-move number up to 128, half-move clock up to 255". *)
From Coq Require Import NArith List.
From Clemens Require Import Base.Res Base.Bytes Pos.Position Pos.Fen Pos.Inv.
From Clemens Require Import Pos.FenTotal Pos.FenRoundtrip Pos.FenCanonical Pos.FenInst.
From ClemensGen Require Import GoConsts.
Import ListNotations.
Open Scope N_scope.

(* totality, for EVERY byte string, any well-formed key table, any digit range table *)
Theorem C11_fen_total_any : forall (K : zkeys), fen_keys_wf K = true ->
  forall (tbl : list (N * N * N)) (s : bytes), new_from_fen K tbl s <> Panic.
Proof. exact fen_total. Qed.
Print Assumptions C11_fen_total_any.

(* ... and for the Zobrist keys and unicode.Nd table of the current Go build *)
Theorem C11_fen_total : forall s : bytes, new_from_fen fen_go_keys unicode_digit_tbl s <> Panic.
Proof. exact fen_total_go. Qed.
Print Assumptions C11_fen_total.

(* parse (print p) = p, record equality of all ten fields *)
Theorem C11_fen_roundtrip : forall (K : zkeys), fen_keys_wf K = true ->
  forall (tbl : list (N * N * N)) (p : position),
  Inv p -> hash_scratch_ok K p -> ply_parity p ->
  exists s, to_fen p = Ok s /\ new_from_fen K tbl s = Ok p.
Proof. exact fen_roundtrip. Qed.
Print Assumptions C11_fen_roundtrip.

(* print (parse s) = s for every text the printer produces from such a position *)
Theorem C11_fen_print_parse : forall (K : zkeys), fen_keys_wf K = true ->
  forall (tbl : list (N * N * N)) (p : position) (s : bytes),
  Inv p -> hash_scratch_ok K p -> ply_parity p ->
  to_fen p = Ok s -> forall p', new_from_fen K tbl s = Ok p' -> to_fen p' = Ok s.
Proof. exact fen_print_parse. Qed.
Print Assumptions C11_fen_print_parse.

(* Stronger second form: a syntactic notion of canonical FEN text ([canonical_fen], Pos/FenCanonical.v:
   eight ranks of piece letters and digits 1..8, each rank 8 squares wide, no two digits adjacent;
   "w"/"b"; "-" or a subsequence of "KQkq"; "-" or a square name; plain decimals with half-move
   clock <= 255 and 1 <= full-move number <= 128).  Every canonical text parses, and printing the
   parsed position reproduces it. *)
Theorem C11_fen_canonical_print_parse : forall (K : zkeys), fen_keys_wf K = true ->
  forall (tbl : list (N * N * N)) (s : bytes),
  canonical_fen s -> exists p, new_from_fen K tbl s = Ok p /\ to_fen p = Ok s.
Proof. exact canonical_parse_print. Qed.
Print Assumptions C11_fen_canonical_print_parse.

(* ... and the canonical texts include everything the printer emits for a structurally sound
   position ([fen_struct]: the clauses of Inv the round trip uses), so this form subsumes
   C11_fen_print_parse. *)
Theorem C11_fen_printed_is_canonical : forall (p : position) (s : bytes),
  Inv p -> to_fen p = Ok s -> canonical_fen s.
Proof. intros p s HI. exact (printed_is_canonical p (inv_facts p HI) s). Qed.
Print Assumptions C11_fen_printed_is_canonical.

(* the two hypotheses beyond Inv hold of every position the parser returns *)
Theorem C11_parsed_meets_hyps : forall (K : zkeys) (tbl : list (N * N * N)) (s : bytes) (p : position),
  new_from_fen K tbl s = Ok p -> hash_scratch_ok K p /\ ply_parity p.
Proof. exact parsed_meets_hyps. Qed.
Print Assumptions C11_parsed_meets_hyps.

(* The totality clause is false of the parser as it stood before the fix (D2): nine pieces on a rank *)
Theorem C11_unrepaired_refuted :
  exists s, new_from_fen_unrepaired fen_go_keys unicode_digit_tbl s = Panic.
Proof. exact fen_unrepaired_panics. Qed.
Print Assumptions C11_unrepaired_refuted.

(* Non-vacuity: the start position and Kiwipete, as the model parses them, meet every hypothesis
   of the round trip (and the generated key table is well formed). *)
Example C11_hyps_met :
  fen_keys_wf fen_go_keys = true /\ canonical_fen fen_kiwipete /\
  (exists p, new_from_fen fen_go_keys unicode_digit_tbl fen_start = Ok p /\
             Inv p /\ hash_scratch_ok fen_go_keys p /\ ply_parity p) /\
  (exists p, new_from_fen fen_go_keys unicode_digit_tbl fen_kiwipete = Ok p /\
             Inv p /\ hash_scratch_ok fen_go_keys p /\ ply_parity p).
Proof. exact (conj fen_go_keys_wf (conj kiwipete_canonical fen_hyps_met)). Qed.
Print Assumptions C11_hyps_met.
