(* C09 - the position hash is a function of the position, not of the path.
   This file contains only the property theorems, each closed by [exact] of a lemma proved in
   Pos/ZobristProofs.v, Pos/ZobristInst.v or Pos/ZobristRefuted.v, with its assumptions printed.
   [K] is an ARBITRARY Zobrist key table except where the generated one ([go_keys]) is named. *)
From Coq Require Import NArith List Bool String.
From Clemens Require Import Base.Res Base.Word Base.Bytes Pos.Types Att.Attacks Pos.Position Pos.Fen Pos.Inv
  Pos.ZobristProofs Pos.ZobristInst Pos.ZobristRefuted.
From ClemensGen Require Import GoConsts.
Import ListNotations.
Open Scope N_scope.

(* the from-scratch hash reads only placement, side, castling rights and the en-passant FILE *)
Theorem C09_scratch_hash_is_a_function_of_the_position : forall K p q,
  board p = board q -> side p = side q -> castling p = castling q -> ep_file (ep p) = ep_file (ep q) ->
  scratch_hash K p = scratch_hash K q.
Proof. exact scratch_hash_ext. Qed.
Print Assumptions C09_scratch_hash_is_a_function_of_the_position.

(* MakeMove of a generated move keeps "maintained hash = from-scratch hash" *)
Theorem C09_make_move_hash_ok : forall K p ms m q,
  Inv p -> hash_ok K p -> gen_moves p = Ok ms -> In m ms -> make_move K p m = Ok q -> hash_ok K q.
Proof. exact make_move_hash_ok. Qed.
Print Assumptions C09_make_move_hash_ok.

(* ... of the invariant only the board length and the bitboard/array agreement are used *)
Theorem C09_make_move_hash_ok_weak : forall K p ms m q,
  len64 p -> bbs_agree p = true -> hash_ok K p -> gen_moves p = Ok ms -> In m ms ->
  make_move K p m = Ok q -> hash_ok K q /\ len64 q.
Proof. exact make_move_hash_ok_weak. Qed.
Print Assumptions C09_make_move_hash_ok_weak.

(* ... and for ANY move word under two explicit side conditions *)
Theorem C09_make_move_hash_ok_any_move : forall K p m q,
  len64 p -> hash_ok K p -> castle_dest_ok p m -> double_step_ok p m ->
  make_move K p m = Ok q -> hash_ok K q /\ len64 q.
Proof. exact make_move_hash_ok_gen. Qed.
Print Assumptions C09_make_move_hash_ok_any_move.

(* a null move made and taken back *)
Theorem C09_null_move_roundtrip : forall K p q e,
  Inv p -> hash_ok K p -> make_null_move K p = Ok (q, e) ->
  hash_ok K q /\ unmake_null_move K q e = Ok p.
Proof. exact null_move_roundtrip. Qed.
Print Assumptions C09_null_move_roundtrip.

(* loading from FEN (any digit table), and New() *)
Theorem C09_fen_hash_ok : forall K tbl s p, new_from_fen K tbl s = Ok p -> hash_ok K p.
Proof. exact fen_hash_ok. Qed.
Print Assumptions C09_fen_hash_ok.

Theorem C09_new_position_hash_ok : forall K p, new_position K = Ok p -> Inv p /\ hash_ok K p.
Proof. intros K p H. exact (conj (new_position_inv K p H) (new_position_hash_ok K p H)). Qed.
Print Assumptions C09_new_position_hash_ok.

(* every reachable position: the maintained hash equals the hash computed from scratch.
   Premise [inv_step_statement K] is property C10 (legal moves preserve the invariant). *)
Theorem C09_reachable_hash_ok_given_inv_step : forall K,
  inv_step_statement K -> forall p, reachable K p -> hash_ok K p.
Proof. exact reachable_hash_ok. Qed.
Print Assumptions C09_reachable_hash_ok_given_inv_step.

Theorem C09_path_independent : forall K,
  inv_step_statement K -> forall p1 p2, reachable K p1 -> reachable K p2 ->
  board p1 = board p2 -> side p1 = side p2 -> castling p1 = castling p2 -> ep_file (ep p1) = ep_file (ep p2) ->
  hash p1 = hash p2.
Proof. exact path_independent. Qed.
Print Assumptions C09_path_independent.

(* distinctness, generated keys: exactly one component differs *)
Theorem C09_one_component_differs : forall p1 p2,
  pos_wf p1 -> pos_wf p2 -> differ_in_one_component p1 p2 ->
  scratch_hash go_keys p1 <> scratch_hash go_keys p2.
Proof. exact one_component_differs_go. Qed.
Print Assumptions C09_one_component_differs.

Theorem C09_generated_keys_ok : keys_wf go_keys = true /\ keys_distinct go_keys = true.
Proof. exact (conj go_keys_wf go_keys_distinct). Qed.
Print Assumptions C09_generated_keys_ok.

(* the statement was false of the code as it stood before the fix: commit (D1) *)
Theorem C09_unrepaired_refuted :
  (exists p1 p2, go_fen fen_all = Ok p1 /\ go_fen fen_none = Ok p2 /\
     board p1 = board p2 /\ side p1 = side p2 /\ ep p1 = ep p2 /\ castling p1 <> castling p2 /\
     scratch_hash_unrepaired go_keys p1 = scratch_hash_unrepaired go_keys p2 /\
     (exists h, scratch_hash_unrepaired go_keys p1 = Ok h) /\
     scratch_hash go_keys p1 <> scratch_hash go_keys p2) /\
  (exists p q, fen_unrepaired fen_all = Ok p /\ make_move_unrepaired go_keys p a1b1 = Ok q /\
     scratch_hash_unrepaired go_keys p = Ok (hash p) /\
     scratch_hash_unrepaired go_keys q <> Ok (hash q)).
Proof. exact unrepaired_refuted. Qed.
Print Assumptions C09_unrepaired_refuted.

Theorem C09_unrepaired_make_move_refuted :
  exists p q, go_fen fen_all_black = Ok p /\ scratch_hash go_keys p = Ok (hash p) /\
    make_move_unrepaired go_keys p a8b8 = Ok q /\ scratch_hash go_keys q <> Ok (hash q) /\
    (exists q', make_move go_keys p a8b8 = Ok q' /\ scratch_hash go_keys q' = Ok (hash q')).
Proof. exact unrepaired_revoke_mismatch. Qed.
Print Assumptions C09_unrepaired_make_move_refuted.

(* Non-vacuity: the start position meets the hypotheses; 1. e4 e5 2. Ke2 is a sequence of legal
   moves, so its end position is reachable; its hash is consistent and it has lost white's rights. *)
Example C09_hyps_met :
  new_position go_keys = Ok hm_p0 /\ Inv hm_p0 /\ hash_ok go_keys hm_p0 /\
  legal_moves go_keys hm_p0 = Ok hm_l0 /\ In e2e4 hm_l0 /\ make_move go_keys hm_p0 e2e4 = Ok hm_p1 /\
  legal_moves go_keys hm_p1 = Ok hm_l1 /\ In e7e5 hm_l1 /\ make_move go_keys hm_p1 e7e5 = Ok hm_p2 /\
  legal_moves go_keys hm_p2 = Ok hm_l2 /\ In e1e2 hm_l2 /\ make_move go_keys hm_p2 e1e2 = Ok hm_p3 /\
  reachable go_keys hm_p3 /\ Inv hm_p3 /\ hash_ok go_keys hm_p3 /\ castling hm_p0 = 15 /\ castling hm_p3 = 12.
Proof. exact hyps_met. Qed.
Print Assumptions C09_hyps_met.
