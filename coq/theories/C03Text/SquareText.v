(* C03, text side, part 1: squares and the move text.
   - [sq_text]: the two bytes the engine prints for a square; print/parse round trip of squares,
     for EVERY digit table (unicode.IsDigit has a Latin-1 fast path: the table is never consulted
     for the ASCII digits, so nothing has to be assumed about it);
   - [move_to_string] is total on every 32-bit move word and prints [uci_text];
   - [move_from_string] on a printed text reduces to the kind inference [infer_move] on the two
     squares and the optional suffix byte. *)
From Coq Require Import NArith ZArith List Bool Lia ZifyBool ZifyN ZifyNat.
From Clemens Require Import Base.Res Base.Word Base.Bytes Pos.Types Att.Attacks Pos.Position Pos.Fen Pos.Inv
  Pos.ZobristProofs.
Import ListNotations.
Open Scope N_scope.

(* ------------------------------------------------------------------------------------------ *)
(* 1. squares                                                                                   *)

(* file letter 'a' + file, rank digit '1' + rank *)
Definition sq_text (sq : N) : bytes := [97 + file_of sq; 49 + rank_of sq].

Definition sq_chk (tbl : list (N * N * N)) (sq : N) : bool :=
  match square_to_string sq with
  | Ok s => bytes_eqb s (sq_text sq) &&
            match square_from_string tbl s with Ok sq' => sq' =? sq | _ => false end
  | _ => false
  end.

(* [tbl] stays a variable: the evaluation never looks at it *)
Lemma sq_chk_all (tbl : list (N * N * N)) : forallb (sq_chk tbl) sq_list = true.
Proof. vm_compute. reflexivity. Qed.

Lemma bytes_eqb_true (a b : bytes) : bytes_eqb a b = true -> a = b.
Proof.
  revert b. induction a as [|x a IH]; intros [|y b]; cbn [bytes_eqb]; intros H; try discriminate; auto.
  apply andb_true_iff in H. destruct H as [H1 H2]. apply N.eqb_eq in H1. subst y. f_equal. auto.
Qed.

Lemma square_to_string_text (sq : N) : sq < 64 -> square_to_string sq = Ok (sq_text sq).
Proof.
  intros Hsq. pose proof (forall_sq _ (sq_chk_all []) sq Hsq) as C. unfold sq_chk in C.
  destruct (square_to_string sq) as [s| |]; try discriminate.
  apply andb_true_iff in C. destruct C as [C _]. apply bytes_eqb_true in C. now subst s.
Qed.

Lemma square_from_string_text (tbl : list (N * N * N)) (sq : N) :
  sq < 64 -> square_from_string tbl (sq_text sq) = Ok sq.
Proof.
  intros Hsq. pose proof (forall_sq _ (sq_chk_all tbl) sq Hsq) as C. unfold sq_chk in C.
  rewrite (square_to_string_text sq Hsq) in C.
  apply andb_true_iff in C. destruct C as [_ C].
  destruct (square_from_string tbl (sq_text sq)) as [sq'| |]; try discriminate.
  apply N.eqb_eq in C. now subst sq'.
Qed.

(* C03 (squares): what SquareToString prints, SquareFromString reads back - whatever the digit table *)
Theorem square_text_roundtrip (tbl : list (N * N * N)) (sq : N) (s : bytes) :
  sq < 64 -> square_to_string sq = Ok s -> square_from_string tbl s = Ok sq.
Proof.
  intros Hsq H. rewrite (square_to_string_text sq Hsq) in H. injection H as <-.
  now apply square_from_string_text.
Qed.

Theorem square_to_string_total (sq : N) : sq < 64 -> exists s, square_to_string sq = Ok s.
Proof. intros H. eexists. now apply square_to_string_text. Qed.

(* the printed squares are pairwise different *)
Lemma sq_text_inj (a b : N) : a < 64 -> b < 64 -> sq_text a = sq_text b -> a = b.
Proof.
  intros Ha Hb E. pose proof (square_from_string_text [] a Ha) as H1.
  rewrite E, (square_from_string_text [] b Hb) in H1. now injection H1.
Qed.

(* the only property of the table one might have expected to need; it holds of any table, the generated
   one included, because of the fast path in unicode.IsDigit *)
Definition digits_ok (tbl : list (N * N * N)) : Prop := forall c, 49 <= c <= 56 -> is_digit tbl c = true.
Lemma digits_ok_any (tbl : list (N * N * N)) : digits_ok tbl.
Proof. intros c Hc. unfold is_digit. replace (c <=? 255) with true by lia. lia. Qed.

(* ------------------------------------------------------------------------------------------ *)
(* 2. Move.String                                                                               *)

Definition uci_promo (m : N) : option N := if mv_kind m =? PROMOTION then Some (mv_promo m) else None.
Definition uci_suffix (promo : option N) : bytes := match promo with Some pt => promo_char pt | None => [] end.
(* the text a GUI sends for the move with these squares and this promotion piece *)
Definition uci_text (src dst : N) (promo : option N) : bytes := sq_text src ++ sq_text dst ++ uci_suffix promo.

(* Move.String never fails, on any 32-bit word: the square fields are six bits wide *)
Theorem move_to_string_text (m : N) : move_to_string m = Ok (uci_text (mv_src m) (mv_dst m) (uci_promo m)).
Proof.
  unfold move_to_string. rewrite (square_to_string_text _ (mv_src_lt m)), (square_to_string_text _ (mv_dst_lt m)).
  cbn [bind]. unfold uci_text, uci_promo, uci_suffix. destruct (mv_kind m =? PROMOTION); reflexivity.
Qed.

Theorem move_to_string_total (m : N) : exists s, move_to_string m = Ok s.
Proof. eexists. apply move_to_string_text. Qed.

(* ------------------------------------------------------------------------------------------ *)
(* 3. MakeMoveFromString on a text made of two printed squares and at most one more byte        *)

(* the kind inference of MakeMoveFromString, on squares *)
Definition infer_move (p : position) (s t : N) (suf : option N) : res N :=
  let m := mk_move s t in
  pc <- get_piece p s ;;
  let pt := piece_type pc in
  if (pt =? KING) && (abs_diff s t =? 2) then Ok (mv_set_kind m CASTLING)
  else if pt =? PAWN then
    dpc <- (if negb (file_of s =? file_of t) then get_piece p t else Ok 1) ;;
    if negb (file_of s =? file_of t) && (dpc =? NO_PIECE) then Ok (mv_set_kind m EN_PASSANT)
    else match suf with
         | Some c => pt <- piece_type_from_char c ;; Ok (mv_set_promo (mv_set_kind m PROMOTION) pt)
         | None => Ok m
         end
  else Ok m.

Definition suf_bytes (suf : option N) : bytes := match suf with Some c => [c] | None => [] end.

Lemma move_from_string_text (tbl : list (N * N * N)) (p : position) (s t : N) (suf : option N) :
  s < 64 -> t < 64 ->
  move_from_string tbl p (sq_text s ++ sq_text t ++ suf_bytes suf) = infer_move p s t suf.
Proof.
  intros Hs Ht. unfold move_from_string, infer_move.
  destruct suf as [c|]; cbn [suf_bytes sq_text app length firstn skipn nth_error];
    rewrite (square_from_string_text tbl s Hs : square_from_string tbl [97 + file_of s; 49 + rank_of s] = Ok s),
            (square_from_string_text tbl t Ht : square_from_string tbl [97 + file_of t; 49 + rank_of t] = Ok t);
    cbn [bind]; reflexivity.
Qed.
