(* C03, text side, part 2: what a generated move looks like on the board, in chess terms.
   Under the C10 invariant every move of [gen_moves p] is of exactly one of five forms [gen_class]:
   a piece move (a king step never has index distance 2), a pawn move that is not a promotion,
   a promotion (pawn onto the last rank, piece n/b/r/q), the en-passant capture (pawn changes file
   onto the EMPTY en-passant square), or castling (king from its home square, two files). *)
From Coq Require Import NArith ZArith List Bool Lia ZifyBool ZifyN ZifyNat.
From Clemens Require Import Base.Res Base.Word Base.Bytes Pos.Types Att.Attacks Att.Geometry Att.ShiftsProofs
  Att.LeaperInst Att.AttackersProofs Pos.Position Pos.Fen Pos.Inv Pos.CapturesProofs Pos.ZobristProofs.
Import ListNotations.
Open Scope N_scope.

Ltac Zify.zify_post_hook ::= Z.to_euclidean_division_equations.

Local Notation cmv := CapturesProofs.castle_mv.

(* the rank (0-based) on which a pawn of colour c promotes; the king's home square *)
Definition promo_rank (c : N) : N := if c =? WHITE then 7 else 0.
Definition king_home (c : N) : N := if c =? WHITE then E1 else E8.

(* a pawn goes straight onto an empty square or changes file onto an occupied one *)
Definition pawn_target (p : position) (s t : N) : Prop :=
  (file_of s = file_of t /\ piece_at p t = NO_PIECE) \/ (file_of s <> file_of t /\ piece_at p t <> NO_PIECE).

Inductive gen_class (p : position) (m : N) : Prop :=
| GC_piece (s t T : N) :
    s < 64 -> t < 64 -> T < 6 -> T <> PAWN -> piece_at p s = new_piece (side p) T ->
    (T = KING -> abs_diff s t <> 2) ->
    m = mk_move s t -> gen_class p m
| GC_pawn (s t : N) :
    s < 64 -> t < 64 -> piece_at p s = new_piece (side p) PAWN -> pawn_target p s t ->
    rank_of t <> promo_rank (side p) ->
    m = mk_move s t -> gen_class p m
| GC_promo (s t pt : N) :
    s < 64 -> t < 64 -> piece_at p s = new_piece (side p) PAWN -> pawn_target p s t ->
    rank_of t = promo_rank (side p) -> In pt promo_types ->
    m = mk_promo s t pt -> gen_class p m
| GC_ep (s t : N) :
    s < 64 -> t < 64 -> piece_at p s = new_piece (side p) PAWN ->
    t = ep p -> file_of s <> file_of t -> piece_at p t = NO_PIECE ->
    piece_at p (if side p =? WHITE then t - 8 else t + 8) = new_piece (switch_color (side p)) PAWN ->
    m = mk_move_kind s t EN_PASSANT -> gen_class p m
| GC_castle (s t : N) :
    s = king_home (side p) -> piece_at p s = new_piece (side p) KING -> (t = s + 2 \/ s = t + 2) ->
    m = cmv s t -> gen_class p m.

(* ------------------------------------------------------------------------------------------ *)
(* geometry: finite facts and the exact push formula                                            *)

Lemma file_of_mod (s : N) : file_of s = s mod 8.
Proof. unfold file_of. change 7 with (N.ones 3). now rewrite N.land_ones. Qed.

Lemma pushes_same_file (c s occ t : N) :
  s < 64 -> N.testbit (pushes_by_square c s occ) t = true -> file_of t = file_of s.
Proof.
  intros Hs H. rewrite (pushes_exact c s occ Hs t) in H. unfold geo_pawn_push in H.
  rewrite !andb_true_iff in H. destruct H as [[[_ H] _] _]. apply Z.eqb_eq in H.
  rewrite !file_of_mod. unfold sq_file in H. lia.
Qed.

Definition geo_chk (s t : N) : bool :=
  (negb (N.testbit (king_attacks s) t) || negb (abs_diff s t =? 2)) &&
  (negb (N.testbit (pawn_attacks WHITE s) t) || negb (file_of s =? file_of t)) &&
  (negb (N.testbit (pawn_attacks BLACK s) t) || negb (file_of s =? file_of t)).
Lemma geo_chk_all : forallb (fun s => forallb (geo_chk s) sq_list) sq_list = true.
Proof. vm_compute. reflexivity. Qed.

Lemma king_step_not2 (s t : N) : s < 64 -> t < 64 -> N.testbit (king_attacks s) t = true -> abs_diff s t <> 2.
Proof.
  intros Hs Ht T. pose proof (forall_sq _ (forall_sq _ geo_chk_all s Hs) t Ht) as C. cbv beta in C.
  unfold geo_chk in C. rewrite T in C. cbn [negb orb] in C.
  rewrite !andb_true_iff in C. destruct C as [[C _] _]. apply negb_true_iff, N.eqb_neq in C. exact C.
Qed.

Lemma pawn_attack_file (c s t : N) : c = WHITE \/ c = BLACK -> s < 64 -> t < 64 ->
  N.testbit (pawn_attacks c s) t = true -> file_of s <> file_of t.
Proof.
  intros Hc Hs Ht T. pose proof (forall_sq _ (forall_sq _ geo_chk_all s Hs) t Ht) as C. cbv beta in C.
  unfold geo_chk in C. rewrite !andb_true_iff in C. destruct C as [[_ C1] C2].
  destruct Hc as [-> | ->]; [rewrite T in C1; cbn [negb orb] in C1; apply negb_true_iff, N.eqb_neq in C1
                            |rewrite T in C2; cbn [negb orb] in C2; apply negb_true_iff, N.eqb_neq in C2]; assumption.
Qed.

(* ------------------------------------------------------------------------------------------ *)
(* the generators, one by one                                                                   *)

Lemma in_pmwp_class (m stm s t : N) : stm = WHITE \/ stm = BLACK ->
  In m (pawn_move_with_promotion stm s t) ->
  (rank_of t <> promo_rank stm /\ m = mk_move s t) \/
  (rank_of t = promo_rank stm /\ exists pt, In pt promo_types /\ m = mk_promo s t pt).
Proof.
  unfold pawn_move_with_promotion, promo_rank. intros [-> | ->].
  - change (WHITE =? WHITE) with true. change (WHITE =? BLACK) with false. cbn [andb].
    destruct (rank_of t =? 7) eqn:E; cbn [negb].
    + apply N.eqb_eq in E. intros H. apply in_map_iff in H. destruct H as (pt & <- & Hpt). right. eauto.
    + apply N.eqb_neq in E. intros [<-|[]]. left. auto.
  - change (BLACK =? WHITE) with false. change (BLACK =? BLACK) with true. cbn [andb].
    destruct (rank_of t =? 0) eqn:E; cbn [negb].
    + apply N.eqb_eq in E. intros H. apply in_map_iff in H. destruct H as (pt & <- & Hpt). right. eauto.
    + apply N.eqb_neq in E. intros [<-|[]]. left. auto.
Qed.

Lemma in_pawn_moves_class (m : N) (p : position) (pawns them : N) :
  In m (pawn_moves p false pawns them) ->
  exists s, In s (bits pawns) /\
    ((exists t, In t (bits (pushes_by_square (side p) s (all_pieces p))) /\
                In m (pawn_move_with_promotion (side p) s t)) \/
     (exists t, In t (bits (N.land (pawn_attacks (side p) s) them)) /\
                In m (pawn_move_with_promotion (side p) s t)) \/
     (ep p <> SQ_NONE /\
      exists t, In t (bits (N.land (pawn_attacks (side p) s) (bit (ep p)))) /\ m = mk_move_kind s t EN_PASSANT)).
Proof.
  unfold pawn_moves. intros H. apply in_flat_map in H. destruct H as (s & Hs & H). exists s. split; auto.
  apply in_app_or in H. destruct H as [H|H].
  { apply in_flat_map in H. destruct H as (t & Ht & H). left. eauto. }
  apply in_app_or in H. destruct H as [H|H].
  { apply in_flat_map in H. destruct H as (t & Ht & H). right. left. eauto. }
  destruct (ep p =? SQ_NONE) eqn:E; cbn [negb] in H; [destruct H|]. apply N.eqb_neq in E.
  apply in_map_iff in H. destruct H as (t & <- & Ht). right. right. eauto.
Qed.

Section Classes.
Variable p : position.
Hypothesis I : Inv p.

Let F : facts p := CapturesProofs.inv_facts p I.

Lemma side_cases : side p = WHITE \/ side p = BLACK.
Proof. exact (F_side p F). Qed.

Lemma occb_false (t : N) : occb p t = false -> piece_at p t = NO_PIECE.
Proof. unfold occb. intros H. apply negb_false_iff, N.eqb_eq in H. exact H. Qed.
Lemma occb_true (t : N) : occb p t = true -> piece_at p t <> NO_PIECE.
Proof. unfold occb. intros H. apply negb_true_iff, N.eqb_neq in H. exact H. Qed.

Lemma bb_piece (T X s : N) : T < 6 -> get_bb p (side p) T = Ok X -> In s (bits X) ->
  s < 64 /\ piece_at p s = new_piece (side p) T.
Proof.
  intros HT G Hs. pose proof (side_lt p F) as Hc.
  assert (Ls : s < 64) by (eapply get_bb_bits_lt; eauto). split; auto.
  apply (get_bb_at p) in G; auto. subst X. apply bits_in in Hs.
  rewrite (proj2 (F_bb p F (side p) T Hc HT) s Ls) in Hs. now apply N.eqb_eq in Hs.
Qed.

Lemma helper_class (T X occ : N) (att : N -> N -> N) (m : N) :
  T < 6 -> T <> PAWN -> get_bb p (side p) T = Ok X ->
  (T = KING -> forall s, att s occ = king_attacks s) ->
  In m (gen_helper X occ (not64 (union6 p (side p))) att) -> gen_class p m.
Proof.
  intros HT HP G HK Hin. apply in_gen_helper in Hin. destruct Hin as (s & t & Hs & Ht & ->).
  destruct (bb_piece T X s HT G Hs) as [Ls Ps].
  apply bits_in in Ht. rewrite N.land_spec in Ht. apply andb_true_iff in Ht. destruct Ht as [Ta Tn].
  apply not64_true in Tn. destruct Tn as [Lt _].
  eapply (GC_piece p _ s t T); eauto.
  intros ->. rewrite (HK eq_refl) in Ta. now apply king_step_not2.
Qed.

Lemma ep_facts : ep p <> SQ_NONE ->
  ep p < 64 /\ piece_at p (ep p) = NO_PIECE /\
  piece_at p (if side p =? WHITE then ep p - 8 else ep p + 8) = new_piece (switch_color (side p)) PAWN.
Proof.
  intros Hne. destruct (inv_parts _ I) as (_ & _ & _ & _ & _ & _ & EC & SC & _).
  destruct (scalars_ok_spec _ SC) as (_ & _ & _ & Le).
  unfold ep_consistent in EC. unfold SQ_NONE in *.
  replace (ep p =? 64) with false in EC by lia. cbn [orb] in EC.
  split; [lia|]. destruct side_cases as [Sd | Sd]; rewrite Sd in *.
  - change (WHITE =? WHITE) with true in *. cbv iota in *. rewrite !andb_true_iff, !N.eqb_eq in EC.
    split; [tauto|]. change (new_piece (switch_color WHITE) PAWN) with 9. tauto.
  - change (BLACK =? WHITE) with false in *. cbv iota in *. rewrite !andb_true_iff, !N.eqb_eq in EC.
    split; [tauto|]. change (new_piece (switch_color BLACK) PAWN) with 1. tauto.
Qed.

Lemma pawn_class (pawns : N) (m : N) :
  get_bb p (side p) PAWN = Ok pawns ->
  In m (pawn_moves p false pawns (union6 p (switch_color (side p)))) -> gen_class p m.
Proof.
  intros G Hin. apply in_pawn_moves_class in Hin. destruct Hin as (s & Hs & H).
  destruct (bb_piece PAWN pawns s eq_refl G Hs) as [Ls Ps].
  destruct H as [(t & Ht & Hm) | [(t & Ht & Hm) | (Hne & t & Ht & ->)]].
  - (* push *)
    apply bits_in in Ht. pose proof (pushes_same_file _ _ _ _ Ls Ht) as Hf.
    apply pushes_empty in Ht. apply (empty_bit p F) in Ht. destruct Ht as [Lt Ho]. apply occb_false in Ho.
    assert (PT : pawn_target p s t) by (left; split; [symmetry; exact Hf|exact Ho]).
    destruct (in_pmwp_class _ _ _ _ side_cases Hm) as [[R ->] | [R (pt & Hpt & ->)]].
    + eapply (GC_pawn p _ s t); eauto.
    + eapply (GC_promo p _ s t pt); eauto.
  - (* capture *)
    apply bits_in in Ht. rewrite N.land_spec in Ht. apply andb_true_iff in Ht. destruct Ht as [Ta Tt].
    apply (them_bit p F) in Tt. destruct Tt as [Lt Ho]. apply occb_true in Ho.
    pose proof (pawn_attack_file _ _ _ side_cases Ls Lt Ta) as Hf.
    assert (PT : pawn_target p s t) by (right; split; assumption).
    destruct (in_pmwp_class _ _ _ _ side_cases Hm) as [[R ->] | [R (pt & Hpt & ->)]].
    + eapply (GC_pawn p _ s t); eauto.
    + eapply (GC_promo p _ s t pt); eauto.
  - (* en passant *)
    destruct (ep_facts Hne) as (Le & Pe & Pv).
    apply bits_in in Ht. rewrite N.land_spec in Ht. apply andb_true_iff in Ht. destruct Ht as [Ta Tb].
    rewrite (bit_spec _ _ Le) in Tb. apply N.eqb_eq in Tb. subst t.
    pose proof (pawn_attack_file _ _ _ side_cases Ls Le Ta) as Hf.
    eapply (GC_ep p _ s (ep p)); eauto.
Qed.

(* -- castling -- *)
Definition castle_src (m : N) : Prop :=
  exists c kb s, In c [WK; WQ; BK; BQ] /\ castling_color c = side p /\ can_castle p c = true /\
    get_bb p (side p) KING = Ok kb /\ lsb kb = Ok s /\
    m = cmv s (if castling_is_queen_side c then sub8 s 2 else add8 s 2).

Lemma castling_moves_src (cs : list N) (m : N) : castling_moves p = Ok cs -> In m cs -> castle_src m.
Proof.
  intros H. revert m.
  change (castling_moves p) with (fold_left (fun acc c => l <- acc ;; cm_step p l c) [WK; WQ; BK; BQ] (Ok [])) in H.
  refine (fold_bind_inv (fun l : list N => forall m, In m l -> castle_src m) _ _ _ _ _ _ H); [|intros m []].
  intros l c l' Hc IH S. unfold cm_step in S.
  destruct (castling_color c =? side p) eqn:EC; cbn [negb] in S; [|injection S as <-; exact IH].
  apply N.eqb_eq in EC.
  bind_inv S. destruct a; cbn [negb] in S; [|injection S as <-; exact IH].
  bind_inv S. bind_inv S. cbv zeta in S. injection S as <-. intros m Hin.
  apply in_app_or in Hin. destruct Hin as [Hin|[<-|[]]]; [auto|].
  exists c, a, a0. repeat split; auto.
  unfold can_castle_now in E. destruct (can_castle p c); [reflexivity|]. cbn [negb] in E. discriminate.
Qed.

Lemma right_bit (i : N) : can_castle p (2 ^ i) = true -> N.testbit (castling p) i = true.
Proof.
  unfold can_castle. rewrite N.land_comm, land_pow2_testbit, negb_involutive. auto.
Qed.

Lemma castle_class (cs : list N) (m : N) : castling_moves p = Ok cs -> In m cs -> gen_class p m.
Proof.
  intros H Hin. destruct (castling_moves_src cs m H Hin) as (c & kb & s & Hc & Col & CC & G & Ls & ->).
  destruct (inv_parts _ I) as (_ & _ & _ & OK & _ & CS & _).
  (* the king of the side to move stands on its home square *)
  assert (Home : piece_at p (king_home (side p)) = new_piece (side p) KING).
  { unfold castling_consistent in CS. rewrite !andb_true_iff in CS. destruct CS as [[[[_ C0] C1] C2] C3].
    destruct Hc as [<-|[<-|[<-|[<-|[]]]]]; rewrite <- Col.
    - apply (right_bit 0) in CC. rewrite CC in C0. cbn [negb orb] in C0.
      apply andb_true_iff in C0. destruct C0 as [C0 _]. now apply N.eqb_eq in C0.
    - apply (right_bit 1) in CC. rewrite CC in C1. cbn [negb orb] in C1.
      apply andb_true_iff in C1. destruct C1 as [C1 _]. now apply N.eqb_eq in C1.
    - apply (right_bit 2) in CC. rewrite CC in C2. cbn [negb orb] in C2.
      apply andb_true_iff in C2. destruct C2 as [C2 _]. now apply N.eqb_eq in C2.
    - apply (right_bit 3) in CC. rewrite CC in C3. cbn [negb orb] in C3.
      apply andb_true_iff in C3. destruct C3 as [C3 _]. now apply N.eqb_eq in C3. }
  (* the only king bit is the one the scan finds *)
  assert (Hs : s = king_home (side p)).
  { pose proof (side_lt p F) as Lc.
    pose proof (get_bb_at p _ _ _ Lc (eq_refl : KING < 6) G) as ->.
    assert (Hh : king_home (side p) < 64) by (destruct side_cases as [-> | ->]; reflexivity).
    pose proof (proj2 (F_bb p F (side p) KING Lc eq_refl) _ Hh) as T. rewrite Home, N.eqb_refl in T.
    assert (P1 : popcount (bb_at p (side p) KING) = 1).
    { unfold one_king_each in OK. apply andb_true_iff in OK. rewrite !N.eqb_eq in OK.
      destruct side_cases as [-> | ->]; tauto. }
    destruct (bb_at p (side p) KING) as [|q]; [discriminate Ls|].
    cbn [lsb] in Ls. injection Ls as <-. symmetry. apply pop_one_unique; auto. }
  apply (GC_castle p _ s (if castling_is_queen_side c then sub8 s 2 else add8 s 2)); auto.
  - now rewrite Hs.
  - rewrite Hs. destruct (castling_is_queen_side c); destruct side_cases as [-> | ->]; vm_compute; auto.
Qed.

(* C03: the shape of every generated move *)
Theorem gen_moves_class (ms : list N) (m : N) : gen_moves p = Ok ms -> In m ms -> gen_class p m.
Proof.
  intros G Hin. unfold gen_moves in G.
  bind_inv G. bind_inv G. bind_inv G. bind_inv G. bind_inv G. bind_inv G. bind_inv G. bind_inv G. bind_inv G.
  inversion G; subst ms; clear G.
  apply (color_bb_union p F) in E; [|apply (side_lt p F)]. subst a.
  apply (color_bb_union p F) in E0; [|apply (switch_lt p F)]. subst a0.
  repeat (apply in_app_or in Hin; destruct Hin as [Hin|Hin]).
  - eapply (helper_class ROOK); eauto; try discriminate; reflexivity.
  - eapply (helper_class BISHOP); eauto; try discriminate; reflexivity.
  - eapply (helper_class QUEEN); eauto; try discriminate; reflexivity.
  - eapply (helper_class KNIGHT); eauto; try discriminate; reflexivity.
  - eapply pawn_class; eauto.
  - eapply castle_class; eauto.
  - eapply (helper_class KING); eauto; try discriminate; reflexivity.
Qed.

End Classes.
