(* Reading and writing the specification's board state as FEN text (lists of character codes),
   for well-formed FENs only. Used by the oracles to hand positions to the FIDE specification
   without going through the engine model's parser. Model file (specification side). *)
From Coq Require Import ZArith List Bool.
From Clemens Require Import Rules.Fide.
Import ListNotations.
Open Scope Z_scope.

Definition text := list Z.

Fixpoint split_sp (s : text) : list text :=
  match s with
  | [] => [[]]
  | c :: r =>
    match split_sp r with
    | [] => [[c]]
    | f :: fs => if c =? 32 then [] :: f :: fs else (c :: f) :: fs
    end
  end.

Definition piece_of_char (c : Z) : option piece :=
  let mk col t := Some {| p_color := col; p_type := t |} in
  if c =? 80 then mk White Pawn else if c =? 78 then mk White Knight else if c =? 66 then mk White Bishop
  else if c =? 82 then mk White Rook else if c =? 81 then mk White Queen else if c =? 75 then mk White King
  else if c =? 112 then mk Black Pawn else if c =? 110 then mk Black Knight else if c =? 98 then mk Black Bishop
  else if c =? 114 then mk Black Rook else if c =? 113 then mk Black Queen else if c =? 107 then mk Black King
  else None.

Definition char_of_piece (p : piece) : Z :=
  let base := match p_type p with Pawn => 80 | Knight => 78 | Bishop => 66 | Rook => 82 | Queen => 81 | King => 75 end in
  match p_color p with White => base | Black => base + 32 end.

(* placement: walk the text, file/rank cursor starting at a8 *)
Fixpoint read_placement (s : text) (f r : Z) (bd : list (option piece)) : option (list (option piece)) :=
  match s with
  | [] => Some bd
  | c :: rest =>
    if c =? 47 then read_placement rest 0 (r - 1) bd
    else if (49 <=? c) && (c <=? 56) then read_placement rest (f + (c - 48)) r bd
    else match piece_of_char c with
         | Some p => if on_board (f, r) then read_placement rest (f + 1) r (put bd (f, r) (Some p)) else None
         | None => None
         end
  end.

Fixpoint read_nat (s : text) (acc : Z) : option Z :=
  match s with
  | [] => Some acc
  | c :: r => if (48 <=? c) && (c <=? 57) then read_nat r (acc * 10 + (c - 48)) else None
  end.

Definition read_rights (s : text) : rights :=
  {| wk := existsb (Z.eqb 75) s; wq := existsb (Z.eqb 81) s; bk := existsb (Z.eqb 107) s; bq := existsb (Z.eqb 113) s |}.

Definition read_fen (s : text) : option bstate :=
  match split_sp s with
  | [pl; tm; cr; e; h; fm] =>
    match read_placement pl 0 7 (repeat None 64), read_nat h 0, read_nat fm 0 with
    | Some bd, Some hv, Some fv =>
      match tm, h, fm with
      | [t], _ :: _, _ :: _ =>
        Some {| b_at := bd;
                b_turn := if t =? 119 then White else Black;
                b_rights := read_rights cr;
                b_ep := match e with [fc; rc] => Some (fc - 97, rc - 49) | _ => None end;
                b_hmc := hv; b_full := fv |}
      | _, _, _ => None
      end
    | _, _, _ => None
    end
  | _ => None
  end.

(* printing *)
Fixpoint digits (fuel : nat) (n : Z) (acc : text) : text :=
  match fuel with
  | O => acc
  | S f => let acc := (48 + n mod 10) :: acc in if n / 10 =? 0 then acc else digits f (n / 10) acc
  end.
Definition show_nat (n : Z) : text := digits 20 n [].

Fixpoint show_rank (s : bstate) (r : Z) (files : list Z) (run : Z) : text :=
  match files with
  | [] => if run =? 0 then [] else show_nat run
  | f :: fs =>
    match at_sq s (f, r) with
    | None => show_rank s r fs (run + 1)
    | Some p => (if run =? 0 then [] else show_nat run) ++ char_of_piece p :: show_rank s r fs 0
    end
  end.

Definition show_fen (s : bstate) : text :=
  let files := [0; 1; 2; 3; 4; 5; 6; 7] in
  let ranks := [7; 6; 5; 4; 3; 2; 1; 0] in
  let placement := flat_map (fun r => show_rank s r files 0 ++ (if 0 <? r then [47] else [])) ranks in
  let rt := b_rights s in
  let cr := (if wk rt then [75] else []) ++ (if wq rt then [81] else []) ++
            (if bk rt then [107] else []) ++ (if bq rt then [113] else []) in
  placement ++ [32] ++ [match b_turn s with White => 119 | Black => 98 end] ++ [32]
  ++ (match cr with [] => [45] | _ => cr end) ++ [32]
  ++ (match b_ep s with Some (f, r) => [97 + f; 49 + r] | None => [45] end) ++ [32]
  ++ show_nat (b_hmc s) ++ [32] ++ show_nat (b_full s).

(* a move in UCI text: e2e4, e7e8q *)
Definition show_move (m : fmove) : text :=
  [97 + fst (m_from m); 49 + snd (m_from m); 97 + fst (m_to m); 49 + snd (m_to m)]
  ++ match m_promo m with
     | Some Knight => [110] | Some Bishop => [98] | Some Rook => [114] | Some Queen => [113]
     | _ => []
     end.
Definition read_move (s : text) : option fmove :=
  match s with
  | f1 :: r1 :: f2 :: r2 :: rest =>
    let pr := match rest with
              | [110] => Some (Some Knight) | [98] => Some (Some Bishop)
              | [114] => Some (Some Rook) | [113] => Some (Some Queen)
              | [] => Some None | _ => None end in
    match pr with
    | Some p => Some {| m_from := (f1 - 97, r1 - 49); m_to := (f2 - 97, r2 - 49); m_promo := p |}
    | None => None
    end
  | _ => None
  end.
