(* An independent specification of the rules of chess (FIDE Laws, articles 3 and 5 as far as
   move legality and the successor position are concerned), written over a mailbox and
   file/rank coordinates. It shares no definition with the engine model (the Pos and Att directories): no
   bitboards, no tables. Executable: [legal_moves] enumerates, [apply] computes the successor.
   Model file (specification): no proofs. *)
From Coq Require Import ZArith List Bool.
Import ListNotations.
Open Scope Z_scope.

Inductive color := White | Black.
Inductive ptype := Pawn | Knight | Bishop | Rook | Queen | King.
Record piece := { p_color : color; p_type : ptype }.

Definition color_eqb (a b : color) : bool :=
  match a, b with White, White | Black, Black => true | _, _ => false end.
Definition ptype_eqb (a b : ptype) : bool :=
  match a, b with
  | Pawn, Pawn | Knight, Knight | Bishop, Bishop | Rook, Rook | Queen, Queen | King, King => true
  | _, _ => false
  end.
Definition opp (c : color) : color := match c with White => Black | Black => White end.

(* a square is (file, rank), both 0..7; a1 = (0,0), h8 = (7,7) *)
Definition square := (Z * Z)%type.
Definition on_board (s : square) : bool :=
  let '(f, r) := s in (0 <=? f) && (f <=? 7) && (0 <=? r) && (r <=? 7).
Definition sq_eqb (a b : square) : bool := (fst a =? fst b) && (snd a =? snd b).
Definition sq_index (s : square) : nat := Z.to_nat (snd s * 8 + fst s).

Record rights := { wk : bool; wq : bool; bk : bool; bq : bool }.

Record bstate := {
  b_at : list (option piece);       (* 64 entries, index rank*8+file *)
  b_turn : color;
  b_rights : rights;
  b_ep : option square;             (* en-passant target square *)
  b_hmc : Z;                        (* half-move clock *)
  b_full : Z                        (* full-move number *)
}.

Definition at_sq (s : bstate) (q : square) : option piece :=
  if on_board q then nth (sq_index q) (b_at s) None else None.

Fixpoint set_nth {A} (l : list A) (i : nat) (v : A) : list A :=
  match l, i with
  | [], _ => []
  | _ :: t, O => v :: t
  | h :: t, S j => h :: set_nth t j v
  end.
Definition put (bd : list (option piece)) (q : square) (v : option piece) : list (option piece) :=
  set_nth bd (sq_index q) v.

(* a move in the form the UCI protocol writes it *)
Record fmove := { m_from : square; m_to : square; m_promo : option ptype }.

Definition sgn (x : Z) : Z := if x <? 0 then -1 else if 0 <? x then 1 else 0.

(* all squares strictly between a and b on a common line are empty (fuel 7 suffices) *)
Fixpoint path_clear (fuel : nat) (s : bstate) (cur : square) (step : square) (target : square) : bool :=
  match fuel with
  | O => false
  | S f =>
    let nxt := (fst cur + fst step, snd cur + snd step) in
    if sq_eqb nxt target then true
    else match at_sq s nxt with
         | None => on_board nxt && path_clear f s nxt step target
         | Some _ => false
         end
  end.

Definition aligned_rook (a b : square) : bool :=
  negb (sq_eqb a b) && ((fst a =? fst b) || (snd a =? snd b)).
Definition aligned_bishop (a b : square) : bool :=
  negb (sq_eqb a b) && (Z.abs (fst a - fst b) =? Z.abs (snd a - snd b)).
Definition step_to (a b : square) : square := (sgn (fst b - fst a), sgn (snd b - snd a)).

Definition slides (s : bstate) (a b : square) (rookwise bishopwise : bool) : bool :=
  ((rookwise && aligned_rook a b) || (bishopwise && aligned_bishop a b))
  && path_clear 8 s a (step_to a b) b.

Definition knight_jump (a b : square) : bool :=
  let df := Z.abs (fst a - fst b) in let dr := Z.abs (snd a - snd b) in
  ((df =? 1) && (dr =? 2)) || ((df =? 2) && (dr =? 1)).
Definition king_step (a b : square) : bool :=
  negb (sq_eqb a b) && (Z.abs (fst a - fst b) <=? 1) && (Z.abs (snd a - snd b) <=? 1).
Definition forward (c : color) : Z := match c with White => 1 | Black => -1 end.

(* does the piece standing on [a] attack square [b]? (Article 3.1: attack does not depend on pins) *)
Definition attacks_from (s : bstate) (a b : square) : bool :=
  match at_sq s a with
  | None => false
  | Some p =>
    match p_type p with
    | Pawn => (Z.abs (fst a - fst b) =? 1) && (snd b =? snd a + forward (p_color p))
    | Knight => knight_jump a b
    | Bishop => slides s a b false true
    | Rook => slides s a b true false
    | Queen => slides s a b true true
    | King => king_step a b
    end
  end.

Definition all_squares : list square :=
  flat_map (fun r => map (fun f => (Z.of_nat f, Z.of_nat r)) (seq 0 8)) (seq 0 8).

Definition attacked_by (s : bstate) (c : color) (b : square) : bool :=
  existsb (fun a =>
    match at_sq s a with
    | Some p => color_eqb (p_color p) c && attacks_from s a b
    | None => false
    end) all_squares.

Definition king_square (s : bstate) (c : color) : option square :=
  find (fun a => match at_sq s a with
                 | Some p => color_eqb (p_color p) c && ptype_eqb (p_type p) King
                 | None => false end) all_squares.
Definition in_check (s : bstate) (c : color) : bool :=
  match king_square s c with
  | Some k => attacked_by s (opp c) k
  | None => false
  end.

Definition home_rank (c : color) : Z := match c with White => 0 | Black => 7 end.
Definition pawn_start (c : color) : Z := match c with White => 1 | Black => 6 end.
Definition last_rank (c : color) : Z := match c with White => 7 | Black => 0 end.
Definition empty (s : bstate) (q : square) : bool := match at_sq s q with None => true | Some _ => false end.

Definition has_right (s : bstate) (c : color) (kingside : bool) : bool :=
  match c, kingside with
  | White, true => wk (b_rights s) | White, false => wq (b_rights s)
  | Black, true => bk (b_rights s) | Black, false => bq (b_rights s)
  end.

(* Article 3.8.2: castling *)
Definition castling_ok (s : bstate) (c : color) (kingside : bool) : bool :=
  let r := home_rank c in
  has_right s c kingside
  && match at_sq s (4, r) with Some p => color_eqb (p_color p) c && ptype_eqb (p_type p) King | None => false end
  && match at_sq s (if kingside then 7 else 0, r) with
     | Some p => color_eqb (p_color p) c && ptype_eqb (p_type p) Rook | None => false end
  && (if kingside then empty s (5, r) && empty s (6, r)
      else empty s (3, r) && empty s (2, r) && empty s (1, r))
  && negb (attacked_by s (opp c) (4, r))
  && (if kingside then negb (attacked_by s (opp c) (5, r)) && negb (attacked_by s (opp c) (6, r))
      else negb (attacked_by s (opp c) (3, r)) && negb (attacked_by s (opp c) (2, r))).

Definition is_promo_piece (t : ptype) : bool :=
  match t with Knight | Bishop | Rook | Queen => true | _ => false end.

(* the move obeys the way its piece moves (Articles 3.2 - 3.8), king safety aside *)
Definition pseudo_legal (s : bstate) (m : fmove) : bool :=
  let a := m_from m in let b := m_to m in
  on_board a && on_board b && negb (sq_eqb a b) &&
  match at_sq s a with
  | None => false
  | Some p =>
    color_eqb (p_color p) (b_turn s) &&
    match at_sq s b with Some q => negb (color_eqb (p_color q) (b_turn s)) | None => true end &&
    match p_type p with
    | Pawn =>
      let c := p_color p in
      let df := fst b - fst a in let dr := snd b - snd a in
      ((* push *)
       ((df =? 0) && (dr =? forward c) && empty s b)
       || ((df =? 0) && (dr =? 2 * forward c) && (snd a =? pawn_start c)
           && empty s (fst a, snd a + forward c) && empty s b)
       (* capture *)
       || ((Z.abs df =? 1) && (dr =? forward c) && negb (empty s b))
       (* en passant *)
       || ((Z.abs df =? 1) && (dr =? forward c) && empty s b
           && match b_ep s with Some e => sq_eqb e b | None => false end))
      && (if snd b =? last_rank c
          then match m_promo m with Some t => is_promo_piece t | None => false end
          else match m_promo m with None => true | Some _ => false end)
    | Knight => knight_jump a b && match m_promo m with None => true | _ => false end
    | Bishop => slides s a b false true && match m_promo m with None => true | _ => false end
    | Rook => slides s a b true false && match m_promo m with None => true | _ => false end
    | Queen => slides s a b true true && match m_promo m with None => true | _ => false end
    | King =>
      match m_promo m with None => true | _ => false end &&
      (king_step a b
       || (sq_eqb a (4, home_rank (p_color p)) && sq_eqb b (6, home_rank (p_color p)) && castling_ok s (p_color p) true)
       || (sq_eqb a (4, home_rank (p_color p)) && sq_eqb b (2, home_rank (p_color p)) && castling_ok s (p_color p) false))
    end
  end.

(* the successor position *)
Definition is_castling_move (s : bstate) (m : fmove) : bool :=
  match at_sq s (m_from m) with
  | Some p => ptype_eqb (p_type p) King && (Z.abs (fst (m_to m) - fst (m_from m)) =? 2)
  | None => false
  end.
Definition is_ep_move (s : bstate) (m : fmove) : bool :=
  match at_sq s (m_from m) with
  | Some p => ptype_eqb (p_type p) Pawn && negb (fst (m_to m) =? fst (m_from m)) && empty s (m_to m)
  | None => false
  end.
Definition is_capture_move (s : bstate) (m : fmove) : bool :=
  negb (empty s (m_to m)) || is_ep_move s m.

Definition lose (r : rights) (q : square) : rights :=
  {| wk := wk r && negb (sq_eqb q (4, 0)) && negb (sq_eqb q (7, 0));
     wq := wq r && negb (sq_eqb q (4, 0)) && negb (sq_eqb q (0, 0));
     bk := bk r && negb (sq_eqb q (4, 7)) && negb (sq_eqb q (7, 7));
     bq := bq r && negb (sq_eqb q (4, 7)) && negb (sq_eqb q (0, 7)) |}.

Definition apply (s : bstate) (m : fmove) : bstate :=
  let a := m_from m in let b := m_to m in
  match at_sq s a with
  | None => s
  | Some p =>
    let c := p_color p in
    let is_pawn := ptype_eqb (p_type p) Pawn in
    let capture := is_capture_move s m in
    let bd := b_at s in
    (* en-passant victim *)
    let bd := if is_ep_move s m then put bd (fst b, snd a) None else bd in
    (* the piece itself, possibly promoted *)
    let placed := match m_promo m with Some t => {| p_color := c; p_type := t |} | None => p end in
    let bd := put (put bd a None) b (Some placed) in
    (* castling rook *)
    let bd := if is_castling_move s m then
                if fst b =? 6 then put (put bd (7, snd a) None) (5, snd a) (Some {| p_color := c; p_type := Rook |})
                else put (put bd (0, snd a) None) (3, snd a) (Some {| p_color := c; p_type := Rook |})
              else bd in
    {| b_at := bd;
       b_turn := opp c;
       b_rights := lose (lose (b_rights s) a) b;
       b_ep := if is_pawn && (Z.abs (snd b - snd a) =? 2) then Some (fst a, snd a + forward c) else None;
       b_hmc := if is_pawn || capture then 0 else b_hmc s + 1;
       b_full := match c with Black => b_full s + 1 | White => b_full s end |}
  end.

(* Article 3.9: a move is legal iff it is pseudo-legal and does not leave the mover's king attacked *)
Definition legal (s : bstate) (m : fmove) : bool :=
  pseudo_legal s m && negb (in_check (apply s m) (b_turn s)).

(* enumeration of candidates: from every square to every square, without and with each promotion piece *)
Definition promo_options : list (option ptype) := [None; Some Knight; Some Bishop; Some Rook; Some Queen].
Definition candidates : list fmove :=
  flat_map (fun a => flat_map (fun b => map (fun pr => {| m_from := a; m_to := b; m_promo := pr |}) promo_options)
                              all_squares) all_squares.
Definition legal_moves (s : bstate) : list fmove := filter (legal s) candidates.

(* faster enumeration used when executing (same list, proved equal in Rules/FideFacts.v):
   only squares holding a piece of the side to move are tried as origins *)
Definition legal_moves_fast (s : bstate) : list fmove :=
  flat_map (fun a =>
    match at_sq s a with
    | Some p =>
      if color_eqb (p_color p) (b_turn s) then
        flat_map (fun b => filter (legal s) (map (fun pr => {| m_from := a; m_to := b; m_promo := pr |}) promo_options))
                 all_squares
      else []
    | None => []
    end) all_squares.

Fixpoint perft (d : nat) (s : bstate) : Z :=
  match d with
  | O => 1
  | S d' => fold_left (fun acc m => acc + perft d' (apply s m)) (legal_moves_fast s) 0
  end.

Definition checkmate (s : bstate) : bool := in_check s (b_turn s) && match legal_moves_fast s with [] => true | _ => false end.
Definition stalemate (s : bstate) : bool := negb (in_check s (b_turn s)) && match legal_moves_fast s with [] => true | _ => false end.

(* the standard initial position *)
Definition back_rank (c : color) : list (option piece) :=
  map (fun t => Some {| p_color := c; p_type := t |}) [Rook; Knight; Bishop; Queen; King; Bishop; Knight; Rook].
Definition initial : bstate :=
  {| b_at := back_rank White ++ repeat (Some {| p_color := White; p_type := Pawn |}) 8 ++ repeat None 32
             ++ repeat (Some {| p_color := Black; p_type := Pawn |}) 8 ++ back_rank Black;
     b_turn := White; b_rights := {| wk := true; wq := true; bk := true; bq := true |};
     b_ep := None; b_hmc := 0; b_full := 1 |}.
