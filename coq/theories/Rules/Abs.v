(* The abstraction from the engine's position value (Pos/Position.v) to the board state of the
   FIDE specification (Rules/Fide.v), and from the engine's 32-bit move word to the specification's
   move. The abstraction reads ONLY the square array and the scalar fields: the twelve bitboards, the
   occupancy sets and the hash are redundant views (property C10 says they agree with the array).
   Definitions only, no proofs. Executable (used by the oracles through extraction). *)
From Coq Require Import NArith ZArith List Bool.
From Clemens Require Import Base.Res Base.Word Pos.Types Pos.Position Rules.Fide.
Import ListNotations.
Open Scope N_scope.

(* piece codes: 0 none; 1..6 white pawn, knight, bishop, rook, queen, king; 9..14 black *)
Definition abs_ptype (t : N) : ptype :=
  match t with
  | 0 => Pawn | 1 => Knight | 2 => Bishop | 3 => Rook | 4 => Queen | _ => King
  end.
Definition abs_piece (pc : N) : option piece :=
  if ((1 <=? pc) && (pc <=? 6)) then Some {| p_color := White; p_type := abs_ptype (pc - 1) |}
  else if ((9 <=? pc) && (pc <=? 14)) then Some {| p_color := Black; p_type := abs_ptype (pc - 9) |}
  else None.

Definition abs_color (c : N) : color := if c =? WHITE then White else Black.

(* square s = rank*8 + file  |->  (file, rank) *)
Definition abs_sq (s : N) : square := (Z.of_N (file_of s), Z.of_N (rank_of s)).

Definition abs_rights (cs : N) : rights :=
  {| wk := N.testbit cs 0; wq := N.testbit cs 1; bk := N.testbit cs 2; bq := N.testbit cs 3 |}.

Definition abs (p : position) : bstate :=
  {| b_at := map abs_piece (board p);
     b_turn := abs_color (side p);
     b_rights := abs_rights (castling p);
     b_ep := if ep p =? SQ_NONE then None else Some (abs_sq (ep p));
     b_hmc := Z.of_N (hmc p);
     (* ToFen prints Ply/2 + 1 *)
     b_full := Z.of_N (ply p / 2 + 1) |}.

(* the specification's move for an engine move word: squares, and the promotion piece iff the kind is
   PROMOTION. Castling and en passant carry no mark in the specification's move (as in UCI notation):
   the specification recognises them from the board. *)
Definition decode (m : N) : fmove :=
  {| m_from := abs_sq (mv_src m);
     m_to := abs_sq (mv_dst m);
     m_promo := if mv_kind m =? PROMOTION then Some (abs_ptype (mv_promo m)) else None |}.

(* the engine square of a specification square (inverse of abs_sq on the board) *)
Definition conc_sq (q : square) : N := Z.to_N (snd q * 8 + fst q).
