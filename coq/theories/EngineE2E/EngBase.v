(* Whole-engine theorems, part 1: vocabulary, the unfolding of [go_handle] and of a `go`,
   goal 1: the engine function never hits a bound of the model ([EStuck]) - except, and that is a
   finding, for `go depth 255` - and does not depend on the bounds once they suffice. *)
From Coq Require Import NArith ZArith List Bool Lia.
From Clemens Require Import Base.Res Base.Word Base.Bytes Pos.Types Pos.Position Eval.Eval
     Search.TT Search.Ordering Search.Negamax Search.SearchStruct Search.SearchLines Search.SearchIter
     Search.GoInst Search.SearchGo Search.Time
     Uci.ParseGo Uci.ParseGoProofs Uci.Input Uci.InputProofs Uci.GoLineSpec Uci.Game Uci.Engine Uci.EngineInst.
From Clemens.C05Term Require Import Mono GoTerm.
From ClemensGen Require Import GoConsts.
Import ListNotations.
Open Scope list_scope.

Notation V := validFirstInputToken.

(* ------------------------------------------------------------------ the parts of [go_handle] *)
Definition go_new_position_e : engine -> list bytes -> eres :=
  Engine.new_position go_keys go_sconsts unicode_digit_tbl.
Definition go_start_search (iters fuel : nat) : engine -> list token -> option N -> eres :=
  start_search go_keys go_econsts go_oconsts go_sconsts maxTimeInMs iters fuel.

(* the engine after `ucinewgame` *)
Definition newgame (e : engine) : engine :=
  {| en_state := ST_IDLE; en_game := None; en_tt := en_tt e; en_cache := en_cache e |}.

Lemma go_handle_eq : forall iters fuel e line c,
  go_handle iters fuel e line c =
  match handle_line V line with
  | CUci => EOk e [OUci]
  | CQuit => EQuit
  | CIsReady => EOk e [OReadyOk]
  | CNewGame => EOk (newgame e) []
  | CPosition ts => go_new_position_e e ts
  | CGo ts => go_start_search iters fuel e ts c
  | CStop => EOk e []
  | CNone => EOk e []
  end.
Proof. reflexivity. Qed.

(* ------------------------------------------------------------------ a `go`, unfolded *)
(* the `info string calculated timeout` line: absent for an infinite search *)
Definition timeout_line (g : game_pos) (sp : search_params) : list oev :=
  if sp_infinite sp then []
  else [OTimeout (calc_time maxTimeInMs (side (g_pos g) =? BLACK)%N (Z.of_nat (List.length (g_hist g)))
                            (to_go_params sp))].

(* what a `go` prints before the search starts *)
Definition go_pre (g : game_pos) (sp : search_params) (evs : list event) : list oev :=
  map OGo evs ++ timeout_line g sp.

(* the search state a `go` starts from: the shared tables of the engine, the game's repetition
   stack (newest first), everything else empty *)
Definition go_sst (e : engine) (g : game_pos) (c : option N) : sst :=
  go_init_sst (en_tt e) (en_cache e) (rev (g_hist g)) c.

(* the engine after a search that ended in state [s'] *)
Definition after_search (g : game_pos) (s' : sst) : engine :=
  {| en_state := ST_IDLE; en_game := Some g; en_tt := s_tt s'; en_cache := s_cache s' |}.

Definition accepts_go (e : engine) : Prop := en_state e = ST_POSITION_SET /\ en_game e <> None.

Lemma start_search_refused : forall iters fuel e ts c,
  ~ accepts_go e -> go_start_search iters fuel e ts c = EOk e [ONoPosition].
Proof.
  intros iters fuel e ts c H. unfold go_start_search, start_search.
  destruct (en_game e) as [g|] eqn:Eg; [|reflexivity].
  destruct (N.eqb_spec (en_state e) ST_POSITION_SET) as [E|E]; [|reflexivity].
  exfalso. apply H. split; [exact E|rewrite Eg; discriminate].
Qed.

Lemma start_search_accepted : forall iters fuel e ts c g sp evs,
  en_state e = ST_POSITION_SET -> en_game e = Some g -> parse_go ts = Ok (sp, evs) ->
  go_start_search iters fuel e ts c =
  match go_search iters fuel true (go_sst e g c) (g_pos g) (Z.to_N (sp_depth sp)) with
  | (ROk m, s') => EOk (after_search g s') (go_pre g sp evs ++ map OSearch (rev (s_out s')) ++ [OBestMove m])
  | (RPanic, s') => EPanic (go_pre g sp evs ++ map OSearch (rev (s_out s')))
  | (_, _) => EStuck
  end.
Proof.
  intros iters fuel e ts c g sp evs Es Eg Ep. unfold go_start_search, start_search.
  rewrite Eg, Es, Ep. cbn [N.eqb negb ST_POSITION_SET Pos.eqb]. rewrite rev_length. reflexivity.
Qed.

(* ------------------------------------------------------------------ parseGo: Depth is a uint8 *)
Definition depth_u8 (sp : search_params) : Prop := (0 <= sp_depth sp <= 255)%Z.

Lemma u8_range : forall d, (0 <= u8 d <= 255)%Z.
Proof. intro d. unfold u8. pose proof (Z.mod_pos_bound d 256 eq_refl). lia. Qed.

Lemma int_case_depth : forall k on_err on_ok ack tokens sp evs fl,
  (forall n sp0, depth_u8 sp0 -> depth_u8 (on_err n sp0)) ->
  (forall n sp0, depth_u8 sp0 -> depth_u8 (on_ok n sp0)) ->
  depth_u8 sp ->
  int_case k on_err on_ok ack tokens sp evs = Ok fl ->
  match fl with Continue _ sp' _ => depth_u8 sp' | Return sp' _ => depth_u8 sp' end.
Proof.
  intros k on_err on_ok ack tokens sp evs fl He Ho Hd H. unfold int_case in H.
  destruct tokens as [|v tokens']; cbn [is_empty index0 slice1 bind] in H.
  - inversion H; subst. exact Hd.
  - destruct (atoi v) as [n [er|]]; inversion H; subst; auto.
Qed.

Lemma step_depth : forall rep tokens sp evs fl,
  depth_u8 sp -> step rep tokens sp evs = Ok fl ->
  match fl with Continue _ sp' _ => depth_u8 sp' | Return sp' _ => depth_u8 sp' end.
Proof.
  intros rep tokens sp evs fl Hd H. unfold step in H.
  destruct tokens as [|t tokens']; cbn [index0 slice1 bind] in H; [discriminate|].
  assert (Hset : forall f : Z -> search_params -> search_params,
            (forall n sp0, sp_depth (f n sp0) = sp_depth sp0) -> forall n sp0, depth_u8 sp0 -> depth_u8 (f n sp0)).
  { intros f Hf n sp0 H0. unfold depth_u8. rewrite Hf. exact H0. }
  assert (Hkeep : forall n sp0, depth_u8 sp0 -> depth_u8 (keep n sp0)) by (intros; assumption).
  assert (Hdep : forall n sp0, depth_u8 sp0 -> depth_u8 (set_depth (u8 n) sp0)).
  { intros n sp0 _. unfold depth_u8. cbn [set_depth sp_depth]. apply u8_range. }
  repeat match type of H with
  | (if ?b then _ else _) = _ => destruct b
  end;
  try (eapply int_case_depth in H; [exact H| | |exact Hd]; auto; apply Hset; reflexivity);
  try (inversion H; subst; exact Hd).
  - destruct tokens'; cbn [slice1 bind] in H; inversion H; subst; exact Hd.
Qed.

Lemma go_loop_depth : forall rep fuel tokens sp evs sp' evs',
  depth_u8 sp -> go_loop rep fuel tokens sp evs = Ok (sp', evs') -> depth_u8 sp'.
Proof.
  intros rep fuel. induction fuel as [|f IH]; intros tokens sp evs sp' evs' Hd H; cbn [go_loop] in H.
  - destruct (is_empty tokens); [inversion H; subst; exact Hd|discriminate].
  - destruct (is_empty tokens); [inversion H; subst; exact Hd|].
    destruct (step rep tokens sp evs) as [[t1 s1 e1|s1 e1]| |] eqn:Es; try discriminate.
    + apply (step_depth rep tokens sp evs _ Hd) in Es. cbv beta iota in Es. eapply IH; eauto.
    + apply (step_depth rep tokens sp evs _ Hd) in Es. cbv beta iota in Es. inversion H; subst. exact Es.
Qed.

Theorem parse_go_depth : forall ts sp evs, parse_go ts = Ok (sp, evs) -> (0 <= sp_depth sp <= 255)%Z.
Proof.
  intros ts sp evs H. unfold parse_go, parse_go_gen in H.
  eapply go_loop_depth; [|exact H].
  destruct (is_empty ts); unfold depth_u8; cbn; lia.
Qed.

(* ------------------------------------------------------------------ Search never returns the cancellation error *)
Lemma go_search_not_cancel : forall iters fuel rep s root req s',
  go_search iters fuel rep s root req <> (RCancel, s').
Proof.
  intros iters fuel rep s root req s'. unfold go_search, search.
  match goal with |- context [search_iterative ?K ?EC ?OC ?SC ?i ?f ?r ?s ?ro ?md ?d ?a ?b] =>
    pose proof (iter_not_cancel K EC OC SC i f r s ro md d a b) as H1;
    destruct (search_iterative K EC OC SC i f r s ro md d a b) as [[[]| | |] s1] end;
    try discriminate.
  - destruct (best_move s1 =? NULL_MOVE)%N; [|discriminate].
    match goal with |- context [search_iterative ?K ?EC ?OC ?SC ?i ?f ?r ?s ?ro ?md ?d ?a ?b] =>
      pose proof (iter_not_cancel K EC OC SC i f r s ro md d a b) as H2;
      destruct (search_iterative K EC OC SC i f r s ro md d a b) as [[[]| | |] s2] end;
      try discriminate.
    intro E. apply (H2 s2). reflexivity.
  - exfalso. apply (H1 s1). reflexivity.
Qed.

(* ------------------------------------------------------------------ goal 1 *)
(* the requested depth of a line, if the line is a `go` *)
Definition go_depth_of (line : bytes) : option Z :=
  match handle_line V line with
  | CGo ts => match parse_go ts with Ok (sp, _) => Some (sp_depth sp) | _ => None end
  | _ => None
  end.

(* [depth_below_255 line]: the line is not a `go` whose depth parameter is 255 modulo 256 *)
Definition depth_below_255 (line : bytes) : Prop := go_depth_of line <> Some 255%Z.

Lemma start_search_not_stuck : forall iters fuel e ts c,
  (510 <= iters)%nat -> (1282 <= fuel)%nat ->
  (forall sp evs, parse_go ts = Ok (sp, evs) -> sp_depth sp <> 255%Z) ->
  go_start_search iters fuel e ts c <> EStuck.
Proof.
  intros iters fuel e ts c Hi Hf Hd.
  destruct (en_game e) as [g|] eqn:Eg.
  2:{ rewrite start_search_refused; [discriminate|]. intros [_ H]. contradiction. }
  destruct (N.eq_dec (en_state e) ST_POSITION_SET) as [Es|Es].
  2:{ rewrite start_search_refused; [discriminate|]. intros [H _]. contradiction. }
  destruct (parse_go_returns ts) as [[sp evs] Ep].
  rewrite (start_search_accepted iters fuel e ts c g sp evs Es Eg Ep).
  pose proof (parse_go_depth ts sp evs Ep) as Hr. specialize (Hd sp evs Ep).
  assert (Hreq : (Z.to_N (sp_depth sp) < 255)%N) by lia.
  pose proof (go_search_terminates iters fuel (go_sst e g c) (g_pos g) _ Hreq Hi Hf) as HT.
  pose proof (go_search_not_cancel iters fuel true (go_sst e g c) (g_pos g) (Z.to_N (sp_depth sp))) as HC.
  destruct (go_search iters fuel true (go_sst e g c) (g_pos g) (Z.to_N (sp_depth sp))) as [[m| | |] s'];
    cbn [fst] in HT; try discriminate.
  - exfalso. apply (HC s'). reflexivity.
  - contradiction.
Qed.

Theorem handle_never_stuck : forall iters fuel e line c,
  (510 <= iters)%nat -> (1282 <= fuel)%nat -> depth_below_255 line ->
  go_handle iters fuel e line c <> EStuck.
Proof.
  intros iters fuel e line c Hi Hf Hd. rewrite go_handle_eq.
  unfold depth_below_255, go_depth_of in Hd.
  destruct (handle_line V line) as [| | | |ts|ts| |] eqn:El; try discriminate.
  - unfold go_new_position_e, Engine.new_position.
    destruct (en_state e =? ST_RUNNING)%N; [discriminate|].
    destruct ts as [|t ts']; [discriminate|].
    destruct (new_position_cmd go_keys unicode_digit_tbl (sc_hist_size go_sconsts) (t :: ts')); try discriminate.
    destruct (_ && _); discriminate.
  - apply start_search_not_stuck; try assumption.
    intros sp evs Ep E. rewrite Ep in Hd. apply Hd. rewrite E. reflexivity.
Qed.

(* the bounds are irrelevant once they suffice: "the" engine function is well defined *)
Lemma start_search_bounds_irrelevant : forall it1 f1 it2 f2 e ts c,
  (510 <= it1)%nat -> (1282 <= f1)%nat -> (510 <= it2)%nat -> (1282 <= f2)%nat ->
  (forall sp evs, parse_go ts = Ok (sp, evs) -> sp_depth sp <> 255%Z) ->
  go_start_search it1 f1 e ts c = go_start_search it2 f2 e ts c.
Proof.
  intros it1 f1 it2 f2 e ts c Hi1 Hf1 Hi2 Hf2 Hd.
  destruct (en_game e) as [g|] eqn:Eg.
  2:{ rewrite !start_search_refused; [reflexivity| |]; intros [_ H]; contradiction. }
  destruct (N.eq_dec (en_state e) ST_POSITION_SET) as [Es|Es].
  2:{ rewrite !start_search_refused; [reflexivity| |]; intros [H _]; contradiction. }
  destruct (parse_go_returns ts) as [[sp evs] Ep].
  rewrite !(start_search_accepted _ _ e ts c g sp evs Es Eg Ep).
  pose proof (parse_go_depth ts sp evs Ep) as Hr. specialize (Hd sp evs Ep).
  assert (Hreq : (Z.to_N (sp_depth sp) < 255)%N) by lia.
  destruct (go_search_total (go_sst e g c) (g_pos g) _ Hreq) as (r & s' & _ & Hall).
  rewrite (Hall it1 f1 Hi1 Hf1), (Hall it2 f2 Hi2 Hf2). reflexivity.
Qed.

Theorem handle_bounds_irrelevant : forall it1 f1 it2 f2 e line c,
  (510 <= it1)%nat -> (1282 <= f1)%nat -> (510 <= it2)%nat -> (1282 <= f2)%nat ->
  depth_below_255 line ->
  go_handle it1 f1 e line c = go_handle it2 f2 e line c.
Proof.
  intros it1 f1 it2 f2 e line c Hi1 Hf1 Hi2 Hf2 Hd. rewrite !go_handle_eq.
  unfold depth_below_255, go_depth_of in Hd.
  destruct (handle_line V line) as [| | | |ts|ts| |] eqn:El; try reflexivity.
  apply start_search_bounds_irrelevant; try assumption.
  intros sp evs Ep E. rewrite Ep in Hd. apply Hd. rewrite E. reflexivity.
Qed.

(* only a `go` consults the bounds at all *)
Theorem handle_bounds_only_go : forall it1 f1 it2 f2 e line c,
  (forall ts, handle_line V line <> CGo ts) ->
  go_handle it1 f1 e line c = go_handle it2 f2 e line c.
Proof.
  intros it1 f1 it2 f2 e line c H. rewrite !go_handle_eq.
  destruct (handle_line V line) as [| | | |ts|ts| |] eqn:El; try reflexivity.
  exfalso. exact (H ts eq_refl).
Qed.

(* ------------------------------------------------------------------ `go depth 255`: the loop never ends *)
(* SearchIterative compares the uint8 depth counter with the maximal depth by [>]: with a maximal depth of
   255 the test never succeeds (the counter wraps from 255 to 0), so the loop ends only by a cancelled root
   search - or a panic.  Without a poll that reports done the model runs out of ANY bound. *)
Lemma iter_255_never_returns : forall iters fuel rep s root d a b,
  s_cancel s = None -> (d <= 255)%N ->
  fst (go_search_iterative iters fuel rep s root 255 d a b) = RPanic \/
  fst (go_search_iterative iters fuel rep s root 255 d a b) = ROutOfFuel.
Proof.
  unfold go_search_iterative.
  induction iters as [|it IH]; intros fuel rep s root d a b Hc Hd; cbn [search_iterative]; [right; reflexivity|].
  destruct (N.ltb_spec 255 d) as [Hlt|_]; [lia|].
  pose proof (search_root_frame go_keys go_econsts go_oconsts go_sconsts fuel s root d a b) as Hfr.
  pose proof (root_not_cancel go_keys go_econsts go_oconsts go_sconsts fuel s root d a b) as Hnc.
  destruct (search_root go_keys go_econsts go_oconsts go_sconsts fuel s root d a b) as [[[score line]| | |] s0];
    cbn [fst]; auto.
  - specialize (Hfr _ _ eq_refl). destruct Hfr as [_ F2 _ _ _].
    assert (Hw : (w8 (d + 1) <= 255)%N).
    { unfold w8. pose proof (N.mod_upper_bound (d + 1) 256 ltac:(discriminate)). lia. }
    match goal with |- context [if ?c then _ else _] => destruct c end; apply IH; projs; try congruence; lia.
  - exfalso. apply (Hnc s0 Hc). reflexivity.
Qed.

Lemma search_255_never_returns : forall iters fuel rep s root,
  s_cancel s = None ->
  fst (go_search iters fuel rep s root 255) = RPanic \/ fst (go_search iters fuel rep s root 255) = ROutOfFuel.
Proof.
  intros iters fuel rep s root Hc. unfold go_search, search. cbn [N.ltb N.compare Pos.compare].
  pose proof (iter_255_never_returns iters fuel rep s root 1 (- INF go_econsts)%Z (INF go_econsts) Hc ltac:(lia)) as H.
  unfold go_search_iterative in H.
  change (if (0 <? 255)%N then 255%N else sc_max_depth go_sconsts) with 255%N.
  destruct (search_iterative go_keys go_econsts go_oconsts go_sconsts iters fuel rep s root 255 1
              (- INF go_econsts)%Z (INF go_econsts)) as [[[]| | |] s1]; cbn [fst] in *;
    destruct H as [H|H]; try discriminate; auto.
Qed.

(* for ALL bounds: an accepted `go depth 255` under an oracle that never reports done gives no answer *)
Theorem go_depth_255_no_answer : forall iters fuel e line,
  accepts_go e -> go_depth_of line = Some 255%Z ->
  go_handle iters fuel e line None = EStuck \/ exists out, go_handle iters fuel e line None = EPanic out.
Proof.
  intros iters fuel e line [Es Hg] Hd. rewrite go_handle_eq. unfold go_depth_of in Hd.
  destruct (handle_line V line) as [| | | |ts|ts| |]; try discriminate.
  destruct (parse_go ts) as [[sp evs]| |] eqn:Ep; try discriminate.
  destruct (en_game e) as [g|] eqn:Eg; [|contradiction].
  rewrite (start_search_accepted iters fuel e ts None g sp evs Es Eg Ep).
  injection Hd as Hd. rewrite Hd. change (Z.to_N 255) with 255%N.
  pose proof (search_255_never_returns iters fuel true (go_sst e g None) (g_pos g) eq_refl) as H.
  destruct (go_search iters fuel true (go_sst e g None) (g_pos g) 255) as [[m| | |] s']; cbn [fst] in H;
    destruct H as [H|H]; try discriminate; eauto.
Qed.

Print Assumptions parse_go_depth.
Print Assumptions handle_never_stuck.
Print Assumptions handle_bounds_irrelevant.
Print Assumptions handle_bounds_only_go.
Print Assumptions go_depth_255_no_answer.
