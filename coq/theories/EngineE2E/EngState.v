(* Whole-engine theorems, part 3 (goal 3): the state machine IDLE / POSITION_SET, refused and accepted
   `go` lines, the shape of a go's output block, the tables change only in `go`, and the count of
   `bestmove` lines in a session. *)
From Coq Require Import NArith ZArith List Bool Lia.
From Clemens Require Import Base.Res Base.Bytes Pos.Types Pos.Position Search.Negamax Search.GoInst
     Uci.ParseGo Uci.ParseGoProofs Uci.Input Uci.InputProofs Uci.GoLineSpec Uci.Game Uci.Engine Uci.EngineInst.
From ClemensGen Require Import GoConsts.
From Clemens.EngineE2E Require Import EngBase.
Import ListNotations.
Open Scope list_scope.

(* ------------------------------------------------------------------ the state *)
Definition state_ok (e : engine) : Prop := en_state e = ST_IDLE \/ en_state e = ST_POSITION_SET.

Lemma state_ok_not_running : forall e, state_ok e -> en_state e <> ST_RUNNING.
Proof. intros e [H|H]; rewrite H; discriminate. Qed.

Lemma engine_init_state_ok : state_ok go_engine_init.
Proof. left. reflexivity. Qed.

(* what `position` does to the engine: it may set state and game, never the tables *)
Lemma new_position_e_spec : forall e ts e' out,
  go_new_position_e e ts = EOk e' out ->
  en_tt e' = en_tt e /\ en_cache e' = en_cache e /\
  (e' = e \/ (en_state e <> ST_RUNNING /\ en_state e' = ST_POSITION_SET /\ en_game e' <> None)).
Proof.
  intros e ts e' out H. unfold go_new_position_e, Engine.new_position in H.
  destruct (N.eqb_spec (en_state e) ST_RUNNING) as [Er|Er]; [inversion H; subst; auto|].
  destruct ts as [|t ts']; [inversion H; subst; auto|].
  destruct (new_position_cmd go_keys unicode_digit_tbl (sc_hist_size go_sconsts) (t :: ts')) as [b|g|g|];
    try discriminate.
  - destruct (_ && _); inversion H; subst; auto.
  - inversion H; subst. cbn. repeat split; auto. right. repeat split; auto. discriminate.
  - inversion H; subst. cbn. repeat split; auto. right. repeat split; auto. discriminate.
Qed.

(* ------------------------------------------------------------------ the output block of a `go` *)
Definition is_best (o : oev) : bool := match o with OBestMove _ => true | _ => false end.
Definition count_best (out : list oev) : nat := List.length (filter is_best out).

(* what parseGo printed, at most one timeout line, the info lines of the search, one bestmove - last *)
Definition go_block (out : list oev) (m : N) : Prop :=
  exists (evs : list event) (tmo : list oev) (infos : list sevent),
    out = map OGo evs ++ tmo ++ map OSearch infos ++ [OBestMove m] /\
    (tmo = [] \/ exists t, tmo = [OTimeout t]).

Lemma count_best_app : forall a b, count_best (a ++ b) = (count_best a + count_best b)%nat.
Proof. intros. unfold count_best. rewrite filter_app, app_length. reflexivity. Qed.

Lemma count_best_map : forall A (f : A -> oev) l, (forall x, is_best (f x) = false) -> count_best (map f l) = 0%nat.
Proof.
  intros A f l H. unfold count_best. induction l as [|x l IH]; [reflexivity|]. cbn [map filter]. rewrite H. exact IH.
Qed.

Lemma timeout_line_shape : forall g sp, timeout_line g sp = [] \/ exists t, timeout_line g sp = [OTimeout t].
Proof. intros. unfold timeout_line. destruct (sp_infinite sp); [left; reflexivity|right; eexists; reflexivity]. Qed.

Lemma timeout_line_no_best : forall g sp, count_best (timeout_line g sp) = 0%nat.
Proof. intros. unfold timeout_line. destruct (sp_infinite sp); reflexivity. Qed.

Lemma go_block_one_best : forall out m, go_block out m ->
  count_best out = 1%nat /\ last out OReadyOk = OBestMove m.
Proof.
  intros out m (evs & tmo & infos & -> & Ht). split.
  - rewrite !count_best_app, !count_best_map by reflexivity.
    destruct Ht as [->|[t ->]]; reflexivity.
  - rewrite !app_assoc. apply last_last.
Qed.

(* ------------------------------------------------------------------ a `go` line *)
Definition is_go_line (line : bytes) : bool :=
  match handle_line V line with CGo _ => true | _ => false end.
Definition accepts_go_b (e : engine) : bool :=
  (en_state e =? ST_POSITION_SET)%N && match en_game e with Some _ => true | None => false end.

Lemma accepts_go_b_spec : forall e, accepts_go_b e = true <-> accepts_go e.
Proof.
  intro e. unfold accepts_go_b, accepts_go. rewrite andb_true_iff, N.eqb_eq.
  destruct (en_game e); intuition (discriminate || congruence).
Qed.

(* refused: not in state POSITION_SET, or no game: one line, nothing changes *)
Theorem go_refused : forall iters fuel e line c,
  is_go_line line = true -> ~ accepts_go e ->
  go_handle iters fuel e line c = EOk e [ONoPosition].
Proof.
  intros iters fuel e line c Hl Ha. rewrite go_handle_eq. unfold is_go_line in Hl.
  destruct (handle_line V line); try discriminate. apply start_search_refused. exact Ha.
Qed.

(* accepted: IDLE afterwards, the same game, the tables those the search left, one block of output *)
Theorem go_accepted : forall iters fuel e line c e' out,
  is_go_line line = true -> accepts_go e ->
  go_handle iters fuel e line c = EOk e' out ->
  en_state e' = ST_IDLE /\ en_game e' = en_game e /\ exists m, go_block out m.
Proof.
  intros iters fuel e line c e' out Hl [Es Hg] H. rewrite go_handle_eq in H. unfold is_go_line in Hl.
  destruct (handle_line V line) as [| | | |ts|ts| |]; try discriminate.
  destruct (en_game e) as [g|] eqn:Eg; [|contradiction].
  destruct (parse_go_returns ts) as [[sp evs] Ep].
  rewrite (start_search_accepted iters fuel e ts c g sp evs Es Eg Ep) in H.
  destruct (go_search iters fuel true (go_sst e g c) (g_pos g) (Z.to_N (sp_depth sp))) as [[m| | |] s'];
    try discriminate.
  inversion H; subst. cbn [after_search en_state en_game]. repeat split.
  exists m, evs, (timeout_line g sp), (rev (s_out s')). split.
  - unfold go_pre. rewrite <- app_assoc. reflexivity.
  - apply timeout_line_shape.
Qed.

(* an accepted `go` that does not return: the process died with a panic after printing the lines
   before the bestmove, or (never, see [handle_never_stuck]) the model hit a bound *)
Theorem go_accepted_crash : forall iters fuel e line c out,
  is_go_line line = true -> accepts_go e ->
  go_handle iters fuel e line c = EPanic out -> count_best out = 0%nat.
Proof.
  intros iters fuel e line c out Hl [Es Hg] H. rewrite go_handle_eq in H. unfold is_go_line in Hl.
  destruct (handle_line V line) as [| | | |ts|ts| |]; try discriminate.
  destruct (en_game e) as [g|] eqn:Eg; [|contradiction].
  destruct (parse_go_returns ts) as [[sp evs] Ep].
  rewrite (start_search_accepted iters fuel e ts c g sp evs Es Eg Ep) in H.
  destruct (go_search iters fuel true (go_sst e g c) (g_pos g) (Z.to_N (sp_depth sp))) as [[m| | |] s'];
    try discriminate.
  inversion H; subst. unfold go_pre.
  rewrite !count_best_app, !count_best_map, timeout_line_no_best by reflexivity. reflexivity.
Qed.

(* ------------------------------------------------------------------ every other line *)
Theorem other_line : forall iters fuel e line c e' out,
  is_go_line line = false ->
  go_handle iters fuel e line c = EOk e' out ->
  en_tt e' = en_tt e /\ en_cache e' = en_cache e /\ count_best out = 0%nat /\
  (state_ok e -> state_ok e').
Proof.
  intros iters fuel e line c e' out Hl H. rewrite go_handle_eq in H. unfold is_go_line in Hl.
  destruct (handle_line V line) as [| | | |ts|ts| |]; try discriminate;
    try (inversion H; subst; cbn; repeat split; auto; fail).
  - inversion H; subst. cbn. repeat split; auto. intros _. left. reflexivity.
  - pose proof (new_position_e_spec e ts e' out H) as (Ht & Hc & Hs).
    repeat split; auto.
    + unfold go_new_position_e, Engine.new_position in H.
      destruct (en_state e =? ST_RUNNING)%N; [inversion H; reflexivity|].
      destruct ts as [|t ts']; [inversion H; reflexivity|].
      destruct (new_position_cmd go_keys unicode_digit_tbl (sc_hist_size go_sconsts) (t :: ts')); try discriminate;
        try (inversion H; reflexivity).
      destruct (_ && _); inversion H; reflexivity.
    + intros Hok. destruct Hs as [->|(_ & Hs & _)]; [exact Hok|right; exact Hs].
Qed.

(* ------------------------------------------------------------------ the state machine *)
Theorem handle_state_ok : forall iters fuel e line c e' out,
  state_ok e -> go_handle iters fuel e line c = EOk e' out -> state_ok e'.
Proof.
  intros iters fuel e line c e' out Hok H.
  destruct (is_go_line line) eqn:Hl.
  - destruct (accepts_go_b e) eqn:Ha.
    + apply accepts_go_b_spec in Ha.
      destruct (go_accepted iters fuel e line c e' out Hl Ha H) as (Hs & _). left. exact Hs.
    + assert (Hn : ~ accepts_go e) by (rewrite <- accepts_go_b_spec; congruence).
      rewrite (go_refused iters fuel e line c Hl Hn) in H. inversion H; subst. exact Hok.
  - exact (proj2 (proj2 (proj2 (other_line iters fuel e line c e' out Hl H))) Hok).
Qed.

Corollary handle_never_running : forall iters fuel e line c e' out,
  en_state e <> ST_RUNNING -> state_ok e -> go_handle iters fuel e line c = EOk e' out -> en_state e' <> ST_RUNNING.
Proof. intros. eapply state_ok_not_running, handle_state_ok; eauto. Qed.

(* the tables change only in an accepted `go` *)
Theorem tables_change_only_in_go : forall iters fuel e line c e' out,
  go_handle iters fuel e line c = EOk e' out ->
  (en_tt e' <> en_tt e \/ en_cache e' <> en_cache e) -> is_go_line line = true /\ accepts_go e.
Proof.
  intros iters fuel e line c e' out H Hne.
  destruct (is_go_line line) eqn:Hl.
  - split; [reflexivity|]. apply accepts_go_b_spec. destruct (accepts_go_b e) eqn:Ha; [reflexivity|].
    assert (Hn : ~ accepts_go e) by (rewrite <- accepts_go_b_spec; congruence).
    rewrite (go_refused iters fuel e line c Hl Hn) in H. inversion H; subst. destruct Hne; congruence.
  - destruct (other_line iters fuel e line c e' out Hl H) as (Ht & Hc & _). destruct Hne; congruence.
Qed.

(* one line: exactly one bestmove iff it is an accepted go *)
Theorem handle_best_count : forall iters fuel e line c e' out,
  go_handle iters fuel e line c = EOk e' out ->
  count_best out = if is_go_line line && accepts_go_b e then 1%nat else 0%nat.
Proof.
  intros iters fuel e line c e' out H.
  destruct (is_go_line line) eqn:Hl; cbn [andb].
  - destruct (accepts_go_b e) eqn:Ha.
    + apply accepts_go_b_spec in Ha.
      destruct (go_accepted iters fuel e line c e' out Hl Ha H) as (_ & _ & m & Hb).
      exact (proj1 (go_block_one_best out m Hb)).
    + assert (Hn : ~ accepts_go e) by (rewrite <- accepts_go_b_spec; congruence).
      rewrite (go_refused iters fuel e line c Hl Hn) in H. inversion H; subst. reflexivity.
  - exact (proj1 (proj2 (proj2 (other_line iters fuel e line c e' out Hl H)))).
Qed.

(* ------------------------------------------------------------------ sessions *)
(* the `go` lines of a session that were accepted and answered (the engine returned to the read loop) *)
Fixpoint answered_gos (iters fuel : nat) (e : engine) (ls : list (bytes * option N)) : nat :=
  match ls with
  | [] => 0
  | (l, c) :: r =>
    match go_handle iters fuel e l c with
    | EOk e' _ => ((if is_go_line l && accepts_go_b e then 1 else 0) + answered_gos iters fuel e' r)%nat
    | _ => 0
    end
  end.

Lemma go_run_cons : forall iters fuel e l c r,
  go_run iters fuel e ((l, c) :: r) =
  match go_handle iters fuel e l c with
  | EOk e' out => let '(fin, out') := go_run iters fuel e' r in (fin, out ++ out')
  | EQuit => (SQuit, [])
  | EPanic out => (SPanic, out)
  | EStuck => (SStuck, [])
  end.
Proof. reflexivity. Qed.

Theorem run_best_count : forall iters fuel ls e fin out,
  go_run iters fuel e ls = (fin, out) -> count_best out = answered_gos iters fuel e ls.
Proof.
  intros iters fuel ls. induction ls as [|[l c] r IH]; intros e fin out H.
  - cbn in H. inversion H; subst. reflexivity.
  - rewrite go_run_cons in H. cbn [answered_gos].
    destruct (go_handle iters fuel e l c) as [e' o| |o|] eqn:Eh.
    + destruct (go_run iters fuel e' r) as [fin' o'] eqn:Er. inversion H; subst.
      rewrite count_best_app, (IH e' _ _ Er), (handle_best_count iters fuel e l c e' o Eh). reflexivity.
    + inversion H; subst. reflexivity.
    + inversion H; subst.
      destruct (is_go_line l) eqn:Hl.
      * destruct (accepts_go_b e) eqn:Ha.
        -- apply accepts_go_b_spec in Ha. exact (go_accepted_crash iters fuel e l c _ Hl Ha Eh).
        -- assert (Hn : ~ accepts_go e) by (rewrite <- accepts_go_b_spec; congruence).
           rewrite (go_refused iters fuel e l c Hl Hn) in Eh. discriminate.
      * rewrite go_handle_eq in Eh. unfold is_go_line in Hl.
        destruct (handle_line V l) as [| | | |ts|ts| |]; try discriminate.
        unfold go_new_position_e, Engine.new_position in Eh.
        destruct (en_state e =? ST_RUNNING)%N; [discriminate|].
        destruct ts as [|t ts']; [discriminate|].
        destruct (new_position_cmd go_keys unicode_digit_tbl (sc_hist_size go_sconsts) (t :: ts')); try discriminate.
        -- destruct (_ && _); discriminate.
        -- inversion Eh; reflexivity.
    + inversion H; subst. reflexivity.
Qed.

(* the state invariant along a session *)
Theorem run_state_ok : forall iters fuel ls e e' out,
  state_ok e -> go_run iters fuel e ls = (SEof e', out) -> state_ok e'.
Proof.
  intros iters fuel ls. induction ls as [|[l c] r IH]; intros e e' out Hok H.
  - cbn in H. inversion H; subst. exact Hok.
  - rewrite go_run_cons in H.
    destruct (go_handle iters fuel e l c) as [e1 o| |o|] eqn:Eh; try discriminate.
    destruct (go_run iters fuel e1 r) as [fin' o'] eqn:Er. inversion H; subst.
    eapply IH; [|exact Er]. eapply handle_state_ok; eauto.
Qed.

(* a session is the concatenation of its lines' outputs *)
Theorem run_app : forall iters fuel ls1 ls2 e,
  go_run iters fuel e (ls1 ++ ls2) =
  match go_run iters fuel e ls1 with
  | (SEof e1, o1) => let '(fin, o2) := go_run iters fuel e1 ls2 in (fin, o1 ++ o2)
  | other => other
  end.
Proof.
  intros iters fuel ls1 ls2. induction ls1 as [|[l c] r IH]; intro e.
  - cbn [app]. change (go_run iters fuel e []) with (SEof e, @nil oev). cbn [app].
    destruct (go_run iters fuel e ls2); reflexivity.
  - cbn [app]. rewrite !go_run_cons.
    destruct (go_handle iters fuel e l c) as [e1 o| |o|]; try reflexivity.
    rewrite IH. destruct (go_run iters fuel e1 r) as [[e2| | |] o1]; try reflexivity.
    destruct (go_run iters fuel e2 ls2) as [fin o2]. rewrite app_assoc. reflexivity.
Qed.

(* goal 1 for sessions: the read loop never hits a bound of the model, and does not depend on the bounds *)
Theorem run_never_stuck : forall iters fuel ls e,
  (510 <= iters)%nat -> (1282 <= fuel)%nat -> Forall (fun lc => depth_below_255 (fst lc)) ls ->
  fst (go_run iters fuel e ls) <> SStuck.
Proof.
  intros iters fuel ls. induction ls as [|[l c] r IH]; intros e Hi Hf Hd; [discriminate|].
  inversion Hd as [|x y Hl Hr]; subst. cbn [fst] in Hl. rewrite go_run_cons.
  pose proof (handle_never_stuck iters fuel e l c Hi Hf Hl) as Hns.
  destruct (go_handle iters fuel e l c) as [e' o| |o|]; try discriminate; [|contradiction].
  specialize (IH e' Hi Hf Hr). destruct (go_run iters fuel e' r) as [fin o']. exact IH.
Qed.

Theorem run_bounds_irrelevant : forall it1 f1 it2 f2 ls e,
  (510 <= it1)%nat -> (1282 <= f1)%nat -> (510 <= it2)%nat -> (1282 <= f2)%nat ->
  Forall (fun lc => depth_below_255 (fst lc)) ls ->
  go_run it1 f1 e ls = go_run it2 f2 e ls.
Proof.
  intros it1 f1 it2 f2 ls. induction ls as [|[l c] r IH]; intros e H1 H2 H3 H4 Hd; [reflexivity|].
  inversion Hd as [|x y Hl Hr]; subst. cbn [fst] in Hl. rewrite !go_run_cons.
  rewrite (handle_bounds_irrelevant it1 f1 it2 f2 e l c H1 H2 H3 H4 Hl).
  destruct (go_handle it2 f2 e l c) as [e' o| |o|]; try reflexivity.
  rewrite (IH e' H1 H2 H3 H4 Hr). reflexivity.
Qed.

Print Assumptions run_never_stuck.
Print Assumptions run_bounds_irrelevant.
Print Assumptions go_refused.
Print Assumptions go_accepted.
Print Assumptions handle_state_ok.
Print Assumptions tables_change_only_in_go.
Print Assumptions handle_best_count.
Print Assumptions run_best_count.
Print Assumptions run_state_ok.
Print Assumptions run_app.
