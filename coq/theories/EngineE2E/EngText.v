(* Whole-engine theorems, part 5 (goal 5): the text of the answer, and the dialogue of a GUI that plays a game
   against the engine: the printed answer, appended to the moves of the next `position` command, is accepted and
   makes exactly that move. *)
From Coq Require Import NArith ZArith List Bool Lia String.
From Clemens Require Import Base.Res Base.Word Base.Bytes Pos.Types Pos.Position Pos.Fen Pos.Inv Pos.ZobristProofs
     Pos.ZobristInst Eval.Eval Search.TT Search.Negamax Search.SearchStruct Search.SearchLines Search.SearchIter
     Search.GoInst Search.SearchGo
     Uci.ParseGo Uci.ParseGoProofs Uci.Input Uci.InputProofs Uci.GoLineSpec Uci.Game Uci.Engine Uci.EngineInst.
From Clemens.C10Inv Require Import InvReach.
From Clemens.C13Mate Require Import MateDefs.
From Clemens.C13Bridge Require Import Bridge.
From Clemens Require Import Rules.Abs Rules.Fide.
From Clemens.C01Att Require Import FideFacts.
From Clemens.C03Text Require Import MoveText GameReplay TextExamples.
From Clemens.C03Recon Require Import FideText Recon.
From ClemensGen Require Import GoConsts.
From Clemens.EngineE2E Require Import EngBase EngDispatch EngState EngSearch EngE2E.
Import ListNotations.
Open Scope list_scope.

(* ------------------------------------------------------------------ the bestmove line *)
(* one line, complete (no unmodelled part): "bestmove " followed by what Move.String prints *)
Theorem bestmove_text : forall m t, move_to_string m = Ok t ->
  go_render (OBestMove m) = ([t_bestmove ++ t], true).
Proof. intros m t H. unfold go_render, Engine.render. cbn [join_moves]. rewrite H. reflexivity. Qed.

(* ... which is the UCI text of the move read as a FIDE move: from-square, to-square, promotion letter *)
Theorem bestmove_text_fide : forall m,
  go_render (OBestMove m) = ([t_bestmove ++ fide_text (decode m)], true).
Proof. intro m. apply bestmove_text. apply fide_text_decode. Qed.

Lemma t_bestmove_string : t_bestmove = bytes_of_string "bestmove "%string.
Proof. reflexivity. Qed.

(* the score bits of the answer word do not show *)
Lemma move_to_string_low : forall m, move_to_string (mv_low m) = move_to_string m.
Proof. intro m. rewrite !fide_text_decode, decode_low. reflexivity. Qed.

(* ------------------------------------------------------------------ appending a move to `position ... moves` *)
Lemma play_app : forall K tbl hs toks p hist g t,
  play K tbl hs p hist toks = NPSet g ->
  play K tbl hs p hist (toks ++ t) = play K tbl hs (g_pos g) (g_hist g) t.
Proof.
  intros K tbl hs toks. induction toks as [|x toks IH]; intros p hist g t H.
  - cbn [play] in H. injection H as <-. reflexivity.
  - cbn [app play] in *.
    destruct (make_move_from_string K tbl p x) as [q| |]; try discriminate.
    destruct (N.of_nat (List.length hist) <? hs)%N; [|discriminate].
    apply IH. exact H.
Qed.

Lemma startpos_cmd_play : forall l,
  new_position_cmd go_keys unicode_digit_tbl se_history_size (w_startpos :: w_moves :: l) =
  play go_keys unicode_digit_tbl se_history_size hm_p0 [] l.
Proof.
  intro l. unfold new_position_cmd. change (bytes_eqb w_startpos w_startpos) with true. cbv iota.
  pose proof TextExamples.go_new_position as N0. change ZobristInst.go_keys with go_keys in N0. rewrite N0.
  change (bytes_eqb w_moves w_moves) with true.
  destruct l; reflexivity.
Qed.

Lemma fen_cmd_play : forall six p0 l, List.length six = 6%nat ->
  new_from_fen go_keys unicode_digit_tbl (join_sp six) = Ok p0 ->
  new_position_cmd go_keys unicode_digit_tbl se_history_size (w_fen :: six ++ w_moves :: l) =
  play go_keys unicode_digit_tbl se_history_size p0 [] l.
Proof.
  intros six p0 l L6 Fen.
  destruct six as [|f1 [|f2 [|f3 [|f4 [|f5 [|f6 [|]]]]]]]; try discriminate L6.
  unfold new_position_cmd. change (bytes_eqb w_fen w_startpos) with false.
  change (bytes_eqb w_fen w_fen) with true. cbv iota.
  match goal with |- context [(N.of_nat ?n <? 7)%N] => destruct (N.ltb_spec (N.of_nat n) 7) as [H|_] end.
  { exfalso. cbn [app List.length] in H. lia. }
  cbn [app firstn skipn]. rewrite Fen. change (bytes_eqb w_moves w_moves) with true.
  destruct l; reflexivity.
Qed.

(* one step of [play] with the printed text of a legal move (score bits or not): exactly MakeMove of that move,
   and its hash pushed on the repetition stack *)
Lemma play_printed_move : forall p hist l m t,
  Inv p -> Position.legal_moves go_keys p = Ok l -> In (mv_low m) l -> move_to_string m = Ok t ->
  (List.length hist < 1024)%nat ->
  exists q, make_move go_keys p m = Ok q /\
    play go_keys unicode_digit_tbl se_history_size p hist [t] = NPSet {| g_pos := q; g_hist := hist ++ [hash q] |}.
Proof.
  intros p hist l m t HI Hl Hin Ht Hlen.
  rewrite <- move_to_string_low in Ht.
  destruct (legal_move_text_roundtrip go_keys unicode_digit_tbl p l (mv_low m) t HI Hl Hin Ht) as [_ Hmk].
  destruct (InvStep.legal_moves_kept go_keys p l (mv_low m) Hl Hin) as (ms & q & _ & _ & Hq & _).
  exists q. split; [rewrite <- make_move_low; exact Hq|].
  cbn [play]. rewrite Hmk, Hq.
  destruct (N.ltb_spec (N.of_nat (List.length hist)) se_history_size) as [_|H]; [reflexivity|].
  exfalso. change se_history_size with 1024%N in H. lia.
Qed.

(* THE TWO-COMMAND LEMMA (engine level).  The engine holds the game [g] set by `position <start> moves toks` and has
   answered [m], one of the legal moves of its root; the GUI sends `position <start> moves toks t` with [t] the
   text of the bestmove line.  The command is accepted, the new root is exactly MakeMove(root, m), and the
   repetition stack is the old one with the new position's hash pushed. *)
Theorem dialogue_step_startpos : forall e' toks g m l t line c iters fuel,
  new_position_cmd go_keys unicode_digit_tbl se_history_size (w_startpos :: w_moves :: toks) = NPSet g ->
  Inv (g_pos g) -> Position.legal_moves go_keys (g_pos g) = Ok l -> In (mv_low m) l ->
  (List.length (g_hist g) < 1024)%nat ->
  go_render (OBestMove m) = ([t_bestmove ++ t], true) ->
  en_state e' <> ST_RUNNING ->
  first_command line w_position (w_startpos :: w_moves :: toks ++ [t]) ->
  exists q, make_move go_keys (g_pos g) m = Ok q /\
    go_handle iters fuel e' line c = EOk (with_game e' {| g_pos := q; g_hist := g_hist g ++ [hash q] |}) [].
Proof.
  intros e' toks g m l t line c iters fuel Hcmd HI Hl Hin Hlen Hr Hs Hfc.
  assert (Ht : move_to_string m = Ok t).
  { rewrite bestmove_text_fide in Hr. injection Hr as Hr. rewrite <- Hr. apply fide_text_decode. }
  destruct (play_printed_move (g_pos g) (g_hist g) l m t HI Hl Hin Ht Hlen) as (q & Hq & Hp).
  exists q. split; [exact Hq|].
  rewrite (handle_position iters fuel e' line c _ Hfc).
  apply new_position_e_set; [exact Hs|discriminate|].
  rewrite (startpos_cmd_play toks) in Hcmd. rewrite (startpos_cmd_play (toks ++ [t])).
  rewrite (play_app _ _ _ toks hm_p0 [] g [t] Hcmd). exact Hp.
Qed.

Theorem dialogue_step_fen : forall e' six p0 toks g m l t line c iters fuel,
  List.length six = 6%nat -> new_from_fen go_keys unicode_digit_tbl (join_sp six) = Ok p0 ->
  new_position_cmd go_keys unicode_digit_tbl se_history_size (w_fen :: six ++ w_moves :: toks) = NPSet g ->
  Inv (g_pos g) -> Position.legal_moves go_keys (g_pos g) = Ok l -> In (mv_low m) l ->
  (List.length (g_hist g) < 1024)%nat ->
  go_render (OBestMove m) = ([t_bestmove ++ t], true) ->
  en_state e' <> ST_RUNNING ->
  first_command line w_position (w_fen :: six ++ w_moves :: toks ++ [t]) ->
  exists q, make_move go_keys (g_pos g) m = Ok q /\
    go_handle iters fuel e' line c = EOk (with_game e' {| g_pos := q; g_hist := g_hist g ++ [hash q] |}) [].
Proof.
  intros e' six p0 toks g m l t line c iters fuel L6 Fen Hcmd HI Hl Hin Hlen Hr Hs Hfc.
  assert (Ht : move_to_string m = Ok t).
  { rewrite bestmove_text_fide in Hr. injection Hr as Hr. rewrite <- Hr. apply fide_text_decode. }
  destruct (play_printed_move (g_pos g) (g_hist g) l m t HI Hl Hin Ht Hlen) as (q & Hq & Hp).
  exists q. split; [exact Hq|].
  rewrite (handle_position iters fuel e' line c _ Hfc).
  apply new_position_e_set; [exact Hs|destruct six; discriminate|].
  rewrite (fen_cmd_play six p0 toks L6 Fen) in Hcmd. rewrite (fen_cmd_play six p0 (toks ++ [t]) L6 Fen).
  rewrite (play_app _ _ _ toks p0 [] g [t] Hcmd). exact Hp.
Qed.

(* ------------------------------------------------------------------ the same at the level of the FIDE rules *)
(* the engine's answer extends the FIDE game: fms ++ [answer] is a FIDE game, its token list is the old one with
   the printed answer appended *)
Theorem answer_extends_game : forall s0 fms s m,
  fide_game s0 fms s -> answer_spec s m -> Fide.legal_moves s <> [] ->
  fide_game s0 (fms ++ [decode m]) (apply s (decode m)) /\
  map fide_text (fms ++ [decode m]) = map fide_text fms ++ [fide_text (decode m)].
Proof.
  intros s0 fms s m G [A _] Hne. destruct (A Hne) as [_ Hin]. split; [|rewrite map_app; reflexivity].
  induction G as [s1|s1 fm fms1 r L G IH].
  - cbn [app]. constructor; [exact Hin|constructor].
  - cbn [app]. constructor; [exact L|]. apply IH; assumption.
Qed.

(* THE DIALOGUE (start position): after `position startpos moves M` / `go ...` answered with [m] (a FIDE-legal move of
   the position s), the line `position startpos moves M <text of the bestmove line>` is accepted from any engine
   state not RUNNING and sets the FIDE successor position apply s m, as a legal position with one more entry on
   the repetition stack. *)
Theorem gui_dialogue_startpos : forall e' fms s m t,
  fide_game initial fms s -> answer_spec s m -> Fide.legal_moves s <> [] ->
  (List.length fms < 1024)%nat ->
  go_render (OBestMove m) = ([t_bestmove ++ t], true) ->
  en_state e' <> ST_RUNNING ->
  let line := join (w_position :: w_startpos :: w_moves :: map fide_text fms ++ [t]) in
  exists g',
    (forall iters fuel c, go_handle iters fuel e' line c = EOk (with_game e' g') []) /\
    same_core (abs (g_pos g')) (apply s (decode m)) /\
    ((List.length fms < 255)%nat -> abs (g_pos g') = apply s (decode m)) /\
    legal_pos (g_pos g') /\ List.length (g_hist g') = S (List.length fms).
Proof.
  intros e' fms s m t G A Hne Hlen Hr Hs line.
  assert (Ht : t = fide_text (decode m)).
  { rewrite bestmove_text_fide in Hr. injection Hr as Hr. symmetry. exact Hr. }
  destruct (answer_extends_game initial fms s m G A Hne) as [G' Hmap].
  assert (Hfc : first_command line w_position (startpos_tokens (fms ++ [decode m]))).
  { unfold line, startpos_tokens. rewrite Hmap, <- Ht. apply first_command_join0.
    destruct word_plain as (W1 & W2 & W3 & _).
    constructor; [exact W1|]. constructor; [exact W2|]. constructor; [exact W3|].
    apply Forall_app. split; [apply fide_texts_plain|]. constructor; [|constructor]. rewrite Ht. apply fide_text_plain. }
  destruct (position_startpos_sets e' (fms ++ [decode m]) (apply s (decode m)) line Hs G'
              ltac:(rewrite app_length; cbn [List.length]; lia) Hfc) as (g' & Hpos & Hcore & Hex & HR & HL).
  exists g'. split; [exact Hpos|split; [exact Hcore|split; [|split; [exact HR|]]]].
  - intro H. apply Hex. rewrite app_length. cbn [List.length]. lia.
  - rewrite HL, app_length. cbn [List.length]. lia.
Qed.

Print Assumptions bestmove_text.
Print Assumptions bestmove_text_fide.
Print Assumptions dialogue_step_startpos.
Print Assumptions dialogue_step_fen.
Print Assumptions answer_extends_game.
Print Assumptions gui_dialogue_startpos.
