(* The end-to-end theorems of EngE2E.v / EngSearch.v / EngExamples.v with their one external premise discharged:
   [no_panic_statement] is exactly C05NoPanic.NoPanicS.go_search_no_panic.  What remains in the statements is only what the
   engine itself cannot rule out: the depth parameter is not 255 (the uint8 loop counter never passes it), the search from
   this root needs recursion depth at most f0 <= 255 (bounded check-extension chains; discharged for ranked universes by
   EngRank.v), the evaluation cache holds no mate value (true of every engine-produced cache), the repetition stack has room. *)
From Coq Require Import NArith ZArith List Bool Lia.
From Clemens Require Import Base.Res Base.Word Base.Bytes Pos.Types Pos.Position Pos.Fen Pos.Inv
     Eval.Eval Search.TT Search.Negamax Search.GoInst Uci.ParseGo Uci.Input Uci.Game Uci.GoLineSpec Uci.Engine Uci.EngineInst.
From Clemens.C13Mate Require Import MateDefs MateRange.
From Clemens.C13Bridge Require Import Bridge.
From Clemens Require Import Rules.Abs Rules.Fide.
From Clemens.C03Recon Require Import FideText Recon.
From Clemens.C05NoPanic Require Import NoPanicS.
From ClemensGen Require Import GoConsts.
From Clemens.EngineE2E Require Import EngBase EngDispatch EngState EngSearch EngE2E EngText EngRank EngExamples.
Import ListNotations.

Theorem no_panic_holds : no_panic_statement.
Proof. exact go_search_no_panic. Qed.

Definition search_answers_final := search_answers no_panic_holds.
Definition search_answers_weak_final := search_answers_weak no_panic_holds.
Definition go_answers_final := go_answers no_panic_holds.
Definition go_answers_weak_final := go_answers_weak no_panic_holds.
Definition go_answers_render_final := go_answers_render no_panic_holds.
Definition engine_answers_startpos_final := engine_answers_startpos no_panic_holds.
Definition engine_answers_fen_final := engine_answers_fen no_panic_holds.
Definition engine_answers_kings_only_final := engine_answers_kings_only no_panic_holds.

Print Assumptions engine_answers_startpos_final.
Print Assumptions engine_answers_fen_final.
Print Assumptions engine_answers_kings_only_final.
