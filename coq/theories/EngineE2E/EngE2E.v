(* Whole-engine theorems, part 4b (goal 4): the end-to-end theorem.
   `position startpos|fen F moves m1 .. mn` of a FIDE-legal game, then a `go` line: exactly one bestmove, which is
   a FIDE-legal move of the position reached (the null move iff there is none), legal PVs, a timeout below the clock. *)
From Coq Require Import NArith ZArith List Bool Lia.
From Clemens Require Import Base.Res Base.Word Base.Bytes Pos.Types Pos.Position Pos.Fen Pos.Inv Pos.ZobristProofs
     Pos.ZobristInst Eval.Eval Search.TT Search.Negamax Search.SearchStruct Search.SearchIter Search.GoInst Search.SearchGo
     Search.Time Search.TimeProofs
     Uci.ParseGo Uci.ParseGoProofs Uci.Input Uci.InputProofs Uci.GoLineSpec Uci.Game Uci.Engine Uci.EngineInst.
From Clemens.C10Inv Require Import InvReach.
From Clemens.C13Mate Require Import MateDefs.
From Clemens.C13Bridge Require Import Bridge.
From Clemens.C15Bound Require Import Material Play.
From Clemens Require Import Rules.Abs Rules.Fide.
From Clemens.C01Att Require Import FideFacts.
From Clemens.C03Text Require Import GameReplay TextExamples.
From Clemens.C03Recon Require Import FideText Recon.
From ClemensGen Require Import GoConsts.
From Clemens.EngineE2E Require Import EngBase EngDispatch EngState EngSearch.
Import ListNotations.
Open Scope list_scope.

(* ------------------------------------------------------------------ transport along [same_core] *)
(* the FIDE move lists depend on placement, side to move, castling rights and en-passant square only *)
Lemma fide_line_core : forall fms a b, same_core a b -> fide_line a fms -> fide_line b fms.
Proof.
  induction fms as [|fm fms IH]; intros a b C [r G].
  - exists b. constructor.
  - inversion G as [|s0 fm0 fms0 r0 L G']; subst.
    destruct (IH (apply a fm) (apply b fm) (apply_same_core a b fm C) (ex_intro _ r G')) as [r' Gr].
    exists r'. constructor; [|exact Gr]. rewrite <- (legal_moves_core a b C). exact L.
Qed.

Lemma answer_spec_core : forall a b m, same_core a b -> answer_spec a m -> answer_spec b m.
Proof. intros a b m C H. unfold answer_spec in *. rewrite <- (legal_moves_core a b C). exact H. Qed.

Lemma pv_head_fide_core : forall a b e, same_core a b -> pv_head_fide a e -> pv_head_fide b e.
Proof. intros a b e C H. unfold pv_head_fide in *. rewrite <- (legal_moves_core a b C). exact H. Qed.

Lemma pv_fide_core : forall a b e, same_core a b -> pv_fide a e -> pv_fide b e.
Proof. intros a b e C H. unfold pv_fide in *. eapply fide_line_core; eauto. Qed.

(* ------------------------------------------------------------------ the positions of a game are legal positions *)
Lemma game_line_legal_pos : forall p ms qs,
  game_line go_keys p ms qs -> legal_pos p -> legal_pos (last qs p).
Proof.
  intros p ms qs H. induction H as [p|p ls m q ms qs Hl Hin Hmk Hg IH]; intros [HI HM]; [split; assumption|].
  assert (Iq : Inv q) by exact (inv_step_holds go_keys p m q ls HI Hl Hin Hmk).
  assert (Mq : material_ok q = true) by exact (material_step_legal go_keys p ls m q HM HI Hl Hin Hmk Iq).
  rewrite last_cons. exact (IH (conj Iq Mq)).
Qed.

(* ------------------------------------------------------------------ the `position` line *)
Definition with_game (e : engine) (g : game_pos) : engine :=
  {| en_state := ST_POSITION_SET; en_game := Some g; en_tt := en_tt e; en_cache := en_cache e |}.

Lemma new_position_e_set : forall e ts g, en_state e <> ST_RUNNING -> ts <> [] ->
  new_position_cmd go_keys unicode_digit_tbl se_history_size ts = NPSet g ->
  go_new_position_e e ts = EOk (with_game e g) [].
Proof.
  intros e ts g Hr Hne H. unfold go_new_position_e, Engine.new_position.
  destruct (N.eqb_spec (en_state e) ST_RUNNING) as [E|_]; [contradiction|].
  destruct ts as [|t ts']; [contradiction|].
  change (sc_hist_size go_sconsts) with se_history_size. rewrite H. reflexivity.
Qed.

Lemma not_space_ge : forall c, (33 <= c)%N -> negb (is_space c) = true.
Proof.
  intros c H. unfold is_space.
  repeat match goal with |- context [(c =? ?k)%N] =>
    let E := fresh in destruct (N.eqb_spec c k) as [E|E]; [lia|clear E] end.
  reflexivity.
Qed.

Lemma fide_text_plain : forall fm, plain_token (fide_text fm).
Proof.
  intro fm. unfold fide_text, fide_sq_text. split; [discriminate|].
  cbn [app forallb]. rewrite !not_space_ge by lia. cbn [andb].
  destruct (m_promo fm) as [[| | | | |]|]; reflexivity.
Qed.

Lemma fide_texts_plain : forall fms, Forall plain_token (map fide_text fms).
Proof. intro fms. apply Forall_forall. intros t Ht. apply in_map_iff in Ht. destruct Ht as (fm & <- & _). apply fide_text_plain. Qed.

Lemma word_plain : plain_token w_position /\ plain_token w_startpos /\ plain_token w_moves /\ plain_token w_fen /\
  plain_token w_go.
Proof. repeat split; (discriminate || reflexivity). Qed.

Definition startpos_tokens (fms : list fmove) : list token := w_startpos :: w_moves :: map fide_text fms.
Definition fen_tokens (six : list bytes) (fms : list fmove) : list token := w_fen :: six ++ w_moves :: map fide_text fms.

(* `position startpos moves m1 .. mn`: any game the repetition stack holds; the engine's root is the FIDE position
   (exactly, counters included, up to 255 plies; up to the two byte counters beyond) and a [legal_pos] *)
Theorem position_startpos_sets : forall e fms s line,
  en_state e <> ST_RUNNING -> fide_game initial fms s -> (List.length fms <= 1024)%nat ->
  first_command line w_position (startpos_tokens fms) ->
  exists g,
    (forall iters fuel c, go_handle iters fuel e line c = EOk (with_game e g) []) /\
    same_core (abs (g_pos g)) s /\ ((List.length fms <= 255)%nat -> abs (g_pos g) = s) /\
    legal_pos (g_pos g) /\ List.length (g_hist g) = List.length fms.
Proof.
  intros e fms s line Hr G B Hl.
  destruct (position_startpos_reconstructs_core go_keys unicode_digit_tbl se_history_size go_keys_wf
              hm_p0 fms s TextExamples.go_new_position G ltac:(change se_history_size with 1024%N; lia))
    as (g & C & A1 & A2 & A3 & A4 & I & L & ms & qs & GL & _ & Eg & _).
  exists g. split; [|split; [unfold same_core; auto|split; [|split; [|exact L]]]].
  - intros iters fuel c. rewrite (handle_position iters fuel e line c _ Hl).
    apply new_position_e_set; [exact Hr|discriminate|exact C].
  - intro B'.
    destruct (position_startpos_reconstructs_initial go_keys unicode_digit_tbl se_history_size go_keys_wf
                hm_p0 fms s TextExamples.go_new_position G B' ltac:(change se_history_size with 1024%N; lia))
      as (g' & C' & A & _).
    unfold startpos_tokens in *. rewrite C in C'. injection C' as <-. exact A.
  - rewrite Eg. apply game_line_legal_pos with (ms := ms); [exact GL|].
    split; [exact (new_position_inv _ _ TextExamples.go_new_position)|
            exact (material_new_position _ _ TextExamples.go_new_position)].
Qed.

(* `position fen F1 .. F6 moves m1 .. mn`: the FEN parses to a position satisfying the C10 invariant and the
   C15 material bound (every position of a real game does) *)
Theorem position_fen_sets : forall e six p0 fms s line,
  en_state e <> ST_RUNNING ->
  List.length six = 6%nat -> new_from_fen go_keys unicode_digit_tbl (join_sp six) = Ok p0 -> legal_pos p0 ->
  fide_game (abs p0) fms s -> (List.length fms <= 1024)%nat ->
  first_command line w_position (fen_tokens six fms) ->
  exists g,
    (forall iters fuel c, go_handle iters fuel e line c = EOk (with_game e g) []) /\
    same_core (abs (g_pos g)) s /\
    ((ply p0 + N.of_nat (List.length fms) <= 255)%N -> (hmc p0 + N.of_nat (List.length fms) <= 255)%N ->
       abs (g_pos g) = s) /\
    legal_pos (g_pos g) /\ List.length (g_hist g) = List.length fms.
Proof.
  intros e six p0 fms s line Hr L6 Fen [I0 M0] G B Hl.
  destruct (position_fen_reconstructs_core go_keys unicode_digit_tbl se_history_size go_keys_wf
              six p0 fms s L6 Fen I0 G ltac:(change se_history_size with 1024%N; lia))
    as (g & C & A1 & A2 & A3 & A4 & I & L & ms & qs & GL & _ & Eg & _).
  exists g. split; [|split; [unfold same_core; auto|split; [|split; [|exact L]]]].
  - intros iters fuel c. rewrite (handle_position iters fuel e line c _ Hl).
    apply new_position_e_set; [exact Hr|discriminate|exact C].
  - intros Bp Bh.
    destruct (position_fen_reconstructs go_keys unicode_digit_tbl se_history_size go_keys_wf
                six p0 fms s L6 Fen I0 G Bp Bh ltac:(change se_history_size with 1024%N; lia))
      as (g' & C' & A & _).
    unfold fen_tokens in *. rewrite C in C'. injection C' as <-. exact A.
  - rewrite Eg. exact (game_line_legal_pos p0 ms qs GL (conj I0 M0)).
Qed.

(* ------------------------------------------------------------------ the `go` line *)
(* an accepted `go` from a legal position.  [go_handle 510 f0 .. <> EStuck] with f0 <= 255: run with recursion
   bound f0 the engine function answers, i.e. this search needs recursion depth at most f0. *)
Theorem go_answers : no_panic_statement ->
  forall iters fuel f0 e g c line ts sp evs,
  (510 <= iters)%nat -> (f0 <= fuel)%nat -> (f0 <= 255)%nat ->
  en_state e = ST_POSITION_SET -> en_game e = Some g -> legal_pos (g_pos g) ->
  cache_sane go_econsts (en_cache e) -> (List.length (g_hist g) + f0 <= 1024)%nat ->
  handle_line V line = CGo ts -> parse_go ts = Ok (sp, evs) -> sp_depth sp <> 255%Z ->
  go_handle 510 f0 e line c <> EStuck ->
  exists e' infos m,
    go_handle iters fuel e line c =
      EOk e' (map OGo evs ++ timeout_line g sp ++ map OSearch infos ++ [OBestMove m]) /\
    en_state e' = ST_IDLE /\ en_game e' = Some g /\ cache_sane go_econsts (en_cache e') /\
    answer_spec (abs (g_pos g)) m /\
    m = nth 0 (last_pv (rev infos) []) NULL_MOVE /\
    Forall (pv_head_fide (abs (g_pos g))) infos /\
    (Forall ev_score_ok infos -> Forall (pv_fide (abs (g_pos g))) infos).
Proof.
  intros NP iters fuel f0 e g c line ts sp evs Hit Hfu Hf0 Es Eg HR Hc Hroom Hl Ep Hd Hns.
  pose proof (parse_go_depth ts sp evs Ep) as Hrange.
  assert (Hreq : (Z.to_N (sp_depth sp) < 255)%N) by lia.
  assert (Hrec : recursion_within f0 (go_sst e g c) (g_pos g) (Z.to_N (sp_depth sp))).
  { unfold recursion_within. intro X. apply Hns.
    rewrite go_handle_eq, Hl, (start_search_accepted _ f0 e ts c g sp evs Es Eg Ep).
    destruct (go_search 510 f0 true (go_sst e g c) (g_pos g) (Z.to_N (sp_depth sp))) as [[m| | |] s'];
      cbn [fst] in X; try discriminate. reflexivity. }
  destruct (search_answers NP iters fuel f0 (go_sst e g c) (g_pos g) (Z.to_N (sp_depth sp)) HR Hc eq_refl Hreq Hf0
              ltac:(unfold go_sst, go_init_sst; cbn [s_hist]; rewrite rev_length; exact Hroom) Hrec Hit Hfu)
    as (m & s' & new & E & A & O1 & Hm & Hh & Hp & Hc').
  exists (after_search g s'), (rev (s_out s')), m.
  rewrite go_handle_eq, Hl, (start_search_accepted iters fuel e ts c g sp evs Es Eg Ep), E.
  assert (Hnew : s_out s' = new) by (rewrite O1; unfold go_sst, go_init_sst; cbn [s_out]; apply app_nil_r).
  rewrite rev_involutive, Hnew.
  split; [unfold go_pre; rewrite <- app_assoc; reflexivity|].
  split; [reflexivity|split; [reflexivity|split; [exact Hc'|split; [exact A|split; [exact Hm|split]]]]].
  - apply Forall_rev. exact Hh.
  - intro Hs. apply Forall_rev. apply Hp. apply Forall_rev in Hs. rewrite rev_involutive in Hs. exact Hs.
Qed.

(* what is left when the recursion depth f0 is only known to fit on the repetition stack (game plies + f0 <= 1024)
   but may exceed 255, any evaluation cache: one bestmove, the null word or a FIDE-legal move; the null word if
   there is no legal move.  (Lost: "the null move ONLY without legal moves", which needs the ply counter not to wrap.) *)
Theorem go_answers_weak : no_panic_statement ->
  forall iters fuel f0 e g c line ts sp evs,
  (510 <= iters)%nat -> (f0 <= fuel)%nat ->
  en_state e = ST_POSITION_SET -> en_game e = Some g -> legal_pos (g_pos g) ->
  (List.length (g_hist g) + f0 <= 1024)%nat ->
  handle_line V line = CGo ts -> parse_go ts = Ok (sp, evs) -> sp_depth sp <> 255%Z ->
  go_handle 510 f0 e line c <> EStuck ->
  exists e' infos m,
    go_handle iters fuel e line c =
      EOk e' (map OGo evs ++ timeout_line g sp ++ map OSearch infos ++ [OBestMove m]) /\
    en_state e' = ST_IDLE /\ en_game e' = Some g /\
    (m = NULL_MOVE \/ In (decode m) (Fide.legal_moves (abs (g_pos g)))) /\
    (Fide.legal_moves (abs (g_pos g)) = [] -> m = NULL_MOVE) /\
    m = nth 0 (last_pv (rev infos) []) NULL_MOVE /\
    Forall (pv_head_fide (abs (g_pos g))) infos /\
    (Forall ev_score_ok infos -> Forall (pv_fide (abs (g_pos g))) infos).
Proof.
  intros NP iters fuel f0 e g c line ts sp evs Hit Hfu Es Eg HR Hroom Hl Ep Hd Hns.
  pose proof (parse_go_depth ts sp evs Ep) as Hrange.
  assert (Hreq : (Z.to_N (sp_depth sp) < 255)%N) by lia.
  assert (Hrec : recursion_within f0 (go_sst e g c) (g_pos g) (Z.to_N (sp_depth sp))).
  { unfold recursion_within. intro X. apply Hns.
    rewrite go_handle_eq, Hl, (start_search_accepted _ f0 e ts c g sp evs Es Eg Ep).
    destruct (go_search 510 f0 true (go_sst e g c) (g_pos g) (Z.to_N (sp_depth sp))) as [[m| | |] s'];
      cbn [fst] in X; try discriminate. reflexivity. }
  destruct (search_answers_weak NP iters fuel f0 (go_sst e g c) (g_pos g) (Z.to_N (sp_depth sp)) HR eq_refl Hreq
              ltac:(unfold go_sst, go_init_sst; cbn [s_hist]; rewrite rev_length; exact Hroom) Hrec Hit Hfu)
    as (m & s' & new & E & A1 & A2 & O1 & Hm & Hh & Hp).
  exists (after_search g s'), (rev (s_out s')), m.
  rewrite go_handle_eq, Hl, (start_search_accepted iters fuel e ts c g sp evs Es Eg Ep), E.
  assert (Hnew : s_out s' = new) by (rewrite O1; unfold go_sst, go_init_sst; cbn [s_out]; apply app_nil_r).
  rewrite rev_involutive, Hnew.
  split; [unfold go_pre; rewrite <- app_assoc; reflexivity|].
  split; [reflexivity|split; [reflexivity|split; [exact A1|split; [exact A2|split; [exact Hm|split]]]]].
  - apply Forall_rev. exact Hh.
  - intro Hs. apply Forall_rev. apply Hp. apply Forall_rev in Hs. rewrite rev_involutive in Hs. exact Hs.
Qed.

(* a `go` line built from the standard parameters asks for depth 255 only if it says so *)
Lemma depth_below_255_render : forall garbage ps,
  Forall plain_token garbage -> all_unknown V garbage ->
  NoDup (map kind ps) -> Forall param_ok ps -> value_of KDepth ps <> 255%Z ->
  depth_below_255 (join (garbage ++ w_go :: GoLineSpec.render ps)).
Proof.
  intros garbage ps Hpl Hg Hnd Hok Hd.
  destruct (go_line_exact V garbage ps
              (command_word_valid V command_words_valid w_go ltac:(unfold command_words; cbn [In]; tauto))
              Hpl Hg Hnd Hok) as [Hl Ep].
  unfold depth_below_255, go_depth_of. rewrite Hl, Ep. cbn [denote sp_depth]. congruence.
Qed.

(* the hypothesis [go_handle 510 f0 .. <> EStuck] is the hypothesis [recursion_within] of EngSearch.v *)
Lemma recursion_within_handle : forall f0 e g c line ts sp evs,
  en_state e = ST_POSITION_SET -> en_game e = Some g ->
  handle_line V line = CGo ts -> parse_go ts = Ok (sp, evs) ->
  recursion_within f0 (go_sst e g c) (g_pos g) (Z.to_N (sp_depth sp)) ->
  go_handle 510 f0 e line c <> EStuck.
Proof.
  intros f0 e g c line ts sp evs Es Eg Hl Ep Hrec. unfold recursion_within in Hrec.
  rewrite go_handle_eq, Hl, (start_search_accepted _ f0 e ts c g sp evs Es Eg Ep).
  pose proof (go_search_not_cancel 510 f0 true (go_sst e g c) (g_pos g) (Z.to_N (sp_depth sp))) as Hnc.
  destruct (go_search 510 f0 true (go_sst e g c) (g_pos g) (Z.to_N (sp_depth sp))) as [[m| | |] s'];
    cbn [fst] in Hrec; try discriminate; [|contradiction].
  exfalso. apply (Hnc s'). reflexivity.
Qed.

(* the same for a `go` line built from the standard parameters *)
Theorem go_answers_render : no_panic_statement ->
  forall iters fuel f0 e g c garbage ps,
  (510 <= iters)%nat -> (f0 <= fuel)%nat -> (f0 <= 255)%nat ->
  en_state e = ST_POSITION_SET -> en_game e = Some g -> legal_pos (g_pos g) ->
  cache_sane go_econsts (en_cache e) -> (List.length (g_hist g) + f0 <= 1024)%nat ->
  Forall plain_token garbage -> all_unknown V garbage ->
  NoDup (map kind ps) -> Forall param_ok ps -> value_of KDepth ps <> 255%Z ->
  let line := join (garbage ++ w_go :: GoLineSpec.render ps) in
  go_handle 510 f0 e line c <> EStuck ->
  exists e' infos m,
    go_handle iters fuel e line c =
      EOk e' (map OGo (acks ps) ++ timeout_line g (denote ps) ++ map OSearch infos ++ [OBestMove m]) /\
    en_state e' = ST_IDLE /\ en_game e' = Some g /\ cache_sane go_econsts (en_cache e') /\
    answer_spec (abs (g_pos g)) m /\
    m = nth 0 (last_pv (rev infos) []) NULL_MOVE /\
    Forall (pv_head_fide (abs (g_pos g))) infos /\
    (Forall ev_score_ok infos -> Forall (pv_fide (abs (g_pos g))) infos).
Proof.
  intros NP iters fuel f0 e g c garbage ps Hit Hfu Hf0 Es Eg HR Hc Hroom Hpl Hg Hnd Hok Hd line Hns.
  destruct (go_line_exact V garbage ps
              (command_word_valid V command_words_valid w_go ltac:(unfold command_words; cbn [In]; tauto))
              Hpl Hg Hnd Hok) as [Hl Ep].
  exact (go_answers NP iters fuel f0 e g c line (GoLineSpec.render ps) (denote ps) (acks ps) Hit Hfu Hf0 Es Eg HR Hc Hroom
           Hl Ep Hd Hns).
Qed.

(* ------------------------------------------------------------------ the timeout line (C08) *)
Lemma max_ms_ok : (0 <= maxTimeInMs < lim)%Z.
Proof. unfold lim. vm_compute. split; [discriminate | reflexivity]. Qed.

(* no line for an infinite search; otherwise one line, whose budget is below the mover's clock and below movetime *)
Theorem timeout_line_C08 : forall g sp,
  (if sp_infinite sp then timeout_line g sp = []
   else exists t, timeout_line g sp = [OTimeout t] /\
     (in_range (Z.of_nat (List.length (g_hist g))) (to_go_params sp) ->
      (let clock := if (side (g_pos g) =? BLACK)%N then sp_btime sp else sp_wtime sp in (0 < clock -> t < clock)%Z) /\
      ((0 < sp_movetime sp)%Z -> (t < sp_movetime sp)%Z))).
Proof.
  intros g sp. unfold timeout_line. destruct (sp_infinite sp); [reflexivity|].
  eexists. split; [reflexivity|]. intro Hr. split.
  - cbv zeta. intro H.
    pose proof (budget_lt_clock maxTimeInMs (side (g_pos g) =? BLACK)%N _ (to_go_params sp) max_ms_ok Hr) as X.
    cbv zeta in X. cbn [to_go_params gp_btime gp_wtime] in X. apply X. exact H.
  - intro H.
    pose proof (budget_lt_movetime maxTimeInMs (side (g_pos g) =? BLACK)%N _ (to_go_params sp) max_ms_ok Hr) as X.
    cbn [to_go_params gp_movetime] in X. apply X. exact H.
Qed.

(* ------------------------------------------------------------------ the two-line sessions *)
Lemma run_two : forall iters fuel e l1 c1 l2 c2 e1 o1,
  go_handle iters fuel e l1 c1 = EOk e1 o1 ->
  go_run iters fuel e [(l1, c1); (l2, c2)] =
  match go_handle iters fuel e1 l2 c2 with
  | EOk e2 o2 => (SEof e2, o1 ++ o2 ++ [])
  | EQuit => (SQuit, o1 ++ [])
  | EPanic o2 => (SPanic, o1 ++ o2)
  | EStuck => (SStuck, o1 ++ [])
  end.
Proof.
  intros iters fuel e l1 c1 l2 c2 e1 o1 H. rewrite go_run_cons, H, go_run_cons.
  destruct (go_handle iters fuel e1 l2 c2); reflexivity.
Qed.

(* what the conclusion says about the output and the final engine *)
Definition e2e_result (s : bstate) (g : game_pos) (sp : search_params) (evs : list event)
           (res : session_end * list oev) : Prop :=
  exists e' infos m,
    res = (SEof e', map OGo evs ++ timeout_line g sp ++ map OSearch infos ++ [OBestMove m]) /\
    en_state e' = ST_IDLE /\ en_game e' = Some g /\ cache_sane go_econsts (en_cache e') /\
    answer_spec s m /\
    m = nth 0 (last_pv (rev infos) []) NULL_MOVE /\
    Forall (pv_head_fide s) infos /\
    (Forall ev_score_ok infos -> Forall (pv_fide s) infos).

Lemma e2e_compose : no_panic_statement ->
  forall iters fuel f0 e g s c0 c pos_line garbage ps,
  (510 <= iters)%nat -> (f0 <= fuel)%nat -> (f0 <= 255)%nat ->
  cache_sane go_econsts (en_cache e) ->
  (forall iters fuel c, go_handle iters fuel e pos_line c = EOk (with_game e g) []) ->
  same_core (abs (g_pos g)) s -> legal_pos (g_pos g) -> (List.length (g_hist g) + f0 <= 1024)%nat ->
  Forall plain_token garbage -> all_unknown V garbage ->
  NoDup (map kind ps) -> Forall param_ok ps -> value_of KDepth ps <> 255%Z ->
  let go_line := join (garbage ++ w_go :: GoLineSpec.render ps) in
  fst (go_run 510 f0 e [(pos_line, c0); (go_line, c)]) <> SStuck ->
  e2e_result s g (denote ps) (acks ps) (go_run iters fuel e [(pos_line, c0); (go_line, c)]).
Proof.
  intros NP iters fuel f0 e g s c0 c pos_line garbage ps Hit Hfu Hf0 Hc Hpos Hcore HR Hroom Hpl Hg Hnd Hok Hd
         go_line Hns.
  unfold go_line in *. clear go_line.
  assert (Hns' : go_handle 510 f0 (with_game e g) (join (garbage ++ w_go :: GoLineSpec.render ps)) c <> EStuck).
  { intro X. apply Hns. rewrite (run_two _ _ e pos_line c0 _ c _ _ (Hpos _ _ c0)), X. reflexivity. }
  destruct (go_answers_render NP iters fuel f0 (with_game e g) g c garbage ps Hit Hfu Hf0 eq_refl eq_refl HR Hc
              Hroom Hpl Hg Hnd Hok Hd Hns') as (e' & infos & m & E & R1 & R2 & R3 & R4 & R5 & R6 & R7).
  exists e', infos, m.
  rewrite (run_two _ _ e pos_line c0 _ c _ _ (Hpos _ _ c0)). rewrite E.
  cbn [app]. rewrite app_nil_r.
  split; [reflexivity|split; [exact R1|split; [exact R2|split; [exact R3|split; [|split; [exact R5|split]]]]]].
  - eapply answer_spec_core; eauto.
  - eapply Forall_impl; [|exact R6]. intros x. apply pv_head_fide_core. exact Hcore.
  - intro Hs. eapply Forall_impl; [|exact (R7 Hs)]. intros x. apply pv_fide_core. exact Hcore.
Qed.

(* THE END-TO-END THEOREM, start position.
   From ANY engine state not RUNNING whose evaluation cache holds no mate value, any two oracles:
     position startpos moves m1 .. mn      (a FIDE-legal game from the initial position)
     go <standard parameters>              (depth not 255)
   prints exactly: parseGo's acknowledgements, the timeout line (C08), the info lines, ONE bestmove - a FIDE-legal
   move of the position reached if there is one, else the null move -, and leaves the engine IDLE.
   Repetition-stack room: n + f0 <= 1024 with f0 <= 255 the recursion depth of this search. *)
Theorem engine_answers_startpos : no_panic_statement ->
  forall iters fuel f0 e c0 c fms s garbage ps,
  (510 <= iters)%nat -> (f0 <= fuel)%nat -> (f0 <= 255)%nat ->
  en_state e <> ST_RUNNING -> cache_sane go_econsts (en_cache e) ->
  fide_game initial fms s -> (List.length fms + f0 <= 1024)%nat ->
  Forall plain_token garbage -> all_unknown V garbage ->
  NoDup (map kind ps) -> Forall param_ok ps -> value_of KDepth ps <> 255%Z ->
  let pos_line := join (w_position :: startpos_tokens fms) in
  let go_line := join (garbage ++ w_go :: GoLineSpec.render ps) in
  fst (go_run 510 f0 e [(pos_line, c0); (go_line, c)]) <> SStuck ->
  exists g,
    same_core (abs (g_pos g)) s /\ ((List.length fms <= 255)%nat -> abs (g_pos g) = s) /\
    List.length (g_hist g) = List.length fms /\
    e2e_result s g (denote ps) (acks ps) (go_run iters fuel e [(pos_line, c0); (go_line, c)]).
Proof.
  intros NP iters fuel f0 e c0 c fms s garbage ps Hit Hfu Hf0 Hr Hc G B Hpl Hg Hnd Hok Hd pos_line go_line Hns.
  assert (Hfc : first_command pos_line w_position (startpos_tokens fms)).
  { apply first_command_join0. destruct word_plain as (W1 & W2 & W3 & _).
    constructor; [exact W1|]. constructor; [exact W2|]. constructor; [exact W3|]. apply fide_texts_plain. }
  destruct (position_startpos_sets e fms s pos_line Hr G ltac:(lia) Hfc) as (g & Hpos & Hcore & Hex & HR & HL).
  exists g. split; [exact Hcore|split; [exact Hex|split; [exact HL|]]].
  apply (e2e_compose NP iters fuel f0 e g s c0 c pos_line garbage ps); auto. rewrite HL. exact B.
Qed.

(* THE END-TO-END THEOREM, FEN.  The six FEN fields are tokens without white space that parse to a legal position. *)
Theorem engine_answers_fen : no_panic_statement ->
  forall iters fuel f0 e c0 c six p0 fms s garbage ps,
  (510 <= iters)%nat -> (f0 <= fuel)%nat -> (f0 <= 255)%nat ->
  en_state e <> ST_RUNNING -> cache_sane go_econsts (en_cache e) ->
  List.length six = 6%nat -> Forall plain_token six ->
  new_from_fen go_keys unicode_digit_tbl (join_sp six) = Ok p0 -> legal_pos p0 ->
  fide_game (abs p0) fms s -> (List.length fms + f0 <= 1024)%nat ->
  Forall plain_token garbage -> all_unknown V garbage ->
  NoDup (map kind ps) -> Forall param_ok ps -> value_of KDepth ps <> 255%Z ->
  let pos_line := join (w_position :: fen_tokens six fms) in
  let go_line := join (garbage ++ w_go :: GoLineSpec.render ps) in
  fst (go_run 510 f0 e [(pos_line, c0); (go_line, c)]) <> SStuck ->
  exists g,
    same_core (abs (g_pos g)) s /\
    ((ply p0 + N.of_nat (List.length fms) <= 255)%N -> (hmc p0 + N.of_nat (List.length fms) <= 255)%N ->
       abs (g_pos g) = s) /\
    List.length (g_hist g) = List.length fms /\
    e2e_result s g (denote ps) (acks ps) (go_run iters fuel e [(pos_line, c0); (go_line, c)]).
Proof.
  intros NP iters fuel f0 e c0 c six p0 fms s garbage ps Hit Hfu Hf0 Hr Hc L6 P6 Fen HP G B Hpl Hg Hnd Hok Hd
         pos_line go_line Hns.
  assert (Hfc : first_command pos_line w_position (fen_tokens six fms)).
  { apply first_command_join0. destruct word_plain as (W1 & W2 & W3 & W4 & _).
    constructor; [exact W1|]. unfold fen_tokens. constructor; [exact W4|]. apply Forall_app. split; [exact P6|].
    constructor; [exact W3|]. apply fide_texts_plain. }
  destruct (position_fen_sets e six p0 fms s pos_line Hr L6 Fen HP G ltac:(lia) Hfc)
    as (g & Hpos & Hcore & Hex & HR & HL).
  exists g. split; [exact Hcore|split; [exact Hex|split; [exact HL|]]].
  apply (e2e_compose NP iters fuel f0 e g s c0 c pos_line garbage ps); auto. rewrite HL. exact B.
Qed.

Print Assumptions position_startpos_sets.
Print Assumptions position_fen_sets.
Print Assumptions go_answers.
Print Assumptions go_answers_weak.
Print Assumptions depth_below_255_render.
Print Assumptions go_answers_render.
Print Assumptions timeout_line_C08.
Print Assumptions engine_answers_startpos.
Print Assumptions engine_answers_fen.
