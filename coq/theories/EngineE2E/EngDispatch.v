(* Whole-engine theorems, part 2 (goal 2): C07's dispatch facts lifted to the engine function.
   Lines are byte strings; [fields] is strings.Fields (ASCII white space), [prepare_input V line] what is left
   after the unknown leading tokens were dropped. *)
From Coq Require Import NArith ZArith List Bool Lia String.
From Clemens Require Import Base.Res Base.Bytes Search.GoInst
     Uci.ParseGo Uci.ParseGoProofs Uci.Input Uci.InputProofs Uci.GoLineSpec Uci.Game Uci.Engine Uci.EngineInst.
From ClemensGen Require Import GoConsts.
From Clemens.EngineE2E Require Import EngBase.
Import ListNotations.
Open Scope list_scope.

Lemma command_words_valid : forallb (valid_first V) command_words = true.
Proof. vm_compute. reflexivity. Qed.

Lemma handle_line_prepare : forall line,
  handle_line V line = match prepare_input V line with [] => CNone | c :: rest => switch c rest end.
Proof. reflexivity. Qed.

(* ------------------------------------------------------------------ ignored lines *)
(* a line with no valid first token, or whose first valid token is none of the seven command words
   (debug, setoption, ponderhit ...): the engine is unchanged and nothing is printed *)
Theorem handle_ignored : forall iters fuel e line c,
  match prepare_input V line with [] => True | w :: _ => ~ In w command_words end ->
  go_handle iters fuel e line c = EOk e [].
Proof.
  intros iters fuel e line c H. rewrite go_handle_eq, handle_line_prepare.
  destruct (prepare_input V line) as [|w rest]; [reflexivity|].
  rewrite (switch_not_command w rest H). reflexivity.
Qed.

Theorem handle_unknown_tokens : forall iters fuel e line c,
  all_unknown V (fields line) -> go_handle iters fuel e line c = EOk e [].
Proof.
  intros iters fuel e line c H. apply handle_ignored.
  unfold prepare_input. rewrite (rpg_all_unknown V _ H). exact I.
Qed.

Theorem handle_no_case : forall iters fuel e line c garbage w rest,
  fields line = garbage ++ w :: rest -> all_unknown V garbage -> valid_first V w = true ->
  ~ In w command_words ->
  go_handle iters fuel e line c = EOk e [].
Proof.
  intros iters fuel e line c garbage w rest Hf Hg Hw Hn. apply handle_ignored.
  unfold prepare_input. rewrite Hf, (rpg_skip V garbage _ Hg), (rpg_valid V w rest Hw). exact Hn.
Qed.

(* ------------------------------------------------------------------ the seven commands *)
(* [first_command line w rest]: after unknown leading tokens the line's tokens are w :: rest *)
Definition first_command (line : bytes) (w : token) (rest : list token) : Prop :=
  exists garbage, fields line = garbage ++ w :: rest /\ all_unknown V garbage.

Lemma first_command_line : forall line w rest,
  first_command line w rest -> In w command_words -> handle_line V line = switch w rest.
Proof.
  intros line w rest (garbage & Hf & Hg) Hw. unfold handle_line. rewrite Hf.
  destruct (prefix_skipped V garbage w rest Hg (command_word_valid V command_words_valid w Hw)) as [-> ->].
  reflexivity.
Qed.

Ltac cw := unfold command_words; cbn [In]; tauto.

Theorem handle_isready : forall iters fuel e line c rest,
  first_command line w_isready rest -> go_handle iters fuel e line c = EOk e [OReadyOk].
Proof. intros. rewrite go_handle_eq, (first_command_line line w_isready rest) by (assumption || cw). reflexivity. Qed.

Theorem handle_uci : forall iters fuel e line c rest,
  first_command line w_uci rest -> go_handle iters fuel e line c = EOk e [OUci].
Proof. intros. rewrite go_handle_eq, (first_command_line line w_uci rest) by (assumption || cw). reflexivity. Qed.

(* nothing happens in the sequential model: no search is running between two lines *)
Theorem handle_stop : forall iters fuel e line c rest,
  first_command line w_stop rest -> go_handle iters fuel e line c = EOk e [].
Proof. intros. rewrite go_handle_eq, (first_command_line line w_stop rest) by (assumption || cw). reflexivity. Qed.

Theorem handle_quit : forall iters fuel e line c rest,
  first_command line w_quit rest -> go_handle iters fuel e line c = EQuit.
Proof. intros. rewrite go_handle_eq, (first_command_line line w_quit rest) by (assumption || cw). reflexivity. Qed.

(* state and game are reset, the transposition table and the evaluation cache are kept *)
Theorem handle_ucinewgame : forall iters fuel e line c rest,
  first_command line w_ucinewgame rest ->
  exists e', go_handle iters fuel e line c = EOk e' [] /\
    en_state e' = ST_IDLE /\ en_game e' = None /\ en_tt e' = en_tt e /\ en_cache e' = en_cache e.
Proof.
  intros. exists (newgame e).
  rewrite go_handle_eq, (first_command_line line w_ucinewgame rest) by (assumption || cw).
  repeat split.
Qed.

Theorem handle_position : forall iters fuel e line c rest,
  first_command line w_position rest -> go_handle iters fuel e line c = go_new_position_e e rest.
Proof. intros. rewrite go_handle_eq, (first_command_line line w_position rest) by (assumption || cw). reflexivity. Qed.

Theorem handle_go : forall iters fuel e line c rest,
  first_command line w_go rest -> go_handle iters fuel e line c = go_start_search iters fuel e rest c.
Proof. intros. rewrite go_handle_eq, (first_command_line line w_go rest) by (assumption || cw). reflexivity. Qed.

(* lines written with single blanks *)
Lemma first_command_join : forall garbage w rest,
  Forall plain_token (garbage ++ w :: rest) -> all_unknown V garbage ->
  first_command (join (garbage ++ w :: rest)) w rest.
Proof. intros garbage w rest Hp Hg. exists garbage. split; [apply fields_join; exact Hp|exact Hg]. Qed.

Lemma first_command_join0 : forall w rest,
  Forall plain_token (w :: rest) -> first_command (join (w :: rest)) w rest.
Proof. intros w rest Hp. apply (first_command_join [] w rest Hp). constructor. Qed.

(* ------------------------------------------------------------------ unknown leading tokens are skipped *)
Lemma fields_aux_app_space : forall a sp b cur, is_space sp = true ->
  fields_aux (a ++ sp :: b) cur = fields_aux a cur ++ fields b.
Proof.
  induction a as [|x a IH]; intros sp b cur Hs; cbn [app fields_aux].
  - rewrite Hs. destruct cur; reflexivity.
  - destruct (is_space x).
    + destruct cur; rewrite (IH sp b [] Hs); reflexivity.
    + apply IH. exact Hs.
Qed.

Lemma fields_app_space : forall a sp b, is_space sp = true -> fields (a ++ sp :: b) = fields a ++ fields b.
Proof. intros. apply fields_aux_app_space. assumption. Qed.

(* token level: the same command is dispatched *)
Theorem handle_line_skips : forall garbage line line',
  fields line' = garbage ++ fields line -> all_unknown V garbage ->
  handle_line V line' = handle_line V line.
Proof.
  intros garbage line line' Hf Hg. unfold handle_line, dispatch. rewrite Hf, (rpg_skip V garbage _ Hg). reflexivity.
Qed.

(* text level: garbage text, a white-space byte, then the line *)
Theorem handle_garbage_prefix : forall iters fuel e c (garbage : bytes) (sp : N) (line : bytes),
  all_unknown V (fields garbage) -> is_space sp = true ->
  go_handle iters fuel e (garbage ++ sp :: line) c = go_handle iters fuel e line c.
Proof.
  intros iters fuel e c garbage sp line Hg Hs. rewrite !go_handle_eq.
  rewrite (handle_line_skips (fields garbage) line (garbage ++ sp :: line)); [reflexivity| |exact Hg].
  apply fields_app_space. exact Hs.
Qed.

Theorem handle_garbage_tokens : forall iters fuel e c (garbage ts : list token),
  Forall plain_token garbage -> Forall plain_token ts -> all_unknown V garbage ->
  go_handle iters fuel e (join (garbage ++ ts)) c = go_handle iters fuel e (join ts) c.
Proof.
  intros iters fuel e c garbage ts Hpg Hpt Hg. rewrite !go_handle_eq.
  rewrite (handle_line_skips garbage (join ts) (join (garbage ++ ts))); [reflexivity| |exact Hg].
  rewrite !fields_join; [reflexivity|exact Hpt|]. apply Forall_app. split; assumption.
Qed.

(* ------------------------------------------------------------------ non-vacuity *)
Example dispatch_examples :
  let e := go_engine_init in
  let s := fun x => bytes_of_string x in
  go_handle 5 5 e (s "xyzzy 42 isready now"%string) None = EOk e [OReadyOk] /\
  go_handle 5 5 e (s "debug on"%string) None = EOk e [] /\
  go_handle 5 5 e (s "hello world"%string) None = EOk e [] /\
  go_handle 5 5 e (s ""%string) None = EOk e [] /\
  go_handle 5 5 e (s "foo stop"%string) None = EOk e [] /\
  go_handle 5 5 e (s "uci"%string) None = EOk e [OUci] /\
  go_handle 5 5 e (s "quit"%string) None = EQuit /\
  go_handle 5 5 e (s "go depth 1"%string) None = EOk e [ONoPosition] /\
  first_command (s "xyzzy 42 isready now"%string) w_isready [s "now"%string] /\
  all_unknown V (fields (s "hello world"%string)) /\
  match prepare_input V (s "debug on"%string) with [] => True | w :: _ => ~ In w command_words end.
Proof.
  cbv zeta. repeat split; try (vm_compute; reflexivity).
  - exists [bytes_of_string "xyzzy"%string; bytes_of_string "42"%string]. split; [vm_compute; reflexivity|].
    repeat constructor.
  - repeat constructor.
  - vm_compute. intuition discriminate.
Qed.

Print Assumptions handle_ignored.
Print Assumptions handle_isready.
Print Assumptions handle_ucinewgame.
Print Assumptions handle_garbage_prefix.
Print Assumptions handle_garbage_tokens.
Print Assumptions dispatch_examples.
