(* Whole-engine theorems, part 4a (goal 4, search level): termination (C05) + no panic (premise) + legality of the
   answer (C04) + the null move only without legal moves (WipNull) + the engine's legal moves are the FIDE legal
   moves (C01) + successor (C02), composed into one statement about [go_search] from a legal root. *)
From Coq Require Import NArith ZArith List Bool Lia Permutation.
From Clemens Require Import Base.Res Base.Word Pos.Types Att.Attacks Pos.Position Pos.Inv Pos.GenWords
     Pos.ZobristProofs Pos.ZobristInst Eval.Eval
     Search.TT Search.Ordering Search.OrderingProofs Search.Negamax Search.SearchStruct Search.SearchLines
     Search.SearchRoot Search.SearchIter Search.GoInst Search.SearchGo.
From Clemens.C10Inv Require Import InvViews InvMake InvStep InvTotal InvReach.
From Clemens.C13Mate Require Import MateDefs MateChild MateSane MateLoop MateQ MateRange MateNega MateRoot MateRoot2
     MateIter MateMain.
From Clemens.C13Bridge Require Import Bridge Seq.
From Clemens.C05Term Require Import Mono GoTerm.
From Clemens Require Import Rules.Abs Rules.Fide.
From Clemens.C02Refine Require Import MakeRefines.
From Clemens.C01Att Require Import FideFacts Final.
From Clemens.C03Recon Require Import Recon.
From Clemens.C04Null Require Import NullRoot NullGo.
From Clemens.EngineE2E Require Import EngBase.
Import ListNotations.
Open Scope list_scope.

(* ------------------------------------------------------------------ the premise proved in parallel *)
Definition no_panic_statement : Prop :=
  forall iters f s root req, legal_pos root -> (List.length (s_hist s) + f <= 1024)%nat ->
    fst (go_search iters f true s root req) <> RPanic.

(* the one hypothesis that remains about the search itself: run with recursion bound [f0] (and the
   loop bound 510 that always suffices) it does not run out of recursion.  "The search from this root and
   state needs recursion depth at most f0." *)
Definition recursion_within (f0 : nat) (s : sst) (root : position) (req : N) : Prop :=
  fst (go_search 510 f0 true s root req) <> ROutOfFuel.

(* ------------------------------------------------------------------ FIDE vocabulary *)
(* a line of play that is legal move by move under the FIDE rules *)
Definition fide_line (s : bstate) (fms : list fmove) : Prop := exists r, fide_game s fms r.

(* the answer: one of the FIDE-legal moves if there is one, else the null move *)
Definition answer_spec (s : bstate) (m : N) : Prop :=
  (Fide.legal_moves s <> [] -> m <> NULL_MOVE /\ In (decode m) (Fide.legal_moves s)) /\
  (Fide.legal_moves s = [] -> m = NULL_MOVE).

Definition info_pv (e : sevent) : list N := match e with EInfo _ _ _ _ pv => pv | EWindow _ _ _ => [] end.

(* the first move of a printed line is FIDE-legal (or the line is empty, or it begins with the null word) *)
Definition pv_head_fide (s : bstate) (e : sevent) : Prop :=
  match info_pv e with [] => True | m :: _ => m = NULL_MOVE \/ In (decode m) (Fide.legal_moves s) end.
(* the whole printed line is FIDE-legal *)
Definition pv_fide (s : bstate) (e : sevent) : Prop := fide_line s (map decode (info_pv e)).

Lemma decode_low : forall m, decode (mv_low m) = decode m.
Proof.
  intro m. unfold decode.
  rewrite SearchLines.mv_src_low, SearchLines.mv_dst_low, SearchLines.mv_kind_low, SearchLines.mv_promo_low.
  reflexivity.
Qed.

(* ------------------------------------------------------------------ engine-legal = FIDE-legal *)
Lemma move_ok_in_legal_moves : forall p m q l,
  Inv p -> gen_of p m -> make_move go_keys p m = Ok q -> is_legal q = Ok true ->
  Position.legal_moves go_keys p = Ok l -> In (mv_low m) l.
Proof.
  intros p m q l HI Hg Hmk Hleg Hl. assert (Hg' := Hg). destruct Hg' as (g & m0 & Eg & Hin & E).
  pose proof (gen_moves_low16 p g HI Eg) as H16.
  pose proof (gen_of_low p m g Eg H16 Hg) as Hlow.
  eapply SearchIter.legal_moves_in; eauto. rewrite make_move_low. exact Hmk.
Qed.

Lemma move_ok_fide : forall p m q,
  Inv p -> gen_of p m -> make_move go_keys p m = Ok q -> is_legal q = Ok true ->
  In (decode m) (Fide.legal_moves (abs p)) /\ Inv q /\ same_core (abs q) (apply (abs p) (decode m)).
Proof.
  intros p m q HI Hg Hmk Hleg.
  destruct (legal_moves_total go_keys go_keys_wf p HI) as [l Hl].
  pose proof (move_ok_in_legal_moves p m q l HI Hg Hmk Hleg Hl) as Hin.
  pose proof (C01_movegen_closed go_keys p l HI Hl) as Hperm.
  assert (Hmk' : make_move go_keys p (mv_low m) = Ok q) by (rewrite make_move_low; exact Hmk).
  split; [|split].
  - rewrite <- decode_low. eapply Permutation_in; [exact Hperm|]. apply in_map. exact Hin.
  - exact (inv_step_holds go_keys p (mv_low m) q l HI Hl Hin Hmk').
  - destruct (ZobristProofs.legal_moves_in go_keys p l (mv_low m) Hl Hin) as (ms & Gn & Hg').
    pose proof (make_refines_nocount go_keys p ms (mv_low m) q HI Gn Hg' Hmk') as H. cbv zeta in H.
    rewrite decode_low in H. exact H.
Qed.

Lemma line_legal_fide : forall p l, line_legal go_keys p l ->
  forall s, Inv p -> same_core (abs p) s -> fide_line s (map decode l).
Proof.
  intros p l H. induction H as [p|p m q l Hg Hmk Hleg Hl IH]; intros s HI Hc.
  - exists s. constructor.
  - destruct (move_ok_fide p m q HI Hg Hmk Hleg) as (Hin & Iq & Cq).
    assert (Cq' : same_core (abs q) (apply s (decode m))).
    { eapply same_core_trans; [exact Cq|]. apply apply_same_core. exact Hc. }
    destruct (IH (apply s (decode m)) Iq Cq') as [r Hr].
    exists r. cbn [map]. constructor; [|exact Hr].
    rewrite <- (legal_moves_core _ _ Hc). exact Hin.
Qed.

Lemma head_ok_fide : forall p l, Inv p -> head_ok go_keys p l ->
  match l with [] => True | m :: _ => m = NULL_MOVE \/ In (decode m) (Fide.legal_moves (abs p)) end.
Proof.
  intros p [|m l] HI H; [exact I|]. unfold head_ok, move_ok in H. destruct H as [H|(Hg & q & Hmk & Hleg)]; [left; exact H|right].
  exact (proj1 (move_ok_fide p m q HI Hg Hmk Hleg)).
Qed.

(* the engine's legal-move list is empty iff the FIDE one is *)
Lemma legal_moves_nil_iff : forall p l, Inv p -> Position.legal_moves go_keys p = Ok l ->
  (l = [] <-> Fide.legal_moves (abs p) = []).
Proof.
  intros p l HI Hl. pose proof (C01_movegen_closed go_keys p l HI Hl) as Hperm. split.
  - intros ->. cbn [map] in Hperm. apply Permutation_nil. exact Hperm.
  - intro E. rewrite E in Hperm. apply Permutation_sym, Permutation_nil in Hperm.
    destruct l; [reflexivity|discriminate].
Qed.

(* ------------------------------------------------------------------ the composed search theorem *)
Lemma search_keeps_cache_sane : forall root iters fuel rep s req r s',
  legal_pos root -> cache_sane go_econsts (s_cache s) ->
  go_search iters fuel rep s root req = (r, s') -> cache_sane go_econsts (s_cache s').
Proof.
  intros root iters fuel rep s req r s' H1 Hc E.
  assert (X : Sane go_econsts NoH s').
  { refine (search_keeps go_keys go_econsts go_oconsts go_sconsts NoH legal_pos
              (legal_pos_move go_keys) (legal_pos_null go_keys) legal_pos_eval_sane _
              root iters fuel rep s req r s' H1 _ E).
    - intros p _ [].
    - split; [apply tt_clean_NoH|exact Hc]. }
  exact (proj2 X).
Qed.

(* what one accepted `go` computes.  [iters], [fuel]: the bounds the engine function is run with;
   [f0]: a recursion depth within which the search stays (hypothesis [recursion_within]), small enough for
   the ply counter not to wrap (255) and for the repetition stack to hold game + recursion (1024). *)
Lemma search_answers_gen : no_panic_statement ->
  forall it0 iters fuel f0 s root req,
  legal_pos root -> cache_sane go_econsts (s_cache s) -> s_pv s = [] -> (req < 255)%N ->
  (f0 <= 255)%nat -> (List.length (s_hist s) + f0 <= 1024)%nat ->
  fst (go_search it0 f0 true s root req) <> ROutOfFuel ->
  (it0 <= iters)%nat -> (f0 <= fuel)%nat ->
  exists m s' new,
    go_search iters fuel true s root req = (ROk m, s') /\
    answer_spec (abs root) m /\
    s_out s' = new ++ s_out s /\
    m = nth 0 (last_pv new []) NULL_MOVE /\
    Forall (pv_head_fide (abs root)) new /\
    (Forall ev_score_ok new -> Forall (pv_fide (abs root)) new) /\
    cache_sane go_econsts (s_cache s').
Proof.
  intros NP it0 iters fuel f0 s root req HR Hc Hpv Hreq Hf0 Hroom Hrec Hit Hfu.
  pose proof (NP it0 f0 s root req HR Hroom) as Hnp.
  pose proof (go_search_not_cancel it0 f0 true s root req) as Hnc.
  destruct (go_search it0 f0 true s root req) as [r s'] eqn:E.
  cbn [fst] in Hrec, Hnp.
  destruct r as [m| | |]; try contradiction; [|exfalso; apply (Hnc s'); reflexivity].
  exists m, s'.
  pose proof (search_fuel_irrelevant go_keys go_econsts go_oconsts go_sconsts it0 iters f0 fuel true s root req
                (ROk m) s' E ltac:(discriminate) Hit Hfu) as E'.
  destruct (go_search_spec it0 f0 true s root req (ROk m) s' Hreq E) as (new & O1 & O2 & O3 & O4 & O5).
  destruct (answer_is_last_info go_keys go_econsts go_oconsts go_sconsts go_inf_ok it0 f0 true s root req m s'
              (go_req_depth req Hreq) Hpv E) as (new' & O1' & Hm & _).
  assert (new' = new) by (rewrite O1 in O1'; apply app_inv_tail in O1'; auto). subst new'.
  exists new. split; [exact E'|].
  destruct HR as [HI HM].
  destruct (legal_moves_total go_keys go_keys_wf root HI) as [l Hl].
  pose proof (legal_moves_nil_iff root l HI Hl) as Hnil.
  pose proof (C01_movegen_closed go_keys root l HI Hl) as Hperm.
  split; [|split; [exact O1|split; [exact Hm|split; [|split]]]].
  - split.
    + intro Hne. assert (Hl' : l <> []) by (intro X; apply Hne, Hnil, X).
      destruct (answer_is_legal_move root it0 f0 true s req m s' l (conj HI HM) Hc Hf0 Hreq Hpv Hl Hl' E) as [A B].
      split; [exact A|]. rewrite <- decode_low. eapply Permutation_in; [exact Hperm|]. apply in_map. exact B.
    + intro He. apply Hnil in He. subst l.
      exact (proj2 (null_iff_no_moves root it0 f0 true s req m s' (conj HI HM) Hc Hf0 Hreq Hpv E) Hl).
  - eapply Forall_impl; [|exact O2]. intros [d sc n h pv|a b v] Hev; unfold pv_head_fide; cbn [info_pv]; [|exact I].
    unfold ev_ok in Hev. destruct Hev as (_ & Hh & _). exact (head_ok_fide root pv HI Hh).
  - intro Hs. specialize (O4 Hs). eapply Forall_impl; [|exact O4].
    intros [d sc n h pv|a b v] Hev; unfold pv_fide; cbn [info_pv map].
    + unfold ev_legal in Hev. exact (line_legal_fide root pv Hev (abs root) HI (same_core_refl _)).
    + exists (abs root). constructor.
  - eapply search_keeps_cache_sane; [exact (conj HI HM)|exact Hc|exact E].
Qed.

(* without the bound 255 on the recursion depth (only the room on the repetition stack): everything but "the null
   move only without legal moves" - the answer is the null word or a FIDE-legal move *)
Theorem search_answers_weak : no_panic_statement ->
  forall iters fuel f0 s root req,
  legal_pos root -> s_pv s = [] -> (req < 255)%N ->
  (List.length (s_hist s) + f0 <= 1024)%nat ->
  recursion_within f0 s root req ->
  (510 <= iters)%nat -> (f0 <= fuel)%nat ->
  exists m s' new,
    go_search iters fuel true s root req = (ROk m, s') /\
    (m = NULL_MOVE \/ In (decode m) (Fide.legal_moves (abs root))) /\
    (Fide.legal_moves (abs root) = [] -> m = NULL_MOVE) /\
    s_out s' = new ++ s_out s /\
    m = nth 0 (last_pv new []) NULL_MOVE /\
    Forall (pv_head_fide (abs root)) new /\
    (Forall ev_score_ok new -> Forall (pv_fide (abs root)) new).
Proof.
  intros NP iters fuel f0 s root req HR Hpv Hreq Hroom Hrec Hit Hfu.
  unfold recursion_within in Hrec. revert Hrec Hit. generalize 510%nat. intros it0 Hrec Hit.
  pose proof (NP it0 f0 s root req HR Hroom) as Hnp.
  pose proof (go_search_not_cancel it0 f0 true s root req) as Hnc.
  destruct (go_search it0 f0 true s root req) as [r s'] eqn:E.
  cbn [fst] in Hrec, Hnp.
  destruct r as [m| | |]; try contradiction; [|exfalso; apply (Hnc s'); reflexivity].
  exists m, s'.
  pose proof (search_fuel_irrelevant go_keys go_econsts go_oconsts go_sconsts it0 iters f0 fuel true s root req
                (ROk m) s' E ltac:(discriminate) Hit Hfu) as E'.
  destruct (go_search_spec it0 f0 true s root req (ROk m) s' Hreq E) as (new & O1 & O2 & O3 & O4 & O5).
  destruct (answer_is_last_info go_keys go_econsts go_oconsts go_sconsts go_inf_ok it0 f0 true s root req m s'
              (go_req_depth req Hreq) Hpv E) as (new' & O1' & Hm & _).
  assert (new' = new) by (rewrite O1 in O1'; apply app_inv_tail in O1'; auto). subst new'.
  exists new. split; [exact E'|].
  destruct HR as [HI HM].
  destruct (legal_moves_total go_keys go_keys_wf root HI) as [l Hl].
  pose proof (legal_moves_nil_iff root l HI Hl) as Hnil.
  pose proof (C01_movegen_closed go_keys root l HI Hl) as Hperm.
  pose proof (answer_in_legal_moves go_keys go_econsts go_oconsts go_sconsts go_inf_ok
                it0 f0 true s root req m s' l HI (go_req_depth req Hreq) Hpv Hl E) as Hans.
  split; [|split; [|split; [exact O1|split; [exact Hm|split]]]].
  - destruct Hans as [X|X]; [left; exact X|right].
    rewrite <- decode_low. eapply Permutation_in; [exact Hperm|]. apply in_map. exact X.
  - intro He. apply Hnil in He. subst l. destruct Hans as [X|[]]. exact X.
  - eapply Forall_impl; [|exact O2]. intros [d sc n h pv|a b v] Hev; unfold pv_head_fide; cbn [info_pv]; [|exact I].
    unfold ev_ok in Hev. destruct Hev as (_ & Hh & _). exact (head_ok_fide root pv HI Hh).
  - intro Hs. specialize (O4 Hs). eapply Forall_impl; [|exact O4].
    intros [d sc n h pv|a b v] Hev; unfold pv_fide; cbn [info_pv map].
    + unfold ev_legal in Hev. exact (line_legal_fide root pv Hev (abs root) HI (same_core_refl _)).
    + exists (abs root). constructor.
Qed.

Theorem search_answers : no_panic_statement ->
  forall iters fuel f0 s root req,
  legal_pos root -> cache_sane go_econsts (s_cache s) -> s_pv s = [] -> (req < 255)%N ->
  (f0 <= 255)%nat -> (List.length (s_hist s) + f0 <= 1024)%nat ->
  recursion_within f0 s root req ->
  (510 <= iters)%nat -> (f0 <= fuel)%nat ->
  exists m s' new,
    go_search iters fuel true s root req = (ROk m, s') /\
    answer_spec (abs root) m /\
    s_out s' = new ++ s_out s /\
    m = nth 0 (last_pv new []) NULL_MOVE /\
    Forall (pv_head_fide (abs root)) new /\
    (Forall ev_score_ok new -> Forall (pv_fide (abs root)) new) /\
    cache_sane go_econsts (s_cache s').
Proof.
  intros NP iters fuel f0 s root req HR Hc Hpv Hreq Hf0 Hroom Hrec Hit Hfu.
  exact (search_answers_gen NP _ iters fuel f0 s root req HR Hc Hpv Hreq Hf0 Hroom Hrec Hit Hfu).
Qed.


Print Assumptions search_answers.
Print Assumptions search_answers_weak.
