(* Whole-engine theorems, part 4c: a sufficient condition for the one hypothesis the end-to-end theorem keeps about
   the search itself ("recursion depth at most f0 <= 255").

   C05's ranked bound (go_search_ranked) is  depth + cb root + 258, the 258 being the ply-counter bound of
   quiescence - always above 255.  For positions satisfying the C10 invariant quiescence is also bounded by the
   number of men on the board (C05Term/QMen.v: every recursive call follows a capture), at most 64.  Re-running
   the generic fuel argument of C05Term/NoFuel.v with that bound gives  depth + cb root + 66. *)
From Coq Require Import NArith ZArith List Bool FMapPositive Lia ZifyBool ZifyN ZifyNat.
From Clemens Require Import Base.Res Base.Word Pos.Types Att.Attacks Pos.Position Pos.Inv Eval.Eval
     Search.TT Search.Ordering Search.Negamax Search.SearchStruct Search.SearchLines Search.SearchIter
     Search.GoInst Search.SearchGo.
From Clemens.C13Mate Require Import MateDefs.
From Clemens.C13Bridge Require Import Bridge.
From Clemens.C05Term Require Import Mono NoFuel Rank QMen GoTerm KK.
From Clemens.EngineE2E Require Import EngBase EngSearch.
Import ListNotations.
Open Scope Z_scope.

Section Men.
Variable K : zkeys.
Variable EC : econsts.
Variable OC : oconsts.
Variable SC : sconsts.

Variable G : list N -> position -> N -> Prop.
Variable mu : list N -> position -> N -> nat.
Hypothesis G_inv : forall h p d, G h p d -> Inv p.
Hypothesis step_move : forall h p d ic m q,
  G h p d -> is_in_check p (side p) = Ok ic -> ext_depth ic d <> 0%N ->
  (N.of_nat (length h) < sc_hist_size SC)%N ->
  movable p m -> make_move K p m = Ok q -> is_legal q = Ok true ->
  G (hash p :: h) q (w8 (ext_depth ic d + 256 - 1)) /\
  (mu (hash p :: h) q (w8 (ext_depth ic d + 256 - 1)) < mu h p d)%nat.
Hypothesis step_null : forall h p d q x,
  G h p d -> is_in_check p (side p) = Ok false -> (2 < d)%N ->
  (N.of_nat (length h) < sc_hist_size SC)%N ->
  make_null_move K p = Ok (q, x) ->
  let d' := w8 (d + 256 - (if (6 <? d)%N then 3 else 2) - 1) in
  G (hash p :: h) q d' /\ (mu (hash p :: h) q d' < mu h p d)%nat.

(* NoFuel.negamax_T with quiescence bounded by the men on the board instead of the ply counter *)
Theorem negamax_T_men : forall f s p alpha beta depth ply cn pm rh,
  G (s_hist s) p depth -> (mu (s_hist s) p depth + 66 <= f)%nat ->
  okT (negamax K EC OC SC f s p alpha beta depth ply cn pm rh).
Proof.
  induction f as [|f IH]; intros s p alpha beta depth ply cn pm rh HG Hf; [lia|].
  rewrite negamax_eq. cbv zeta.
  destruct (poll s) as [[|] s0] eqn:Ep; [leafT|].
  pose proof (poll_A s) as Hp. rewrite Ep in Hp. cbn [fst snd] in Hp. destruct Hp as ([Hh0 _ _ _ _] & _).
  destruct (is_in_check p (side p)) as [ic| |] eqn:Eic; [|leafT|leafT].
  fold (ext_depth ic depth).
  destruct (ext_depth ic depth =? 0)%N eqn:Ed.
  - pose proof (men_le_64 p) as Hmen.
    pose proof (quiescence_men K EC OC SC f s0 p alpha beta ply (G_inv _ _ _ HG) ltac:(lia)) as Hqq.
    destruct (quiescence K EC OC SC f s0 p alpha beta ply) as [[?| | |] ?]; unfold okT in *; cbn [fst] in *;
      try discriminate. contradiction.
  - apply N.eqb_neq in Ed.
    match goal with |- okT (if ?b then _ else _) => destruct b end; [leafT|].
    unfold push_history. projs.
    destruct (N.of_nat (length (s_hist s0)) <? sc_hist_size SC)%N eqn:El; [|leafT].
    apply N.ltb_lt in El. rewrite Hh0 in El.
    unfold okT. cbn [fst]. apply inner_T with (P := fun h q d => G h q d /\ (mu h q d + 66 <= f)%nat).
    + intros s1 q a b d pl cn1 pm1 rh1 [H1 H2]. apply IH; assumption.
    + intros. apply negamax_A.
    + intros m q Hmv Hmk Hl. projs. rewrite Hh0.
      destruct (step_move (s_hist s) p depth ic m q HG Eic Ed El Hmv Hmk Hl) as [X1 X2].
      split; [exact X1|lia].
    + intros -> H2 q x Hn. projs. rewrite Hh0. unfold ext_depth in *.
      destruct (step_null (s_hist s) p depth q x HG Eic H2 El Hn) as [X1 X2].
      split; [exact X1|lia].
Qed.
End Men.

Ltac Zify.zify_post_hook ::= Z.to_euclidean_division_equations.

Lemma w8_pred' : forall d, d <> 0%N -> (w8 (d + 256 - 1) < d)%N.
Proof. intros d Hd. unfold w8. lia. Qed.
Lemma w8_ext' : forall d, w8 (d + 1) <> 0%N -> (w8 (w8 (d + 1) + 256 - 1) <= d)%N.
Proof.
  intros d Hd. unfold w8 in *.
  pose proof (N.mod_upper_bound (d + 1) 256 ltac:(discriminate)) as H1.
  pose proof (N.mod_le (d + 1) 256 ltac:(discriminate)) as H2.
  set (r := ((d + 1) mod 256)%N) in *.
  replace (r + 256 - 1)%N with ((r - 1) + 1 * 256)%N by lia.
  rewrite N.mod_add by discriminate. rewrite N.mod_small by lia. lia.
Qed.
Lemma w8_null' : forall d (R : N), (2 < d)%N -> (R = 2 \/ (R = 3 /\ 6 < d))%N -> (w8 (d + 256 - R - 1) < d)%N.
Proof. intros d R Hd HR. unfold w8. lia. Qed.

(* ------------------------------------------------------------------ the ranked bound below 255 *)
Section RankingMen.
Variable U : position -> Prop.
Variable cb : position -> nat.
Hypothesis cb_move : forall p m q, U p -> movable p m -> make_move go_keys p m = Ok q -> is_legal q = Ok true ->
  U q /\ (cb q <= cb p)%nat /\ (is_in_check p (side p) = Ok true -> (cb q < cb p)%nat).
Hypothesis cb_null : forall p q x, U p -> is_in_check p (side p) = Ok false -> make_null_move go_keys p = Ok (q, x) ->
  U q /\ (cb q <= cb p)%nat.

Theorem go_negamax_ranked_men : forall f s p alpha beta depth ply cn pm rh,
  U p -> legal_pos p -> (N.to_nat depth + cb p + 66 <= f)%nat ->
  okT (go_negamax f s p alpha beta depth ply cn pm rh).
Proof.
  intros f s p alpha beta depth ply cn pm rh Hu Hl Hf.
  apply (negamax_T_men go_keys go_econsts go_oconsts go_sconsts (fun _ p _ => U p /\ legal_pos p)
           (fun _ p d => (N.to_nat d + cb p)%nat)).
  - intros h p0 d [_ [HI _]]. exact HI.
  - intros h p0 d ic m q [Hu0 Hl0] Hic Hd _ Hmv Hmk Hle.
    destruct (cb_move p0 m q Hu0 Hmv Hmk Hle) as (Uq & Hle' & Hlt).
    split; [split; [exact Uq|exact (legal_pos_move go_keys p0 m q Hl0 Hmv Hmk Hle)]|].
    unfold ext_depth in *. destruct ic.
    + specialize (Hlt Hic). pose proof (w8_ext' d Hd). lia.
    + pose proof (w8_pred' d Hd). lia.
  - intros h p0 d q x [Hu0 Hl0] Hic Hd _ Hn. cbv zeta.
    destruct (cb_null p0 q x Hu0 Hic Hn) as (Uq & Hle).
    split; [split; [exact Uq|exact (legal_pos_null go_keys p0 q x Hl0 Hic Hn)]|].
    pose proof (w8_null' d (if (6 <? d)%N then 3 else 2)%N Hd
                  ltac:(destruct (6 <? d)%N eqn:E6; [right; split; [reflexivity|apply N.ltb_lt; exact E6]|left; reflexivity])).
    lia.
  - split; assumption.
  - exact Hf.
Qed.

Theorem go_search_ranked_men : forall iters f s root req,
  U root -> legal_pos root -> (req < 255)%N -> (510 <= iters)%nat ->
  (N.to_nat (N.max 1 (req_to_depth go_sconsts req)) + cb root + 66 <= f)%nat ->
  fst (go_search iters f true s root req) <> ROutOfFuel.
Proof.
  intros iters f s root req Hu Hl Hreq Hit Hf.
  pose proof (go_req_depth req Hreq) as Hd.
  apply (search_T go_keys go_econsts go_oconsts go_sconsts go_qmax f root req (s_hist s) Hd); [|reflexivity|].
  - intros s1 d1 a1 b1 _ Hd1. unfold search_root. apply go_negamax_ranked_men; [exact Hu|exact Hl|lia].
  - unfold iters_enough. lia.
Qed.

(* the hypothesis of EngSearch.search_answers / EngE2E.go_answers *)
Corollary ranked_recursion_within : forall f0 s root req,
  U root -> legal_pos root -> (req < 255)%N ->
  (N.to_nat (N.max 1 (req_to_depth go_sconsts req)) + cb root + 66 <= f0)%nat ->
  recursion_within f0 s root req.
Proof. intros. unfold recursion_within. apply go_search_ranked_men; auto. Qed.
End RankingMen.

(* a non-degenerate instance: roots with the two kings only need no check budget: depth + 66 *)
Theorem kings_only_recursion_within : forall f0 s root req,
  kings_only_pos root -> legal_pos root -> (req < 255)%N ->
  (N.to_nat (N.max 1 (req_to_depth go_sconsts req)) + 66 <= f0)%nat ->
  recursion_within f0 s root req.
Proof.
  intros f0 s root req Hk Hl Hreq Hf.
  destruct (kings_only_ranking go_keys) as [Hm Hn].
  apply (ranked_recursion_within kings_only_pos (fun _ => 0%nat) Hm Hn f0 s root req Hk Hl Hreq). lia.
Qed.

Print Assumptions negamax_T_men.
Print Assumptions go_search_ranked_men.
Print Assumptions kings_only_recursion_within.
