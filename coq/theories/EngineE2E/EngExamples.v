(* Whole-engine theorems, part 6: the refutation of goal 1 as literally stated (`go depth 255`), non-vacuity examples
   for the main theorems (concrete sessions evaluated by the kernel), and an instance of the end-to-end theorem whose
   only premise is [no_panic_statement] (kings-only positions). *)
From Coq Require Import NArith ZArith List Bool Lia String Ascii.
From Clemens Require Import Base.Res Base.Word Base.Bytes Pos.Types Pos.Position Pos.Fen Pos.Inv
     Pos.ZobristInst Eval.Eval Search.TT Search.Negamax Search.SearchStruct Search.SearchIter Search.GoInst Search.SearchGo
     Search.Time Search.TimeProofs
     Uci.ParseGo Uci.ParseGoProofs Uci.Input Uci.InputProofs Uci.GoLineSpec Uci.Game Uci.Engine Uci.EngineInst.
From Clemens.C13Mate Require Import MateDefs MateExamples.
From Clemens.C13Bridge Require Import Bridge.
From Clemens.C05Term Require Import KK.
From Clemens Require Import Rules.Abs Rules.Fide.
From Clemens.C01Att Require Import FideFacts.
From Clemens.C03Recon Require Import FideText Recon.
From ClemensGen Require Import GoConsts.
From Clemens.EngineE2E Require Import EngBase EngDispatch EngState EngSearch EngE2E EngText EngRank.
Import ListNotations.
Open Scope list_scope.
Open Scope string_scope.

Definition bs (s : string) : bytes := bytes_of_string s.
Definition text (l : bytes) : string := string_of_list_ascii (map ascii_of_N l).
(* the lines an output event prints, as strings *)
Definition printed_lines (out : list oev) : list string := flat_map (fun o => map text (fst (go_render o))) out.

(* ================================================================== goal 1 as literally stated is FALSE *)
(* `go depth 255` at a mated root with an oracle that never reports done: the iterative-deepening loop never
   ends (EngBase.go_depth_255_no_answer: for ALL bounds the result is EStuck or a panic); here with the bounds of
   C05 and with larger ones *)
Definition mated_fen : string := "rnb1kbnr/pppp1ppp/8/4p3/6Pq/5P2/PPPPP2P/RNBQKBNR w KQkq - 1 3".
Definition mated_engine : engine :=
  match go_handle 1 1 go_engine_init (bs ("position fen " ++ mated_fen)) None with
  | EOk e _ => e
  | _ => go_engine_init
  end.

Lemma mated_engine_accepts : accepts_go mated_engine /\ go_depth_of (bs "go depth 255") = Some 255%Z.
Proof. split; [split; [vm_compute; reflexivity|vm_compute; discriminate]|vm_compute; reflexivity]. Qed.

Theorem handle_never_stuck_refuted :
  ~ (forall iters fuel e line c, (510 <= iters)%nat -> (1282 <= fuel)%nat -> go_handle iters fuel e line c <> EStuck).
Proof.
  intro H. apply (H 510%nat 1282%nat mated_engine (bs "go depth 255") None); [lia|lia|].
  vm_compute. reflexivity.
Qed.

Example depth_255_stuck_larger_bounds :
  go_handle 1100 1282 mated_engine (bs "go depth 255") None = EStuck /\
  go_run 510 1282 go_engine_init [(bs ("position fen " ++ mated_fen), None); (bs "go depth 255", None)] = (SStuck, []).
Proof. split; vm_compute; reflexivity. Qed.

(* the same line with depth 254 is answered (mated: the null move), as handle_never_stuck says *)
Example depth_254_answers :
  depth_below_255 (bs "go depth 254") /\
  match go_handle 510 1282 mated_engine (bs "go depth 254") None with
  | EOk _ out => last out OReadyOk
  | _ => OReadyOk
  end = OBestMove NULL_MOVE.
Proof. split; [vm_compute; discriminate|vm_compute; reflexivity]. Qed.

(* ================================================================== a session: state machine, counts *)
Definition session1 : list (bytes * option N) :=
  [(bs "uci", None); (bs "isready", None); (bs "go depth 1", None);           (* refused: no position *)
   (bs "xyzzy position startpos moves e2e4 e7e5", None); (bs "go depth 1", None);  (* accepted *)
   (bs "go depth 1", None);                                                      (* refused: IDLE *)
   (bs "stop", None); (bs "ucinewgame", None); (bs "go", None)].                 (* refused: no game *)

Example session1_run :
  match go_run 10 60 go_engine_init session1 with
  | (SEof e, out) =>
      (en_state e, match en_game e with None => true | _ => false end, count_best out,
       answered_gos 10 60 go_engine_init session1, printed_lines out)
  | _ => (9%N, false, 9%nat, 9%nat, [])
  end =
  (ST_IDLE, true, 1%nat, 1%nat,
   ["id name " ++ text md_name ++ " " ++ text md_version; "id author " ++ text md_author; "uciok"; "readyok";
    "info string no position is set";
    "info string calculated timeout 900";
    "info depth 1 score cp 50 time * nodes 33 nps * hashfull 0 pv b1c3";
    "bestmove b1c3";
    "info string no position is set"; "info string no position is set"]).
Proof. vm_compute. reflexivity. Qed.

(* ================================================================== the end-to-end theorem, start position *)
Definition mv (f1 r1 f2 r2 : Z) : fmove := {| m_from := (f1, r1); m_to := (f2, r2); m_promo := None |}.
Definition ex_fms : list fmove := [mv 4 1 4 3; mv 4 6 4 4].          (* e2e4 e7e5 *)
Definition ex_s : bstate := fold_left apply ex_fms initial.
Definition ex_ps : list param := [PInt KDepth 1].
Definition ex_session : list (bytes * option N) :=
  [(join (w_position :: startpos_tokens ex_fms), None); (join ([] ++ w_go :: GoLineSpec.render ex_ps), None)].

Lemma ex_session_text :
  map (fun lc => text (fst lc)) ex_session = ["position startpos moves e2e4 e7e5"; "go depth 1"].
Proof. vm_compute. reflexivity. Qed.

Lemma ex_game : fide_game initial ex_fms ex_s.
Proof. apply fide_game_b_spec. split; [vm_compute; reflexivity|reflexivity]. Qed.

(* every hypothesis of engine_answers_startpos is met (f0 = 60, a freshly started engine), so - given the premise
   proved in wip/nopanic - its conclusion holds for this session under the bounds of C05 *)
Example e2e_startpos_instance : no_panic_statement ->
  exists g,
    same_core (abs (g_pos g)) ex_s /\ ((List.length ex_fms <= 255)%nat -> abs (g_pos g) = ex_s) /\
    List.length (g_hist g) = List.length ex_fms /\
    e2e_result ex_s g (denote ex_ps) (acks ex_ps) (go_run 510 1282 go_engine_init ex_session).
Proof.
  intro NP.
  apply (engine_answers_startpos NP 510 1282 60 go_engine_init None None ex_fms ex_s [] ex_ps); try lia.
  - discriminate.
  - apply cache_sane_nil. reflexivity.
  - exact ex_game.
  - cbn. lia.
  - constructor.
  - constructor.
  - repeat constructor. cbn. tauto.
  - constructor; [cbn; lia|constructor].
  - cbn. discriminate.
  - vm_compute. discriminate.
Qed.

(* ... and what the kernel computes for it: one bestmove, b1c3, a FIDE-legal move of the position reached *)
Example e2e_startpos_computed :
  match go_run 10 60 go_engine_init ex_session with
  | (SEof e, out) => (en_state e, out, printed_lines out)
  | _ => (9%N, [], [])
  end =
  (ST_IDLE, [OTimeout 900; OSearch (EInfo 1 50 33 0 [1153%N]); OBestMove 1153],
   ["info string calculated timeout 900";
    "info depth 1 score cp 50 time * nodes 33 nps * hashfull 0 pv b1c3"; "bestmove b1c3"]) /\
  legal ex_s (decode 1153) = true /\ text (fide_text (decode 1153)) = "b1c3".
Proof. repeat split; vm_compute; reflexivity. Qed.

(* ================================================================== the dialogue *)
(* the GUI appends the printed answer: accepted, three plies on the repetition stack, and the engine answers again *)
Example dialogue_computed :
  match go_run 10 60 go_engine_init
          (ex_session ++ [(bs "position startpos moves e2e4 e7e5 b1c3", None); (bs "go depth 1", Some 0%N)]) with
  | (SEof e, out) =>
      (count_best out, match en_game e with Some g => List.length (g_hist g) | None => 99%nat end,
       last (printed_lines out) "")
  | _ => (9%nat, 99%nat, "")
  end = (2%nat, 3%nat, "bestmove b8c6").
Proof. vm_compute. reflexivity. Qed.

Example gui_dialogue_instance :
  let line := join (w_position :: w_startpos :: w_moves :: map fide_text ex_fms ++ [bs "b1c3"]) in
  text line = "position startpos moves e2e4 e7e5 b1c3" /\
  exists g',
    (forall iters fuel c, go_handle iters fuel go_engine_init line c = EOk (with_game go_engine_init g') []) /\
    abs (g_pos g') = apply ex_s (decode 1153) /\ legal_pos (g_pos g') /\ List.length (g_hist g') = 3%nat.
Proof.
  cbv zeta. split; [vm_compute; reflexivity|].
  assert (A : answer_spec ex_s 1153).
  { split; [intros _; split; [discriminate|apply legal_moves_iff; vm_compute; reflexivity]|].
    intro H. exfalso. assert (X : In (decode 1153) (Fide.legal_moves ex_s)) by (apply legal_moves_iff; vm_compute; reflexivity).
    rewrite H in X. exact X. }
  assert (Hne : Fide.legal_moves ex_s <> []).
  { intro H. assert (X : In (decode 1153) (Fide.legal_moves ex_s)) by (apply legal_moves_iff; vm_compute; reflexivity).
    rewrite H in X. exact X. }
  destruct (gui_dialogue_startpos go_engine_init ex_fms ex_s 1153%N (bs "b1c3") ex_game A Hne ltac:(cbn; lia)
              ltac:(vm_compute; reflexivity) ltac:(discriminate)) as (g' & H1 & _ & H3 & H4 & H5).
  exists g'. split; [exact H1|]. split; [apply H3; cbn; lia|]. split; [exact H4|exact H5].
Qed.

(* ================================================================== an instance with NO hypothesis on the search *)
(* positions with the two kings only (C05Term/KK.v): no check ever, so the recursion depth is at most
   depth + 66 (EngRank.v) and the one remaining hypothesis of the end-to-end theorem is discharged:
   for EVERY engine state (not RUNNING, sane cache), both oracles, every depth 1..189 *)
Theorem engine_answers_kings_only : no_panic_statement ->
  forall iters fuel e c0 c six p0 garbage ps,
  let d := Z.to_nat (value_of KDepth ps) in
  (1 <= value_of KDepth ps <= 189)%Z ->
  (510 <= iters)%nat -> (d + 66 <= fuel)%nat ->
  en_state e <> ST_RUNNING -> cache_sane go_econsts (en_cache e) ->
  List.length six = 6%nat -> Forall plain_token six ->
  new_from_fen go_keys unicode_digit_tbl (join_sp six) = Ok p0 -> legal_pos p0 -> kings_only_pos p0 ->
  Forall plain_token garbage -> all_unknown V garbage ->
  NoDup (map kind ps) -> Forall param_ok ps ->
  let pos_line := join (w_position :: fen_tokens six []) in
  let go_line := join (garbage ++ w_go :: GoLineSpec.render ps) in
  e2e_result (abs p0) {| g_pos := p0; g_hist := [] |} (denote ps) (acks ps)
             (go_run iters fuel e [(pos_line, c0); (go_line, c)]).
Proof.
  intros NP iters fuel e c0 c six p0 garbage ps d Hd Hit Hfu Hr Hc L6 P6 Fen HP HK Hpl Hg Hnd Hok pos_line go_line.
  set (g := {| g_pos := p0; g_hist := [] |}).
  assert (Hfc : first_command pos_line w_position (fen_tokens six [])).
  { apply first_command_join0. destruct word_plain as (W1 & W2 & W3 & W4 & _).
    constructor; [exact W1|]. unfold fen_tokens. constructor; [exact W4|]. apply Forall_app. split; [exact P6|].
    constructor; [exact W3|]. constructor. }
  assert (Hpos : forall iters fuel c, go_handle iters fuel e pos_line c = EOk (with_game e g) []).
  { intros it fu c1. rewrite (handle_position it fu e pos_line c1 _ Hfc).
    apply new_position_e_set; [exact Hr|discriminate|].
    destruct (position_fen_only go_keys unicode_digit_tbl se_history_size six p0 L6 Fen) as [_ H]. exact H. }
  destruct (go_line_exact V garbage ps
              (command_word_valid V command_words_valid w_go ltac:(unfold command_words; cbn [In]; tauto))
              Hpl Hg Hnd Hok) as [Hl Ep].
  assert (Hreq : (Z.to_N (sp_depth (denote ps)) < 255)%N) by (cbn [denote sp_depth]; lia).
  assert (Hrec : recursion_within (d + 66) (go_sst (with_game e g) g c) (g_pos g) (Z.to_N (sp_depth (denote ps)))).
  { apply kings_only_recursion_within; [exact HK|exact HP|exact Hreq|].
    cbn [denote sp_depth]. unfold req_to_depth.
    destruct (N.ltb_spec 0 (Z.to_N (value_of KDepth ps))) as [_|H]; [|lia]. unfold d. lia. }
  apply (e2e_compose NP iters fuel (d + 66) e g (abs p0) c0 c pos_line garbage ps); auto.
  - unfold d. lia.
  - apply same_core_refl.
  - cbn [g g_hist List.length]. unfold d. lia.
  - lia.
  - fold go_line. rewrite (run_two _ _ e pos_line c0 go_line c _ _ (Hpos _ _ c0)).
    pose proof (recursion_within_handle (d + 66) (with_game e g) g c go_line _ _ _ eq_refl eq_refl Hl Ep Hrec) as X.
    destruct (go_handle 510 (d + 66) (with_game e g) go_line c); try discriminate. contradiction.
Qed.

(* its hypotheses are met *)
Example kings_only_instance : no_panic_statement ->
  let six := [bs "8/8/4k3/8/8/3K4/8/8"; bs "w"; bs "-"; bs "-"; bs "0"; bs "1"] in
  let ps := [PInt KDepth 3; PInt KWtime 60000; PInt KBtime 60000] in
  map (fun l => text l) [join (w_position :: fen_tokens six []); join ([] ++ w_go :: GoLineSpec.render ps)] =
    ["position fen 8/8/4k3/8/8/3K4/8/8 w - - 0 1 moves"; "go depth 3 wtime 60000 btime 60000"] /\
  e2e_result (abs (root_of kk_fen)) {| g_pos := root_of kk_fen; g_hist := [] |} (denote ps) (acks ps)
    (go_run 510 1282 go_engine_init
       [(join (w_position :: fen_tokens six []), None); (join ([] ++ w_go :: GoLineSpec.render ps), Some 5%N)]).
Proof.
  intro NP. cbv zeta. split; [vm_compute; reflexivity|].
  apply (engine_answers_kings_only NP 510 1282 go_engine_init None (Some 5%N)
           [bs "8/8/4k3/8/8/3K4/8/8"; bs "w"; bs "-"; bs "-"; bs "0"; bs "1"] (root_of kk_fen) []
           [PInt KDepth 3; PInt KWtime 60000; PInt KBtime 60000]).
  - cbn. lia.
  - lia.
  - cbn. lia.
  - discriminate.
  - apply cache_sane_nil. reflexivity.
  - reflexivity.
  - repeat constructor; discriminate.
  - vm_compute. reflexivity.
  - apply legal_pos_b_sound. vm_compute. reflexivity.
  - exact kk_root_in_universe.
  - constructor.
  - constructor.
  - repeat constructor; cbn; intuition discriminate.
  - repeat constructor; cbn; unfold min_int, max_int; lia.
Qed.

(* the timeout line of that session: 60 s on the clock, budget below it *)
Example kings_only_timeout :
  let ps := [PInt KDepth 3; PInt KWtime 60000; PInt KBtime 60000] in
  let g := {| g_pos := root_of kk_fen; g_hist := [] |} in
  timeout_line g (denote ps) = [OTimeout 900] /\
  in_range (Z.of_nat (List.length (g_hist g))) (to_go_params (denote ps)).
Proof. cbv zeta. split; [vm_compute; reflexivity|]. unfold in_range, lim. cbn. lia. Qed.

Print Assumptions handle_never_stuck_refuted.
Print Assumptions depth_255_stuck_larger_bounds.
Print Assumptions session1_run.
Print Assumptions e2e_startpos_instance.
Print Assumptions e2e_startpos_computed.
Print Assumptions dialogue_computed.
Print Assumptions gui_dialogue_instance.
Print Assumptions engine_answers_kings_only.
Print Assumptions kings_only_instance.
