(* C01, generator part: the classes produced by one [gen_helper] call - knight, bishop, rook,
   queen moves and king steps - are exactly the specification's moves of those pieces. *)
From Coq Require Import NArith ZArith List Bool Lia ZifyBool ZifyN ZifyNat.
From Clemens Require Import Base.Res Base.Word Pos.Types Att.Attacks Att.Geometry Att.ShiftsProofs
  Att.SlidingProofs Att.LeaperInst Att.AttackersProofs Pos.Position Pos.Inv Pos.CapturesProofs.
From Clemens Require Import Rules.Fide Rules.Abs.
From Clemens.C01Gen Require Import Glue Slides AttGlue ListFacts Master.
Import ListNotations.
Open Scope N_scope.

Lemma in_gen_helper_iff m X occ dest att :
  In m (gen_helper X occ dest att) <->
  exists s t, N.testbit X s = true /\ N.testbit (att s occ) t = true /\ N.testbit dest t = true /\
              m = mk_move s t.
Proof.
  unfold gen_helper. rewrite in_flat_map. split.
  - intros (s & Hs & H). apply in_map_iff in H. destruct H as (t & <- & Ht).
    apply bits_in in Hs, Ht. rewrite N.land_spec, andb_true_iff in Ht. exists s, t. tauto.
  - intros (s & t & Hs & Ha & Hd & ->). exists s. split; [apply bits_in, Hs|].
    apply in_map. apply bits_in. rewrite N.land_spec, Ha, Hd. reflexivity.
Qed.

Lemma cocc_is_piece_of c pc : pc_ok pc = true -> c < 2 -> cocc c pc = is_piece_of c pc.
Proof.
  intros H Hc. assert (c = 0 \/ c = 1) as [-> | ->] by lia; pc_split H; subst pc; reflexivity.
Qed.

(* no repetition in one helper call, whatever the attack function *)
Lemma helper_nodup X occ dest att :
  (forall s, N.testbit X s = true -> s < 64) -> (forall t, N.testbit dest t = true -> t < 64) ->
  NoDup (map decode (gen_helper X occ dest att)).
Proof.
  intros HX Hd. unfold gen_helper. rewrite map_flat_map.
  apply (NoDup_flat_map_key m_from abs_sq).
  - apply bits_NoDup.
  - intros s Hs. apply bits_in, HX in Hs. rewrite map_map. apply NoDup_map_inj_in; [apply bits_NoDup|].
    intros t t' Ht Ht' E. apply bits_in in Ht, Ht'. rewrite N.land_spec, andb_true_iff in Ht, Ht'.
    rewrite !decode_mk_move in E by (try exact Hs; apply Hd; tauto). apply mkf_inj in E. tauto.
  - intros s fm Hs Hfm. apply bits_in, HX in Hs. rewrite map_map in Hfm. apply in_map_iff in Hfm.
    destruct Hfm as (t & <- & Ht). apply bits_in in Ht. rewrite N.land_spec, andb_true_iff in Ht.
    rewrite decode_mk_move by (try exact Hs; apply Hd; tauto). reflexivity.
  - intros s s' _ _. apply abs_sq_inj.
Qed.

Section Pos.
Variable p : position.
Hypothesis HI : Inv p.

Let F := inv_facts p HI.
Let L := F_len p F.
Let V := F_valid p F.
Let stm := side p.
Let Hstm : stm < 2 := stm_lt p F.
Let Hwf := proj1 (Inv_views p HI).
Let Hagree := proj1 (proj2 (Inv_views p HI)).
Let Hhelp := proj1 (proj2 (proj2 (Inv_views p HI))).

Lemma bb_testbit T s : T < 6 ->
  (N.testbit (bb_at p stm T) s = true <-> s < 64 /\ piece_at p s = new_piece stm T).
Proof.
  intros HT. destruct (F_bb p F stm T Hstm HT) as [Hlt Hb]. split.
  - intros H. assert (Hs : s < 64) by (eapply testbit_lt64; eauto). split; [exact Hs|].
    rewrite (Hb s Hs) in H. apply N.eqb_eq, H.
  - intros [Hs E]. rewrite (Hb s Hs), E. apply N.eqb_refl.
Qed.

Lemma dest_testbit t :
  N.testbit (not64 (union6 p stm)) t = true <-> t < 64 /\ is_piece_of stm (piece_at p t) = false.
Proof.
  rewrite not64_testbit, andb_true_iff, negb_true_iff, N.ltb_lt. split.
  - intros [H Ht]. split; [exact Ht|].
    rewrite (union6_testbit p F stm t Hstm Ht), (cocc_is_piece_of stm _ (V t Ht) Hstm) in H. exact H.
  - intros [Ht H]. split; [|exact Ht].
    rewrite (union6_testbit p F stm t Hstm Ht), (cocc_is_piece_of stm _ (V t Ht) Hstm). exact H.
Qed.

Definition helper_list (T occ : N) (att : N -> N -> N) : list N :=
  gen_helper (bb_at p stm T) occ (not64 (union6 p stm)) att.

Lemma helper_class T occ att fm : T < 6 ->
  (In fm (map decode (helper_list T occ att)) <->
   exists s t, s < 64 /\ t < 64 /\ fm = mkf s t None /\ piece_at p s = new_piece stm T /\
     negb (is_piece_of stm (piece_at p t)) && N.testbit (att s occ) t = true).
Proof.
  intros HT. unfold helper_list. rewrite in_map_iff. split.
  - intros (m & <- & Hm). apply in_gen_helper_iff in Hm. destruct Hm as (s & t & Hs & Ha & Hd & ->).
    apply (bb_testbit T s HT) in Hs. destruct Hs as [Hs Hpc]. apply dest_testbit in Hd. destruct Hd as [Ht Ho].
    exists s, t. repeat split; try assumption; [apply decode_mk_move; assumption|].
    rewrite Ho, Ha. reflexivity.
  - intros (s & t & Hs & Ht & -> & Hpc & H). apply andb_true_iff in H. destruct H as [Ho Ha].
    apply negb_true_iff in Ho. exists (mk_move s t). split; [apply decode_mk_move; assumption|].
    apply in_gen_helper_iff. exists s, t. repeat split; try assumption.
    + apply (bb_testbit T s HT). tauto.
    + apply dest_testbit. tauto.
Qed.

Lemma helper_list_nodup T occ att : T < 6 -> NoDup (map decode (helper_list T occ att)).
Proof.
  intros HT. apply helper_nodup.
  - intros s Hs. apply (bb_testbit T s HT) in Hs. tauto.
  - intros t Ht. apply dest_testbit in Ht. tauto.
Qed.

(* the rules of the specification against the attack sets *)
Lemma rule_knight c s t pr : s < 64 -> t < 64 ->
  piece_rule (abs p) c Knight (abs_sq s) (abs_sq t) pr = N.testbit (knight_attacks s) t && is_none pr.
Proof. intros Hs Ht. unfold piece_rule. rewrite (knight_glue s t Hs Ht). reflexivity. Qed.

Lemma bishop_glue s t : s < 64 -> t < 64 ->
  N.testbit (bishop_attacks s (all_pieces p)) t = slides (abs p) (abs_sq s) (abs_sq t) false true.
Proof.
  intros Hs Ht. rewrite (bishop_attacks_exact s _ Hs), (ray_occ p Hwf Hagree Hhelp).
  symmetry. apply (slides_abs p s t false true L V Hs Ht).
Qed.
Lemma rook_glue s t : s < 64 -> t < 64 ->
  N.testbit (rook_attacks s (all_pieces p)) t = slides (abs p) (abs_sq s) (abs_sq t) true false.
Proof.
  intros Hs Ht. rewrite (rook_attacks_exact s _ Hs), (ray_occ p Hwf Hagree Hhelp).
  symmetry. apply (slides_abs p s t true false L V Hs Ht).
Qed.
Lemma queen_glue s t : s < 64 -> t < 64 ->
  N.testbit (queen_attacks s (all_pieces p)) t = slides (abs p) (abs_sq s) (abs_sq t) true true.
Proof.
  intros Hs Ht. rewrite (queen_attacks_exact s _ Hs), (ray_occ p Hwf Hagree Hhelp).
  symmetry. apply (slides_abs p s t true true L V Hs Ht).
Qed.

Lemma rule_bishop c s t pr : s < 64 -> t < 64 ->
  piece_rule (abs p) c Bishop (abs_sq s) (abs_sq t) pr = N.testbit (bishop_attacks s (all_pieces p)) t && is_none pr.
Proof. intros Hs Ht. unfold piece_rule. rewrite (bishop_glue s t Hs Ht). reflexivity. Qed.
Lemma rule_rook c s t pr : s < 64 -> t < 64 ->
  piece_rule (abs p) c Rook (abs_sq s) (abs_sq t) pr = N.testbit (rook_attacks s (all_pieces p)) t && is_none pr.
Proof. intros Hs Ht. unfold piece_rule. rewrite (rook_glue s t Hs Ht). reflexivity. Qed.
Lemma rule_queen c s t pr : s < 64 -> t < 64 ->
  piece_rule (abs p) c Queen (abs_sq s) (abs_sq t) pr = N.testbit (queen_attacks s (all_pieces p)) t && is_none pr.
Proof. intros Hs Ht. unfold piece_rule. rewrite (queen_glue s t Hs Ht). reflexivity. Qed.

(* a class given by an attack function whose bits are the rule of the piece *)
Lemma class_of_helper T occ att fm : T < 6 ->
  (forall s t pr, s < 64 -> t < 64 ->
     piece_rule (abs p) (abs_color stm) (abs_ptype T) (abs_sq s) (abs_sq t) pr
     = N.testbit (att s occ) t && is_none pr) ->
  (In fm (map decode (helper_list T occ att)) <-> class_spec p T fm).
Proof.
  intros HT Hrule. rewrite (helper_class T occ att fm HT). unfold class_spec. fold stm. split.
  - intros (s & t & Hs & Ht & -> & Hpc & H). exists s, t, None. repeat split; try assumption.
    rewrite (Hrule s t None Hs Ht). cbn [is_none]. rewrite andb_true_r. exact H.
  - intros (s & t & pr & Hs & Ht & -> & Hpc & H). rewrite (Hrule s t pr Hs Ht) in H.
    destruct pr as [x|]; cbn [is_none] in H; [rewrite !andb_false_r in H; discriminate H|].
    rewrite andb_true_r in H. exists s, t. repeat split; assumption.
Qed.

Theorem knight_class fm :
  In fm (map decode (helper_list KNIGHT 0 (fun s _ => knight_attacks s))) <-> class_spec p KNIGHT fm.
Proof. apply class_of_helper; [reflexivity|]. intros s t pr Hs Ht. apply rule_knight; assumption. Qed.

Theorem bishop_class fm :
  In fm (map decode (helper_list BISHOP (all_pieces p) bishop_attacks)) <-> class_spec p BISHOP fm.
Proof. apply class_of_helper; [reflexivity|]. intros s t pr Hs Ht. apply rule_bishop; assumption. Qed.

Theorem rook_class fm :
  In fm (map decode (helper_list ROOK (all_pieces p) rook_attacks)) <-> class_spec p ROOK fm.
Proof. apply class_of_helper; [reflexivity|]. intros s t pr Hs Ht. apply rule_rook; assumption. Qed.

Theorem queen_class fm :
  In fm (map decode (helper_list QUEEN (all_pieces p) queen_attacks)) <-> class_spec p QUEEN fm.
Proof. apply class_of_helper; [reflexivity|]. intros s t pr Hs Ht. apply rule_queen; assumption. Qed.

(* the king's single steps (castling is added in Castle.v) *)
Theorem king_step_class fm :
  In fm (map decode (helper_list KING 0 (fun s _ => king_attacks s))) <->
  exists s t, s < 64 /\ t < 64 /\ fm = mkf s t None /\ piece_at p s = new_piece stm KING /\
    negb (is_piece_of stm (piece_at p t)) && king_step (abs_sq s) (abs_sq t) = true.
Proof.
  rewrite (helper_class KING 0 (fun s _ => king_attacks s) fm eq_refl).
  split; intros (s & t & Hs & Ht & E & Hpc & H); exists s, t; repeat split; try assumption.
  - rewrite <- (king_glue s t Hs Ht). exact H.
  - rewrite (king_glue s t Hs Ht). exact H.
Qed.

End Pos.
