(* C01, generator part, enumeration form: the decoded generator output is a permutation of the
   specification's enumeration [filter (pseudo_legal s) candidates]. *)
From Coq Require Import NArith ZArith List Bool Lia Permutation.
From Clemens Require Import Base.Res Base.Word Pos.Types Att.Attacks Att.ShiftsProofs Pos.Position Pos.Inv.
From Clemens Require Import Rules.Fide Rules.Abs.
From Clemens.C01Gen Require Import Glue AttGlue ListFacts Master GenExact.
Import ListNotations.
Open Scope N_scope.

Lemma squares_nodup : NoDup squares.
Proof.
  unfold squares. apply NoDup_map_inj_in; [apply seq_NoDup|]. intros x y _ _ H. lia.
Qed.

Lemma all_squares_nodup : NoDup all_squares.
Proof.
  rewrite all_squares_abs. apply NoDup_map_inj_in; [apply squares_nodup|].
  intros x y _ _. apply abs_sq_inj.
Qed.

Lemma in_all_squares q : Fide.on_board q = true -> In q all_squares.
Proof.
  intros H. destruct (on_board_abs_sq q H) as (s & Hs & ->). rewrite all_squares_abs.
  apply in_map, in_squares, Hs.
Qed.

Lemma promo_options_nodup : NoDup promo_options.
Proof. unfold promo_options. repeat constructor; cbn [In]; intuition discriminate. Qed.

Lemma candidates_nodup : NoDup candidates.
Proof.
  unfold candidates. apply (NoDup_flat_map_key m_from (fun a : square => a)).
  - apply all_squares_nodup.
  - intros a _. apply (NoDup_flat_map_key m_to (fun b : square => b)).
    + apply all_squares_nodup.
    + intros b _. apply NoDup_map_inj_in; [apply promo_options_nodup|].
      intros x y _ _ H. injection H as H. exact H.
    + intros b m _ H. apply in_map_iff in H. destruct H as (pr & <- & _). reflexivity.
    + intros b b' _ _ H. exact H.
  - intros a m _ H. apply in_flat_map in H. destruct H as (b & _ & H).
    apply in_map_iff in H. destruct H as (pr & <- & _). reflexivity.
  - intros a a' _ _ H. exact H.
Qed.

Lemma piece_rule_promo s c ty a b pr : piece_rule s c ty a b pr = true -> In pr promo_options.
Proof.
  unfold promo_options. destruct ty; unfold piece_rule; rewrite ?andb_true_iff; intros H.
  - destruct H as [_ H]. unfold promo_rule in H. destruct (snd b =? last_rank c)%Z.
    + destruct pr as [[| | | | |]|]; try discriminate H; cbn [In]; tauto.
    + destruct pr; [discriminate H|]. left. reflexivity.
  - destruct H as [_ H]. destruct pr; [discriminate H|]. left. reflexivity.
  - destruct H as [_ H]. destruct pr; [discriminate H|]. left. reflexivity.
  - destruct H as [_ H]. destruct pr; [discriminate H|]. left. reflexivity.
  - destruct H as [_ H]. destruct pr; [discriminate H|]. left. reflexivity.
  - destruct H as [H _]. destruct pr; [discriminate H|]. left. reflexivity.
Qed.

(* every pseudo-legal move is one of the specification's candidates *)
Lemma pseudo_legal_candidate s m : pseudo_legal s m = true -> In m candidates.
Proof.
  rewrite pseudo_legal_unfold. cbv zeta. rewrite !andb_true_iff. intros [[[Ha Hb] _] H].
  destruct (at_sq s (m_from m)) as [pc|]; [|discriminate H].
  rewrite !andb_true_iff in H. destruct H as [_ H]. apply piece_rule_promo in H.
  unfold candidates. apply in_flat_map. exists (m_from m). split; [apply in_all_squares, Ha|].
  apply in_flat_map. exists (m_to m). split; [apply in_all_squares, Hb|].
  apply in_map_iff. exists (m_promo m). split; [destruct m; reflexivity|exact H].
Qed.

Theorem gen_moves_permutation : forall p ms, Inv p -> gen_moves p = Ok ms ->
  Permutation (map decode ms) (filter (pseudo_legal (abs p)) candidates).
Proof.
  intros p ms HI H. destruct (gen_moves_exact p ms HI H) as [Hiff Hnd].
  apply NoDup_Permutation; [exact Hnd|apply NoDup_filter, candidates_nodup|].
  intros fm. rewrite filter_In, <- Hiff. split; [|tauto].
  intros Hp. split; [apply (pseudo_legal_candidate _ _ Hp)|exact Hp].
Qed.

Print Assumptions gen_moves_permutation.
