(* C01, generator part: castling, continued. Under the invariant a held right puts king and rook on
   their home squares; CanCastleNow is then the specification's [castling_ok]; the list of castling
   moves decodes to the specification's list. *)
From Coq Require Import NArith ZArith List Bool Lia ZifyBool ZifyN ZifyNat.
From Clemens Require Import Base.Res Base.Word Pos.Types Att.Attacks Att.Geometry Att.ShiftsProofs
  Att.SlidingProofs Att.LeaperInst Att.AttackersProofs Pos.Position Pos.Inv Pos.CapturesProofs.
From Clemens Require Import Rules.Fide Rules.Abs.
From Clemens.C01Gen Require Import Glue Slides AttGlue ListFacts Master Pieces Castle.
Import ListNotations.
Open Scope N_scope.

Definition rights_chk (cs : N) : bool :=
  Bool.eqb (negb (N.land WK cs =? 0)) (N.testbit cs 0) && Bool.eqb (negb (N.land WQ cs =? 0)) (N.testbit cs 1) &&
  Bool.eqb (negb (N.land BK cs =? 0)) (N.testbit cs 2) && Bool.eqb (negb (N.land BQ cs =? 0)) (N.testbit cs 3).
Lemma rights_chk_all : forallb rights_chk (map N.of_nat (seq 0 16)) = true.
Proof. vm_compute. reflexivity. Qed.

Lemma can_castle_bits p : castling p < 16 ->
  can_castle p WK = N.testbit (castling p) 0 /\ can_castle p WQ = N.testbit (castling p) 1 /\
  can_castle p BK = N.testbit (castling p) 2 /\ can_castle p BQ = N.testbit (castling p) 3.
Proof.
  intros H. pose proof rights_chk_all as A. rewrite forallb_forall in A.
  specialize (A (castling p) (in_Nrange 16 _ H)). unfold rights_chk in A.
  rewrite !andb_true_iff in A. destruct A as [[[A0 A1] A2] A3].
  apply eqb_prop in A0, A1, A2, A3. unfold can_castle. tauto.
Qed.

(* the specification's candidates, in the generator's order: king side, queen side *)
Definition castle_spec_list (s : bstate) : list fmove :=
  let c := b_turn s in
  (if castling_ok s c true
   then [{| m_from := (4, home_rank c)%Z; m_to := (6, home_rank c)%Z; m_promo := None |}] else []) ++
  (if castling_ok s c false
   then [{| m_from := (4, home_rank c)%Z; m_to := (2, home_rank c)%Z; m_promo := None |}] else []).

Section Pos.
Variable p : position.
Hypothesis HI : Inv p.

Let F := inv_facts p HI.
Let L := F_len p F.
Let V := F_valid p F.

Lemma cons_parts :
  castling p < 16 /\
  (N.testbit (castling p) 0 = true -> piece_at p E1 = 6 /\ piece_at p H1 = 4) /\
  (N.testbit (castling p) 1 = true -> piece_at p E1 = 6 /\ piece_at p A1 = 4) /\
  (N.testbit (castling p) 2 = true -> piece_at p E8 = 14 /\ piece_at p H8 = 12) /\
  (N.testbit (castling p) 3 = true -> piece_at p E8 = 14 /\ piece_at p A8 = 12).
Proof.
  destruct (inv_clauses p HI) as (_ & _ & _ & _ & _ & Hc & _).
  unfold castling_consistent in Hc. rewrite !andb_true_iff in Hc.
  destruct Hc as [[[[H16 H0] H1] H2] H3]. apply N.ltb_lt in H16. split; [exact H16|].
  assert (R : forall b x y u v, negb b || ((x =? u) && (y =? v)) = true -> b = true -> x = u /\ y = v).
  { intros b x y u v X ->. cbn [negb orb] in X. apply andb_true_iff in X. rewrite !N.eqb_eq in X. exact X. }
  split; [exact (R _ _ _ _ _ H0)|]. split; [exact (R _ _ _ _ _ H1)|].
  split; [exact (R _ _ _ _ _ H2)|exact (R _ _ _ _ _ H3)].
Qed.

Lemma rights_abs :
  has_right (abs p) White true = N.testbit (castling p) 0 /\
  has_right (abs p) White false = N.testbit (castling p) 1 /\
  has_right (abs p) Black true = N.testbit (castling p) 2 /\
  has_right (abs p) Black false = N.testbit (castling p) 3.
Proof. repeat split; reflexivity. Qed.

Lemma empty_occ s : s < 64 -> empty (abs p) (abs_sq s) = negb (occ_b p s).
Proof. intros Hs. apply (empty_abs p s L Hs (V s Hs)). Qed.

Lemma attacked_abs c s : c < 2 -> s < 64 ->
  attacked_by (abs p) (abs_color c) (abs_sq s) = attacked_by_color p c s.
Proof. apply (attacked_by_abs p L V). Qed.

Section King.
Variable ksq : N.
Hypothesis Hk : ksq < 64.
Hypothesis Hking : piece_at p ksq = new_piece (side p) KING.
Hypothesis Huniq : forall s, s < 64 -> piece_at p s = new_piece (side p) KING -> s = ksq.

Lemma castle_iff_WK : side p = 0 -> ccn_b p WK ksq = castling_ok (abs p) White true.
Proof.
  intros Es. destruct cons_parts as (H16 & C0 & C1 & C2 & C3).
  destruct (can_castle_bits p H16) as (B0 & B1 & B2 & B3).
  destruct rights_abs as (R0 & R1 & R2 & R3).
  unfold ccn_b, castling_ok. cbv zeta. rewrite B0, R0.
  destruct (N.testbit (castling p) 0) eqn:Eb; cbn [andb]; [|reflexivity].
  destruct (C0 eq_refl) as [Pk Pr].
  assert (Ek : ksq = E1). { symmetry. apply Huniq; [reflexivity|]. rewrite Es. exact Pk. }
  rewrite Ek. change (castling_is_queen_side WK) with false.
  unfold walk_b. cbv zeta.
  change (cstep false E1) with 5. change (cstep false 5) with 6. 
  cbn [home_rank opp].
  change (4, 0)%Z with (abs_sq 4). change (7, 0)%Z with (abs_sq 7). change (5, 0)%Z with (abs_sq 5). change (6, 0)%Z with (abs_sq 6).
  rewrite !(at_sq_abs p _ L) by reflexivity.
  change E1 with 4 in *. change H1 with 7 in *. rewrite Pk, Pr.
  abs_piece_norm. cbn [color_eqb ptype_eqb p_color p_type andb].
  rewrite !empty_occ by reflexivity.
  change Black with (abs_color 1). rewrite !attacked_abs by reflexivity.
  unfold att_b. rewrite Es. change (switch_color 0) with 1.
  destruct (attacked_by_color p 1 4), (occ_b p 5), (attacked_by_color p 1 5), (occ_b p 6), (attacked_by_color p 1 6); reflexivity.
Qed.

Lemma held_WK : side p = 0 -> can_castle p WK = true -> ksq = 4.
Proof.
  intros Es Hc. destruct cons_parts as (H16 & C0 & C1 & C2 & C3).
  destruct (can_castle_bits p H16) as (B0 & B1 & B2 & B3).
  rewrite B0 in Hc. destruct (C0 Hc) as [Pk _].
  symmetry. apply Huniq; [reflexivity|]. rewrite Es. exact Pk.
Qed.

Lemma castle_iff_WQ : side p = 0 -> ccn_b p WQ ksq = castling_ok (abs p) White false.
Proof.
  intros Es. destruct cons_parts as (H16 & C0 & C1 & C2 & C3).
  destruct (can_castle_bits p H16) as (B0 & B1 & B2 & B3).
  destruct rights_abs as (R0 & R1 & R2 & R3).
  unfold ccn_b, castling_ok. cbv zeta. rewrite B1, R1.
  destruct (N.testbit (castling p) 1) eqn:Eb; cbn [andb]; [|reflexivity].
  destruct (C1 eq_refl) as [Pk Pr].
  assert (Ek : ksq = E1). { symmetry. apply Huniq; [reflexivity|]. rewrite Es. exact Pk. }
  rewrite Ek. change (castling_is_queen_side WQ) with true.
  unfold walk_b. cbv zeta.
  change (cstep true E1) with 3. change (cstep true 3) with 2. change (cstep true 2) with 1.
  cbn [home_rank opp].
  change (4, 0)%Z with (abs_sq 4). change (0, 0)%Z with (abs_sq 0). change (3, 0)%Z with (abs_sq 3). change (2, 0)%Z with (abs_sq 2). change (1, 0)%Z with (abs_sq 1).
  rewrite !(at_sq_abs p _ L) by reflexivity.
  change E1 with 4 in *. change A1 with 0 in *. rewrite Pk, Pr.
  abs_piece_norm. cbn [color_eqb ptype_eqb p_color p_type andb].
  rewrite !empty_occ by reflexivity.
  change Black with (abs_color 1). rewrite !attacked_abs by reflexivity.
  unfold att_b. rewrite Es. change (switch_color 0) with 1.
  destruct (attacked_by_color p 1 4), (occ_b p 3), (attacked_by_color p 1 3), (occ_b p 2), (attacked_by_color p 1 2), (occ_b p 1); reflexivity.
Qed.

Lemma held_WQ : side p = 0 -> can_castle p WQ = true -> ksq = 4.
Proof.
  intros Es Hc. destruct cons_parts as (H16 & C0 & C1 & C2 & C3).
  destruct (can_castle_bits p H16) as (B0 & B1 & B2 & B3).
  rewrite B1 in Hc. destruct (C1 Hc) as [Pk _].
  symmetry. apply Huniq; [reflexivity|]. rewrite Es. exact Pk.
Qed.

Lemma castle_iff_BK : side p = 1 -> ccn_b p BK ksq = castling_ok (abs p) Black true.
Proof.
  intros Es. destruct cons_parts as (H16 & C0 & C1 & C2 & C3).
  destruct (can_castle_bits p H16) as (B0 & B1 & B2 & B3).
  destruct rights_abs as (R0 & R1 & R2 & R3).
  unfold ccn_b, castling_ok. cbv zeta. rewrite B2, R2.
  destruct (N.testbit (castling p) 2) eqn:Eb; cbn [andb]; [|reflexivity].
  destruct (C2 eq_refl) as [Pk Pr].
  assert (Ek : ksq = E8). { symmetry. apply Huniq; [reflexivity|]. rewrite Es. exact Pk. }
  rewrite Ek. change (castling_is_queen_side BK) with false.
  unfold walk_b. cbv zeta.
  change (cstep false E8) with 61. change (cstep false 61) with 62. 
  cbn [home_rank opp].
  change (4, 7)%Z with (abs_sq 60). change (7, 7)%Z with (abs_sq 63). change (5, 7)%Z with (abs_sq 61). change (6, 7)%Z with (abs_sq 62).
  rewrite !(at_sq_abs p _ L) by reflexivity.
  change E8 with 60 in *. change H8 with 63 in *. rewrite Pk, Pr.
  abs_piece_norm. cbn [color_eqb ptype_eqb p_color p_type andb].
  rewrite !empty_occ by reflexivity.
  change White with (abs_color 0). rewrite !attacked_abs by reflexivity.
  unfold att_b. rewrite Es. change (switch_color 1) with 0.
  destruct (attacked_by_color p 0 60), (occ_b p 61), (attacked_by_color p 0 61), (occ_b p 62), (attacked_by_color p 0 62); reflexivity.
Qed.

Lemma held_BK : side p = 1 -> can_castle p BK = true -> ksq = 60.
Proof.
  intros Es Hc. destruct cons_parts as (H16 & C0 & C1 & C2 & C3).
  destruct (can_castle_bits p H16) as (B0 & B1 & B2 & B3).
  rewrite B2 in Hc. destruct (C2 Hc) as [Pk _].
  symmetry. apply Huniq; [reflexivity|]. rewrite Es. exact Pk.
Qed.

Lemma castle_iff_BQ : side p = 1 -> ccn_b p BQ ksq = castling_ok (abs p) Black false.
Proof.
  intros Es. destruct cons_parts as (H16 & C0 & C1 & C2 & C3).
  destruct (can_castle_bits p H16) as (B0 & B1 & B2 & B3).
  destruct rights_abs as (R0 & R1 & R2 & R3).
  unfold ccn_b, castling_ok. cbv zeta. rewrite B3, R3.
  destruct (N.testbit (castling p) 3) eqn:Eb; cbn [andb]; [|reflexivity].
  destruct (C3 eq_refl) as [Pk Pr].
  assert (Ek : ksq = E8). { symmetry. apply Huniq; [reflexivity|]. rewrite Es. exact Pk. }
  rewrite Ek. change (castling_is_queen_side BQ) with true.
  unfold walk_b. cbv zeta.
  change (cstep true E8) with 59. change (cstep true 59) with 58. change (cstep true 58) with 57.
  cbn [home_rank opp].
  change (4, 7)%Z with (abs_sq 60). change (0, 7)%Z with (abs_sq 56). change (3, 7)%Z with (abs_sq 59). change (2, 7)%Z with (abs_sq 58). change (1, 7)%Z with (abs_sq 57).
  rewrite !(at_sq_abs p _ L) by reflexivity.
  change E8 with 60 in *. change A8 with 56 in *. rewrite Pk, Pr.
  abs_piece_norm. cbn [color_eqb ptype_eqb p_color p_type andb].
  rewrite !empty_occ by reflexivity.
  change White with (abs_color 0). rewrite !attacked_abs by reflexivity.
  unfold att_b. rewrite Es. change (switch_color 1) with 0.
  destruct (attacked_by_color p 0 60), (occ_b p 59), (attacked_by_color p 0 59), (occ_b p 58), (attacked_by_color p 0 58), (occ_b p 57); reflexivity.
Qed.

Lemma held_BQ : side p = 1 -> can_castle p BQ = true -> ksq = 60.
Proof.
  intros Es Hc. destruct cons_parts as (H16 & C0 & C1 & C2 & C3).
  destruct (can_castle_bits p H16) as (B0 & B1 & B2 & B3).
  rewrite B3 in Hc. destruct (C3 Hc) as [Pk _].
  symmetry. apply Huniq; [reflexivity|]. rewrite Es. exact Pk.
Qed.

End King.

Lemma ccn_held c k : ccn_b p c k = true -> can_castle p c = true.
Proof. unfold ccn_b. rewrite !andb_true_iff. tauto. Qed.

Theorem castling_moves_spec :
  exists cs, castling_moves p = Ok cs /\ map decode cs = castle_spec_list (abs p).
Proof.
  destruct (king_sq_ex p HI) as (ksq & Hk & Hking & Huniq & Hget & Hlsb & Hchk).
  exists (cm_ext p ksq WK ++ cm_ext p ksq WQ ++ cm_ext p ksq BK ++ cm_ext p ksq BQ). split.
  - apply castling_moves_eq; try assumption. intros c Hin Hc Hcc. unfold three_ok.
    destruct Hin as [<- | [<- | [<- | [<- | []]]]].
    + rewrite (held_WK ksq Huniq (eq_sym Hc) Hcc). repeat split; reflexivity.
    + rewrite (held_WQ ksq Huniq (eq_sym Hc) Hcc). repeat split; reflexivity.
    + rewrite (held_BK ksq Huniq (eq_sym Hc) Hcc). repeat split; reflexivity.
    + rewrite (held_BQ ksq Huniq (eq_sym Hc) Hcc). repeat split; reflexivity.
  - unfold castle_spec_list. cbv zeta. change (b_turn (abs p)) with (abs_color (side p)).
    unfold cm_ext. destruct (F_side p F) as [Es | Es]; rewrite Es.
    + change (castling_color WK =? 0) with true. change (castling_color WQ =? 0) with true.
      change (castling_color BK =? 0) with false. change (castling_color BQ =? 0) with false.
      cbn [andb app]. rewrite app_nil_r. change (abs_color 0) with White.
      rewrite <- (castle_iff_WK ksq Huniq Es), <- (castle_iff_WQ ksq Huniq Es). rewrite map_app. f_equal.
      * destruct (ccn_b p WK ksq) eqn:E; [|reflexivity].
        rewrite (held_WK ksq Huniq Es (ccn_held _ _ E)). reflexivity.
      * destruct (ccn_b p WQ ksq) eqn:E; [|reflexivity].
        rewrite (held_WQ ksq Huniq Es (ccn_held _ _ E)). reflexivity.
    + change (castling_color WK =? 1) with false. change (castling_color WQ =? 1) with false.
      change (castling_color BK =? 1) with true. change (castling_color BQ =? 1) with true.
      cbn [andb app]. change (abs_color 1) with Black.
      rewrite <- (castle_iff_BK ksq Huniq Es), <- (castle_iff_BQ ksq Huniq Es). rewrite map_app. f_equal.
      * destruct (ccn_b p BK ksq) eqn:E; [|reflexivity].
        rewrite (held_BK ksq Huniq Es (ccn_held _ _ E)). reflexivity.
      * destruct (ccn_b p BQ ksq) eqn:E; [|reflexivity].
        rewrite (held_BQ ksq Huniq Es (ccn_held _ _ E)). reflexivity.
Qed.

End Pos.
