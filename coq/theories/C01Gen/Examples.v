(* C01, generator part: concrete positions, by computation (independent of the theorems of
   GenExact.v): the decoded output of the generator is a permutation of the specification's
   enumeration [filter (pseudo_legal (abs p)) candidates]; plus the corner cases the property is
   about (castling past an attacked b-file square or with an attacked rook, en passant with and
   without a capturing pawn, blocked double pushes, promotion by capture into a corner). *)
From Coq Require Import NArith ZArith List Bool String Ascii Permutation.
From Clemens Require Import Base.Res Base.Word Base.Bytes Pos.Types Att.Attacks Pos.Position Pos.Fen Pos.Inv Pos.FenInst.
From Clemens Require Import Rules.Fide Rules.Abs.
From ClemensGen Require Import GoConsts.
From Clemens.C01Gen Require Import Glue GenExact.
Import ListNotations.
Open Scope N_scope.

Definition bytes_of (s : string) : bytes := map N_of_ascii (list_ascii_of_string s).

(* ---- a permutation test on specification moves ---- *)
Definition opt_ptype_eqb (a b : option ptype) : bool :=
  match a, b with None, None => true | Some x, Some y => ptype_eqb x y | _, _ => false end.
Definition fmove_eqb (a b : fmove) : bool :=
  sq_eqb (m_from a) (m_from b) && sq_eqb (m_to a) (m_to b) && opt_ptype_eqb (m_promo a) (m_promo b).

Lemma fmove_eqb_eq a b : fmove_eqb a b = true <-> a = b.
Proof.
  destruct a as [a1 a2 a3], b as [b1 b2 b3]. unfold fmove_eqb. cbn [m_from m_to m_promo].
  rewrite !andb_true_iff, !sq_eqb_true. split.
  - intros [[-> ->] H]. f_equal. destruct a3 as [x|], b3 as [y|]; try discriminate H; [|reflexivity].
    destruct x, y; try discriminate H; reflexivity.
  - intros [= -> -> ->]. repeat split. destruct b3 as [y|]; [destruct y|]; reflexivity.
Qed.

Definition fmove_dec (a b : fmove) : {a = b} + {a <> b}.
Proof.
  destruct (fmove_eqb a b) eqn:E.
  - left. apply fmove_eqb_eq, E.
  - right. intros H. apply fmove_eqb_eq in H. rewrite H in E. discriminate E.
Defined.

Definition perm_b (l1 l2 : list fmove) : bool :=
  forallb (fun x => Nat.eqb (count_occ fmove_dec l1 x) (count_occ fmove_dec l2 x)) (l1 ++ l2).

Lemma perm_b_sound l1 l2 : perm_b l1 l2 = true -> Permutation l1 l2.
Proof.
  unfold perm_b. rewrite forallb_forall. intros H. apply (Permutation_count_occ fmove_dec). intros x.
  destruct (in_dec fmove_dec x (l1 ++ l2)) as [Hin | Hnin].
  - apply Nat.eqb_eq, H, Hin.
  - rewrite in_app_iff in Hnin.
    rewrite (proj1 (count_occ_not_In fmove_dec l1 x)), (proj1 (count_occ_not_In fmove_dec l2 x)); tauto.
Qed.

(* ---- the statement checked on a FEN ---- *)
Definition gen_matches_spec (fen : string) : Prop :=
  exists p ms, new_from_fen fen_go_keys unicode_digit_tbl (bytes_of fen) = Ok p /\ Inv p /\
    gen_moves p = Ok ms /\
    Permutation (map decode ms) (filter (pseudo_legal (abs p)) candidates).

Definition gen_matches_b (fen : string) : bool :=
  match new_from_fen fen_go_keys unicode_digit_tbl (bytes_of fen) with
  | Ok p => inv_b p &&
            match gen_moves p with
            | Ok ms => perm_b (map decode ms) (filter (pseudo_legal (abs p)) candidates)
            | _ => false
            end
  | _ => false
  end.

Lemma gen_matches_b_sound fen : gen_matches_b fen = true -> gen_matches_spec fen.
Proof.
  unfold gen_matches_b, gen_matches_spec.
  destruct (new_from_fen fen_go_keys unicode_digit_tbl (bytes_of fen)) as [p| |]; try discriminate.
  intros H. apply andb_true_iff in H. destruct H as [Hi H].
  destruct (gen_moves p) as [ms| |] eqn:Eg; try discriminate.
  exists p, ms. split; [reflexivity|]. split; [exact Hi|]. split; [exact Eg|]. apply perm_b_sound, H.
Qed.

(* the number of generated moves, and whether a given move (from, to) is among them *)
Definition gen_count (fen : string) : option nat :=
  match new_from_fen fen_go_keys unicode_digit_tbl (bytes_of fen) with
  | Ok p => match gen_moves p with Ok ms => Some (List.length ms) | _ => None end
  | _ => None
  end.
Definition gen_has (fen : string) (from to : Z * Z) (pr : option ptype) : bool :=
  match new_from_fen fen_go_keys unicode_digit_tbl (bytes_of fen) with
  | Ok p => match gen_moves p with
            | Ok ms => existsb (fmove_eqb {| m_from := from; m_to := to; m_promo := pr |}) (map decode ms)
            | _ => false
            end
  | _ => false
  end.

Ltac by_check := apply gen_matches_b_sound; vm_compute; reflexivity.

Open Scope string_scope.

(* the start position: 20 moves *)
Example ex_start : gen_matches_spec "rnbqkbnr/pppppppp/8/8/8/8/PPPPPPPP/RNBQKBNR w KQkq - 0 1".
Proof. by_check. Qed.
Example ex_start_count : gen_count "rnbqkbnr/pppppppp/8/8/8/8/PPPPPPPP/RNBQKBNR w KQkq - 0 1" = Some 20%nat.
Proof. vm_compute. reflexivity. Qed.

(* "Kiwipete": 48 moves, both castlings *)
Example ex_kiwipete : gen_matches_spec "r3k2r/p1ppqpb1/bn2pnp1/3PN3/1p2P3/2N2Q1p/PPPBBPPP/R3K2R w KQkq - 0 1".
Proof. by_check. Qed.
Example ex_kiwipete_count :
  gen_count "r3k2r/p1ppqpb1/bn2pnp1/3PN3/1p2P3/2N2Q1p/PPPBBPPP/R3K2R w KQkq - 0 1" = Some 48%nat.
Proof. vm_compute. reflexivity. Qed.

(* a black rook on b8 attacks b1: the queen-side rook passes an attacked square, castling stays allowed *)
Example ex_b_file_attacked : gen_matches_spec "1r2k3/8/8/8/8/8/8/R3K2R w KQ - 0 1".
Proof. by_check. Qed.
Example ex_b_file_attacked_ooo :
  gen_has "1r2k3/8/8/8/8/8/8/R3K2R w KQ - 0 1" (4, 0)%Z (2, 0)%Z None = true.
Proof. vm_compute. reflexivity. Qed.

(* a black bishop on f3 attacks the rook h1 (castling king side allowed) and d1 (queen side not) *)
Example ex_rook_attacked : gen_matches_spec "4k3/8/8/8/8/5b2/8/R3K2R w KQ - 0 1".
Proof. by_check. Qed.
Example ex_rook_attacked_oo :
  gen_has "4k3/8/8/8/8/5b2/8/R3K2R w KQ - 0 1" (4, 0)%Z (6, 0)%Z None = true /\
  gen_has "4k3/8/8/8/8/5b2/8/R3K2R w KQ - 0 1" (4, 0)%Z (2, 0)%Z None = false.
Proof. split; vm_compute; reflexivity. Qed.

(* pieces between king and rook; black to move with all four rights *)
Example ex_castle_blocked : gen_matches_spec "r3k2r/8/8/8/8/8/8/RN2K1NR w KQkq - 0 1".
Proof. by_check. Qed.
Example ex_castle_black : gen_matches_spec "r3k2r/8/8/8/8/8/8/R3K2R b KQkq - 0 1".
Proof. by_check. Qed.

(* en passant: target set but no pawn can capture; one capturer; two capturers; black capturing *)
Example ex_ep_none : gen_matches_spec "rnbqkbnr/ppp1pppp/8/3p4/8/8/PPPPPPPP/RNBQKBNR w KQkq d6 0 2".
Proof. by_check. Qed.
Example ex_ep_one : gen_matches_spec "rnbqkbnr/ppp1pppp/8/3pP3/8/8/PPPP1PPP/RNBQKBNR w KQkq d6 0 3".
Proof. by_check. Qed.
Example ex_ep_one_has :
  gen_has "rnbqkbnr/ppp1pppp/8/3pP3/8/8/PPPP1PPP/RNBQKBNR w KQkq d6 0 3" (4, 4)%Z (3, 5)%Z None = true.
Proof. vm_compute. reflexivity. Qed.
Example ex_ep_two : gen_matches_spec "rnbqkbnr/ppp1pppp/8/2PpP3/8/8/PP1P1PPP/RNBQKBNR w KQkq d6 0 3".
Proof. by_check. Qed.
Example ex_ep_black : gen_matches_spec "4k3/8/8/8/3pP3/8/8/4K3 b - e3 0 1".
Proof. by_check. Qed.

(* double push blocked on the first square (d2) and on the second (e2); the same for black *)
Example ex_double_blocked : gen_matches_spec "4k3/8/8/8/4p3/3p4/3PP3/4K3 w - - 0 1".
Proof. by_check. Qed.
Example ex_double_blocked_has :
  gen_has "4k3/8/8/8/4p3/3p4/3PP3/4K3 w - - 0 1" (4, 1)%Z (4, 2)%Z None = true /\
  gen_has "4k3/8/8/8/4p3/3p4/3PP3/4K3 w - - 0 1" (4, 1)%Z (4, 3)%Z None = false /\
  gen_has "4k3/8/8/8/4p3/3p4/3PP3/4K3 w - - 0 1" (3, 1)%Z (3, 2)%Z None = false.
Proof. repeat split; vm_compute; reflexivity. Qed.
Example ex_double_blocked_black : gen_matches_spec "4k3/3pp3/3P4/4P3/8/8/8/4K3 b - - 0 1".
Proof. by_check. Qed.

(* promotion: by push and by capture into the corner a8, four pieces each; black capturing into h1 *)
Example ex_promo_corner : gen_matches_spec "r3k3/1P6/8/8/8/8/8/4K3 w - - 0 1".
Proof. by_check. Qed.
Example ex_promo_corner_has :
  gen_has "r3k3/1P6/8/8/8/8/8/4K3 w - - 0 1" (1, 6)%Z (0, 7)%Z (Some Knight) = true /\
  gen_has "r3k3/1P6/8/8/8/8/8/4K3 w - - 0 1" (1, 6)%Z (0, 7)%Z (Some Queen) = true /\
  gen_has "r3k3/1P6/8/8/8/8/8/4K3 w - - 0 1" (1, 6)%Z (0, 7)%Z None = false /\
  gen_count "r3k3/1P6/8/8/8/8/8/4K3 w - - 0 1" = Some 13%nat.
Proof. repeat split; vm_compute; reflexivity. Qed.
Example ex_promo_corner_black : gen_matches_spec "4k3/8/8/8/8/8/6p1/4K2R b - - 0 1".
Proof. by_check. Qed.

(* the general theorem applies to these positions (its hypothesis is met) *)
Example ex_theorem_applies :
  exists p ms, new_from_fen fen_go_keys unicode_digit_tbl
                 (bytes_of "r3k2r/p1ppqpb1/bn2pnp1/3PN3/1p2P3/2N2Q1p/PPPBBPPP/R3K2R w KQkq - 0 1") = Ok p /\
    Inv p /\ gen_moves p = Ok ms /\
    (forall fm, pseudo_legal (abs p) fm = true <-> In fm (map decode ms)) /\ NoDup (map decode ms).
Proof.
  destruct ex_kiwipete as (p & ms & Hp & HI & Hg & _). exists p, ms. repeat split; try assumption;
    apply (gen_moves_exact p ms HI Hg).
Qed.
