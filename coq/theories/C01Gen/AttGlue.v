(* C01 glue, attacks: the specification's [attacks_from] / [attacked_by] over the abstraction of a
   position are the engine-side geometric notions [attacks_geo] / [attacked_by_color] of
   Att/AttackersProofs.v (which C12 proves equal to what SquareAttackedBy computes). *)
From Coq Require Import NArith ZArith List Bool Lia ZifyBool ZifyN ZifyNat.
From Clemens Require Import Base.Res Base.Word Pos.Types Att.Attacks Att.Geometry Att.ShiftsProofs
  Att.SlidingProofs Att.LeaperInst Att.AttackersProofs Pos.Position Pos.Inv Pos.CapturesProofs.
From Clemens Require Import Rules.Fide Rules.Abs.
From Clemens.C01Gen Require Import Glue Slides.
Import ListNotations.
Open Scope N_scope.

Lemma all_squares_abs : all_squares = map abs_sq squares.
Proof. vm_compute. reflexivity. Qed.

Lemma existsb_map {A B} (f : B -> bool) (g : A -> B) (l : list A) :
  existsb f (map g l) = existsb (fun x => f (g x)) l.
Proof. induction l as [|a l IH]; [reflexivity|]. cbn [map existsb]. rewrite IH. reflexivity. Qed.

Lemma existsb_ext_in {A} (f g : A -> bool) (l : list A) :
  (forall x, In x l -> f x = g x) -> existsb f l = existsb g l.
Proof.
  induction l as [|a l IH]; intros H; [reflexivity|]. cbn [existsb].
  rewrite (H a (or_introl eq_refl)), IH; [reflexivity|]. intros x Hx. apply H. right. exact Hx.
Qed.

(* geometric leapers of Att/Geometry.v against the specification's *)
Lemma geo_knight_glue s t : s < 64 -> t < 64 -> geo_knight s t = knight_jump (abs_sq s) (abs_sq t).
Proof. intros Hs Ht. rewrite <- (knight_attacks_exact s Hs t). apply knight_glue; assumption. Qed.
Lemma geo_king_glue s t : s < 64 -> t < 64 -> geo_king s t = king_step (abs_sq s) (abs_sq t).
Proof. intros Hs Ht. rewrite <- (king_attacks_exact s Hs t). apply king_glue; assumption. Qed.
Lemma geo_pawn_glue c s t : c < 2 -> s < 64 -> t < 64 ->
  geo_pawn_attack c s t = pawn_cap_geo (abs_color c) (abs_sq s) (abs_sq t).
Proof. intros Hc Hs Ht. rewrite <- (pawn_attacks_exact c s Hs t). apply pawn_glue; assumption. Qed.

Ltac abs_piece_norm :=
  repeat match goal with
  | |- context [abs_piece (N.pos ?c)] =>
      let x := eval vm_compute in (abs_piece (N.pos c)) in change (abs_piece (N.pos c)) with x
  | |- context [abs_piece 0] => change (abs_piece 0) with (@None piece)
  end.

Section Att.
Variable p : position.
Hypothesis L : length (board p) = 64%nat.
Hypothesis V : forall t, t < 64 -> pc_ok (piece_at p t) = true.

Lemma attacks_from_abs s t : s < 64 -> t < 64 ->
  attacks_from (abs p) (abs_sq s) (abs_sq t) = attacks_geo p s t.
Proof.
  intros Hs Ht. unfold attacks_from, attacks_geo. rewrite (at_sq_abs p s L Hs).
  pose proof (V s Hs) as Hv. pc_split Hv; rewrite E; abs_piece_norm;
    cbn [p_type p_color geo_piece_attacks]; try reflexivity;
    rewrite ?pawn_cap_geo_alt;
    first [ exact (eq_sym (geo_pawn_glue 0 s t eq_refl Hs Ht))
          | exact (eq_sym (geo_pawn_glue 1 s t eq_refl Hs Ht))
          | exact (eq_sym (geo_knight_glue s t Hs Ht))
          | exact (eq_sym (geo_king_glue s t Hs Ht))
          | exact (slides_abs p s t _ _ L V Hs Ht) ].
Qed.

Lemma att_point c pc (X : bool) : pc_ok pc = true -> c < 2 ->
  match abs_piece pc with
  | Some q => color_eqb (p_color q) (abs_color c) && X
  | None => false
  end = is_piece_of c pc && X.
Proof.
  intros H Hc. assert (c = 0 \/ c = 1) as [-> | ->] by lia; pc_split H; subst pc; reflexivity.
Qed.

Theorem attacked_by_abs c t : c < 2 -> t < 64 ->
  attacked_by (abs p) (abs_color c) (abs_sq t) = attacked_by_color p c t.
Proof.
  intros Hc Ht. unfold attacked_by, attacked_by_color. rewrite all_squares_abs, existsb_map.
  apply existsb_ext_in. intros s Hs. apply squares_lt in Hs.
  rewrite (at_sq_abs p s L Hs), (att_point c _ _ (V s Hs) Hc), (attacks_from_abs s t Hs Ht). reflexivity.
Qed.

End Att.
