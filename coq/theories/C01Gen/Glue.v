(* C01, generator part: glue between the engine's squares / square array / attack sets and the
   coordinates / mailbox / geometric predicates of the FIDE specification (Rules/Fide.v) under the
   abstraction of Rules/Abs.v. *)
From Coq Require Import NArith ZArith List Bool Lia ZifyBool ZifyN ZifyNat.
From Clemens Require Import Base.Res Base.Word Pos.Types Att.Attacks Att.Geometry Att.ShiftsProofs
  Att.SlidingProofs Att.LeaperInst Att.AttackersProofs Pos.Position Pos.Inv Pos.CapturesProofs.
From Clemens Require Import Rules.Fide Rules.Abs.
Import ListNotations.
Open Scope N_scope.
Ltac Zify.zify_post_hook ::= Z.to_euclidean_division_equations.

(* ------------------------------------------------------------------------------------------ *)
(* squares and coordinates                                                                      *)

Lemma file_of_mod s : file_of s = s mod 8.
Proof. unfold file_of. change 7 with (N.ones 3). rewrite N.land_ones. reflexivity. Qed.
Lemma rank_of_div s : rank_of s = s / 8.
Proof. unfold rank_of. rewrite N.shiftr_div_pow2. reflexivity. Qed.

Lemma abs_sq_fr s : abs_sq s = sq_fr s.
Proof.
  unfold abs_sq, sq_fr, sq_file, sq_rank. rewrite file_of_mod, rank_of_div. f_equal; lia.
Qed.

Lemma fide_on_board_geo (c : Z * Z) : Fide.on_board c = Geometry.on_board c.
Proof. destruct c as [f r]. unfold Fide.on_board, Geometry.on_board. cbn [fst snd]. lia. Qed.

Lemma abs_sq_on_board s : s < 64 -> Fide.on_board (abs_sq s) = true.
Proof. intros H. rewrite fide_on_board_geo, abs_sq_fr. apply sq_fr_on_board, H. Qed.

Lemma abs_sq_inj s t : abs_sq s = abs_sq t -> s = t.
Proof. rewrite !abs_sq_fr. apply sq_fr_inj. Qed.

Lemma on_board_abs_sq (q : square) : Fide.on_board q = true -> exists s, s < 64 /\ q = abs_sq s.
Proof.
  intros H. rewrite fide_on_board_geo in H. exists (fr_sq q). split; [apply on_board_lt, H|].
  rewrite abs_sq_fr, sq_fr_fr_sq by exact H. reflexivity.
Qed.

Lemma sq_eqb_abs s t : sq_eqb (abs_sq s) (abs_sq t) = (s =? t).
Proof.
  apply eq_true_iff_eq. rewrite N.eqb_eq. unfold sq_eqb. rewrite andb_true_iff, !Z.eqb_eq. split.
  - intros [H1 H2]. apply abs_sq_inj. destruct (abs_sq s), (abs_sq t). cbn [fst snd] in *. congruence.
  - intros ->. split; reflexivity.
Qed.

Lemma sq_eqb_true (a b : square) : sq_eqb a b = true <-> a = b.
Proof.
  destruct a as [a1 a2], b as [b1 b2]. unfold sq_eqb. cbn [fst snd].
  rewrite andb_true_iff, !Z.eqb_eq. split; [intros [-> ->]; reflexivity | intros [= -> ->]; split; reflexivity].
Qed.

Lemma sq_index_abs s : s < 64 -> sq_index (abs_sq s) = N.to_nat s.
Proof.
  intros H. unfold sq_index, abs_sq. cbn [fst snd]. rewrite file_of_mod, rank_of_div. lia.
Qed.

(* ------------------------------------------------------------------------------------------ *)
(* the mailbox                                                                                  *)

Lemma abs_piece_0 : abs_piece 0 = None. Proof. reflexivity. Qed.

Lemma at_sq_abs p s : length (board p) = 64%nat -> s < 64 ->
  at_sq (abs p) (abs_sq s) = abs_piece (piece_at p s).
Proof.
  intros L H. unfold at_sq. rewrite (abs_sq_on_board s H), (sq_index_abs s H).
  unfold abs. cbn [b_at]. unfold piece_at. rewrite <- abs_piece_0. apply map_nth.
Qed.

(* the thirteen codes a well-formed square array holds *)
Lemma pc_cases pc : pc_ok pc = true ->
  pc = 0 \/ pc = 1 \/ pc = 2 \/ pc = 3 \/ pc = 4 \/ pc = 5 \/ pc = 6
  \/ pc = 9 \/ pc = 10 \/ pc = 11 \/ pc = 12 \/ pc = 13 \/ pc = 14.
Proof. unfold pc_ok, valid_piece. lia. Qed.

Ltac pc_split H :=
  destruct (pc_cases _ H) as [?E|[?E|[?E|[?E|[?E|[?E|[?E|[?E|[?E|[?E|[?E|[?E|?E]]]]]]]]]]]].

(* own piece on a square: the specification's reading and the engine's *)


Lemma abs_piece_own c pc : pc_ok pc = true -> c < 2 ->
  match abs_piece pc with
  | Some q => color_eqb (p_color q) (abs_color c)
  | None => false
  end = is_piece_of c pc.
Proof.
  intros H Hc. assert (c = 0 \/ c = 1) as [-> | ->] by lia; pc_split H; subst pc; reflexivity.
Qed.

Lemma abs_piece_target c pc : pc_ok pc = true -> c < 2 ->
  match abs_piece pc with
  | Some q => negb (color_eqb (p_color q) (abs_color c))
  | None => true
  end = negb (is_piece_of c pc).
Proof.
  intros H Hc. assert (c = 0 \/ c = 1) as [-> | ->] by lia; pc_split H; subst pc; reflexivity.
Qed.

Lemma abs_piece_new c t : c < 2 -> t < 6 ->
  abs_piece (new_piece c t) = Some {| p_color := abs_color c; p_type := abs_ptype t |}.
Proof.
  intros Hc Ht. assert (c = 0 \/ c = 1) as [-> | ->] by lia;
  assert (t = 0 \/ t = 1 \/ t = 2 \/ t = 3 \/ t = 4 \/ t = 5) as [-> | [-> | [-> | [-> | [-> | ->]]]]] by lia;
  reflexivity.
Qed.

(* an own piece is one of the six of that colour *)
Lemma own_piece_type c pc : pc_ok pc = true -> c < 2 -> is_piece_of c pc = true ->
  exists t, t < 6 /\ pc = new_piece c t.
Proof.
  intros H Hc Ho. assert (c = 0 \/ c = 1) as [-> | ->] by lia; pc_split H; subst pc; try discriminate Ho.
  - exists 0; split; [lia|reflexivity].
  - exists 1; split; [lia|reflexivity].
  - exists 2; split; [lia|reflexivity].
  - exists 3; split; [lia|reflexivity].
  - exists 4; split; [lia|reflexivity].
  - exists 5; split; [lia|reflexivity].
  - exists 0; split; [lia|reflexivity].
  - exists 1; split; [lia|reflexivity].
  - exists 2; split; [lia|reflexivity].
  - exists 3; split; [lia|reflexivity].
  - exists 4; split; [lia|reflexivity].
  - exists 5; split; [lia|reflexivity].
Qed.

Lemma is_piece_of_new c t : c < 2 -> t < 6 -> is_piece_of c (new_piece c t) = true.
Proof.
  intros Hc Ht. assert (c = 0 \/ c = 1) as [-> | ->] by lia;
  assert (t = 0 \/ t = 1 \/ t = 2 \/ t = 3 \/ t = 4 \/ t = 5) as [-> | [-> | [-> | [-> | [-> | ->]]]]] by lia;
  reflexivity.
Qed.

Lemma new_piece_inj c t t' : c < 2 -> t < 6 -> t' < 6 -> new_piece c t = new_piece c t' -> t = t'.
Proof. unfold new_piece. lia. Qed.

Lemma empty_abs p s : length (board p) = 64%nat -> s < 64 -> pc_ok (piece_at p s) = true ->
  empty (abs p) (abs_sq s) = negb (occupied_in p s).
Proof.
  intros L H Hv. unfold empty. rewrite (at_sq_abs p s L H). unfold occupied_in, NO_PIECE.
  pc_split Hv; rewrite E; reflexivity.
Qed.

(* ------------------------------------------------------------------------------------------ *)
(* leapers: the attack sets against the specification's step predicates, all 64 x 64 pairs      *)

Definition pair_ok (f : N -> N -> bool) (g : square -> square -> bool) : bool :=
  forallb (fun s => forallb (fun t => Bool.eqb (f s t) (g (abs_sq s) (abs_sq t))) squares) squares.
Lemma pair_ok_spec f g : pair_ok f g = true ->
  forall s t, s < 64 -> t < 64 -> f s t = g (abs_sq s) (abs_sq t).
Proof.
  intros H s t Hs Ht. apply eqb_prop.
  exact (forall_squares2 (fun s t => Bool.eqb (f s t) (g (abs_sq s) (abs_sq t))) H s t Hs Ht).
Qed.

Lemma knight_glue s t : s < 64 -> t < 64 ->
  N.testbit (knight_attacks s) t = knight_jump (abs_sq s) (abs_sq t).
Proof. apply (pair_ok_spec (fun s t => N.testbit (knight_attacks s) t)). vm_compute. reflexivity. Qed.

Lemma king_glue s t : s < 64 -> t < 64 ->
  N.testbit (king_attacks s) t = king_step (abs_sq s) (abs_sq t).
Proof. apply (pair_ok_spec (fun s t => N.testbit (king_attacks s) t)). vm_compute. reflexivity. Qed.

Definition pawn_cap_geo (c : color) (a b : square) : bool :=
  (Z.abs (fst b - fst a) =? 1)%Z && (snd b - snd a =? forward c)%Z.

Lemma pawn_glue_white s t : s < 64 -> t < 64 ->
  N.testbit (pawn_attacks 0 s) t = pawn_cap_geo White (abs_sq s) (abs_sq t).
Proof. apply (pair_ok_spec (fun s t => N.testbit (pawn_attacks 0 s) t)). vm_compute. reflexivity. Qed.
Lemma pawn_glue_black s t : s < 64 -> t < 64 ->
  N.testbit (pawn_attacks 1 s) t = pawn_cap_geo Black (abs_sq s) (abs_sq t).
Proof. apply (pair_ok_spec (fun s t => N.testbit (pawn_attacks 1 s) t)). vm_compute. reflexivity. Qed.

Lemma pawn_glue c s t : c < 2 -> s < 64 -> t < 64 ->
  N.testbit (pawn_attacks c s) t = pawn_cap_geo (abs_color c) (abs_sq s) (abs_sq t).
Proof.
  intros Hc. assert (c = 0 \/ c = 1) as [-> | ->] by lia; [apply pawn_glue_white | apply pawn_glue_black].
Qed.

(* the specification's own attack clause for a pawn (in [attacks_from]) is written the other way round *)
Lemma pawn_cap_geo_alt c a b :
  ((Z.abs (fst a - fst b) =? 1)%Z && (snd b =? snd a + forward c)%Z) = pawn_cap_geo c a b.
Proof. unfold pawn_cap_geo. lia. Qed.

(* the attack sets only hold squares *)
Lemma testbit_lt64 x t : x < two64 -> N.testbit x t = true -> t < 64.
Proof.
  intros Hx Ht. destruct (N.lt_ge_cases t 64) as [L|G]; [exact L|].
  rewrite (lt_two64_high x t Hx G) in Ht. discriminate.
Qed.
