(* C01, generator part: the king - castling moves followed by the single steps - is exactly the
   specification's class of king moves. *)
From Coq Require Import NArith ZArith List Bool Lia ZifyBool ZifyN ZifyNat.
From Clemens Require Import Base.Res Base.Word Pos.Types Att.Attacks Att.Geometry Att.ShiftsProofs
  Att.SlidingProofs Att.LeaperInst Att.AttackersProofs Pos.Position Pos.Inv Pos.CapturesProofs.
From Clemens Require Import Rules.Fide Rules.Abs.
From Clemens.C01Gen Require Import Glue Slides AttGlue ListFacts Master Pieces Castle Castle2.
Import ListNotations.
Open Scope N_scope.

(* ---- specification level ---- *)
Lemma castle_geo_iff s c a b :
  castle_geo s c a b = true <->
  (a = (4, home_rank c)%Z /\ b = (6, home_rank c)%Z /\ castling_ok s c true = true) \/
  (a = (4, home_rank c)%Z /\ b = (2, home_rank c)%Z /\ castling_ok s c false = true).
Proof.
  unfold castle_geo. rewrite orb_true_iff, !andb_true_iff, !sq_eqb_true. tauto.
Qed.

Lemma castle_not_step s c a b : castle_geo s c a b = true -> king_step a b = false.
Proof.
  intros H. apply castle_geo_iff in H.
  destruct H as [(-> & -> & _) | (-> & -> & _)]; unfold king_step; cbn [fst snd];
    apply andb_false_iff; left; apply andb_false_iff; right; reflexivity.
Qed.

(* what [castling_ok] says about the king's square and the target square *)
Lemma castling_ok_king s c ks : castling_ok s c ks = true ->
  match at_sq s (4, home_rank c)%Z with
  | Some q => color_eqb (p_color q) c && ptype_eqb (p_type q) King
  | None => false
  end = true.
Proof. unfold castling_ok. cbv zeta. rewrite !andb_true_iff. tauto. Qed.

Lemma castling_ok_target s c ks : castling_ok s c ks = true ->
  empty s (if ks then 6 else 2, home_rank c)%Z = true.
Proof.
  unfold castling_ok. cbv zeta. destruct ks; rewrite !andb_true_iff; tauto.
Qed.

Lemma in_castle_spec_list s fm :
  In fm (castle_spec_list s) <->
  exists ks, castling_ok s (b_turn s) ks = true /\
    fm = {| m_from := (4, home_rank (b_turn s))%Z; m_to := (if ks then 6 else 2, home_rank (b_turn s))%Z;
            m_promo := None |}.
Proof.
  unfold castle_spec_list. cbv zeta. rewrite in_app_iff. split.
  - intros [H | H].
    + destruct (castling_ok s (b_turn s) true) eqn:E; [|destruct H]. destruct H as [<- | []].
      exists true. split; [exact E|reflexivity].
    + destruct (castling_ok s (b_turn s) false) eqn:E; [|destruct H]. destruct H as [<- | []].
      exists false. split; [exact E|reflexivity].
  - intros ([|] & E & ->); rewrite E; [left|right]; left; reflexivity.
Qed.

Lemma castle_spec_nodup s : NoDup (castle_spec_list s).
Proof.
  unfold castle_spec_list. cbv zeta.
  destruct (castling_ok s (b_turn s) true), (castling_ok s (b_turn s) false); cbn [app];
    repeat constructor; cbn [In]; try tauto.
  intros [H | []]. discriminate H.
Qed.

Section Pos.
Variable p : position.
Hypothesis HI : Inv p.

Let F := inv_facts p HI.
Let L := F_len p F.
Let V := F_valid p F.

(* the king's home square of the side to move *)
Definition kh : N := if side p =? 0 then 4 else 60.

Lemma kh_abs : (4, home_rank (abs_color (side p)))%Z = abs_sq kh.
Proof. unfold kh. destruct (F_side p F) as [-> | ->]; reflexivity. Qed.
Lemma kh_lt : kh < 64.
Proof. unfold kh. destruct (side p =? 0); reflexivity. Qed.

Definition ct (ks : bool) : N := if ks then kh + 2 else kh - 2.
Lemma ct_abs (ks : bool) : (if ks then 6 else 2, home_rank (abs_color (side p)))%Z = abs_sq (ct ks).
Proof. unfold ct, kh. destruct (F_side p F) as [-> | ->]; destruct ks; reflexivity. Qed.
Lemma ct_lt (ks : bool) : ct ks < 64.
Proof. unfold ct, kh. destruct (side p =? 0), ks; reflexivity. Qed.

Lemma king_of_abs s : s < 64 ->
  match abs_piece (piece_at p s) with
  | Some q => color_eqb (p_color q) (abs_color (side p)) && ptype_eqb (p_type q) King
  | None => false
  end = true -> piece_at p s = new_piece (side p) KING.
Proof.
  intros Hs. pose proof (V s Hs) as Hv.
  destruct (F_side p F) as [-> | ->]; pc_split Hv; rewrite E; intros H; try discriminate H; reflexivity.
Qed.

Lemma castle_spec_class fm :
  In fm (castle_spec_list (abs p)) <->
  exists s t, s < 64 /\ t < 64 /\ fm = mkf s t None /\ piece_at p s = new_piece (side p) KING /\
    negb (is_piece_of (side p) (piece_at p t)) &&
    castle_geo (abs p) (abs_color (side p)) (abs_sq s) (abs_sq t) = true.
Proof.
  rewrite in_castle_spec_list. change (b_turn (abs p)) with (abs_color (side p)). split.
  - intros (ks & Hok & ->). exists kh, (ct ks). split; [apply kh_lt|]. split; [apply ct_lt|].
    split; [unfold mkf; rewrite kh_abs, ct_abs; reflexivity|].
    pose proof (castling_ok_king _ _ _ Hok) as Hking. rewrite kh_abs, (at_sq_abs p kh L kh_lt) in Hking.
    split; [apply (king_of_abs kh kh_lt Hking)|].
    pose proof (castling_ok_target _ _ _ Hok) as Hemp. rewrite ct_abs in Hemp.
    rewrite (empty_abs p _ L (ct_lt ks) (V _ (ct_lt ks))) in Hemp. apply negb_true_iff in Hemp.
    unfold occupied_in in Hemp. apply negb_false_iff, N.eqb_eq in Hemp. rewrite Hemp.
    replace (is_piece_of (side p) NO_PIECE) with false by reflexivity. cbn [negb andb].
    apply castle_geo_iff. rewrite <- kh_abs, <- ct_abs. destruct ks; [left|right]; tauto.
  - intros (s & t & Hs & Ht & -> & Hpc & H). apply andb_true_iff in H. destruct H as [_ H].
    apply castle_geo_iff in H. unfold mkf.
    destruct H as [(-> & -> & Hok) | (-> & -> & Hok)]; [exists true|exists false]; (split; [exact Hok|reflexivity]).
Qed.

Section WithCs.
Variable cs : list N.
Hypothesis Hcs : castling_moves p = Ok cs.

Lemma cs_decode : map decode cs = castle_spec_list (abs p).
Proof.
  destruct (castling_moves_spec p HI) as (cs' & E & H). rewrite Hcs in E. injection E as <-. exact H.
Qed.

Definition king_list : list N := cs ++ helper_list p KING 0 (fun s _ => king_attacks s).

Theorem king_class fm : In fm (map decode king_list) <-> class_spec p KING fm.
Proof.
  unfold king_list. rewrite map_app, in_app_iff, cs_decode, castle_spec_class, (king_step_class p HI).
  unfold class_spec, piece_rule. cbn [abs_ptype KING]. split.
  - intros [(s & t & Hs & Ht & -> & Hpc & H) | (s & t & Hs & Ht & -> & Hpc & H)];
      exists s, t, None; repeat split; try assumption; cbn [is_none andb];
      apply andb_true_iff in H; destruct H as [H1 H2]; rewrite H1, H2; cbn [andb orb];
      [apply orb_true_r | reflexivity].
  - intros (s & t & pr & Hs & Ht & -> & Hpc & H). apply andb_true_iff in H. destruct H as [H1 H].
    apply andb_true_iff in H. destruct H as [Hn H]. destruct pr; [discriminate Hn|].
    apply orb_true_iff in H. destruct H as [H | H]; [right|left]; exists s, t; repeat split; try assumption;
      rewrite H1, H; reflexivity.
Qed.

Theorem king_nodup : NoDup (map decode king_list).
Proof.
  unfold king_list. rewrite map_app, cs_decode. apply NoDup_app_disj.
  - apply castle_spec_nodup.
  - apply (helper_list_nodup p HI). reflexivity.
  - intros fm H1 H2. apply castle_spec_class in H1. apply (king_step_class p HI) in H2.
    destruct H1 as (s & t & _ & _ & -> & _ & H1). destruct H2 as (s' & t' & _ & _ & E & _ & H2).
    apply mkf_inj in E. destruct E as (<- & <- & _).
    apply andb_true_iff in H1, H2. destruct H1 as [_ H1]. destruct H2 as [_ H2].
    rewrite (castle_not_step _ _ _ _ H1) in H2. discriminate H2.
Qed.

End WithCs.

End Pos.
