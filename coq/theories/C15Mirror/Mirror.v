(* C15, first half (SPEC side): the colour mirror of a position.
   The board is flipped top to bottom (rank r <-> rank 7-r, files unchanged: square s <-> s xor 56),
   every piece changes colour, the side to move changes, castling rights change owner, an en-passant
   target is flipped. The clocks are kept. The hash field is kept as it is: the static evaluation
   [eval_raw] never reads it (Eval/CacheProofs.v: eval_raw_ignores), and a mirrored position has no
   reason to have a related Zobrist key.
   Definitions only, everything computes; also the predicates the mirror theorem is stated with. *)
From Coq Require Import NArith ZArith List Bool.
From Clemens Require Import Base.Res Base.Word Pos.Types Att.Attacks Pos.Position Pos.Inv Eval.Eval.
Import ListNotations.
Open Scope N_scope.

(* a1 <-> a8, e2 <-> e7 ... *)
Definition flip_sq (s : N) : N := N.lxor s 56.

(* byte swap of a 64-bit word: rank byte r goes to rank byte 7-r; bits above 2^64 are dropped *)
Definition flip_byte (b r : N) : N := N.shiftl (N.land (N.shiftr b (8 * r)) 255) (8 * (7 - r)).
Definition flip_bb (b : N) : N :=
  N.lor (N.lor (N.lor (flip_byte b 0) (flip_byte b 1)) (N.lor (flip_byte b 2) (flip_byte b 3)))
        (N.lor (N.lor (flip_byte b 4) (flip_byte b 5)) (N.lor (flip_byte b 6) (flip_byte b 7))).

(* 1..6 <-> 9..14; NO_PIECE stays *)
Definition flip_piece (pc : N) : N := if pc =? 0 then 0 else N.lxor pc 8.

(* WK 1 <-> BK 4, WQ 2 <-> BQ 8 *)
Definition flip_castling (c : N) : N :=
  N.lor (N.shiftl (N.land c 3) 2) (N.land (N.shiftr c 2) 3).

Definition flip_ep (e : N) : N := if e =? SQ_NONE then SQ_NONE else flip_sq e.

Definition idx12 : list N := [0; 1; 2; 3; 4; 5; 6; 7; 8; 9; 10; 11].
(* index c*6+t <-> (1-c)*6+t *)
Definition swap_idx (i : N) : N := if i <? 6 then i + 6 else i - 6.

Definition mirror (p : position) : position :=
  {| bbs := map (fun i => flip_bb (nth (N.to_nat (swap_idx i)) (bbs p) 0)) idx12;
     hash := hash p;
     all_pieces := flip_bb (all_pieces p);
     by_color := [flip_bb (nth 1 (by_color p) 0); flip_bb (nth 0 (by_color p) 0)];
     board := map (fun s => flip_piece (nth (N.to_nat (flip_sq s)) (board p) 0)) squares64;
     side := switch_color (side p);
     castling := flip_castling (castling p);
     ep := flip_ep (ep p);
     hmc := hmc p;
     ply := ply p |}.

(* ---- what the mirror theorem needs of a position: only the shape of the sets the evaluation reads
   (twelve 64-bit piece sets, two 64-bit colour sets, a 64-bit occupancy, one king per colour).
   The C10 invariant implies it. The square array is not read by the evaluation at all. ---- *)
Definition shape_ok (p : position) : bool :=
  (length (bbs p) =? 12)%nat && forallb (fun b => b <? two64) (bbs p) &&
  (length (by_color p) =? 2)%nat && forallb (fun b => b <? two64) (by_color p) &&
  (all_pieces p <? two64) &&
  (popcount (bb_at p 0 5) =? 1) && (popcount (bb_at p 1 5) =? 1).

(* ---- the conditions on the evaluation constants under which the evaluation is colour-symmetric ---- *)
Open Scope Z_scope.

(* every table has the shape the Go arrays have *)
Definition pst_shape (tbl : list (list (list Z))) : bool :=
  (length tbl =? 2)%nat &&
  forallb (fun l1 => (length l1 =? 6)%nat && forallb (fun l2 => (length l2 =? 64)%nat) l1) tbl.
Definition econsts_wf (C : econsts) : bool :=
  pst_shape (ec_mid_pst C) && pst_shape (ec_end_pst C) &&
  (length (ec_piece_value C) =? 6)%nat && (length (ec_isolani C) =? 2)%nat &&
  (length (ec_knight_pawn_adj C) =? 9)%nat && (length (ec_rook_pawn_adj C) =? 9)%nat &&
  (length (ec_king_att C) =? 6)%nat.

(* total table read (the shape makes it equal to pst_at) *)
Definition pstv (tbl : list (list (list Z))) (c t sq : N) : Z :=
  nth (N.to_nat sq) (nth (N.to_nat t) (nth (N.to_nat c) tbl []) []) 0.

(* the black table is the white table read upside down: 2 * 6 * 64 = 768 comparisons *)
Definition tbl_symmetric (tbl : list (list (list Z))) : bool :=
  forallb (fun t => forallb (fun sq => pstv tbl 0 t sq =? pstv tbl 1 t (flip_sq sq)) squares64)
          [0; 1; 2; 3; 4; 5]%N.
Definition pst_symmetric (C : econsts) : bool :=
  tbl_symmetric (ec_mid_pst C) && tbl_symmetric (ec_end_pst C).

(* ---- the side condition of the mirror theorem ----
   calculateScore divides the tapered sum  mid*phase + end*(max-phase)  (an int16) by maxGamePhase.
   Under the mirror the sum is negated modulo 2^16; Go's division truncates towards zero, so the
   quotient is negated too - unless the sum is -32768, the one int16 that is its own negative. *)
Definition tapered (C : econsts) (p : position) : res Z :=
  meb <- eval_parts C p ;;
  g <- game_phase C p ;;
  let '(m, e, _) := meb in
  Ok (add16 (mul16 m g) (mul16 e (sub16 (ec_max_phase C) g))).
Definition no_min16 (C : econsts) (p : position) : Prop := tapered C p <> Ok (-32768).
