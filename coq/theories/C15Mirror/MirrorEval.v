(* C15, first half: the static evaluation is colour-symmetric.
   eval_raw of the mirror image of a position = eval_raw of the position (both from the mover's
   point of view), for any evaluation constants whose piece-square tables are mirror images of each
   other, unless the tapered int16 sum is exactly -32768 (see [no_min16] in Mirror.v and
   MirrorExamples.v for why that exception is real; MirrorGo.v shows it cannot occur with the
   constants of the Go build). *)
From Coq Require Import NArith ZArith List Bool Lia ZifyBool ZifyN ZifyNat.
From Clemens Require Import Base.Res Base.Word Pos.Types Att.Attacks Att.ShiftsProofs
  Pos.Position Pos.Inv Att.AttackersProofs Eval.Eval.
From Clemens.C15Mirror Require Import Mirror FlipBits Arith16 FlipAttacks EvalView MirrorTerms.
Import ListNotations.
Open Scope N_scope.

(* ------------------------------------------------------------------ the views of p and of mirror p *)
Lemma ct_cases : forall c t, c < 2 -> t < 6 ->
  (c = 0 \/ c = 1) /\ (t = 0 \/ t = 1 \/ t = 2 \/ t = 3 \/ t = 4 \/ t = 5).
Proof. intros c t Hc Ht. lia. Qed.

Ltac ct_split c t Hc Ht :=
  let H := fresh in
  destruct (ct_cases c t Hc Ht) as [[-> | ->] [-> | [-> | [-> | [-> | [-> | ->]]]]]].

Section Shape.
Variable p : position.
Hypothesis Hshape : shape_ok p = true.

Lemma shape_parts :
  length (bbs p) = 12%nat /\ (forall b, In b (bbs p) -> b < two64) /\
  length (by_color p) = 2%nat /\ (forall b, In b (by_color p) -> b < two64) /\
  all_pieces p < two64 /\ popcount (bb_at p 0 5) = 1 /\ popcount (bb_at p 1 5) = 1.
Proof.
  pose proof Hshape as H. unfold shape_ok in H.
  apply andb_true_iff in H. destruct H as [H Hk1].
  apply andb_true_iff in H. destruct H as [H Hk0].
  apply andb_true_iff in H. destruct H as [H Hocc].
  apply andb_true_iff in H. destruct H as [H Hbc].
  apply andb_true_iff in H. destruct H as [H Hlen2].
  apply andb_true_iff in H. destruct H as [Hlen Hbb].
  rewrite forallb_forall in Hbb, Hbc.
  split; [apply Nat.eqb_eq, Hlen|]. split; [intros b Hb; apply N.ltb_lt, Hbb, Hb|].
  split; [apply Nat.eqb_eq, Hlen2|]. split; [intros b Hb; apply N.ltb_lt, Hbc, Hb|].
  split; [apply N.ltb_lt, Hocc|]. split; apply N.eqb_eq; assumption.
Qed.

Lemma shape_bb_lt : forall c t, c < 2 -> t < 6 -> bb_at p c t < two64.
Proof.
  intros c t Hc Ht. destruct shape_parts as [Hlen [Hall _]]. apply Hall. unfold bb_at.
  apply nth_In. rewrite Hlen. lia.
Qed.

Lemma shape_own_lt : forall c, c < 2 -> nth (N.to_nat c) (by_color p) 0 < two64.
Proof.
  intros c Hc. destruct shape_parts as [_ [_ [Hlen [Hall _]]]]. apply Hall.
  apply nth_In. rewrite Hlen. lia.
Qed.

Lemma view_of_ok : view_ok p (view_of p).
Proof.
  destruct shape_parts as [Hlen [_ [Hlen2 _]]]. split; [|split].
  - intros c t Hc Ht. unfold view_of. cbn [v_bb]. unfold get_bb, bb_index, bb_at.
    destruct (N.ltb_spec c 2); [|lia]. destruct (N.ltb_spec t 6); [|lia]. cbn [andb bind].
    apply nth_res_ok. rewrite Hlen. lia.
  - intros c Hc. unfold view_of, color_bb. cbn [v_own]. apply nth_res_ok. rewrite Hlen2. lia.
  - reflexivity.
Qed.

Lemma view_of_wf : view_wf (view_of p).
Proof.
  split; [|split; [|split]].
  - exact shape_bb_lt.
  - exact shape_own_lt.
  - apply shape_parts.
  - intros c Hc. unfold view_of. cbn [v_bb].
    assert (Hpop : popcount (bb_at p c 5) = 1).
    { destruct shape_parts as [_ [_ [_ [_ [_ [H0 H1]]]]]].
      assert (Hc' : c = 0 \/ c = 1) by lia. destruct Hc' as [-> | ->]; assumption. }
    apply single_bit; [apply shape_bb_lt; [exact Hc | reflexivity] | exact Hpop].
Qed.

Lemma mirror_view_ok : view_ok (mirror p) (flip_view (view_of p)).
Proof.
  split; [|split].
  - intros c t Hc Ht. ct_split c t Hc Ht; reflexivity.
  - intros c Hc. assert (Hc' : c = 0 \/ c = 1) by lia. destruct Hc' as [-> | ->]; reflexivity.
  - reflexivity.
Qed.

End Shape.

(* ------------------------------------------------------------------ the theorem, any constants *)
Section Main.
Variable C : econsts.
Hypothesis HCwf : econsts_wf C = true.
Hypothesis HCsym : pst_symmetric C = true.

Lemma tapered_view : forall p, shape_ok p = true -> tapered C p = tapered_v C (view_of p).
Proof.
  intros p Hs. unfold tapered_v.
  exact (tapered_nf C p (view_of p) (econsts_wf_shape C HCwf) (view_of_ok p Hs) (view_of_wf p Hs)).
Qed.

Lemma tapered_mirror_view : forall p, shape_ok p = true ->
  tapered C (mirror p) = tapered_v C (flip_view (view_of p)).
Proof.
  intros p Hs. unfold tapered_v.
  exact (tapered_nf C (mirror p) (flip_view (view_of p)) (econsts_wf_shape C HCwf) (mirror_view_ok p)
           (flip_view_wf (view_of p) (view_of_wf p Hs))).
Qed.

Theorem eval_mirror_shape : forall p,
  shape_ok p = true -> no_min16 C p ->
  eval_raw C (mirror p) = eval_raw C p.
Proof.
  intros p Hs Hmin.
  rewrite (eval_raw_nf C (mirror p) (flip_view (view_of p)) (econsts_wf_shape C HCwf) (mirror_view_ok p)
             (flip_view_wf (view_of p) (view_of_wf p Hs))).
  rewrite (eval_raw_nf C p (view_of p) (econsts_wf_shape C HCwf) (view_of_ok p Hs) (view_of_wf p Hs)).
  change (hmc (mirror p)) with (hmc p). change (side (mirror p)) with (switch_color (side p)).
  apply (eval_v_mirror C (view_of p) (view_of_wf p Hs) HCsym).
  unfold no_min16 in Hmin. rewrite (tapered_view p Hs) in Hmin. exact Hmin.
Qed.

(* the three accumulators (midgame, endgame, base) are negated in int16 *)
Definition neg16_parts (r : res (Z * Z * Z)) : res (Z * Z * Z) :=
  match r with Ok (m, e, b) => Ok (neg16 m, neg16 e, neg16 b) | Err => Err | Panic => Panic end.

Theorem eval_parts_mirror : forall p, shape_ok p = true ->
  eval_parts C (mirror p) = neg16_parts (eval_parts C p).
Proof.
  intros p Hs.
  rewrite (eval_parts_nf C (mirror p) (flip_view (view_of p)) (econsts_wf_shape C HCwf) (mirror_view_ok p)
             (flip_view_wf (view_of p) (view_of_wf p Hs))).
  rewrite (eval_parts_nf C p (view_of p) (econsts_wf_shape C HCwf) (view_of_ok p Hs) (view_of_wf p Hs)).
  rewrite (parts_z_mirror C (view_of p) (view_of_wf p Hs) HCsym).
  destruct (parts_z C (view_of p)) as [[[m e] b] | |]; [|reflexivity|reflexivity].
  cbn [neg3_res bind neg16_parts]. f_equal. f_equal; [f_equal|]; w16.
Qed.

(* game phase, draw test and contempt do not change *)
Theorem phase_draw_contempt_mirror : forall p, shape_ok p = true ->
  game_phase C (mirror p) = game_phase C p /\ is_draw (mirror p) = is_draw p /\
  contempt C (mirror p) = contempt C p.
Proof.
  intros p Hs.
  pose proof (econsts_wf_shape C HCwf) as HC. pose proof (view_of_wf p Hs) as Hwf.
  pose proof (view_of_ok p Hs) as Hok. pose proof (mirror_view_ok p) as Hok'.
  pose proof (flip_view_wf _ Hwf) as Hwf'.
  rewrite (game_phase_nf C _ _ Hok'), (game_phase_nf C _ _ Hok).
  rewrite (is_draw_nf _ _ Hok'), (is_draw_nf _ _ Hok).
  rewrite (contempt_nf C _ _ Hok'), (contempt_nf C _ _ Hok).
  rewrite (phase_v_mirror C _ Hwf), (draw_v_mirror _ Hwf), (contempt_v_mirror C _ Hwf).
  repeat split; reflexivity.
Qed.

(* the side condition holds of the mirror image iff it holds of the position *)
Theorem no_min16_mirror : forall p, shape_ok p = true -> (no_min16 C (mirror p) <-> no_min16 C p).
Proof.
  intros p Hs. unfold no_min16. rewrite (tapered_view p Hs), (tapered_mirror_view p Hs).
  pose proof (tapered_v_mirror C (view_of p) (view_of_wf p Hs) HCsym) as H. tauto.
Qed.

End Main.

(* ------------------------------------------------------------------ the invariant gives the shape *)
Lemma Inv_shape : forall p, Inv p -> shape_ok p = true.
Proof.
  intros p HI. destruct (Inv_views p HI) as [Hwf [Hag [Hhelp Hone]]].
  destruct (by_color_eq p Hhelp) as [Hbc Hall].
  pose proof (union6_lt p Hag 0 eq_refl) as Hw. pose proof (union6_lt p Hag 1 eq_refl) as Hb.
  pose proof (lor_lt _ _ Hw Hb) as Ho.
  unfold one_king_each in Hone. apply andb_true_iff in Hone. destruct Hone as [Hk0 Hk1].
  unfold shape_ok. repeat (apply andb_true_iff; split); try assumption.
  - rewrite (bbs_len p Hag). reflexivity.
  - apply forallb_forall. intros b Hin. apply N.ltb_lt.
    destruct (In_nth _ _ 0 Hin) as [n [Hn Hnth]]. rewrite (bbs_len p Hag) in Hn. subst b.
    pose proof (bb_lt p Hag) as Hlt. unfold bb_at in Hlt.
    assert (Hcases : exists c t, c < 2 /\ t < 6 /\ n = N.to_nat (c * 6 + t)).
    { destruct (Nat.lt_ge_cases n 6).
      - exists 0, (N.of_nat n). lia.
      - exists 1, (N.of_nat (n - 6)). lia. }
    destruct Hcases as [c [t [Hc [Ht ->]]]]. apply Hlt; assumption.
  - rewrite Hbc. reflexivity.
  - rewrite Hbc. cbn [forallb]. apply N.ltb_lt in Hw, Hb. rewrite Hw, Hb. reflexivity.
  - rewrite Hall. apply N.ltb_lt, Ho.
Qed.
