(* C15 (mirror): int16 wrap arithmetic modulo 2^16, and sums over lists.
   [eq16 x y] = x and y have the same int16 image. It is a congruence for + - * and unary minus, so
   every chain of add16/sub16/mul16 equals wrap16 of the plain integer expression. *)
From Coq Require Import ZArith List Bool Lia Permutation Morphisms Setoid.
From Clemens Require Import Base.Res Base.Word Eval.Eval.
Import ListNotations.
Open Scope Z_scope.
Ltac Zify.zify_post_hook ::= Z.to_euclidean_division_equations.

Definition eq16 (x y : Z) : Prop := wrap16 x = wrap16 y.
Definition in16 (x : Z) : Prop := wrap16 x = x.

Lemma eq16_mod : forall x y, eq16 x y <-> x mod 65536 = y mod 65536.
Proof. intros x y. unfold eq16, wrap16. lia. Qed.

#[global] Instance eq16_equiv : Equivalence eq16.
Proof.
  split; unfold eq16.
  - intros x. reflexivity.
  - intros x y H. symmetry. exact H.
  - intros x y z H1 H2. congruence.
Qed.

#[global] Instance add_eq16 : Proper (eq16 ==> eq16 ==> eq16) Z.add.
Proof. intros x x' Hx y y' Hy. apply eq16_mod in Hx, Hy. apply eq16_mod. lia. Qed.
#[global] Instance sub_eq16 : Proper (eq16 ==> eq16 ==> eq16) Z.sub.
Proof. intros x x' Hx y y' Hy. apply eq16_mod in Hx, Hy. apply eq16_mod. lia. Qed.
#[global] Instance opp_eq16 : Proper (eq16 ==> eq16) Z.opp.
Proof. intros x x' Hx. apply eq16_mod in Hx. apply eq16_mod. lia. Qed.
#[global] Instance mul_eq16 : Proper (eq16 ==> eq16 ==> eq16) Z.mul.
Proof.
  intros x x' Hx y y' Hy. apply eq16_mod in Hx, Hy. apply eq16_mod.
  rewrite (Z.mul_mod x y), (Z.mul_mod x' y') by lia. rewrite Hx, Hy. reflexivity.
Qed.

Lemma wrap16_eq16 : forall a, eq16 (wrap16 a) a.
Proof. intros a. unfold eq16, wrap16. lia. Qed.

Lemma in16_wrap : forall a, in16 (wrap16 a).
Proof. intros a. apply wrap16_eq16. Qed.

Lemma in16_range : forall a, in16 a <-> -32768 <= a <= 32767.
Proof. intros a. unfold in16, wrap16. lia. Qed.

Lemma in16_0 : in16 0.
Proof. reflexivity. Qed.

Lemma eq16_in16 : forall a b, in16 a -> in16 b -> eq16 a b -> a = b.
Proof. intros a b Ha Hb H. unfold eq16 in H. rewrite Ha, Hb in H. exact H. Qed.

(* goal [wrap16 A = wrap16 B]: drop every inner wrap and compare as polynomials *)
Ltac w16 :=
  unfold add16, sub16, mul16, neg16;
  match goal with
  | |- wrap16 ?a = wrap16 ?b => change (eq16 a b)
  | |- eq16 _ _ => idtac
  end;
  rewrite ?wrap16_eq16; unfold eq16; f_equal; try ring.

(* negation and the one exceptional value *)
Lemma wrap16_opp : forall x, wrap16 x <> -32768 -> wrap16 (- x) = - wrap16 x.
Proof. intros x. unfold wrap16. lia. Qed.

Lemma wrap16_opp_min : forall x, wrap16 x = -32768 <-> wrap16 (- x) = -32768.
Proof. intros x. unfold wrap16. lia. Qed.

(* ------------------------------------------------------------------ sums *)
Section Sums.
Context {A : Type}.

Fixpoint sumz (f : A -> Z) (l : list A) : Z :=
  match l with
  | [] => 0
  | x :: r => f x + sumz f r
  end.

Lemma sumz_app : forall f l1 l2, sumz f (l1 ++ l2) = sumz f l1 + sumz f l2.
Proof. intros f l1 l2. induction l1 as [|x r IH]; cbn [sumz app]; lia. Qed.

Lemma sumz_perm : forall f l1 l2, Permutation l1 l2 -> sumz f l1 = sumz f l2.
Proof. intros f l1 l2 H. induction H; cbn [sumz]; lia. Qed.

Lemma sumz_ext_in : forall f g l, (forall x, In x l -> f x = g x) -> sumz f l = sumz g l.
Proof.
  intros f g l. induction l as [|x r IH]; intros H; cbn [sumz]; [reflexivity|].
  rewrite (H x (or_introl eq_refl)), IH; [reflexivity|]. intros y Hy. apply H. right. exact Hy.
Qed.

Lemma sumz_opp : forall f l, sumz (fun x => - f x) l = - sumz f l.
Proof. intros f l. induction l as [|x r IH]; cbn [sumz]; lia. Qed.

Lemma sumz_plus : forall f g l, sumz (fun x => f x + g x) l = sumz f l + sumz g l.
Proof. intros f g l. induction l as [|x r IH]; cbn [sumz]; lia. Qed.

(* a loop that adds f x in int16 computes the int16 image of the sum *)
Lemma fold_wrap_sum : forall (f : A -> Z) (step : Z -> A -> Z),
  (forall v x, step v x = wrap16 (v + f x)) ->
  forall l v, in16 v -> fold_left step l v = wrap16 (v + sumz f l).
Proof.
  intros f step Hstep l. induction l as [|x r IH]; intros v Hv; cbn [fold_left sumz].
  - rewrite Z.add_0_r. symmetry. exact Hv.
  - rewrite Hstep, IH by apply in16_wrap. w16.
Qed.
End Sums.

Lemma sumz_map : forall {A B} (g : A -> B) (f : B -> Z) l, sumz f (map g l) = sumz (fun x => f (g x)) l.
Proof. intros A B g f l. induction l as [|x r IH]; cbn [sumz map]; [reflexivity|]. rewrite IH. reflexivity. Qed.

(* indicator *)
Definition ind (c : bool) (k : Z) : Z := if c then k else 0.

Lemma if_add16 : forall (c : bool) b k, in16 b -> (if c then add16 b k else b) = wrap16 (b + ind c k).
Proof. intros [|] b k Hb; unfold ind, add16; [reflexivity|]. rewrite Z.add_0_r. symmetry. exact Hb. Qed.
Lemma if_sub16 : forall (c : bool) b k, in16 b -> (if c then sub16 b k else b) = wrap16 (b - ind c k).
Proof. intros [|] b k Hb; unfold ind, sub16; [reflexivity|]. rewrite Z.sub_0_r. symmetry. exact Hb. Qed.
