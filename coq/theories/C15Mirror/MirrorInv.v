(* C15 (mirror): the mirror image of a position satisfying the invariant satisfies the invariant,
   and mirroring twice gives the position back. *)
From Coq Require Import NArith ZArith List Bool Lia ZifyBool ZifyN ZifyNat.
From Clemens Require Import Base.Res Base.Word Pos.Types Att.Attacks Att.ShiftsProofs Att.SlidingProofs
  Pos.Position Pos.Inv Att.AttackersProofs Eval.Eval Eval.SeeBits.
From Clemens.C15Mirror Require Import Mirror FlipBits FlipAttacks EvalView MirrorTerms MirrorEval.
Import ListNotations.
Open Scope N_scope.
Ltac Zify.zify_post_hook ::= Z.to_euclidean_division_equations.

(* ------------------------------------------------------------------ reading the mirror image *)
Lemma nth_map_squares64 : forall {A} (f : N -> A) d s, s < 64 -> nth (N.to_nat s) (map f squares64) d = f s.
Proof.
  intros A f d s Hs. unfold squares64. rewrite map_map.
  rewrite (nth_indep _ d (f (N.of_nat 0))) by (rewrite map_length, seq_length; lia).
  rewrite (map_nth (fun x => f (N.of_nat x)) (seq 0 64) 0%nat), seq_nth by lia.
  cbn [Nat.add]. rewrite N2Nat.id. reflexivity.
Qed.

Lemma piece_at_mirror : forall p s, s < 64 -> piece_at (mirror p) s = flip_piece (piece_at p (flip_sq s)).
Proof.
  intros p s Hs. unfold piece_at, mirror. cbn [board].
  exact (nth_map_squares64 (fun s => flip_piece (nth (N.to_nat (flip_sq s)) (board p) 0)) 0 s Hs).
Qed.

Lemma bb_at_mirror : forall p c t, c < 2 -> t < 6 -> bb_at (mirror p) c t = flip_bb (bb_at p (1 - c) t).
Proof. intros p c t Hc Ht. ct_split c t Hc Ht; reflexivity. Qed.

(* ------------------------------------------------------------------ finite facts about codes *)
Definition pieces13 : list N := [0; 1; 2; 3; 4; 5; 6; 9; 10; 11; 12; 13; 14].
Lemma flip_piece_eqb_b :
  forallb (fun x => forallb (fun k => Bool.eqb (flip_piece x =? k) (x =? flip_piece k)) pieces13) pieces13 = true.
Proof. vm_compute. reflexivity. Qed.
Lemma flip_piece_invol_b : forallb (fun x => flip_piece (flip_piece x) =? x) pieces13 = true.
Proof. vm_compute. reflexivity. Qed.
Lemma flip_piece_valid_b : forallb (fun x => (flip_piece x =? 0) || valid_piece (flip_piece x)) pieces13 = true.
Proof. vm_compute. reflexivity. Qed.

Lemma in_pieces13 : forall x,
  x = 0 \/ x = 1 \/ x = 2 \/ x = 3 \/ x = 4 \/ x = 5 \/ x = 6 \/ x = 9 \/ x = 10 \/ x = 11 \/ x = 12 \/ x = 13 \/ x = 14 ->
  In x pieces13.
Proof. intros x H. unfold pieces13. cbn [In]. lia. Qed.

Lemma flip_piece_eqb : forall x k, In x pieces13 -> In k pieces13 -> (flip_piece x =? k) = (x =? flip_piece k).
Proof.
  intros x k Hx Hk. pose proof flip_piece_eqb_b as H. rewrite forallb_forall in H.
  specialize (H x Hx). rewrite forallb_forall in H. apply eqb_prop, (H k Hk).
Qed.

Lemma new_piece_in : forall c t, c < 2 -> t < 6 -> In (new_piece c t) pieces13.
Proof. intros c t Hc Ht. ct_split c t Hc Ht; vm_compute; tauto. Qed.
Lemma flip_new_piece : forall c t, c < 2 -> t < 6 -> flip_piece (new_piece c t) = new_piece (1 - c) t.
Proof. intros c t Hc Ht. ct_split c t Hc Ht; reflexivity. Qed.

Definition rights16 : list N := map N.of_nat (seq 0 16).
Lemma flip_castling_b :
  forallb (fun c => (flip_castling c <? 16) && (flip_castling (flip_castling c) =? c) &&
                    Bool.eqb (N.testbit (flip_castling c) 0) (N.testbit c 2) &&
                    Bool.eqb (N.testbit (flip_castling c) 1) (N.testbit c 3) &&
                    Bool.eqb (N.testbit (flip_castling c) 2) (N.testbit c 0) &&
                    Bool.eqb (N.testbit (flip_castling c) 3) (N.testbit c 1)) rights16 = true.
Proof. vm_compute. reflexivity. Qed.
Lemma flip_castling_spec : forall c, c < 16 ->
  flip_castling c < 16 /\ flip_castling (flip_castling c) = c /\
  N.testbit (flip_castling c) 0 = N.testbit c 2 /\ N.testbit (flip_castling c) 1 = N.testbit c 3 /\
  N.testbit (flip_castling c) 2 = N.testbit c 0 /\ N.testbit (flip_castling c) 3 = N.testbit c 1.
Proof.
  intros c Hc. pose proof flip_castling_b as H. rewrite forallb_forall in H.
  assert (Hin : In c rights16).
  { unfold rights16. apply in_map_iff. exists (N.to_nat c). split; [lia|]. apply in_seq. lia. }
  specialize (H c Hin). cbv beta in H.
  apply andb_true_iff in H. destruct H as [H H3]. apply andb_true_iff in H. destruct H as [H H2].
  apply andb_true_iff in H. destruct H as [H H1]. apply andb_true_iff in H. destruct H as [H H0].
  apply andb_true_iff in H. destruct H as [Hlt Hinv].
  apply eqb_prop in H0, H1, H2, H3. apply N.ltb_lt in Hlt. apply N.eqb_eq in Hinv. tauto.
Qed.

(* ------------------------------------------------------------------ positions with consistent views *)
Section Views.
Variable p : position.
Hypothesis Hwf : board_wf p = true.
Hypothesis Hag : bbs_agree p = true.
Hypothesis Hhelp : helpers_agree p = true.

Lemma piece_in13 : forall s, s < 64 -> In (piece_at p s) pieces13.
Proof. intros s Hs. apply in_pieces13. exact (piece_cases p Hwf s Hs). Qed.

Lemma mirror_board_wf : board_wf (mirror p) = true.
Proof.
  unfold board_wf. apply andb_true_iff. split; [reflexivity|].
  apply forallb_forall. intros x Hx. unfold mirror in Hx. cbn [board] in Hx.
  apply in_map_iff in Hx. destruct Hx as [s [Hx Hs]]. apply squares64_in in Hs. subst x.
  pose proof flip_piece_valid_b as H. rewrite forallb_forall in H.
  exact (H _ (piece_in13 _ (flip_sq_lt s Hs))).
Qed.

Lemma ct_pairs_lt : forall c t, In (c, t) ct_pairs -> c < 2 /\ t < 6.
Proof.
  intros c t H. unfold ct_pairs in H. cbn [flat_map map app In] in H.
  repeat (destruct H as [H | H]; [injection H as <- <-; lia|]). contradiction.
Qed.

Lemma mirror_bbs_agree : bbs_agree (mirror p) = true.
Proof.
  unfold bbs_agree. apply andb_true_iff. split; [reflexivity|].
  apply forallb_forall. intros [c t] Hin. destruct (ct_pairs_lt c t Hin) as [Hc Ht].
  rewrite (bb_at_mirror p c t Hc Ht). apply andb_true_iff. split; [apply N.ltb_lt, flip_bb_lt|].
  apply forallb_forall. intros s Hs. apply squares64_in in Hs.
  rewrite flip_bb_spec, (piece_at_mirror p s Hs).
  destruct (N.ltb_spec s 64); [|lia]. cbn [andb].
  assert (Hc' : 1 - c < 2) by lia.
  rewrite (bb_bit p Hag (1 - c) t (flip_sq s) Hc' Ht (flip_sq_lt s Hs)).
  rewrite (flip_piece_eqb _ _ (piece_in13 _ (flip_sq_lt s Hs)) (new_piece_in c t Hc Ht)).
  rewrite (flip_new_piece c t Hc Ht). apply eqb_reflx.
Qed.

Lemma union6_mirror : forall c, c < 2 -> union6 (mirror p) c = flip_bb (union6 p (1 - c)).
Proof.
  intros c Hc. unfold union6. cbn [map fold_left].
  rewrite !bb_at_mirror by (try exact Hc; reflexivity).
  rewrite !flip_lor. reflexivity.
Qed.

Lemma mirror_helpers_agree : helpers_agree (mirror p) = true.
Proof.
  destruct (by_color_eq p Hhelp) as [Hbc Hall].
  unfold helpers_agree.
  change (by_color (mirror p)) with [flip_bb (nth 1 (by_color p) 0); flip_bb (nth 0 (by_color p) 0)].
  change (all_pieces (mirror p)) with (flip_bb (all_pieces p)). rewrite Hbc, Hall. cbn [nth].
  rewrite (union6_mirror 0 eq_refl), (union6_mirror 1 eq_refl).
  change (1 - 0) with 1. change (1 - 1) with 0.
  rewrite !N.eqb_refl. cbn [andb]. rewrite flip_lor, N.lor_comm. apply N.eqb_refl.
Qed.

Lemma mirror_one_king_each : one_king_each p = true -> one_king_each (mirror p) = true.
Proof.
  intros H. unfold one_king_each in *.
  rewrite !bb_at_mirror by reflexivity. change (1 - 0) with 1. change (1 - 1) with 0.
  rewrite !popcount_flip by (apply (bb_lt p Hag); reflexivity).
  rewrite andb_comm. exact H.
Qed.

Lemma mirror_no_back_rank_pawns : no_back_rank_pawns p = true -> no_back_rank_pawns (mirror p) = true.
Proof.
  intros H. unfold no_back_rank_pawns in *.
  rewrite !bb_at_mirror by reflexivity. change (1 - 0) with 1. change (1 - 1) with 0.
  change (N.lor RankMask1 RankMask8) with (flip_bb (N.lor RankMask1 RankMask8)).
  rewrite <- flip_lor, <- flip_land.
  rewrite flip_bb_eq0 by (apply land_lt_r; reflexivity).
  rewrite (N.lor_comm (bb_at p 1 0)). exact H.
Qed.

Lemma mirror_castling_consistent : castling_consistent p = true -> castling_consistent (mirror p) = true.
Proof.
  intros H. unfold castling_consistent in *.
  apply andb_true_iff in H. destruct H as [H C3]. apply andb_true_iff in H. destruct H as [H C2].
  apply andb_true_iff in H. destruct H as [H C1]. apply andb_true_iff in H. destruct H as [Hlt C0].
  apply N.ltb_lt in Hlt. destruct (flip_castling_spec _ Hlt) as [Hlt' [_ [B0 [B1 [B2 B3]]]]].
  change (castling (mirror p)) with (flip_castling (castling p)). rewrite B0, B1, B2, B3.
  rewrite !piece_at_mirror by reflexivity.
  change (flip_sq E1) with E8. change (flip_sq E8) with E1. change (flip_sq Types.H1) with H8.
  change (flip_sq H8) with Types.H1. change (flip_sq A1) with A8. change (flip_sq A8) with A1.
  assert (P : forall s k, s < 64 -> In k pieces13 -> (flip_piece (piece_at p s) =? k) = (piece_at p s =? flip_piece k)).
  { intros s k Hs Hk. apply flip_piece_eqb; [apply piece_in13, Hs | exact Hk]. }
  rewrite !P by (try reflexivity; vm_compute; tauto).
  change (flip_piece 6) with 14. change (flip_piece 4) with 12.
  change (flip_piece 14) with 6. change (flip_piece 12) with 4.
  apply N.ltb_lt in Hlt'. rewrite Hlt', C0, C1, C2, C3. reflexivity.
Qed.

Lemma rank_of_div : forall s, rank_of s = s / 8.
Proof. intros s. unfold rank_of. rewrite N.shiftr_div_pow2. reflexivity. Qed.

Lemma mirror_scalars_ok : scalars_ok p = true -> scalars_ok (mirror p) = true.
Proof.
  intros H. unfold scalars_ok in *.
  apply andb_true_iff in H. destruct H as [H He]. apply andb_true_iff in H. destruct H as [H Hp].
  apply andb_true_iff in H. destruct H as [Hs Hh].
  unfold mirror. cbn [side hmc ply ep]. rewrite Hh, Hp.
  assert (H1 : (switch_color (side p) =? WHITE) || (switch_color (side p) =? BLACK) = true).
  { unfold switch_color. destruct (side p =? BLACK); reflexivity. }
  rewrite H1. cbn [andb]. apply N.leb_le. apply N.leb_le in He. unfold flip_ep, SQ_NONE.
  destruct (N.eqb_spec (ep p) 64) as [E | E]; [lia|].
  assert (Hlt : ep p < 64) by lia. pose proof (flip_sq_lt _ Hlt). lia.
Qed.

Lemma mirror_ep_consistent : scalars_ok p = true -> ep_consistent p = true -> ep_consistent (mirror p) = true.
Proof.
  intros Hsc H. unfold scalars_ok in Hsc.
  apply andb_true_iff in Hsc. destruct Hsc as [Hsc He]. apply andb_true_iff in Hsc. destruct Hsc as [Hsc _].
  apply andb_true_iff in Hsc. destruct Hsc as [Hs _]. apply N.leb_le in He.
  unfold ep_consistent in *. cbv zeta in *.
  change (ep (mirror p)) with (flip_ep (ep p)). change (side (mirror p)) with (switch_color (side p)).
  unfold flip_ep, SQ_NONE in *.
  destruct (N.eqb_spec (ep p) 64) as [E | E]; [reflexivity|].
  cbn [orb] in H. set (e := ep p) in *. assert (Hlt : e < 64) by lia.
  pose proof (flip_sq_lt e Hlt) as Hlt'. pose proof (flip_sq_eq e Hlt) as Hfe.
  destruct (N.eqb_spec (flip_sq e) 64) as [E' | _]; [lia|]. cbn [orb].
  rewrite !rank_of_div in *.
  assert (P0 : forall s, s < 64 -> (flip_piece (piece_at p s) =? 0) = (piece_at p s =? 0)).
  { intros s Hs'. apply (flip_piece_eqb _ 0 (piece_in13 s Hs')). vm_compute. tauto. }
  assert (P1 : forall s, s < 64 -> (flip_piece (piece_at p s) =? 1) = (piece_at p s =? 9)).
  { intros s Hs'. apply (flip_piece_eqb _ 1 (piece_in13 s Hs')). vm_compute. tauto. }
  assert (P9 : forall s, s < 64 -> (flip_piece (piece_at p s) =? 9) = (piece_at p s =? 1)).
  { intros s Hs'. apply (flip_piece_eqb _ 9 (piece_in13 s Hs')). vm_compute. tauto. }
  unfold switch_color, WHITE, BLACK in *.
  destruct (N.eqb_spec (side p) 0) as [S0 | S0].
  - (* White to move in p: Black has just pushed; in the mirror image White has *)
    rewrite S0. change (0 =? 1) with false. cbv iota. change (1 =? 0) with false. cbv iota.
    apply andb_true_iff in H. destruct H as [H H4]. apply andb_true_iff in H. destruct H as [H H3].
    apply andb_true_iff in H. destruct H as [H H2]. apply andb_true_iff in H. destruct H as [H1 _].
    apply N.eqb_eq in H1.
    assert (R : flip_sq e / 8 = 2) by lia.
    assert (F1 : flip_sq (flip_sq e + 8) = e - 8).
    { rewrite (flip_sq_eq (flip_sq e + 8)) by lia. lia. }
    assert (F2 : flip_sq (flip_sq e - 8) = e + 8).
    { rewrite (flip_sq_eq (flip_sq e - 8)) by lia. lia. }
    rewrite !piece_at_mirror by lia. rewrite flip_sq_invol, F1, F2.
    rewrite P0, P1, P0 by lia. rewrite R, H2, H3, H4. reflexivity.
  - assert (S1 : side p = 1) by lia. rewrite S1 in *. change (1 =? 1) with true. cbv iota.
    change (1 =? 0) with false in H. cbv iota in H. change (0 =? 0) with true. cbv iota.
    apply andb_true_iff in H. destruct H as [H H4]. apply andb_true_iff in H. destruct H as [H H3].
    apply andb_true_iff in H. destruct H as [H1 H2]. apply N.eqb_eq in H1.
    assert (R : flip_sq e / 8 = 5) by lia.
    assert (F1 : flip_sq (flip_sq e + 8) = e - 8).
    { rewrite (flip_sq_eq (flip_sq e + 8)) by lia. lia. }
    assert (F2 : flip_sq (flip_sq e - 8) = e + 8).
    { rewrite (flip_sq_eq (flip_sq e - 8)) by lia. lia. }
    rewrite !piece_at_mirror by lia. rewrite flip_sq_invol, F1, F2.
    rewrite P0, P9, P0 by lia. rewrite R, H2, H3, H4.
    destruct (N.ltb_spec (flip_sq e) 64); [reflexivity | lia].
Qed.

End Views.

(* ------------------------------------------------------------------ the check test through a view *)
Definition attackers_v (V : view) (sq : N) : N :=
  let occ := v_occ V in
  let a := N.land (knight_attacks sq) (N.lor (v_bb V 0 1) (v_bb V 1 1)) in
  let a := N.lor a (N.land (king_attacks sq) (N.lor (v_bb V 0 5) (v_bb V 1 5))) in
  let a := N.lor a (N.land (bishop_attacks sq occ)
                           (N.lor (N.lor (v_bb V 0 2) (v_bb V 1 2)) (N.lor (v_bb V 0 4) (v_bb V 1 4)))) in
  let a := N.lor a (N.land (rook_attacks sq occ)
                           (N.lor (N.lor (v_bb V 0 3) (v_bb V 1 3)) (N.lor (v_bb V 0 4) (v_bb V 1 4)))) in
  let a := N.lor a (N.land (pawn_attacks WHITE sq) (v_bb V 1 0)) in
  N.lor a (N.land (pawn_attacks BLACK sq) (v_bb V 0 0)).

Lemma square_attacked_by_view : forall q V sq, view_ok q V -> sq < 64 ->
  square_attacked_by q sq = Ok (attackers_v V sq).
Proof.
  intros q V sq [Hbb [_ Hocc]] Hsq. unfold square_attacked_by, bbs2.
  destruct (N.ltb_spec sq 64); [|lia]. cbn [negb].
  rewrite !Hbb by reflexivity. cbn [bind]. rewrite Hocc. reflexivity.
Qed.

Lemma switch_color_lt : forall c, switch_color c < 2.
Proof. intros c. unfold switch_color, WHITE, BLACK. destruct (c =? 1); lia. Qed.

Lemma is_in_check_view : forall q V c, view_ok q V -> view_wf V -> c < 2 ->
  is_in_check q c =
  Ok (negb (N.land (attackers_v V (ksq_of (v_bb V c 5))) (v_own V (switch_color c)) =? 0)).
Proof.
  intros q V c Hok Hwf Hc. unfold is_in_check.
  rewrite (proj1 Hok c KING Hc eq_refl). cbn [bind].
  destruct (proj2 (proj2 (proj2 Hwf)) c Hc) as [k [Hk Hbit]]. unfold KING. rewrite Hbit.
  rewrite (lsb_bit k Hk), (ksq_of_bit k Hk). cbn [bind].
  rewrite (square_attacked_by_view q V k Hok Hk). cbn [bind].
  rewrite (proj1 (proj2 Hok) _ (switch_color_lt c)). reflexivity.
Qed.

Lemma lor_swap : forall a x y, N.lor (N.lor a x) y = N.lor (N.lor a y) x.
Proof. intros a x y. rewrite <- !N.lor_assoc, (N.lor_comm x y). reflexivity. Qed.

Lemma attackers_v_mirror : forall V sq, view_wf V -> sq < 64 ->
  attackers_v (flip_view V) (flip_sq sq) = flip_bb (attackers_v V sq).
Proof.
  intros V sq Hwf Hsq. unfold attackers_v. cbv zeta. unfold flip_view. cbn [v_bb v_occ].
  change (1 - 0) with 1. change (1 - 1) with 0.
  rewrite !flip_lor, !flip_land, !flip_lor.
  rewrite (flip_knight_attacks sq Hsq), (flip_king_attacks sq Hsq), (flip_bishop_attacks sq _ Hsq),
    (flip_rook_attacks sq _ Hsq), (flip_pawn_attacks_w sq Hsq), (flip_pawn_attacks_b sq Hsq).
  rewrite (N.lor_comm (flip_bb (v_bb V 1 1))), (N.lor_comm (flip_bb (v_bb V 1 5))),
    (N.lor_comm (flip_bb (v_bb V 1 2))), (N.lor_comm (flip_bb (v_bb V 1 4))),
    (N.lor_comm (flip_bb (v_bb V 1 3))).
  apply lor_swap.
Qed.

Lemma is_in_check_mirror : forall p c, shape_ok p = true -> c < 2 ->
  is_in_check (mirror p) (1 - c) = is_in_check p c.
Proof.
  intros p c Hs Hc.
  pose proof (view_of_wf p Hs) as Hwf. set (V := view_of p) in *.
  assert (Hc' : 1 - c < 2) by lia.
  rewrite (is_in_check_view (mirror p) (flip_view V) (1 - c) (mirror_view_ok p)
             (flip_view_wf V Hwf) Hc').
  rewrite (is_in_check_view p V c (view_of_ok p Hs) Hwf Hc).
  destruct (proj2 (proj2 (proj2 Hwf)) c Hc) as [k [Hk Hbit]].
  assert (E1 : v_bb (flip_view V) (1 - c) 5 = flip_bb (v_bb V c 5)).
  { unfold flip_view. cbn [v_bb]. replace (1 - (1 - c)) with c by lia. reflexivity. }
  assert (E2 : v_own (flip_view V) (switch_color (1 - c)) = flip_bb (v_own V (switch_color c))).
  { unfold flip_view. cbn [v_own]. f_equal. f_equal. unfold switch_color, BLACK, WHITE.
    assert (Hcc : c = 0 \/ c = 1) by lia. destruct Hcc as [-> | ->]; reflexivity. }
  rewrite E1, E2, Hbit, (flip_bit k Hk), (ksq_of_bit k Hk), (ksq_of_bit _ (flip_sq_lt k Hk)).
  rewrite (attackers_v_mirror V k Hwf Hk), <- flip_land.
  rewrite flip_bb_eq0; [reflexivity|].
  apply land_lt_r. apply (proj1 (proj2 Hwf)), switch_color_lt.
Qed.

(* ------------------------------------------------------------------ the invariant is closed under mirroring *)
Theorem Inv_mirror : forall p, Inv p -> Inv (mirror p).
Proof.
  intros p HI. pose proof (Inv_shape p HI) as Hshape. unfold Inv, inv_b in *.
  apply andb_true_iff in HI. destruct HI as [HI Hchk]. apply andb_true_iff in HI. destruct HI as [HI Hsc].
  apply andb_true_iff in HI. destruct HI as [HI Hep]. apply andb_true_iff in HI. destruct HI as [HI Hcas].
  apply andb_true_iff in HI. destruct HI as [HI Hbr]. apply andb_true_iff in HI. destruct HI as [HI Hone].
  apply andb_true_iff in HI. destruct HI as [HI Hhelp]. apply andb_true_iff in HI. destruct HI as [Hwf Hag].
  assert (A1 : board_wf (mirror p) = true) by (apply mirror_board_wf; assumption).
  assert (A2 : bbs_agree (mirror p) = true) by (apply mirror_bbs_agree; assumption).
  assert (A3 : helpers_agree (mirror p) = true) by (apply mirror_helpers_agree; assumption).
  assert (A4 : one_king_each (mirror p) = true) by (apply mirror_one_king_each; assumption).
  assert (A5 : no_back_rank_pawns (mirror p) = true) by (apply mirror_no_back_rank_pawns; assumption).
  assert (A6 : castling_consistent (mirror p) = true) by (apply mirror_castling_consistent; assumption).
  assert (A7 : ep_consistent (mirror p) = true) by (apply mirror_ep_consistent; assumption).
  assert (A8 : scalars_ok (mirror p) = true) by (apply mirror_scalars_ok; assumption).
  rewrite A1, A2, A3, A4, A5, A6, A7, A8.
  cbn [andb].
  unfold mover_not_in_check in *. change (side (mirror p)) with (switch_color (side p)).
  set (c := switch_color (side p)) in *. pose proof (switch_color_lt (side p)) as Hc. fold c in Hc.
  assert (Hsw : switch_color c = 1 - c).
  { unfold switch_color, BLACK, WHITE. assert (Hcc : c = 0 \/ c = 1) by lia. destruct Hcc as [-> | ->]; reflexivity. }
  rewrite Hsw, (is_in_check_mirror p c Hshape Hc). exact Hchk.
Qed.

(* ------------------------------------------------------------------ mirroring twice *)
Lemma position_ext : forall p q,
  bbs p = bbs q -> hash p = hash q -> all_pieces p = all_pieces q -> by_color p = by_color q ->
  board p = board q -> side p = side q -> castling p = castling q -> ep p = ep q -> hmc p = hmc q ->
  ply p = ply q -> p = q.
Proof.
  intros [b1 h1 a1 c1 d1 s1 r1 e1 m1 y1] [b2 h2 a2 c2 d2 s2 r2 e2 m2 y2].
  cbn [bbs hash all_pieces by_color board side castling ep hmc ply]. intros. subst. reflexivity.
Qed.

Theorem mirror_involutive : forall p, Inv p -> mirror (mirror p) = p.
Proof.
  intros p HI. pose proof (Inv_shape p HI) as Hshape. unfold Inv, inv_b in HI.
  apply andb_true_iff in HI. destruct HI as [HI _]. apply andb_true_iff in HI. destruct HI as [HI Hsc].
  apply andb_true_iff in HI. destruct HI as [HI _]. apply andb_true_iff in HI. destruct HI as [HI Hcas].
  apply andb_true_iff in HI. destruct HI as [HI _]. apply andb_true_iff in HI. destruct HI as [HI _].
  apply andb_true_iff in HI. destruct HI as [HI Hhelp]. apply andb_true_iff in HI. destruct HI as [Hwf Hag].
  destruct (shape_parts p Hshape) as [Hlen [Hbbs [Hlen2 [Hbc [Hocc _]]]]].
  apply position_ext; try reflexivity.
  - (* the twelve piece sets *)
    apply (nth_ext _ _ 0 0); [rewrite Hlen; reflexivity|].
    intros n Hn. change (length (bbs (mirror (mirror p)))) with 12%nat in Hn.
    assert (Hb : forall k, (k < 12)%nat -> flip_bb (flip_bb (nth k (bbs p) 0)) = nth k (bbs p) 0).
    { intros k Hk. apply flip_bb_invol, Hbbs, nth_In. rewrite Hlen. exact Hk. }
    do 12 (destruct n as [|n]; [
      match goal with |- nth ?k _ _ = _ =>
        change (flip_bb (flip_bb (nth k (bbs p) 0)) = nth k (bbs p) 0); apply Hb; lia end |]).
    lia.
  - change (flip_bb (flip_bb (all_pieces p)) = all_pieces p). apply flip_bb_invol, Hocc.
  - change ([flip_bb (flip_bb (nth 0 (by_color p) 0)); flip_bb (flip_bb (nth 1 (by_color p) 0))] = by_color p).
    destruct (by_color p) as [|w [|b [|x l]]]; try discriminate Hlen2. cbn [nth].
    rewrite !flip_bb_invol by (apply Hbc; cbn [In]; tauto). reflexivity.
  - apply (nth_ext _ _ 0 0); [rewrite (board_len p Hwf); reflexivity|].
    intros n Hn. change (length (board (mirror (mirror p)))) with 64%nat in Hn.
    assert (Hs : N.of_nat n < 64) by lia.
    pose proof (piece_at_mirror (mirror p) (N.of_nat n) Hs) as H1.
    rewrite (piece_at_mirror p _ (flip_sq_lt _ Hs)), flip_sq_invol in H1.
    unfold piece_at in H1. rewrite Nat2N.id in H1. rewrite H1.
    pose proof flip_piece_invol_b as Hinv. rewrite forallb_forall in Hinv.
    pose proof (Hinv _ (piece_in13 p Hwf _ Hs)) as H2. apply N.eqb_eq in H2.
    unfold piece_at in H2. rewrite Nat2N.id in H2. exact H2.
  - change (switch_color (switch_color (side p)) = side p).
    unfold scalars_ok in Hsc. unfold switch_color, WHITE, BLACK in *.
    destruct (N.eqb_spec (side p) 1) as [-> | Hne]; [reflexivity|].
    destruct (N.eqb_spec (side p) 0) as [-> | Hne0]; [reflexivity|]. discriminate Hsc.
  - change (flip_castling (flip_castling (castling p)) = castling p).
    unfold castling_consistent in Hcas.
    do 4 (apply andb_true_iff in Hcas; destruct Hcas as [Hcas _]). apply N.ltb_lt in Hcas.
    apply (flip_castling_spec _ Hcas).
  - change (flip_ep (flip_ep (ep p)) = ep p).
    unfold scalars_ok in Hsc. apply andb_true_iff in Hsc. destruct Hsc as [_ He]. apply N.leb_le in He.
    unfold flip_ep, SQ_NONE. destruct (N.eqb_spec (ep p) 64) as [E | E]; [rewrite E; reflexivity|].
    assert (Hlt : ep p < 64) by lia. pose proof (flip_sq_lt _ Hlt) as Hlt'.
    destruct (N.eqb_spec (flip_sq (ep p)) 64) as [E' | _]; [lia|]. apply flip_sq_invol.
Qed.

Print Assumptions Inv_mirror.
Print Assumptions mirror_involutive.
