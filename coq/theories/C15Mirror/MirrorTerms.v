(* C15 (mirror): term by term, what the colour mirror does to the integer sums of Eval View:
   game phase, draw test and contempt are unchanged; piece-square tables, pawn structure, pairs,
   material, pawn adjustment negate; white mobility of the mirror image is black mobility of the
   original; hence all three accumulators negate, and the final score - taken from the mover's side -
   is unchanged unless the tapered int16 sum is exactly -32768. *)
From Coq Require Import NArith ZArith List Bool Lia ZifyBool ZifyN ZifyNat Permutation Morphisms Setoid.
From Clemens Require Import Base.Res Base.Word Pos.Types Att.Attacks Att.ShiftsProofs Att.SlidingProofs
  Pos.Position Pos.Inv Att.AttackersProofs Eval.Eval.
From Clemens.C15Mirror Require Import Mirror FlipBits Arith16 FlipAttacks EvalView.
Import ListNotations.
Open Scope Z_scope.

Lemma not64_lt : forall x, (not64 x < two64)%N.
Proof.
  intros x. apply lt_two64_of_bits. intros i Hi. rewrite not64_spec.
  destruct (N.ltb_spec i 64); [lia | reflexivity].
Qed.

Lemma pc_flip : forall x, (x < two64)%N -> pc (flip_bb x) = pc x.
Proof. intros x Hx. unfold pc. rewrite popcount_flip by exact Hx. reflexivity. Qed.

Lemma sumz_bits_flip : forall (f : N -> Z) b, (b < two64)%N ->
  sumz f (bits (flip_bb b)) = sumz (fun s => f (flip_sq s)) (bits b).
Proof.
  intros f b Hb. rewrite (sumz_perm f _ _ (bits_flip_perm b Hb)). apply sumz_map.
Qed.

Lemma tbl_symmetric_spec : forall tbl t s, tbl_symmetric tbl = true -> (t < 6)%N -> (s < 64)%N ->
  pstv tbl 0 t s = pstv tbl 1 t (flip_sq s).
Proof.
  intros tbl t s H Ht Hs. unfold tbl_symmetric in H. rewrite forallb_forall in H.
  assert (Hin : In t [0; 1; 2; 3; 4; 5]%N) by (cbn [In]; lia).
  specialize (H t Hin). rewrite squares64_eq in H. apply Z.eqb_eq. exact (forall_squares _ H s Hs).
Qed.

(* ------------------------------------------------------------------ mobility of one piece *)
Lemma flip_mob_of_b : forall occ t s, (s < 64)%N ->
  flip_bb (mob_of occ 1 t s) = mob_of (flip_bb occ) 0 t (flip_sq s).
Proof.
  intros occ t s Hs. unfold mob_of.
  destruct (t =? PAWN)%N; [apply (flip_pawn_attacks_b s Hs)|].
  destruct (t =? BISHOP)%N; [apply flip_bishop_attacks, Hs|].
  destruct (t =? KNIGHT)%N; [apply flip_knight_attacks, Hs|].
  destruct (t =? ROOK)%N; [apply flip_rook_attacks, Hs|].
  destruct (t =? QUEEN)%N; [apply flip_queen_attacks, Hs|].
  apply flip_king_attacks, Hs.
Qed.

Lemma flip_mob_of_w : forall occ t s, (s < 64)%N ->
  flip_bb (mob_of occ 0 t s) = mob_of (flip_bb occ) 1 t (flip_sq s).
Proof.
  intros occ t s Hs. unfold mob_of.
  destruct (t =? PAWN)%N; [apply (flip_pawn_attacks_w s Hs)|].
  destruct (t =? BISHOP)%N; [apply flip_bishop_attacks, Hs|].
  destruct (t =? KNIGHT)%N; [apply flip_knight_attacks, Hs|].
  destruct (t =? ROOK)%N; [apply flip_rook_attacks, Hs|].
  destruct (t =? QUEEN)%N; [apply flip_queen_attacks, Hs|].
  apply flip_king_attacks, Hs.
Qed.

(* ------------------------------------------------------------------ ranked pawn sums *)
Lemma rank_mask_lt_b : forallb (fun r => (rank_mask r <? two64)%N) [1; 2; 3; 4; 5; 6]%N = true.
Proof. vm_compute. reflexivity. Qed.

Lemma rank_sum_flip : forall x y, (x < two64)%N -> (y < two64)%N ->
  rank_sum (flip_bb y) (flip_bb x) = - rank_sum x y.
Proof.
  intros x y Hx Hy. unfold rank_sum, rank_term.
  assert (H : forall z r r', (z < two64)%N -> flip_bb (rank_mask r') = rank_mask r ->
            pc (N.land (flip_bb z) (rank_mask r)) = pc (N.land z (rank_mask r'))).
  { intros z r r' Hz Hr. rewrite <- Hr, <- flip_land. apply pc_flip. apply land_lt_l, Hz. }
  rewrite (H y 1%N 6%N Hy eq_refl), (H y 2%N 5%N Hy eq_refl), (H y 3%N 4%N Hy eq_refl),
          (H y 4%N 3%N Hy eq_refl), (H y 5%N 2%N Hy eq_refl), (H y 6%N 1%N Hy eq_refl).
  rewrite (H x 1%N 6%N Hx eq_refl), (H x 2%N 5%N Hx eq_refl), (H x 3%N 4%N Hx eq_refl),
          (H x 4%N 3%N Hx eq_refl), (H x 5%N 2%N Hx eq_refl), (H x 6%N 1%N Hx eq_refl).
  change (Z.of_N 1) with 1. change (Z.of_N 2) with 2. change (Z.of_N 3) with 3.
  change (Z.of_N 4) with 4. change (Z.of_N 5) with 5. change (Z.of_N 6) with 6.
  ring.
Qed.

(* ------------------------------------------------------------------ the sums under the mirror *)
Definition neg_res (r : res Z) : res Z := match r with Ok a => Ok (- a) | Err => Err | Panic => Panic end.
Definition neg3_res (r : res (Z * Z * Z)) : res (Z * Z * Z) :=
  match r with Ok (m, e, b) => Ok (- m, - e, - b) | Err => Err | Panic => Panic end.

Lemma flip_view_wf : forall V, view_wf V -> view_wf (flip_view V).
Proof.
  intros V Hwf. split; [|split; [|split]].
  - intros c t _ _. apply flip_bb_lt.
  - intros c _. apply flip_bb_lt.
  - apply flip_bb_lt.
  - intros c Hc. assert (Hc' : (1 - c < 2)%N) by lia.
    destruct (proj2 (proj2 (proj2 Hwf)) _ Hc') as [k [Hk Hbit]].
    exists (flip_sq k). split; [apply flip_sq_lt, Hk|].
    unfold flip_view. cbn [v_bb]. rewrite Hbit. apply flip_bit, Hk.
Qed.

Section Mirror.
Variable C : econsts.
Variable V : view.
Hypothesis Hwf : view_wf V.
Hypothesis Hsym : pst_symmetric C = true.

Let V' := flip_view V.

Lemma bb_lt' : forall c t, (c < 2)%N -> (t < 6)%N -> (v_bb V c t < two64)%N.
Proof. exact (proj1 Hwf). Qed.
Lemma own_lt' : forall c, (c < 2)%N -> (v_own V c < two64)%N.
Proof. exact (proj1 (proj2 Hwf)). Qed.
Lemma occ_lt' : (v_occ V < two64)%N.
Proof. exact (proj1 (proj2 (proj2 Hwf))). Qed.

(* bb of the mirror view, at the two colours *)
Lemma bb0' : forall t, v_bb V' 0 t = flip_bb (v_bb V 1 t). Proof. reflexivity. Qed.
Lemma bb1' : forall t, v_bb V' 1 t = flip_bb (v_bb V 0 t). Proof. reflexivity. Qed.
Lemma own0' : v_own V' 0 = flip_bb (v_own V 1). Proof. reflexivity. Qed.
Lemma own1' : v_own V' 1 = flip_bb (v_own V 0). Proof. reflexivity. Qed.
Lemma occ' : v_occ V' = flip_bb (v_occ V). Proof. reflexivity. Qed.

Lemma P0' : forall t, (t < 6)%N -> pc (v_bb V' 0 t) = pc (v_bb V 1 t).
Proof. intros t Ht. rewrite bb0'. apply pc_flip, bb_lt'; [reflexivity | exact Ht]. Qed.
Lemma P1' : forall t, (t < 6)%N -> pc (v_bb V' 1 t) = pc (v_bb V 0 t).
Proof. intros t Ht. rewrite bb1'. apply pc_flip, bb_lt'; [reflexivity | exact Ht]. Qed.
Lemma pop0' : forall t, (t < 6)%N -> popcount (v_bb V' 0 t) = popcount (v_bb V 1 t).
Proof. intros t Ht. rewrite bb0'. apply popcount_flip, bb_lt'; [reflexivity | exact Ht]. Qed.
Lemma pop1' : forall t, (t < 6)%N -> popcount (v_bb V' 1 t) = popcount (v_bb V 0 t).
Proof. intros t Ht. rewrite bb1'. apply popcount_flip, bb_lt'; [reflexivity | exact Ht]. Qed.

(* ---- game phase, contempt, draw ---- *)
Lemma phase_sum_mirror : phase_sum C V' = phase_sum C V.
Proof.
  unfold phase_sum, phase_side. rewrite !P0', !P1' by reflexivity. ring.
Qed.

Lemma phase_v_mirror : phase_v C V' = phase_v C V.
Proof. unfold phase_v. rewrite phase_sum_mirror. reflexivity. Qed.

Lemma contempt_v_mirror : contempt_v C V' = contempt_v C V.
Proof. unfold contempt_v. rewrite phase_v_mirror. reflexivity. Qed.

Lemma draw_v_mirror : forall h, draw_v V' h = draw_v V h.
Proof.
  intros h. unfold draw_v. cbv zeta.
  rewrite occ', (popcount_flip _ occ_lt').
  rewrite own0', own1', (popcount_flip _ (own_lt' 0%N eq_refl)), (popcount_flip _ (own_lt' 1%N eq_refl)).
  rewrite !pop0', !pop1' by reflexivity.
  rewrite !bb0', !bb1', <- !flip_lor.
  rewrite popcount_flip by (repeat apply lor_lt; apply bb_lt'; reflexivity).
  rewrite (N.lor_comm (v_bb V 1 0)), (N.lor_comm (v_bb V 1 3)), (N.lor_comm (v_bb V 1 4)).
  destruct (100 <=? h)%N; [reflexivity|].
  destruct (popcount (v_occ V) =? 2)%N; [reflexivity|].
  match goal with |- context [(0 <? ?x)%N] => destruct (0 <? x)%N; [reflexivity|] end.
  generalize (popcount (v_own V 0)) (popcount (v_own V 1)) (popcount (v_bb V 0 2)) (popcount (v_bb V 1 2)).
  intros nw nb x y.
  rewrite (andb_comm (nb =? 2)%N), (andb_comm (2 <? nb)%N), (orb_comm (3 <? nb)%N).
  destruct ((nw =? 2)%N && (nb =? 2)%N); [reflexivity|].
  destruct ((2 <? nw)%N && (2 <? nb)%N); [reflexivity|].
  destruct ((3 <? nw)%N || (3 <? nb)%N); [reflexivity|].
  destruct (N.eqb_spec x 2) as [-> | Hx], (N.eqb_spec y 2) as [-> | Hy]; reflexivity.
Qed.

(* ---- piece-square tables ---- *)
Lemma pst_sum_mirror : forall tbl, tbl_symmetric tbl = true -> pst_sum V' tbl = - pst_sum V tbl.
Proof.
  intros tbl Htbl. unfold pst_sum. rewrite <- sumz_opp. apply sumz_ext_in. intros t Hin.
  pose proof (types6_lt t Hin) as Ht.
  rewrite bb0', bb1', !sumz_bits_flip by (apply bb_lt'; [reflexivity | exact Ht]).
  rewrite (sumz_ext_in (fun s => pstv tbl 0 t (flip_sq s)) (pstv tbl 1 t) (bits (v_bb V 1 t))).
  2:{ intros s Hs. assert (Hlt : (s < 64)%N) by (apply (bits_lt _ s (bb_lt' 1 t eq_refl Ht) Hs)).
      rewrite (tbl_symmetric_spec tbl t (flip_sq s) Htbl Ht (flip_sq_lt s Hlt)), flip_sq_invol. reflexivity. }
  rewrite (sumz_ext_in (fun s => pstv tbl 1 t (flip_sq s)) (pstv tbl 0 t) (bits (v_bb V 0 t))).
  2:{ intros s Hs. assert (Hlt : (s < 64)%N) by (apply (bits_lt _ s (bb_lt' 0 t eq_refl Ht) Hs)).
      symmetry. apply (tbl_symmetric_spec tbl t s Htbl Ht Hlt). }
  ring.
Qed.

(* ---- pawn structure ---- *)
Lemma iso_diff_mirror : iso_diff V' = - iso_diff V.
Proof.
  unfold iso_diff. rewrite bb0', bb1'.
  rewrite <- !flip_isolanis by (apply bb_lt'; reflexivity).
  rewrite !pc_flip by (unfold isolanis; cbv zeta; apply land_lt_l, land_lt_l, bb_lt'; reflexivity).
  ring.
Qed.

Lemma structure_sum_mirror : structure_sum C V' = - structure_sum C V.
Proof.
  unfold structure_sum. rewrite !bb0', !bb1'.
  pose proof (bb_lt' 0 0 eq_refl eq_refl) as Hw. pose proof (bb_lt' 1 0 eq_refl eq_refl) as Hb.
  rewrite <- (flip_supported_b _ Hb), <- flip_supported_w.
  rewrite <- (flip_passed_b _ _ Hw Hb), <- (flip_passed_w _ _ Hw Hb).
  rewrite !rank_sum_flip;
    try (unfold supported; apply land_lt_r; assumption);
    try (unfold passed; cbn [N.eqb WHITE BLACK]; cbv zeta; apply land_lt_l; assumption).
  ring.
Qed.

(* ---- pairs, material, pawn adjustment ---- *)
Lemma pairs_sum_mirror : pairs_sum C V' = - pairs_sum C V.
Proof. unfold pairs_sum. rewrite !pop0', !pop1' by reflexivity. ring. Qed.

Lemma material_sum_mirror : material_sum C V' = - material_sum C V.
Proof.
  unfold material_sum. rewrite <- sumz_opp. apply sumz_ext_in. intros t Hin.
  pose proof (types6_lt t Hin) as Ht. rewrite (P0' t Ht), (P1' t Ht). ring.
Qed.

Lemma padj_v_mirror : padj_v C V' = neg_res (padj_v C V).
Proof.
  unfold padj_v, adjz. rewrite !pop0', !pop1', !P0', !P1' by reflexivity.
  rewrite (andb_comm (popcount (v_bb V 1 0) <=? 8)%N).
  destruct ((popcount (v_bb V 0 0) <=? 8)%N && (popcount (v_bb V 1 0) <=? 8)%N); [|reflexivity].
  cbn [neg_res]. f_equal. ring.
Qed.

(* ---- mobility: the colours trade places ---- *)
Lemma ksq_of_bit : forall k, (k < 64)%N -> ksq_of (bit k) = k.
Proof. intros k Hk. unfold ksq_of. rewrite (lsb_bit k Hk). reflexivity. Qed.

Lemma king_zone_mirror : forall c, (c < 2)%N ->
  king_attacks (ksq_of (flip_bb (v_bb V c 5))) = flip_bb (king_attacks (ksq_of (v_bb V c 5))).
Proof.
  intros c Hc. destruct (proj2 (proj2 (proj2 Hwf)) c Hc) as [k [Hk Hbit]].
  rewrite Hbit, (flip_bit k Hk), (ksq_of_bit k Hk), (ksq_of_bit _ (flip_sq_lt k Hk)).
  symmetry. apply flip_king_attacks, Hk.
Qed.

Lemma mob_term_mirror_w : forall ks dest t s, (dest < two64)%N -> (s < 64)%N ->
  mob_term C V' 0 (flip_bb ks) (flip_bb dest) t (flip_sq s) = mob_term C V 1 ks dest t s.
Proof.
  intros ks dest t s Hd Hs. unfold mob_term. cbv zeta. rewrite occ'.
  rewrite <- (flip_mob_of_b (v_occ V) t s Hs), <- !flip_land.
  rewrite !pc_flip; [reflexivity | apply land_lt_l, land_lt_r, Hd | apply land_lt_r, Hd].
Qed.

Lemma mob_term_mirror_b : forall ks dest t s, (dest < two64)%N -> (s < 64)%N ->
  mob_term C V' 1 (flip_bb ks) (flip_bb dest) t (flip_sq s) = mob_term C V 0 ks dest t s.
Proof.
  intros ks dest t s Hd Hs. unfold mob_term. cbv zeta. rewrite occ'.
  rewrite <- (flip_mob_of_w (v_occ V) t s Hs), <- !flip_land.
  rewrite !pc_flip; [reflexivity | apply land_lt_l, land_lt_r, Hd | apply land_lt_r, Hd].
Qed.

Lemma mob_sum_mirror_w : mob_sum C V' 0 = mob_sum C V 1.
Proof.
  unfold mob_sum. cbv zeta.
  change (switch_color 0) with 1%N. change (switch_color 1) with 0%N.
  rewrite own0', !bb0', bb1', occ', <- flip_not64.
  rewrite (king_zone_mirror 0 eq_refl).
  rewrite <- (flip_pawn_pushes_b _ _ (bb_lt' 1 0 eq_refl eq_refl)), <- flip_land.
  rewrite pc_flip by apply land_lt_r, not64_lt.
  f_equal. apply sumz_ext_in. intros t Hin. pose proof (types6_lt t Hin) as Ht.
  rewrite bb0', sumz_bits_flip by (apply bb_lt'; [reflexivity | exact Ht]).
  apply sumz_ext_in. intros s Hs.
  apply mob_term_mirror_w; [apply not64_lt|]. apply (bits_lt _ s (bb_lt' 1 t eq_refl Ht) Hs).
Qed.

Lemma mob_sum_mirror_b : mob_sum C V' 1 = mob_sum C V 0.
Proof.
  unfold mob_sum. cbv zeta.
  change (switch_color 0) with 1%N. change (switch_color 1) with 0%N.
  rewrite own1', !bb1', bb0', occ', <- flip_not64.
  rewrite (king_zone_mirror 1 eq_refl).
  rewrite <- flip_pawn_pushes_w, <- flip_land.
  rewrite pc_flip by apply land_lt_r, not64_lt.
  f_equal. apply sumz_ext_in. intros t Hin. pose proof (types6_lt t Hin) as Ht.
  rewrite bb1', sumz_bits_flip by (apply bb_lt'; [reflexivity | exact Ht]).
  apply sumz_ext_in. intros s Hs.
  apply mob_term_mirror_b; [apply not64_lt|]. apply (bits_lt _ s (bb_lt' 0 t eq_refl Ht) Hs).
Qed.

(* ---- the three accumulators negate ---- *)
Lemma parts_z_mirror : parts_z C V' = neg3_res (parts_z C V).
Proof.
  unfold pst_symmetric in Hsym. apply andb_true_iff in Hsym. destruct Hsym as [Hmid Hend].
  unfold parts_z. rewrite padj_v_mirror. destruct (padj_v C V) as [a | |]; [|reflexivity|reflexivity].
  cbn [neg_res bind neg3_res].
  rewrite (pst_sum_mirror _ Hmid), (pst_sum_mirror _ Hend), iso_diff_mirror, structure_sum_mirror,
    pairs_sum_mirror, material_sum_mirror, mob_sum_mirror_w, mob_sum_mirror_b.
  f_equal. f_equal; [f_equal|]; ring.
Qed.

(* ---- the score ---- *)
Lemma taper_z_mirror : forall m e, taper_z C V' (- m) (- e) = - taper_z C V m e.
Proof. intros m e. unfold taper_z. rewrite phase_v_mirror. ring. Qed.

Lemma score_v_mirror : forall sd m e b,
  wrap16 (taper_z C V m e) <> -32768 ->
  score_v C V' (switch_color sd) (- m) (- e) (- b) = score_v C V sd m e b.
Proof.
  intros sd m e b Hmin. unfold score_v. cbv zeta. rewrite taper_z_mirror.
  rewrite (wrap16_opp _ Hmin).
  set (X := wrap16 (taper_z C V m e)).
  assert (Hq : Z.quot (- X) (ec_max_phase C) = - Z.quot X (ec_max_phase C)).
  { destruct (Z.eq_dec (ec_max_phase C) 0) as [H0 | H0].
    - rewrite H0. destruct X; reflexivity.
    - apply Z.quot_opp_l, H0. }
  rewrite Hq. set (Q := Z.quot X (ec_max_phase C)).
  unfold switch_color. destruct (sd =? BLACK)%N.
  - change (WHITE =? BLACK)%N with false. cbv iota.
    apply eq16_in16; [apply in16_wrap | apply in16_wrap|].
    rewrite !wrap16_eq16. unfold eq16. f_equal. ring.
  - change (BLACK =? BLACK)%N with true. cbv iota.
    apply eq16_in16; [apply in16_wrap | apply in16_wrap|].
    rewrite !wrap16_eq16. unfold eq16. f_equal. ring.
Qed.

(* the one value the side condition excludes is excluded on both sides or on neither *)
Lemma taper_min_mirror : forall m e,
  wrap16 (taper_z C V' (- m) (- e)) = -32768 <-> wrap16 (taper_z C V m e) = -32768.
Proof. intros m e. rewrite taper_z_mirror. symmetry. apply wrap16_opp_min. Qed.

Definition tapered_v (W : view) : res Z :=
  r <- parts_z C W ;; let '(m, e, _) := r in Ok (wrap16 (taper_z C W m e)).

Theorem eval_v_mirror : forall h sd,
  tapered_v V <> Ok (-32768) ->
  eval_v C V' h (switch_color sd) = eval_v C V h sd.
Proof.
  intros h sd Hmin. unfold eval_v. rewrite draw_v_mirror, contempt_v_mirror.
  destruct (draw_v V h); [reflexivity|].
  unfold tapered_v in Hmin. rewrite parts_z_mirror.
  destruct (parts_z C V) as [[[m e] b] | |]; [|reflexivity|reflexivity].
  cbn [neg3_res bind]. cbn [bind] in Hmin. f_equal. apply score_v_mirror.
  intros H. apply Hmin. rewrite H. reflexivity.
Qed.

Lemma tapered_v_mirror : tapered_v V' = Ok (-32768) <-> tapered_v V = Ok (-32768).
Proof.
  unfold tapered_v. rewrite parts_z_mirror.
  destruct (parts_z C V) as [[[m e] b] | |]; cbn [neg3_res bind]; [|tauto|tauto].
  pose proof (taper_min_mirror m e) as H. split; intros H1; injection H1 as H2; f_equal; apply H; exact H2.
Qed.

End Mirror.
