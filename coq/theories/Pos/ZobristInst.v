(* C09 instantiated with the key table of the current Go build (coq/gen/GoConsts.v):
   the table is well formed and its keys are distinct in the sense of [keys_distinct];
   concrete witnesses that the side conditions of the general lemmas are real. *)
From Coq Require Import NArith List Bool String Ascii.
From Clemens Require Import Base.Res Base.Word Base.Bytes Pos.Types Att.Attacks Pos.Position Pos.Fen Pos.Inv
  Pos.ZobristProofs.
From ClemensGen Require Import GoConsts.
Import ListNotations.
Open Scope N_scope.

(* the same record as [go_keys] in coq/extract/Extract.v (not imported: that file runs the extraction) *)
Definition go_keys : zkeys :=
  {| zk_piece := zk_piece_tbl; zk_side := zk_side_key; zk_castling := zk_castling_tbl; zk_ep := zk_ep_tbl |}.

Definition bytes_of_string (s : string) : bytes := map N_of_ascii (list_ascii_of_string s).
Definition go_fen (s : string) : res position := new_from_fen go_keys unicode_digit_tbl (bytes_of_string s).

Lemma go_keys_wf : keys_wf go_keys = true.
Proof. vm_compute. reflexivity. Qed.

(* 64 x (12 + 66) + 1 + 15 + (8 + 28) comparisons *)
Lemma go_keys_distinct : keys_distinct go_keys = true.
Proof. vm_compute. reflexivity. Qed.

(* Positions that differ in exactly one component - one square's content, or the side to move, or the
   set of castling rights, or the en-passant file (none vs some included) - hash differently.
   General pairwise distinctness is NOT claimed (impossible for a 64-bit hash). *)
Theorem one_component_differs_go p1 p2 :
  pos_wf p1 -> pos_wf p2 -> differ_in_one_component p1 p2 ->
  scratch_hash go_keys p1 <> scratch_hash go_keys p2.
Proof. exact (one_component_differs go_keys go_keys_wf go_keys_distinct p1 p2). Qed.

(* in particular: only a castling right *)
Corollary castling_right_differs_go p1 p2 :
  pos_wf p1 -> pos_wf p2 ->
  board p1 = board p2 -> side p1 = side p2 -> ep p1 = ep p2 -> castling p1 <> castling p2 ->
  scratch_hash go_keys p1 <> scratch_hash go_keys p2.
Proof.
  intros W1 W2 Hb Hs He Hc. apply one_component_differs_go; auto.
  right. right. left. repeat split; auto. now rewrite He.
Qed.

(* ---- the side conditions are real ---- *)

Definition hash_consistent (r : res position) : bool :=
  match r with
  | Ok q => match scratch_hash go_keys q with Ok h => h =? hash q | _ => false end
  | _ => false
  end.

(* SetPiece onto an occupied square: white queen dropped onto e1 of the start position *)
Example set_piece_occupied_breaks_go :
  hash_consistent (new_position go_keys) = true /\
  hash_consistent (p <- new_position go_keys ;; set_piece go_keys p 5 E1) = false.
Proof. vm_compute. split; reflexivity. Qed.

(* general MakeMove lemma, condition (a): a castling-kind move whose rook destination is occupied
   (never generated: CanCastleNow walks over d1) *)
Example make_move_needs_castle_dest :
  let m := mv_set_dst (mv_set_src (mv_set_kind 0 CASTLING) E1) C1 in
  hash_consistent (go_fen "4k3/8/8/8/8/8/8/R2QK3 w Q - 0 1") = true /\
  hash_consistent (p <- go_fen "4k3/8/8/8/8/8/8/R2QK3 w Q - 0 1" ;; make_move go_keys p m) = false.
Proof. vm_compute. split; reflexivity. Qed.

(* general MakeMove lemma, condition (b): a "black" pawn stepping a6 -> a8 would put the en-passant
   square on a8 + 8 = 64 = SQ_NONE (never generated) *)
Example make_move_needs_double_step :
  let m := mk_move 40 56 in
  hash_consistent (go_fen "4k3/8/p7/8/8/8/8/4K3 b - - 0 1") = true /\
  hash_consistent (p <- go_fen "4k3/8/p7/8/8/8/8/4K3 b - - 0 1" ;; make_move go_keys p m) = false.
Proof. vm_compute. split; reflexivity. Qed.

(* ---- non-vacuity data: the start position and 1. e4 e5 2. Ke2 ---- *)
Definition get_pos (r : res position) : position := match r with Ok p => p | _ => empty_position end.
Definition get_list (r : res (list N)) : list N := match r with Ok l => l | _ => [] end.
Definition e2e4 : N := mk_move 12 28.
Definition e7e5 : N := mk_move 52 36.
Definition e1e2 : N := mk_move E1 12.
Definition hm_p0 : position := Eval vm_compute in get_pos (new_position go_keys).
Definition hm_p1 : position := Eval vm_compute in get_pos (make_move go_keys hm_p0 e2e4).
Definition hm_p2 : position := Eval vm_compute in get_pos (make_move go_keys hm_p1 e7e5).
Definition hm_p3 : position := Eval vm_compute in get_pos (make_move go_keys hm_p2 e1e2).
Definition hm_l0 : list N := Eval vm_compute in get_list (legal_moves go_keys hm_p0).
Definition hm_l1 : list N := Eval vm_compute in get_list (legal_moves go_keys hm_p1).
Definition hm_l2 : list N := Eval vm_compute in get_list (legal_moves go_keys hm_p2).

Example hyps_met :
  new_position go_keys = Ok hm_p0 /\ Inv hm_p0 /\ hash_ok go_keys hm_p0 /\
  legal_moves go_keys hm_p0 = Ok hm_l0 /\ In e2e4 hm_l0 /\ make_move go_keys hm_p0 e2e4 = Ok hm_p1 /\
  legal_moves go_keys hm_p1 = Ok hm_l1 /\ In e7e5 hm_l1 /\ make_move go_keys hm_p1 e7e5 = Ok hm_p2 /\
  legal_moves go_keys hm_p2 = Ok hm_l2 /\ In e1e2 hm_l2 /\ make_move go_keys hm_p2 e1e2 = Ok hm_p3 /\
  reachable go_keys hm_p3 /\ Inv hm_p3 /\ hash_ok go_keys hm_p3 /\ castling hm_p0 = 15 /\ castling hm_p3 = 12.
Proof.
  assert (N0 : new_position go_keys = Ok hm_p0) by (vm_compute; reflexivity).
  assert (L0 : legal_moves go_keys hm_p0 = Ok hm_l0) by (vm_compute; reflexivity).
  assert (L1 : legal_moves go_keys hm_p1 = Ok hm_l1) by (vm_compute; reflexivity).
  assert (L2 : legal_moves go_keys hm_p2 = Ok hm_l2) by (vm_compute; reflexivity).
  assert (I0 : In e2e4 hm_l0) by (vm_compute; tauto).
  assert (I1 : In e7e5 hm_l1) by (vm_compute; tauto).
  assert (I2 : In e1e2 hm_l2) by (vm_compute; tauto).
  assert (M0 : make_move go_keys hm_p0 e2e4 = Ok hm_p1) by (vm_compute; reflexivity).
  assert (M1 : make_move go_keys hm_p1 e7e5 = Ok hm_p2) by (vm_compute; reflexivity).
  assert (M2 : make_move go_keys hm_p2 e1e2 = Ok hm_p3) by (vm_compute; reflexivity).
  repeat split; auto; try (vm_compute; reflexivity).
  exact (reach_move _ _ _ _ _ (reach_move _ _ _ _ _ (reach_move _ _ _ _ _ (reach_new _ _ N0) L0 I0 M0) L1 I1 M1) L2 I2 M2).
Qed.
