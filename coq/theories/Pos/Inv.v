(* The C10 invariant as an executable predicate on the engine's position value.
   [inv_b p = true] says: the square array, the twelve bitboards and the occupancy sets describe the
   same placement; each side has exactly one king; no pawn on a back rank; castling rights imply king
   and rook on their home squares; an en-passant target lies behind a pawn that just advanced two
   squares; the side that just moved is not in check; counters are bytes.
   (Hash consistency is stated separately, in Pos/ZobristProofs.v: [hash_ok].) *)
From Coq Require Import NArith ZArith List Bool.
From Clemens Require Import Base.Res Base.Word Pos.Types Att.Attacks Pos.Position.
Import ListNotations.
Open Scope N_scope.

Definition valid_piece (pc : N) : bool := ((1 <=? pc) && (pc <=? 6)) || ((9 <=? pc) && (pc <=? 14)).

Definition squares64 : list N := map N.of_nat (seq 0 64).
Definition ct_pairs : list (N * N) :=
  flat_map (fun c => map (fun t => (c, t)) [0; 1; 2; 3; 4; 5]) [0; 1].

Definition piece_at (p : position) (sq : N) : N := nth (N.to_nat sq) (board p) 0.
Definition bb_at (p : position) (c t : N) : N := nth (N.to_nat (c * 6 + t)) (bbs p) 0.

(* square array well formed *)
Definition board_wf (p : position) : bool :=
  (length (board p) =? 64)%nat && forallb (fun pc => (pc =? 0) || valid_piece pc) (board p).

(* every bitboard holds exactly the squares whose array entry is that piece *)
Definition bbs_agree (p : position) : bool :=
  (length (bbs p) =? 12)%nat &&
  forallb (fun ct => let '(c, t) := ct in
    (bb_at p c t <? two64) &&
    forallb (fun sq => Bool.eqb (N.testbit (bb_at p c t) sq) (piece_at p sq =? new_piece c t)) squares64)
    ct_pairs.

Definition union6 (p : position) (c : N) : N :=
  fold_left N.lor (map (fun t => bb_at p c t) [0; 1; 2; 3; 4; 5]) 0.
Definition helpers_agree (p : position) : bool :=
  match by_color p with
  | [w; b] => (w =? union6 p 0) && (b =? union6 p 1) && (all_pieces p =? N.lor w b)
  | _ => false
  end.

Definition one_king_each (p : position) : bool :=
  (popcount (bb_at p 0 5) =? 1) && (popcount (bb_at p 1 5) =? 1).

Definition no_back_rank_pawns (p : position) : bool :=
  (N.land (N.lor (bb_at p 0 0) (bb_at p 1 0)) (N.lor RankMask1 RankMask8) =? 0).

Definition castling_consistent (p : position) : bool :=
  (castling p <? 16) &&
  (negb (N.testbit (castling p) 0) || ((piece_at p E1 =? 6) && (piece_at p H1 =? 4))) &&
  (negb (N.testbit (castling p) 1) || ((piece_at p E1 =? 6) && (piece_at p A1 =? 4))) &&
  (negb (N.testbit (castling p) 2) || ((piece_at p E8 =? 14) && (piece_at p H8 =? 12))) &&
  (negb (N.testbit (castling p) 3) || ((piece_at p E8 =? 14) && (piece_at p A8 =? 12))).

Definition ep_consistent (p : position) : bool :=
  let e := ep p in
  (e =? SQ_NONE) ||
  (if side p =? WHITE then
     (* black just advanced two squares *)
     (rank_of e =? 5) && (e <? 64) && (piece_at p e =? 0) && (piece_at p (e - 8) =? 9) && (piece_at p (e + 8) =? 0)
   else
     (rank_of e =? 2) && (piece_at p e =? 0) && (piece_at p (e + 8) =? 1) && (piece_at p (e - 8) =? 0)).

Definition scalars_ok (p : position) : bool :=
  ((side p =? WHITE) || (side p =? BLACK)) && (hmc p <? 256) && (ply p <? 256) && (ep p <=? 64).

Definition mover_not_in_check (p : position) : bool :=
  match is_in_check p (switch_color (side p)) with
  | Ok false => true
  | _ => false
  end.

Definition inv_b (p : position) : bool :=
  board_wf p && bbs_agree p && helpers_agree p && one_king_each p && no_back_rank_pawns p
  && castling_consistent p && ep_consistent p && scalars_ok p && mover_not_in_check p.

Definition Inv (p : position) : Prop := inv_b p = true.

(* the same without the check clause: what a null move preserves (after a null move the side
   "that just moved" made no move, so its king may stand attacked only if it was in check before,
   which the search excludes) *)
Definition inv_nocheck_b (p : position) : bool :=
  board_wf p && bbs_agree p && helpers_agree p && one_king_each p && no_back_rank_pawns p
  && castling_consistent p && ep_consistent p && scalars_ok p.
