(* C11: the FEN theorems instantiated with the constants of the current Go build (Zobrist keys
   and unicode.Nd range table from ClemensGen.GoConsts), the refutation of totality for the
   UNREPAIRED parser (defect D2), and the non-vacuity computations. *)
From Coq Require Import NArith ZArith List Bool Lia.
From Clemens Require Import Base.Res Base.Word Base.Bytes Pos.Types Att.Attacks Pos.Position Pos.Fen Pos.Inv.
From Clemens Require Import Pos.FenTotal Pos.FenRoundtrip Pos.FenCanonical.
From ClemensGen Require Import GoConsts.
Import ListNotations.
Open Scope N_scope.

(* the same record as [go_keys] in coq/extract/Extract.v (that file only adds the extraction
   command; it is not imported from theories/) *)
Definition fen_go_keys : zkeys :=
  {| zk_piece := zk_piece_tbl; zk_side := zk_side_key; zk_castling := zk_castling_tbl; zk_ep := zk_ep_tbl |}.

Lemma fen_go_keys_wf : fen_keys_wf fen_go_keys = true.
Proof. vm_compute. reflexivity. Qed.

Theorem fen_total_go : forall s : bytes, new_from_fen fen_go_keys unicode_digit_tbl s <> Panic.
Proof. exact (fen_total fen_go_keys fen_go_keys_wf unicode_digit_tbl). Qed.

(* "rnbqkbnrr/pppppppp/8/8/8/8/PPPPPPPP/RNBQKBNR w KQkq - 0 1": nine pieces on the eighth rank *)
Definition d2_witness : bytes :=
  [114;110;98;113;107;98;110;114;114;47; 112;112;112;112;112;112;112;112;47; 56;47;56;47;56;47;56;47;
   80;80;80;80;80;80;80;80;47; 82;78;66;81;75;66;78;82; 32;119;32;75;81;107;113;32;45;32;48;32;49].

Lemma fen_unrepaired_panics :
  exists s, new_from_fen_unrepaired fen_go_keys unicode_digit_tbl s = Panic.
Proof. exists d2_witness. vm_compute. reflexivity. Qed.

(* the same string is an error, not a panic, for the repaired parser *)
Lemma fen_repaired_d2_err : new_from_fen fen_go_keys unicode_digit_tbl d2_witness = Err.
Proof. vm_compute. reflexivity. Qed.

(* ---------------------------------------------------------------------------------------- *)
(* non-vacuity: positions the model parses satisfy the hypotheses of the round-trip theorem    *)
Definition fen_hyps_b (K : zkeys) (tbl : list (N * N * N)) (s : bytes) : bool :=
  match new_from_fen K tbl s with
  | Ok p => inv_b p && hash_scratch_ok_b K p && ply_parity_b p
  | _ => false
  end.

Lemma fen_hyps_b_spec K tbl s :
  fen_hyps_b K tbl s = true ->
  exists p, new_from_fen K tbl s = Ok p /\ Inv p /\ hash_scratch_ok K p /\ ply_parity p.
Proof.
  unfold fen_hyps_b. destruct (new_from_fen K tbl s) as [p| |]; try discriminate.
  intros H. apply andb_prop in H as [H H3]. apply andb_prop in H as [H1 H2].
  exists p. split; [reflexivity|]. split; [exact H1|]. split.
  - unfold hash_scratch_ok. unfold hash_scratch_ok_b in H2.
    destruct (scratch_hash K p) as [h| |]; try discriminate. apply N.eqb_eq in H2. congruence.
  - unfold ply_parity. apply N.eqb_eq. exact H3.
Qed.

(* "rnbqkbnr/pppppppp/8/8/8/8/PPPPPPPP/RNBQKBNR w KQkq - 0 1" *)
Definition fen_start : bytes :=
  [114;110;98;113;107;98;110;114;47;112;112;112;112;112;112;112;112;47;56;47;56;47;56;47;56;47;
   80;80;80;80;80;80;80;80;47;82;78;66;81;75;66;78;82;32;119;32;75;81;107;113;32;45;32;48;32;49].
(* "r3k2r/p1ppqpb1/bn2pnp1/3PN3/1p2P3/2N2Q1p/PPPBBPPP/R3K2R w KQkq - 0 1" *)
Definition fen_kiwipete : bytes :=
  [114;51;107;50;114;47;112;49;112;112;113;112;98;49;47;98;110;50;112;110;112;49;47;51;80;78;51;47;
   49;112;50;80;51;47;50;78;50;81;49;112;47;80;80;80;66;66;80;80;80;47;82;51;75;50;82;
   32;119;32;75;81;107;113;32;45;32;48;32;49].

Lemma fen_hyps_start : fen_hyps_b fen_go_keys unicode_digit_tbl fen_start = true.
Proof. vm_compute. reflexivity. Qed.
Lemma fen_hyps_kiwipete : fen_hyps_b fen_go_keys unicode_digit_tbl fen_kiwipete = true.
Proof. vm_compute. reflexivity. Qed.

(* and the model does print these two texts back (a computation, independent of the theorem) *)
Lemma fen_start_prints_back :
  match new_from_fen fen_go_keys unicode_digit_tbl fen_start with
  | Ok p => to_fen p = Ok fen_start | _ => False end.
Proof. vm_compute. reflexivity. Qed.
Lemma fen_kiwipete_prints_back :
  match new_from_fen fen_go_keys unicode_digit_tbl fen_kiwipete with
  | Ok p => to_fen p = Ok fen_kiwipete | _ => False end.
Proof. vm_compute. reflexivity. Qed.

Lemma fen_hyps_met :
  (exists p, new_from_fen fen_go_keys unicode_digit_tbl fen_start = Ok p /\
             Inv p /\ hash_scratch_ok fen_go_keys p /\ ply_parity p) /\
  (exists p, new_from_fen fen_go_keys unicode_digit_tbl fen_kiwipete = Ok p /\
             Inv p /\ hash_scratch_ok fen_go_keys p /\ ply_parity p).
Proof. split; apply fen_hyps_b_spec; [exact fen_hyps_start | exact fen_hyps_kiwipete]. Qed.

(* ---------------------------------------------------------------------------------------- *)
(* canonical form, instantiated; Kiwipete is a canonical text                               *)
Definition kiwipete_syntax : fen_syntax :=
  {| fs_rows :=
       [ [Pc 12; Gap 3; Pc 14; Gap 2; Pc 12];                          (* r3k2r    *)
         [Pc 9; Gap 1; Pc 9; Pc 9; Pc 13; Pc 9; Pc 11; Gap 1];         (* p1ppqpb1 *)
         [Pc 11; Pc 10; Gap 2; Pc 9; Pc 10; Pc 9; Gap 1];              (* bn2pnp1  *)
         [Gap 3; Pc 1; Pc 2; Gap 3];                                   (* 3PN3     *)
         [Gap 1; Pc 9; Gap 2; Pc 1; Gap 3];                            (* 1p2P3    *)
         [Gap 2; Pc 2; Gap 2; Pc 5; Gap 1; Pc 9];                      (* 2N2Q1p   *)
         [Pc 1; Pc 1; Pc 1; Pc 3; Pc 3; Pc 1; Pc 1; Pc 1];             (* PPPBBPPP *)
         [Pc 4; Gap 3; Pc 6; Gap 2; Pc 4] ];                           (* R3K2R    *)
     fs_side := 0; fs_castling := 15; fs_ep := 64; fs_hmc := 0; fs_full := 1 |}.

Lemma kiwipete_canonical : canonical_fen fen_kiwipete.
Proof.
  exists kiwipete_syntax. split; [|vm_compute; reflexivity].
  unfold fen_syntax_ok, kiwipete_syntax. cbn [fs_rows fs_side fs_castling fs_ep fs_hmc fs_full].
  split; [reflexivity|]. split.
  { repeat (constructor;
      [ split; [ repeat (constructor; [cbn; first [reflexivity | lia]|]); constructor
               | split; [cbn; intuition (try discriminate; try reflexivity) | reflexivity] ] |]).
    constructor. }
  repeat split; try lia; try (left; reflexivity).
Qed.

Lemma fen_canonical_go (s : bytes) :
  canonical_fen s -> exists p, new_from_fen fen_go_keys unicode_digit_tbl s = Ok p /\ to_fen p = Ok s.
Proof. exact (canonical_parse_print fen_go_keys fen_go_keys_wf unicode_digit_tbl s). Qed.
