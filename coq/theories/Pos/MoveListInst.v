(* pkg/move/movelist.go: MoveList is a fixed array of [ml_moveListSize] moves with a uint8 size; Append on a full list is a
   Go index panic.  The model's generators (Pos/Position.v: gen_moves, gen_captures) return unbounded lists, so this panic is
   NOT represented: every theorem about generated moves is about positions whose move lists fit.  What is decided here, by the
   kernel, whenever the constant changes:
   - the capacity covers 218, the largest number of moves a legal chess position can have (known result; not proved here:
     C13Bridge/Few.v shows that the C10 invariant alone does not imply a bound - 271 moves with illegal material);
   - the capacity fits the uint8 size counter;
   - the two known 218-move positions are [legal_pos], have exactly 218 generated (and legal) moves, and fit. *)
From Coq Require Import NArith List Bool Lia.
From Clemens Require Import Base.Res Pos.Types Pos.Position Pos.Inv.
From Clemens.C13Mate Require Import MateDefs MateExamples.
From Clemens.C13Bridge Require Import Bridge Few.
From ClemensGen Require Import GoConsts.
Import ListNotations.

(* both generators of [p] stay within the capacity of the Go move list *)
Definition fits_movelist (p : position) : Prop :=
  forall g, gen_moves p = Ok g \/ gen_captures p = Ok g -> (List.length g <= N.to_nat ml_moveListSize)%nat.

Lemma movelist_capacity_ok : (218 <= ml_moveListSize)%N /\ (ml_moveListSize < 256)%N.
Proof. split; [apply N.leb_le|apply N.ltb_lt]; vm_compute; reflexivity. Qed.

Definition fits_b (p : position) : bool :=
  match gen_moves p, gen_captures p with
  | Ok g, Ok c => (N.of_nat (List.length g) <=? ml_moveListSize)%N && (N.of_nat (List.length c) <=? ml_moveListSize)%N
  | _, _ => false
  end.

Lemma fits_b_sound : forall p, fits_b p = true -> fits_movelist p.
Proof.
  intros p H g [E|E]; unfold fits_b in H; destruct (gen_moves p) as [g1| |]; try discriminate;
    destruct (gen_captures p) as [c1| |]; try discriminate;
    apply andb_true_iff in H; destruct H as [H1 H2]; apply N.leb_le in H1, H2; inversion E; subst; lia.
Qed.

Theorem record_positions_fit :
  (legal_pos (root_of fen218a) /\ gen_count (root_of fen218a) = Some 218%nat /\ fits_movelist (root_of fen218a)) /\
  (legal_pos (root_of fen218b) /\ gen_count (root_of fen218b) = Some 218%nat /\ fits_movelist (root_of fen218b)).
Proof.
  split.
  - destruct max218_a as (L & G & _). split; [exact L|]. split; [exact G|]. apply fits_b_sound. vm_compute. reflexivity.
  - destruct max218_b as (L & G & _). split; [exact L|]. split; [exact G|]. apply fits_b_sound. vm_compute. reflexivity.
Qed.

(* a position whose generated moves fit is in particular below the uint8 legal-move counter's range (C13's few_gen) *)
Lemma fits_few_gen : forall p g, gen_moves p = Ok g -> fits_movelist p -> (List.length g < 256)%nat.
Proof.
  intros p g E F. specialize (F g (or_introl E)). destruct movelist_capacity_ok as [_ H]. lia.
Qed.
