(* pkg/position/fen.go and the string functions of pkg/types and pkg/move. Model file.
   Byte-level: a FEN is a list of bytes; ReadRune / range-over-string decode UTF-8 as Go does. *)
From Coq Require Import NArith ZArith List Bool.
From Clemens Require Import Base.Res Base.Word Base.Bytes Pos.Types Att.Attacks Pos.Position.
Import ListNotations.
Open Scope N_scope.

Definition piece_chars : bytes := [32; 80; 78; 66; 82; 81; 75; 32; 32; 112; 110; 98; 114; 113; 107]. (* " PNBRQK  pnbrqk" *)
Definition file_chars : bytes := [97; 98; 99; 100; 101; 102; 103; 104].                              (* "abcdefgh" *)

(* types.SquareToString *)
Definition square_to_string (sq : N) : res bytes :=
  c <- nth_res file_chars (N.to_nat (file_of sq)) ;;
  Ok (c :: itoa (rank_of sq + 1)).

(* Piece.ToChar: panics when the piece code is not an index of the table *)
Definition piece_to_char (pc : N) : res N := nth_res piece_chars (N.to_nat pc).

Section Fen.
Variable K : zkeys.
Variable digit_tbl : list (N * N * N).

(* types.SquareFromString: `for i, r := range s` with i the byte offset *)
Definition square_from_string (s : bytes) : res N :=
  r <- fold_left (fun acc ir =>
         fr <- acc ;;
         let '(file, rank) := fr in
         let '(i, r) := ir in
         if i =? 0 then
           match index_rune_ascii file_chars r with
           | Some f => Ok (Z.of_N f, rank)
           | None => Err
           end
         else if i =? 1 then
           if is_digit digit_tbl r then Ok (file, (Z.of_N r - 48 - 1)%Z) else Err
         else Err)
       (runes s) (Ok (0%Z, 0%Z)) ;;
  let '(file, rank) := r in
  Ok (sq_of (z_to_u8 rank) (z_to_u8 file)).

(* fenSetPieces, with the D2 repair (a piece beyond h8 is an error, not an index panic) *)
Definition fen_set_pieces (repaired : bool) (p : position) (tok : bytes) : res position :=
  r <- fold_left (fun acc ir =>
         ps <- acc ;;
         let '(p, sq) := ps in
         let r := snd ir in
         if is_digit digit_tbl r then Ok (p, w8 (sq + w8 (r + 256 - 48)))
         else if r =? 47 then Ok (p, sub8 sq 16)
         else
           match index_rune_ascii piece_chars r with
           | None => Err
           | Some pc =>
             if repaired && negb (sq <? 64) then Err else
             q <- set_piece K p pc sq ;;
             Ok (q, add8 sq 1)
           end)
       (runes tok) (Ok (p, A8)) ;;
  Ok (fst r).

Definition fen_set_side (p : position) (tok : bytes) : res position :=
  match tok with
  | [119] => Ok (set_side p WHITE)
  | [98] => Ok (set_side p BLACK)
  | _ => Err
  end.

Definition fen_set_castling (p : position) (tok : bytes) : res position :=
  let p := set_castling p 0 in
  if bytes_eqb tok [45] then Ok p else
  fold_left (fun acc ir =>
    q <- acc ;;
    let r := snd ir in
    if r =? 75 then Ok (set_castling q (N.lor (castling q) WK))
    else if r =? 81 then Ok (set_castling q (N.lor (castling q) WQ))
    else if r =? 107 then Ok (set_castling q (N.lor (castling q) BK))
    else if r =? 113 then Ok (set_castling q (N.lor (castling q) BQ))
    else Err) (runes tok) (Ok p).

Definition fen_set_ep (p : position) (tok : bytes) : res position :=
  let p := set_ep p SQ_NONE in
  if bytes_eqb tok [45] then Ok p else
  sq <- square_from_string tok ;;
  Ok (set_ep p sq).

Definition new_from_fen_gen (repaired : bool) (fen : bytes) : res position :=
  match split_on 32 fen with
  | [t0; t1; t2; t3; t4; t5] =>
    p <- fen_set_pieces repaired (empty_position) t0 ;;
    p <- fen_set_side p t1 ;;
    p <- fen_set_castling p t2 ;;
    p <- fen_set_ep p t3 ;;
    match atoi t4 with
    | None => Err
    | Some h =>
      match atoi t5 with
      | None => Err
      | Some fm =>
        let pl := z_to_u8 (2 * fm - 1) in
        let pl := if side p =? WHITE then sub8 pl 1 else pl in
        p <- init_hash K (set_counters p (z_to_u8 h) pl) ;;
        Ok (gen_helpers p)
      end
    end
  | _ => Err
  end.
Definition new_from_fen := new_from_fen_gen true.
Definition new_from_fen_unrepaired := new_from_fen_gen false.

(* ToFen *)
Fixpoint fen_rank (p : position) (rank : N) (files : list N) (empty : N) : res bytes :=
  match files with
  | [] => Ok (if empty =? 0 then [] else itoa empty)
  | f :: fs =>
    pc <- get_piece p (sq_of rank f) ;;
    if pc =? NO_PIECE then fen_rank p rank fs (empty + 1)
    else
      c <- piece_to_char pc ;;
      rest <- fen_rank p rank fs 0 ;;
      Ok ((if empty =? 0 then [] else itoa empty) ++ c :: rest)
  end.

Definition to_fen (p : position) : res bytes :=
  placement <- fold_left (fun acc rank =>
                 s <- acc ;;
                 r <- fen_rank p rank [0; 1; 2; 3; 4; 5; 6; 7] 0 ;;
                 Ok (s ++ r ++ (if 0 <? rank then [47] else [])))
               [7; 6; 5; 4; 3; 2; 1; 0] (Ok []) ;;
  let stm := if side p =? WHITE then [32; 119; 32] else [32; 98; 32] in
  let cas := if negb (can_castle p 15) then [45] else
               (if can_castle p WK then [75] else []) ++ (if can_castle p WQ then [81] else []) ++
               (if can_castle p BK then [107] else []) ++ (if can_castle p BQ then [113] else []) in
  eps <- (if ep p =? SQ_NONE then Ok [45] else square_to_string (ep p)) ;;
  Ok (placement ++ stm ++ cas ++ [32] ++ eps ++ [32] ++ itoa (hmc p) ++ [32] ++ itoa (w8 (ply p / 2 + 1))).

(* Move.String *)
Definition promo_char (pt : N) : bytes :=
  if pt =? KNIGHT then [110] else if pt =? BISHOP then [98] else if pt =? ROOK then [114]
  else if pt =? QUEEN then [113] else [].
Definition move_to_string (m : N) : res bytes :=
  a <- square_to_string (mv_src m) ;;
  b <- square_to_string (mv_dst m) ;;
  Ok (a ++ b ++ (if mv_kind m =? PROMOTION then promo_char (mv_promo m) else [])).

(* types.PieceTypeFromString on a one-byte string *)
Definition piece_type_from_char (c : N) : res N :=
  if c =? 112 then Ok PAWN else if c =? 110 then Ok KNIGHT else if c =? 98 then Ok BISHOP
  else if c =? 114 then Ok ROOK else if c =? 113 then Ok QUEEN else Err.

(* Position.MakeMoveFromString *)
Definition move_from_string (p : position) (s : bytes) : res N :=
  if (N.of_nat (length s) <? 4) then Err else
  src <- square_from_string (firstn 2 s) ;;
  dst <- square_from_string (firstn 2 (skipn 2 s)) ;;
  let m := mv_set_dst (mv_set_src 0 src) dst in
  pc <- get_piece p src ;;
  let pt := piece_type pc in
  if (pt =? KING) && (abs_diff src dst =? 2) then Ok (mv_set_kind m CASTLING)
  else if pt =? PAWN then
    dpc <- (if negb (file_of src =? file_of dst) then get_piece p dst else Ok 1) ;;
    if negb (file_of src =? file_of dst) && (dpc =? NO_PIECE) then Ok (mv_set_kind m EN_PASSANT)
    else if N.of_nat (length s) =? 5 then
      match nth_error s 4 with
      | Some c => pt <- piece_type_from_char c ;; Ok (mv_set_promo (mv_set_kind m PROMOTION) pt)
      | None => Panic
      end
    else Ok m
  else Ok m.
Definition make_move_from_string (p : position) (s : bytes) : res position :=
  m <- move_from_string p s ;; make_move K p m.

End Fen.
