(* C11, round-trip clause: parsing the FEN text the engine prints for a position that satisfies the
   C10 invariant gives back that position, field by field.  Proofs only. *)
From Coq Require Import NArith ZArith List Bool Lia ZifyBool ZifyN ZifyNat.
From Clemens Require Import Base.Res Base.Word Base.Bytes Pos.Types Att.Attacks Pos.Position Pos.Fen Pos.Inv.
From Clemens Require Import Pos.FenTotal.
Import ListNotations.
Open Scope N_scope.
Ltac Zify.zify_post_hook ::= Z.to_euclidean_division_equations.

(* The two hypotheses that are not part of [inv_b]. *)
(* ply even iff white to move: holds after New(), after NewFromFen, and is preserved by MakeMove and
   by null moves (both add one to ply and flip the side). *)
Definition ply_parity (p : position) : Prop := ply p mod 2 = side p.
Definition ply_parity_b (p : position) : bool := ply p mod 2 =? side p.
(* the stored hash is the from-scratch hash (C09's [hash_ok]) *)
Definition hash_scratch_ok (K : zkeys) (p : position) : Prop := scratch_hash K p = Ok (hash p).
Definition hash_scratch_ok_b (K : zkeys) (p : position) : bool :=
  match scratch_hash K p with Ok h => h =? hash p | _ => false end.

(* ---------------------------------------------------------------------------------------- *)
(* generic list / res facts                                                                 *)

Lemma fold_left_map {A B C} (f : A -> C -> A) (g : B -> C) (l : list B) (a : A) :
  fold_left (fun acc x => f acc (g x)) l a = fold_left f (map g l) a.
Proof. revert a; induction l; intros; cbn; auto. Qed.

Lemma fold_bind_ok {A B} (g : B -> A -> res A) (l : list B) (r : res A) (out : A) :
  fold_left (fun acc x => bind acc (g x)) l r = Ok out -> exists a, r = Ok a.
Proof.
  revert r; induction l as [|x l IH]; intros r H; cbn [fold_left] in H; [eauto|].
  apply IH in H as [a Ha]. destruct r; try discriminate. eauto.
Qed.

Lemma nth_res_nth {A} (l : list A) (i : nat) (d : A) :
  (i < length l)%nat -> nth_res l i = Ok (nth i l d).
Proof.
  intros H. unfold nth_res. destruct (nth_error l i) eqn:E.
  - erewrite nth_error_nth; eauto.
  - apply nth_error_None in E. lia.
Qed.

Lemma nth_upd {A} (l : list A) (i n : nat) (v d : A) :
  (i < length l)%nat -> nth n (upd l i v) d = if (n =? i)%nat then v else nth n l d.
Proof.
  revert i n. induction l as [|a l IH]; intros i n Hi; cbn in Hi; [lia|].
  destruct i as [|i]; destruct n as [|n]; cbn; auto.
  apply IH. lia.
Qed.

Lemma nth_upd_ge {A} (l : list A) (i n : nat) (v d : A) :
  (length l <= i)%nat -> upd l i v = l.
Proof.
  revert i. induction l as [|a l IH]; intros i Hi; cbn in *; auto.
  destruct i; [lia|]. f_equal. apply IH. lia.
Qed.

(* ---------------------------------------------------------------------------------------- *)
(* bytes: ASCII strings, Split, Itoa/Atoi                                                   *)

Definition okc (c : N) : Prop := c < 128 /\ c <> 32.

Lemma okc_no32 (s : bytes) : Forall okc s -> ~ In 32 s.
Proof. intros H Hin. rewrite Forall_forall in H. apply H in Hin. destruct Hin. congruence. Qed.

Lemma runes_from_ascii (s : bytes) : forall fuel off,
  Forall (fun c => c < 128) s -> (length s <= fuel)%nat -> map snd (runes_from fuel off s) = s.
Proof.
  induction s as [|c r IH]; intros fuel off Hs Hf.
  - destruct fuel; reflexivity.
  - destruct fuel as [|f]; [cbn in Hf; lia|]. inversion Hs; subst.
    cbn [runes_from decode_rune]. replace (c <? 128) with true by lia.
    cbn [map snd skipn]. f_equal. apply IH; [assumption | cbn in Hf; lia].
Qed.

Lemma runes_ascii (s : bytes) : Forall (fun c => c < 128) s -> map snd (runes s) = s.
Proof. intros H. apply runes_from_ascii; auto. Qed.

Lemma okc_ascii (s : bytes) : Forall okc s -> Forall (fun c => c < 128) s.
Proof. apply Forall_impl. intros c [H _]. exact H. Qed.

Lemma split_single (sep : N) (a : bytes) : ~ In sep a -> split_on sep a = [a].
Proof.
  induction a as [|c a IH]; intros H; cbn [split_on]; [reflexivity|].
  rewrite IH by (intros Hin; apply H; right; exact Hin).
  replace (c =? sep) with false; [reflexivity|].
  symmetry. apply N.eqb_neq. intros ->. apply H. left. reflexivity.
Qed.

Lemma split_app_sep (sep : N) (a b : bytes) :
  ~ In sep a -> split_on sep (a ++ sep :: b) = a :: split_on sep b.
Proof.
  induction a as [|c a IH]; intros H.
  - cbn [app split_on]. pose proof (split_on_nonempty sep b) as Hne.
    destruct (split_on sep b); [congruence|]. rewrite N.eqb_refl. reflexivity.
  - cbn [app split_on]. rewrite IH by (intros Hin; apply H; right; exact Hin).
    replace (c =? sep) with false; [reflexivity|].
    symmetry. apply N.eqb_neq. intros ->. apply H. left. reflexivity.
Qed.

Definition dig (c : N) : Prop := 48 <= c <= 57.

Lemma itoa_fuel_dig (f : nat) : forall n acc, Forall dig acc -> Forall dig (itoa_fuel f n acc).
Proof.
  induction f as [|f IH]; intros n acc H; cbn [itoa_fuel]; [exact H|].
  assert (Forall dig ((48 + n mod 10) :: acc)) by (constructor; [unfold dig; lia | exact H]).
  destruct (n / 10 =? 0); auto.
Qed.

Lemma itoa_fuel_nonempty (f : nat) : forall n acc, acc <> [] -> itoa_fuel f n acc <> [].
Proof.
  induction f as [|f IH]; intros n acc H; cbn [itoa_fuel]; [exact H|].
  destruct (n / 10 =? 0); [discriminate|]. apply IH. discriminate.
Qed.

Lemma itoa_fuel_S f n acc :
  itoa_fuel (S f) n acc =
  if n / 10 =? 0 then (48 + n mod 10) :: acc else itoa_fuel f (n / 10) ((48 + n mod 10) :: acc).
Proof. reflexivity. Qed.

Lemma itoa_dig n : Forall dig (itoa n).
Proof. apply itoa_fuel_dig. constructor. Qed.

Lemma itoa_nonempty n : itoa n <> [].
Proof.
  unfold itoa. change 25%nat with (S 24). rewrite itoa_fuel_S. destruct (n / 10 =? 0); [discriminate|].
  apply itoa_fuel_nonempty. discriminate.
Qed.

Lemma dig_okc (s : bytes) : Forall dig s -> Forall okc s.
Proof. apply Forall_impl. unfold dig, okc. intros; lia. Qed.

Lemma itoa_fuel_val (f : nat) : forall n acc a,
  n < 10 ^ N.of_nat f ->
  exists k, digits_val (itoa_fuel f n acc) a = digits_val acc (a * 10 ^ k + n).
Proof.
  induction f as [|f IH]; intros n acc a Hn.
  - exists 0. cbn [itoa_fuel]. cbn in Hn. f_equal. lia.
  - cbn [itoa_fuel].
    assert (Hd : forall b, digits_val ((48 + n mod 10) :: acc) b = digits_val acc (b * 10 + n mod 10)).
    { intros b. cbn [digits_val]. unfold is_ascii_digit.
      replace ((48 <=? 48 + n mod 10) && (48 + n mod 10 <=? 57)) with true by lia.
      f_equal. lia. }
    destruct (n / 10 =? 0) eqn:E.
    + exists 1. rewrite Hd. f_equal. lia.
    + destruct (IH (n / 10) ((48 + n mod 10) :: acc) a) as [k Hk].
      { rewrite Nnat.Nat2N.inj_succ, N.pow_succ_r' in Hn. apply N.div_lt_upper_bound; lia. }
      exists (k + 1). rewrite Hk, Hd. f_equal.
      rewrite N.pow_add_r. change (10 ^ 1) with 10. generalize (10 ^ k). intros X. nia.
Qed.

Lemma atoi_dig_head (s : bytes) (v : N) :
  s <> [] -> Forall dig s -> digits_val s 0 = Some v -> v < two63 -> atoi s = Some (Z.of_N v).
Proof.
  intros Hne Hd Hv Hlt. destruct s as [|d r]; [congruence|]. inversion Hd as [|? ? Hdd _]; subst.
  assert (Hc : d = 48 \/ d = 49 \/ d = 50 \/ d = 51 \/ d = 52 \/ d = 53 \/ d = 54 \/ d = 55 \/ d = 56 \/ d = 57)
    by (unfold dig in Hdd; lia).
  unfold atoi.
  repeat (destruct Hc as [->|Hc]; [rewrite Hv; replace (v <? two63) with true by lia; reflexivity|]).
  subst d. rewrite Hv; replace (v <? two63) with true by lia; reflexivity.
Qed.

Lemma atoi_itoa (n : N) : n < two63 -> atoi (itoa n) = Some (Z.of_N n).
Proof.
  intros Hn. apply atoi_dig_head; [apply itoa_nonempty | apply itoa_dig | | exact Hn].
  destruct (itoa_fuel_val 25 n [] 0) as [k Hk].
  { unfold two63 in Hn. eapply N.lt_trans; [exact Hn|]. vm_compute. reflexivity. }
  unfold itoa. rewrite Hk. cbn [digits_val]. f_equal; lia.
Qed.

Lemma itoa_small (e : N) : e < 10 -> itoa e = [48 + e].
Proof.
  intros H. unfold itoa. change 25%nat with (S 24). rewrite itoa_fuel_S.
  replace (e / 10 =? 0) with true by lia. f_equal. f_equal. lia.
Qed.

Lemma is_digit_latin1 (tbl : list (N * N * N)) (c : N) : c <= 255 -> is_digit tbl c = is_ascii_digit c.
Proof. intros H. unfold is_digit, is_ascii_digit. replace (c <=? 255) with true by lia. reflexivity. Qed.

(* ---------------------------------------------------------------------------------------- *)
(* small tables, checked by computation                                                     *)

Definition piece_char_check (pc : N) : bool :=
  match piece_to_char pc with
  | Ok c => (c <? 128) && negb (c =? 32) && negb (is_ascii_digit c) && negb (c =? 47)
            && match index_rune_ascii piece_chars c with Some pc' => pc' =? pc | None => false end
  | _ => false
  end.
Lemma piece_char_table : forallb piece_char_check piece_codes = true.
Proof. vm_compute. reflexivity. Qed.

Lemma piece_char_spec (pc : N) :
  valid_piece pc = true ->
  exists c, piece_to_char pc = Ok c /\ okc c /\ is_ascii_digit c = false /\ c <> 47
            /\ index_rune_ascii piece_chars c = Some pc.
Proof.
  intros H. apply valid_piece_cases in H.
  pose proof piece_char_table as T. rewrite forallb_forall in T. apply T in H. clear T.
  unfold piece_char_check in H. destruct (piece_to_char pc) as [c| |]; try discriminate.
  destruct (index_rune_ascii piece_chars c) as [pc'|] eqn:E; [|rewrite andb_false_r in H; discriminate].
  repeat (apply andb_prop in H as [H ?]).
  exists c. unfold okc.
  match goal with H : (pc' =? pc) = true |- _ => apply N.eqb_eq in H; subst pc' end.
  match goal with H : negb (is_ascii_digit c) = true |- _ => apply negb_true_iff in H; rewrite H end.
  repeat split; try reflexivity; try assumption; lia.
Qed.

Definition pidx (pc : N) : nat := N.to_nat (piece_color pc * 6 + piece_type pc).

Lemma bb_index_pidx (pc : N) :
  valid_piece pc = true ->
  bb_index (piece_color pc) (piece_type pc) = Ok (pidx pc) /\ (pidx pc < 12)%nat.
Proof.
  intros H. apply valid_piece_cases in H. unfold piece_codes in H. cbn [In] in H.
  repeat (destruct H as [<-|H]; [split; [vm_compute; reflexivity | vm_compute; lia]|]).
  destruct H.
Qed.

Lemma sq_of_eq (rank f : N) : rank < 8 -> f < 8 -> sq_of rank f = 8 * rank + f.
Proof.
  intros Hr Hf. unfold sq_of, w8. rewrite N.shiftl_mul_pow2. change (2 ^ 3) with 8. lia.
Qed.

(* ---------------------------------------------------------------------------------------- *)
(* the placement field: printer against parser                                              *)

(* a position under construction by fenSetPieces: only bitboards, square array and hash move *)
Definition mk (B D : list N) (h : N) : position :=
  {| bbs := B; hash := h; all_pieces := 0; by_color := [0; 0]; board := D;
     side := WHITE; castling := 0; ep := 0; hmc := 0; ply := 0 |}.

(* what SetPiece does to the twelve bitboards and the square array (nothing for NO_PIECE,
   which the printer skips) *)
Definition place (BD : list N * list N) (sq pc : N) : list N * list N :=
  if pc =? 0 then BD else
  (upd (fst BD) (pidx pc) (N.lor (nth (pidx pc) (fst BD) 0) (bit sq)), upd (snd BD) (N.to_nat sq) pc).

Definition place_all (p : position) (l : list N) (BD : list N * list N) : list N * list N :=
  fold_left (fun bd sq => place bd sq (piece_at p sq)) l BD.

Lemma place_len1 BD sq pc : length (fst (place BD sq pc)) = length (fst BD).
Proof. unfold place. destruct (pc =? 0); cbn [fst]; [reflexivity | apply length_upd]. Qed.
Lemma place_len2 BD sq pc : length (snd (place BD sq pc)) = length (snd BD).
Proof. unfold place. destruct (pc =? 0); cbn [snd]; [reflexivity | apply length_upd]. Qed.

Lemma place_all_len1 p l : forall BD, length (fst (place_all p l BD)) = length (fst BD).
Proof.
  induction l as [|sq l IH]; intros BD; cbn [place_all fold_left]; [reflexivity|].
  unfold place_all in IH. rewrite IH. apply place_len1.
Qed.
Lemma place_all_len2 p l : forall BD, length (snd (place_all p l BD)) = length (snd BD).
Proof.
  induction l as [|sq l IH]; intros BD; cbn [place_all fold_left]; [reflexivity|].
  unfold place_all in IH. rewrite IH. apply place_len2.
Qed.

Lemma place_all_app p l1 l2 BD : place_all p (l1 ++ l2) BD = place_all p l2 (place_all p l1 BD).
Proof. unfold place_all. apply fold_left_app. Qed.

Definition files8 : list N := [0; 1; 2; 3; 4; 5; 6; 7].

Fixpoint consec (f0 : N) (files : list N) : Prop :=
  match files with
  | [] => True
  | f :: fs => f = f0 /\ consec (f0 + 1) fs
  end.

Section Placement.
Variable K : zkeys.
Hypothesis HK : fen_keys_wf K = true.
Variable tbl : list (N * N * N).

Definition pstep (acc : res (position * N)) (r : N) : res (position * N) :=
  ps <- acc ;;
  let '(p, sq) := ps in
  if is_digit tbl r then Ok (p, w8 (sq + w8 (r + 256 - 48)))
  else if r =? 47 then Ok (p, sub8 sq 16)
  else
    match index_rune_ascii piece_chars r with
    | None => Err
    | Some pc =>
      if true && negb (sq <? 64) then Err else
      q <- set_piece K p pc sq ;;
      Ok (q, add8 sq 1)
    end.

Lemma fen_set_pieces_fold (p : position) (tok : bytes) :
  fen_set_pieces K tbl true p tok =
  (r <- fold_left pstep (map snd (runes tok)) (Ok (p, A8)) ;; Ok (fst r)).
Proof.
  unfold fen_set_pieces. f_equal. rewrite <- (fold_left_map pstep snd). reflexivity.
Qed.

Lemma pstep_digit (q : position) (sq e : N) :
  1 <= e <= 8 -> sq + e < 256 -> pstep (Ok (q, sq)) (48 + e) = Ok (q, sq + e).
Proof.
  intros He Hs. unfold pstep. cbn [bind].
  rewrite is_digit_latin1 by lia. unfold is_ascii_digit.
  replace ((48 <=? 48 + e) && (48 + e <=? 57)) with true by lia.
  f_equal. f_equal. unfold w8. lia.
Qed.

Lemma pstep_slash (q : position) (sq : N) : pstep (Ok (q, sq)) 47 = Ok (q, sub8 sq 16).
Proof. reflexivity. Qed.

Lemma pstep_piece (B D : list N) (h sq pc c : N) :
  length B = 12%nat -> sq < 64 -> valid_piece pc = true -> piece_to_char pc = Ok c ->
  exists h', pstep (Ok (mk B D h, sq)) c =
             Ok (mk (fst (place (B, D) sq pc)) (snd (place (B, D) sq pc)) h', sq + 1).
Proof.
  intros HB Hsq Hpc Hc.
  destruct (piece_char_spec pc Hpc) as [c' [Hc' [[Hlt H32] [Hnd [H47 Hidx]]]]].
  rewrite Hc in Hc'. injection Hc' as <-.
  unfold pstep. cbn [bind].
  rewrite is_digit_latin1 by lia. rewrite Hnd.
  replace (c =? 47) with false by lia. rewrite Hidx.
  replace (sq <? 64) with true by lia. cbn [andb negb].
  unfold set_piece. replace (sq <? 64) with true by lia. cbn [negb].
  destruct (bb_index_pidx pc Hpc) as [Hi Hi12]. rewrite Hi. cbn [bind].
  cbn [bbs mk]. rewrite (nth_res_nth B (pidx pc) 0) by lia. cbn [bind].
  destruct (key_piece_ok K HK sq pc Hsq Hpc) as [k ->]. cbn [bind].
  exists (N.lxor h k). unfold place.
  replace (pc =? 0) with false by (unfold valid_piece in Hpc; lia).
  cbn [fst snd]. unfold add8. replace ((sq + 1) mod 256) with (sq + 1) by lia.
  reflexivity.
Qed.

(* one rank: files f0..7 still to print, [e] empty squares pending; the parser stands [e] squares
   behind the printer *)
Section Rank.
Variable p : position.
Hypothesis Hlen : length (board p) = 64%nat.
Hypothesis Hcodes : forall sq, sq < 64 -> code_ok (piece_at p sq).
Variable rank : N.
Hypothesis Hrank : rank < 8.

Lemma get_piece_at (f : N) : f < 8 -> get_piece p (sq_of rank f) = Ok (piece_at p (8 * rank + f)).
Proof.
  intros Hf. rewrite sq_of_eq by assumption. unfold get_piece, piece_at.
  apply nth_res_nth. clear - Hlen Hrank Hf. lia.
Qed.

Lemma rank_parse : forall files f0 e,
  consec f0 files -> f0 + N.of_nat (length files) = 8 -> e <= f0 ->
  exists out, fen_rank p rank files e = Ok out /\ Forall okc out /\
    forall B D h, length B = 12%nat ->
    exists h',
      fold_left pstep out (Ok (mk B D h, 8 * rank + f0 - e)) =
      Ok (mk (fst (place_all p (map (fun f => 8 * rank + f) files) (B, D)))
             (snd (place_all p (map (fun f => 8 * rank + f) files) (B, D))) h', 8 * rank + 8).
Proof.
  induction files as [|f fs IH]; intros f0 e Hcon Hf0 He.
  - cbn [length] in Hf0. cbn [fen_rank map place_all fold_left fst snd].
    destruct (e =? 0) eqn:E.
    + eexists; split; [reflexivity|]. split; [constructor|].
      intros B D h HB. exists h. cbn [fold_left]. do 2 f_equal. lia.
    + rewrite itoa_small by lia. eexists; split; [reflexivity|]. split.
      { repeat constructor; lia. }
      intros B D h HB. exists h. cbn [fold_left]. rewrite pstep_digit by lia. do 2 f_equal. lia.
  - destruct Hcon as [-> Hcon]. cbn [length] in Hf0.
    cbn [fen_rank]. rewrite get_piece_at by lia. cbn [bind].
    destruct (Hcodes (8 * rank + f0)) as [Hz|Hv]; [lia| |].
    + (* empty square *)
      rewrite Hz. change (0 =? NO_PIECE) with true. cbn iota.
      destruct (IH (f0 + 1) (e + 1) Hcon) as [out [Hout [Hok Hpar]]]; [lia|lia|].
      exists out. split; [exact Hout|]. split; [exact Hok|].
      intros B D h HB. destruct (Hpar B D h HB) as [h' Hh'].
      exists h'. cbn [map place_all fold_left]. unfold place at 2 4. rewrite Hz. cbn [N.eqb].
      replace (8 * rank + f0 - e) with (8 * rank + (f0 + 1) - (e + 1)) by lia.
      exact Hh'.
    + (* a piece *)
      replace (piece_at p (8 * rank + f0) =? NO_PIECE) with false
        by (unfold valid_piece, NO_PIECE in *; lia).
      destruct (piece_char_spec _ Hv) as [c [Hc [Hokc _]]]. rewrite Hc. cbn [bind].
      destruct (IH (f0 + 1) 0 Hcon) as [rest [Hrest [Hok Hpar]]]; [lia|lia|].
      rewrite Hrest. cbn [bind]. eexists; split; [reflexivity|]. split.
      { apply Forall_app. split.
        - destruct (e =? 0); [constructor|]. rewrite itoa_small by lia. repeat constructor; lia.
        - constructor; assumption. }
      intros B D h HB. rewrite fold_left_app. cbn [fold_left].
      assert (Hpre : fold_left pstep (if e =? 0 then [] else itoa e) (Ok (mk B D h, 8 * rank + f0 - e))
                     = Ok (mk B D h, 8 * rank + f0)).
      { destruct (e =? 0) eqn:E; cbn [fold_left].
        - do 2 f_equal. lia.
        - rewrite itoa_small by lia. cbn [fold_left]. rewrite pstep_digit by lia. do 2 f_equal. lia. }
      rewrite Hpre.
      destruct (pstep_piece B D h (8 * rank + f0) (piece_at p (8 * rank + f0)) c HB) as [h1 ->]; [lia|exact Hv|exact Hc|].
      set (BD1 := place (B, D) (8 * rank + f0) (piece_at p (8 * rank + f0))).
      destruct (Hpar (fst BD1) (snd BD1) h1) as [h' Hh'].
      { unfold BD1. rewrite place_len1. exact HB. }
      exists h'. cbn [map place_all fold_left].
      replace (8 * rank + f0 + 1) with (8 * rank + (f0 + 1) - 0) by lia.
      rewrite Hh'. unfold place_all. fold BD1. destruct BD1; reflexivity.
Qed.

End Rank.
End Placement.

(* eight ranks, a8..h8 first *)
Fixpoint desc (n : nat) : list N :=
  match n with O => [0] | S k => N.of_nat (S k) :: desc k end.
Definition rank_sqs (r : N) : list N := map (fun f => 8 * r + f) files8.
Fixpoint order (n : nat) : list N :=
  match n with O => rank_sqs 0 | S k => rank_sqs (N.of_nat (S k)) ++ order k end.

Lemma consec_files8 : consec 0 files8.
Proof. cbn. repeat split. Qed.

Section Ranks.
Variable K : zkeys.
Hypothesis HK : fen_keys_wf K = true.
Variable tbl : list (N * N * N).
Variable p : position.
Hypothesis Hlen : length (board p) = 64%nat.
Hypothesis Hcodes : forall sq, sq < 64 -> code_ok (piece_at p sq).

Definition tstep (acc : res bytes) (rank : N) : res bytes :=
  s <- acc ;;
  r <- fen_rank p rank files8 0 ;;
  Ok (s ++ r ++ (if 0 <? rank then [47] else [])).

Lemma placement_parse : forall n, (n < 8)%nat -> forall s0,
  exists tail, fold_left tstep (desc n) (Ok s0) = Ok (s0 ++ tail) /\ Forall okc tail /\
    forall B D h, length B = 12%nat ->
    exists h',
      fold_left (pstep K tbl) tail (Ok (mk B D h, 8 * N.of_nat n)) =
      Ok (mk (fst (place_all p (order n) (B, D))) (snd (place_all p (order n) (B, D))) h', 8).
Proof.
  induction n as [|n IH]; intros Hn s0.
  - destruct (rank_parse K HK tbl p Hlen Hcodes 0 ltac:(lia) files8 0 0 consec_files8)
      as [out [Hout [Hok Hpar]]]; [reflexivity|lia|].
    exists out. cbn [desc fold_left]. unfold tstep. cbn [bind]. rewrite Hout. cbn [bind].
    change (0 <? 0) with false. cbn iota. rewrite app_nil_r.
    split; [reflexivity|]. split; [exact Hok|].
    intros B D h HB. destruct (Hpar B D h HB) as [h' Hh']. exists h'.
    cbn [order]. unfold rank_sqs. exact Hh'.
  - set (R := N.of_nat (S n)).
    destruct (rank_parse K HK tbl p Hlen Hcodes R ltac:(lia) files8 0 0 consec_files8)
      as [out [Hout [Hok Hpar]]]; [reflexivity|lia|].
    destruct (IH ltac:(lia) (s0 ++ out ++ [47])) as [tail [Htail [Hokt Hpart]]].
    exists (out ++ [47] ++ tail). cbn [desc fold_left]. fold R.
    unfold tstep at 2. cbn [bind]. rewrite Hout. cbn [bind].
    replace (0 <? R) with true by lia. cbn iota.
    split; [etransitivity; [exact Htail|]; f_equal; rewrite <- !app_assoc; reflexivity|].
    split.
    { apply Forall_app; split; [exact Hok|]. apply Forall_app; split; [|exact Hokt].
      repeat constructor; lia. }
    intros B D h HB. destruct (Hpar B D h HB) as [h1 Hh1].
    replace (8 * R + 0 - 0) with (8 * R) in Hh1 by lia.
    rewrite fold_left_app. setoid_rewrite Hh1. cbn [app fold_left]. rewrite pstep_slash.
    replace (sub8 (8 * R + 8) 16) with (8 * N.of_nat n) by (unfold sub8; lia).
    set (BD1 := place_all p (map (fun f : N => 8 * R + f) files8) (B, D)).
    destruct (Hpart (fst BD1) (snd BD1) h1) as [h' Hh'].
    { unfold BD1. rewrite place_all_len1. exact HB. }
    exists h'. rewrite Hh'. cbn [order]. rewrite place_all_app. unfold rank_sqs. fold R. fold BD1.
    destruct BD1; reflexivity.
Qed.

End Ranks.

(* ---------------------------------------------------------------------------------------- *)
(* the main lemma: re-deriving bitboards and square array by SetPiece in a8..h1 reading order *)
(* gives back exactly the bitboards and the square array of a position whose bitboards agree  *)
(* with its square array                                                                     *)

Lemma bit_testbit (sq n : N) : sq < 64 -> N.testbit (bit sq) n = (n =? sq).
Proof.
  intros H. unfold bit, shl64, w64. rewrite N.land_spec, N.shiftl_1_l, N.pow2_bits_eqb.
  destruct (N.eqb_spec sq n) as [E|E].
  - subst. change m64 with (N.ones 64). rewrite N.ones_spec_low by assumption.
    rewrite N.eqb_refl. reflexivity.
  - cbn [andb]. symmetry. apply N.eqb_neq. congruence.
Qed.

Lemma nth_repeat0 (i k : nat) : nth i (repeat 0 k) 0 = 0.
Proof. revert i; induction k; intros [|i]; cbn; auto. Qed.

Lemma place_all_board p l : forall BD (n : nat),
  Forall (fun sq => sq < 64) l -> length (snd BD) = 64%nat ->
  nth n (snd (place_all p l BD)) 0 =
  if existsb (N.eqb (N.of_nat n)) l && negb (piece_at p (N.of_nat n) =? 0)
  then piece_at p (N.of_nat n) else nth n (snd BD) 0.
Proof.
  unfold place_all. induction l as [|sq l IH]; intros BD n Hl HD; [reflexivity|].
  inversion Hl as [|? ? Hsq Hl']; subst. cbn [fold_left].
  rewrite IH; [|assumption|rewrite place_len2; assumption].
  cbn [existsb]. unfold place.
  destruct (N.eqb_spec (N.of_nat n) sq) as [E|E].
  - rewrite E. destruct (piece_at p sq =? 0) eqn:Ez; cbn [snd orb andb negb].
    + rewrite andb_false_r. reflexivity.
    + rewrite andb_true_r. rewrite nth_upd by lia.
      replace (n =? N.to_nat sq)%nat with true by lia.
      destruct (existsb _ l); reflexivity.
  - cbn [orb]. destruct (piece_at p sq =? 0) eqn:Ez; cbn [snd]; [reflexivity|].
    rewrite nth_upd by lia. replace (n =? N.to_nat sq)%nat with false by lia. reflexivity.
Qed.

Lemma place_all_bbs p l : forall BD (i : nat) (n : N),
  Forall (fun sq => sq < 64) l -> (forall sq, In sq l -> code_ok (piece_at p sq)) ->
  length (fst BD) = 12%nat ->
  N.testbit (nth i (fst (place_all p l BD)) 0) n =
  N.testbit (nth i (fst BD) 0) n
  || (existsb (N.eqb n) l && negb (piece_at p n =? 0) && (pidx (piece_at p n) =? i)%nat).
Proof.
  unfold place_all. induction l as [|sq l IH]; intros BD i n Hl Hc HB.
  { cbn. rewrite orb_false_r. reflexivity. }
  inversion Hl as [|? ? Hsq Hl']; subst. cbn [fold_left].
  rewrite IH; [|assumption|intros; apply Hc; right; assumption|rewrite place_len1; assumption].
  cbn [existsb]. unfold place.
  destruct (Hc sq (or_introl eq_refl)) as [Hz|Hv].
  - rewrite Hz. cbn [N.eqb]. cbv iota.
    destruct (N.eqb_spec n sq) as [E|E]; [|reflexivity].
    subst n. rewrite Hz. cbn [N.eqb negb]. rewrite !andb_false_r. reflexivity.
  - replace (piece_at p sq =? 0) with false by (unfold valid_piece in Hv; lia).
    cbn [fst]. destruct (bb_index_pidx _ Hv) as [_ Hi12].
    rewrite nth_upd by lia.
    destruct (Nat.eqb_spec i (pidx (piece_at p sq))) as [Ei|Ei].
    + rewrite N.lor_spec, bit_testbit by assumption. subst i.
      destruct (N.eqb_spec n sq) as [E|E].
      * subst n. replace (piece_at p sq =? 0) with false by (unfold valid_piece in Hv; lia).
        rewrite Nat.eqb_refl. cbn [orb andb negb]. rewrite !orb_true_r. reflexivity.
      * cbn [orb]. rewrite orb_false_r. reflexivity.
    + destruct (N.eqb_spec n sq) as [E|E]; [|reflexivity].
      subst n. replace (pidx (piece_at p sq) =? i)%nat with false by lia.
      rewrite !andb_false_r. reflexivity.
Qed.

Lemma order7_lt : Forall (fun sq => sq < 64) (order 7).
Proof.
  assert (H : forallb (fun sq => sq <? 64) (order 7) = true) by (vm_compute; reflexivity).
  rewrite forallb_forall in H. apply Forall_forall. intros x Hx. apply H in Hx. lia.
Qed.

Lemma in_squares64 (n : N) : n < 64 -> In n squares64.
Proof.
  intros H. unfold squares64. apply in_map_iff. exists (N.to_nat n). split; [lia|].
  apply in_seq. lia.
Qed.

Lemma order7_all (n : N) : n < 64 -> existsb (N.eqb n) (order 7) = true.
Proof.
  intros Hn.
  assert (H : forallb (fun n => existsb (N.eqb n) (order 7)) squares64 = true) by (vm_compute; reflexivity).
  rewrite forallb_forall in H. apply H. apply in_squares64. exact Hn.
Qed.

Lemma order7_none (n : N) : 64 <= n -> existsb (N.eqb n) (order 7) = false.
Proof.
  intros Hn. destruct (existsb (N.eqb n) (order 7)) eqn:E; [|reflexivity].
  apply existsb_exists in E as [x [Hx Hnx]]. apply N.eqb_eq in Hnx. subst x.
  pose proof order7_lt as H. rewrite Forall_forall in H. apply H in Hx. lia.
Qed.

Lemma pidx_table :
  forallb (fun pc => forallb (fun ct : N * N =>
     Bool.eqb (negb (pc =? 0) && (pidx pc =? N.to_nat (fst ct * 6 + snd ct))%nat)
              (pc =? new_piece (fst ct) (snd ct))) ct_pairs) (0 :: piece_codes) = true.
Proof. vm_compute. reflexivity. Qed.

Lemma pidx_spec (pc c t : N) :
  code_ok pc -> In (c, t) ct_pairs ->
  negb (pc =? 0) && (pidx pc =? N.to_nat (c * 6 + t))%nat = (pc =? new_piece c t).
Proof.
  intros Hpc Hct. pose proof pidx_table as T. rewrite forallb_forall in T.
  assert (Hin : In pc (0 :: piece_codes)).
  { destruct Hpc as [->|Hv]; [left; reflexivity | right; apply valid_piece_cases; exact Hv]. }
  apply T in Hin. rewrite forallb_forall in Hin. apply Hin in Hct. cbn [fst snd] in Hct.
  apply eqb_prop in Hct. exact Hct.
Qed.

Lemma testbit_above (a n : N) : a < two64 -> 64 <= n -> N.testbit a n = false.
Proof.
  intros Ha Hn. destruct (N.eq_dec a 0) as [->|Hne]; [apply N.bits_0|].
  apply N.bits_above_log2. apply N.lt_le_trans with 64; [|exact Hn].
  apply N.log2_lt_pow2; [lia|]. exact Ha.
Qed.

Section Main.
Variable p : position.
Hypothesis Hlen : length (board p) = 64%nat.
Hypothesis Hcodes : forall sq, sq < 64 -> code_ok (piece_at p sq).
Hypothesis Hbbs : length (bbs p) = 12%nat.
Hypothesis Hagree : forall c t, In (c, t) ct_pairs ->
  bb_at p c t < two64 /\
  forall sq, sq < 64 -> N.testbit (bb_at p c t) sq = (piece_at p sq =? new_piece c t).

Lemma place_all_inv :
  place_all p (order 7) (repeat 0 12, repeat 0 64) = (bbs p, board p).
Proof.
  pose proof order7_lt as Hlt.
  assert (Hco : forall sq, In sq (order 7) -> code_ok (piece_at p sq)).
  { intros sq Hin. apply Hcodes. rewrite Forall_forall in Hlt. apply Hlt. exact Hin. }
  destruct (place_all p (order 7) (repeat 0 12, repeat 0 64)) as [B' D'] eqn:E.
  assert (HB' : length B' = 12%nat).
  { change B' with (fst (B', D')). rewrite <- E, place_all_len1. reflexivity. }
  assert (HD' : length D' = 64%nat).
  { change D' with (snd (B', D')). rewrite <- E, place_all_len2. reflexivity. }
  assert (Hct : forall c t, In (c, t) ct_pairs -> nth (N.to_nat (c * 6 + t)) B' 0 = bb_at p c t).
  { intros c t Hin. destruct (Hagree c t Hin) as [Hlt64 Hbits].
    apply N.bits_inj. intros n.
    change B' with (fst (B', D')). rewrite <- E.
    rewrite place_all_bbs; [|exact Hlt|exact Hco|reflexivity].
    cbn [fst]. rewrite nth_repeat0, N.bits_0. cbn [orb].
    destruct (N.lt_ge_cases n 64) as [Hn|Hn].
    - rewrite order7_all by exact Hn. cbn [andb].
      rewrite Hbits by exact Hn. apply pidx_spec; [apply Hcodes; exact Hn | exact Hin].
    - rewrite order7_none by exact Hn. cbn [andb]. symmetry. apply testbit_above; assumption. }
  f_equal.
  - apply nth_ext with (d := 0) (d' := 0); [lia|].
    intros i Hi. rewrite HB' in Hi.
    do 12 (destruct i as [|i];
      [ first [ exact (Hct 0 0 ltac:(cbn; tauto)) | exact (Hct 0 1 ltac:(cbn; tauto))
              | exact (Hct 0 2 ltac:(cbn; tauto)) | exact (Hct 0 3 ltac:(cbn; tauto))
              | exact (Hct 0 4 ltac:(cbn; tauto)) | exact (Hct 0 5 ltac:(cbn; tauto))
              | exact (Hct 1 0 ltac:(cbn; tauto)) | exact (Hct 1 1 ltac:(cbn; tauto))
              | exact (Hct 1 2 ltac:(cbn; tauto)) | exact (Hct 1 3 ltac:(cbn; tauto))
              | exact (Hct 1 4 ltac:(cbn; tauto)) | exact (Hct 1 5 ltac:(cbn; tauto)) ] |]).
    lia.
  - apply nth_ext with (d := 0) (d' := 0); [lia|].
    intros n Hn. rewrite HD' in Hn.
    change D' with (snd (B', D')). rewrite <- E.
    rewrite place_all_board; [|exact Hlt|reflexivity].
    rewrite order7_all by lia. cbn [andb snd]. rewrite nth_repeat0.
    unfold piece_at. rewrite Nnat.Nat2N.id.
    destruct (nth n (board p) 0 =? 0) eqn:Ez; cbn [negb]; [|reflexivity].
    symmetry. apply N.eqb_eq. exact Ez.
Qed.

End Main.

(* ---------------------------------------------------------------------------------------- *)
(* the other five fields                                                                    *)

Definition cas_string (c : N) : bytes :=
  if negb (negb (N.land 15 c =? 0)) then [45] else
    (if negb (N.land WK c =? 0) then [75] else []) ++ (if negb (N.land WQ c =? 0) then [81] else []) ++
    (if negb (N.land BK c =? 0) then [107] else []) ++ (if negb (N.land BQ c =? 0) then [113] else []).

Lemma castling_roundtrip (q : position) (c : N) :
  c < 16 -> fen_set_castling q (cas_string c) = Ok (set_castling q c) /\ Forall okc (cas_string c).
Proof.
  intros H.
  assert (Hc : c = 0 \/ c = 1 \/ c = 2 \/ c = 3 \/ c = 4 \/ c = 5 \/ c = 6 \/ c = 7 \/ c = 8 \/ c = 9
               \/ c = 10 \/ c = 11 \/ c = 12 \/ c = 13 \/ c = 14 \/ c = 15) by lia.
  repeat (destruct Hc as [->|Hc];
          [split; [reflexivity | vm_compute; repeat constructor; try lia; discriminate]|]).
  subst c. split; [reflexivity | vm_compute; repeat constructor; try lia; discriminate].
Qed.

Definition okc_b (c : N) : bool := (c <? 128) && negb (c =? 32).
Lemma okc_b_spec (s : bytes) : forallb okc_b s = true -> Forall okc s.
Proof.
  intros H. rewrite forallb_forall in H. apply Forall_forall. intros c Hc. apply H in Hc.
  unfold okc_b in Hc. unfold okc. lia.
Qed.

(* the clauses of [Inv] the round trip uses: the structural ones.  Neither king count, pawn
   ranks, castling/en-passant consistency with the placement nor the check clause is needed. *)
Definition fen_struct (p : position) : Prop :=
  length (board p) = 64%nat /\ (forall sq, sq < 64 -> code_ok (piece_at p sq)) /\
  length (bbs p) = 12%nat /\
  (forall c t, In (c, t) ct_pairs ->
     bb_at p c t < two64 /\
     forall sq, sq < 64 -> N.testbit (bb_at p c t) sq = (piece_at p sq =? new_piece c t)) /\
  helpers_agree p = true /\ castling p < 16 /\
  (side p = WHITE \/ side p = BLACK) /\ hmc p < 256 /\ ply p < 256 /\ ep p <= 64.

Lemma inv_facts (p : position) : Inv p -> fen_struct p.
Proof.
  unfold Inv, inv_b, fen_struct. intros H.
  apply andb_prop in H as [H Hchk]. apply andb_prop in H as [H Hsc]. apply andb_prop in H as [H Hepc].
  apply andb_prop in H as [H Hcc]. apply andb_prop in H as [H Hnb]. apply andb_prop in H as [H Hok].
  apply andb_prop in H as [H Hhelp]. apply andb_prop in H as [Hwf Hagr].
  unfold board_wf in Hwf. apply andb_prop in Hwf as [Hl Hf].
  unfold bbs_agree in Hagr. apply andb_prop in Hagr as [Hbl Hbf].
  unfold castling_consistent in Hcc. repeat (apply andb_prop in Hcc as [Hcc ?]).
  unfold scalars_ok in Hsc. repeat (apply andb_prop in Hsc as [Hsc ?]).
  apply Nat.eqb_eq in Hl, Hbl.
  split; [exact Hl|]. split.
  { intros sq Hsq. rewrite forallb_forall in Hf. unfold piece_at.
    assert (Hn : (N.to_nat sq < length (board p))%nat) by lia.
    specialize (Hf (nth (N.to_nat sq) (board p) 0) (nth_In _ 0 Hn)).
    unfold code_ok. apply orb_prop in Hf as [Hf|Hf]; [left; apply N.eqb_eq; exact Hf | right; exact Hf]. }
  split; [exact Hbl|]. split.
  { intros c t Hct. rewrite forallb_forall in Hbf. specialize (Hbf (c, t) Hct). cbn beta iota in Hbf.
    apply andb_prop in Hbf as [Hb1 Hb2]. split; [lia|].
    intros sq Hsq. rewrite forallb_forall in Hb2. specialize (Hb2 sq (in_squares64 sq Hsq)).
    apply eqb_prop in Hb2. exact Hb2. }
  split; [assumption|]. unfold WHITE, BLACK in *. clear - Hcc Hsc H3 H4 H5. repeat split; lia.
Qed.

Section Roundtrip.
Variable K : zkeys.
Hypothesis HK : fen_keys_wf K = true.
Variable tbl : list (N * N * N).

Definition ep_check (sq : N) : bool :=
  match square_to_string sq with
  | Ok s => negb (bytes_eqb s [45]) && forallb okc_b s &&
            match square_from_string tbl s with Ok sq' => sq' =? sq | _ => false end
  | _ => false
  end.
Lemma ep_table : forallb ep_check squares64 = true.
Proof. vm_compute. reflexivity. Qed.

Lemma ep_roundtrip (q : position) (e : N) :
  e <= 64 ->
  exists eps, (if e =? SQ_NONE then Ok [45] else square_to_string e) = Ok eps /\
              Forall okc eps /\ fen_set_ep tbl q eps = Ok (set_ep q e).
Proof.
  intros He. destruct (e =? SQ_NONE) eqn:E.
  - apply N.eqb_eq in E. subst e. exists [45]. split; [reflexivity|]. split; [|reflexivity].
    repeat constructor; lia.
  - unfold SQ_NONE in E. pose proof ep_table as T. rewrite forallb_forall in T.
    specialize (T e (in_squares64 e ltac:(lia))). unfold ep_check in T.
    destruct (square_to_string e) as [s| |]; try discriminate.
    apply andb_prop in T as [T T3]. apply andb_prop in T as [T1 T2].
    exists s. split; [reflexivity|]. split; [apply okc_b_spec; exact T2|].
    unfold fen_set_ep. apply negb_true_iff in T1. rewrite T1.
    destruct (square_from_string tbl s) as [sq'| |]; try discriminate.
    apply N.eqb_eq in T3. subst sq'. reflexivity.
Qed.

Lemma scratch_hash_congr (p q : position) :
  board q = board p -> side q = side p -> castling q = castling p -> ep q = ep p ->
  scratch_hash K q = scratch_hash K p.
Proof. intros Hb Hs Hc He. unfold scratch_hash. rewrite Hb, Hs, Hc, He. reflexivity. Qed.

Lemma final_eq (p q : position) :
  bbs q = bbs p -> board q = board p -> side q = side p -> castling q = castling p -> ep q = ep p ->
  hmc q = hmc p -> ply q = ply p -> hash q = hash p ->
  helpers_agree p = true -> length (bbs p) = 12%nat ->
  gen_helpers q = p.
Proof.
  destruct p as [B h a bc D s c e hm pl], q as [B' h' a' bc' D' s' c' e' hm' pl'].
  cbn [bbs board side castling ep hmc ply hash].
  intros -> -> -> -> -> -> -> -> Hh HB.
  unfold helpers_agree in Hh. cbn [by_color all_pieces] in Hh.
  destruct bc as [|w [|b [|]]]; try discriminate.
  apply andb_prop in Hh as [Hh Ha]. apply andb_prop in Hh as [Hw Hb].
  apply N.eqb_eq in Ha, Hw, Hb.
  do 12 (destruct B as [|? B]; [discriminate HB|]). destruct B; [|discriminate HB].
  unfold union6, bb_at in Hw, Hb. cbn in Hw, Hb.
  unfold gen_helpers, set_helpers, color_union. cbn [bbs board side castling ep hmc ply hash].
  subst a w b. reflexivity.
Qed.

Definition fen_of (pl : bytes) (p : position) (eps : bytes) : bytes :=
  pl ++ (if side p =? WHITE then [32; 119; 32] else [32; 98; 32]) ++ cas_string (castling p)
     ++ [32] ++ eps ++ [32] ++ itoa (hmc p) ++ [32] ++ itoa (w8 (ply p / 2 + 1)).

Lemma to_fen_eq (p : position) :
  to_fen p =
  (pl <- fold_left (tstep p) (desc 7) (Ok []) ;;
   eps <- (if ep p =? SQ_NONE then Ok [45] else square_to_string (ep p)) ;;
   Ok (fen_of pl p eps)).
Proof. reflexivity. Qed.

Lemma split_fen (pl cas eps hs fs : bytes) (c : N) :
  Forall okc pl -> c <> 32 -> Forall okc cas -> Forall okc eps -> Forall okc hs -> Forall okc fs ->
  split_on 32 (pl ++ [32; c; 32] ++ cas ++ [32] ++ eps ++ [32] ++ hs ++ [32] ++ fs)
  = [pl; [c]; cas; eps; hs; fs].
Proof.
  intros Hpl Hc Hcas Heps Hhs Hfs.
  change (pl ++ [32; c; 32] ++ cas ++ [32] ++ eps ++ [32] ++ hs ++ [32] ++ fs)
    with (pl ++ 32 :: [c] ++ 32 :: cas ++ 32 :: eps ++ 32 :: hs ++ 32 :: fs).
  rewrite split_app_sep by (apply okc_no32; assumption).
  rewrite split_app_sep by (intros [H|[]]; congruence).
  rewrite split_app_sep by (apply okc_no32; assumption).
  rewrite split_app_sep by (apply okc_no32; assumption).
  rewrite split_app_sep by (apply okc_no32; assumption).
  rewrite split_single by (apply okc_no32; assumption).
  reflexivity.
Qed.

Theorem fen_roundtrip_struct (p : position) :
  fen_struct p -> hash_scratch_ok K p -> ply_parity p ->
  exists s, to_fen p = Ok s /\ new_from_fen K tbl s = Ok p.
Proof.
  intros HI Hhash Hpar.
  destruct HI as (Hlen & Hcodes & Hbbs & Hagree & Hhelp & Hcas & Hside & Hhmc & Hply & Hep).
  destruct (placement_parse K HK tbl p Hlen Hcodes 7 ltac:(lia) []) as [pl [Hpl [Hokpl Hparse]]].
  destruct (Hparse (repeat 0 12) (repeat 0 64) 0 eq_refl) as [h' Hh']. clear Hparse.
  rewrite (place_all_inv p Hlen Hcodes Hbbs Hagree) in Hh'. cbn [fst snd] in Hh'.
  set (q0 := mk (bbs p) (board p) h') in *.
  set (q1 := set_side q0 (side p)).
  destruct (castling_roundtrip q1 (castling p) Hcas) as [Hcr Hokcas].
  destruct (ep_roundtrip (set_castling q1 (castling p)) (ep p) Hep) as [eps [Heps [Hokeps Hepr]]].
  exists (fen_of pl p eps). split.
  { rewrite to_fen_eq.
    assert (Hpl' : fold_left (tstep p) (desc 7) (Ok []) = Ok pl) by exact Hpl.
    unfold bytes in *. rewrite Hpl'. cbn [bind]. rewrite Heps. reflexivity. }
  assert (Hokh : Forall okc (itoa (hmc p))) by (apply dig_okc, itoa_dig).
  assert (Hokf : Forall okc (itoa (w8 (ply p / 2 + 1)))) by (apply dig_okc, itoa_dig).
  unfold new_from_fen, new_from_fen_gen, fen_of.
  assert (Hsplit : split_on 32 (pl ++ (if side p =? WHITE then [32; 119; 32] else [32; 98; 32]) ++
                     cas_string (castling p) ++ [32] ++ eps ++ [32] ++ itoa (hmc p) ++ [32] ++
                     itoa (w8 (ply p / 2 + 1)))
                   = [pl; [if side p =? WHITE then 119 else 98]; cas_string (castling p); eps;
                      itoa (hmc p); itoa (w8 (ply p / 2 + 1))]).
  { destruct (side p =? WHITE); apply split_fen; auto; discriminate. }
  rewrite Hsplit. clear Hsplit.
  rewrite fen_set_pieces_fold, (runes_ascii pl (okc_ascii pl Hokpl)).
  change empty_position with (mk (repeat 0 12) (repeat 0 64) 0).
  change A8 with (8 * N.of_nat 7). rewrite Hh'. cbn [bind fst].
  assert (Hsd : fen_set_side q0 [if side p =? WHITE then 119 else 98] = Ok q1).
  { unfold q1. destruct Hside as [-> | ->]; reflexivity. }
  rewrite Hsd. cbn [bind]. rewrite Hcr. cbn [bind]. rewrite Hepr. cbn [bind].
  rewrite atoi_itoa by (unfold two63; lia).
  rewrite atoi_itoa by (unfold two63, w8; lia).
  unfold init_hash.
  match goal with |- bind (bind (scratch_hash K ?q) _) _ = _ =>
    rewrite (scratch_hash_congr p q) by reflexivity end.
  rewrite Hhash. cbn [bind]. f_equal.
  apply final_eq; try reflexivity; try assumption.
  - cbn [hmc set_hash set_counters]. unfold z_to_u8. lia.
  - cbn [ply set_hash set_counters side set_ep set_castling]. unfold q1. cbn [side set_side].
    unfold ply_parity in Hpar. unfold z_to_u8, sub8, w8, WHITE, BLACK in *.
    destruct Hside as [Hs | Hs]; rewrite Hs in *; cbn [N.eqb]; cbv iota; lia.
Qed.

Theorem fen_roundtrip (p : position) :
  Inv p -> hash_scratch_ok K p -> ply_parity p ->
  exists s, to_fen p = Ok s /\ new_from_fen K tbl s = Ok p.
Proof. intros HI. apply fen_roundtrip_struct. apply inv_facts. exact HI. Qed.

(* second form: printing what the parser returns for a printed FEN reproduces the text *)
Corollary fen_print_parse (p : position) (s : bytes) :
  Inv p -> hash_scratch_ok K p -> ply_parity p ->
  to_fen p = Ok s -> forall p', new_from_fen K tbl s = Ok p' -> to_fen p' = Ok s.
Proof.
  intros HI Hh Hp Hs p' Hp'.
  destruct (fen_roundtrip p HI Hh Hp) as [s' [Hs' Hr]].
  rewrite Hs in Hs'. injection Hs' as <-. rewrite Hr in Hp'. injection Hp' as <-. exact Hs.
Qed.

End Roundtrip.

(* ---------------------------------------------------------------------------------------- *)
(* the two extra hypotheses are met by everything the parser returns, and kept by null moves  *)

Section ParsedHyps.
Variable K : zkeys.
Variable tbl : list (N * N * N).

Lemma fen_set_castling_side (p q : position) (tok : bytes) :
  fen_set_castling p tok = Ok q -> side q = side p.
Proof.
  unfold fen_set_castling. destruct (bytes_eqb tok [45]); [intros [= <-]; reflexivity|].
  intros H.
  match type of H with ?f = Ok q => assert (G : nopanic (fun q => side q = side p) f) end.
  { eapply (fold_bind_inv _ (fun q => side q = side p) (fun _ : N * N => True)).
    - intros [i r] q0 _ Hq. cbn [snd].
      repeat match goal with |- nopanic _ (if ?c then _ else _) => destruct c end; cbn; auto.
    - apply Forall_forall. auto.
    - reflexivity. }
  rewrite H in G. exact G.
Qed.

Theorem parsed_meets_hyps (s : bytes) (p : position) :
  new_from_fen K tbl s = Ok p -> hash_scratch_ok K p /\ ply_parity p.
Proof.
  unfold new_from_fen, new_from_fen_gen.
  destruct (split_on 32 s) as [|t0 [|t1 [|t2 [|t3 [|t4 [|t5 [|]]]]]]]; try discriminate.
  destruct (fen_set_pieces K tbl true empty_position t0) as [p0| |]; try discriminate. cbn [bind].
  destruct (fen_set_side p0 t1) as [p1| |] eqn:E1; try discriminate. cbn [bind].
  destruct (fen_set_castling p1 t2) as [p2| |] eqn:E2; try discriminate. cbn [bind].
  destruct (fen_set_ep tbl p2 t3) as [p3| |] eqn:E3; try discriminate. cbn [bind].
  destruct (atoi t4) as [h|]; try discriminate. destruct (atoi t5) as [fm|]; try discriminate.
  unfold init_hash.
  match goal with |- bind (bind (scratch_hash K ?q) _) _ = _ -> _ =>
    set (q3 := q); destruct (scratch_hash K q3) as [hh| |] eqn:Eh; try discriminate end.
  cbn [bind]. intros [= <-]. split.
  - unfold hash_scratch_ok. etransitivity; [apply (scratch_hash_congr K q3); reflexivity | exact Eh].
  - assert (Hs1 : side p1 = WHITE \/ side p1 = BLACK).
    { unfold fen_set_side in E1.
      repeat match type of E1 with (match ?x with _ => _ end) = _ => destruct x; try discriminate end;
        injection E1 as <-; cbn; auto. }
    assert (Hs3 : side p3 = side p1).
    { apply fen_set_castling_side in E2. unfold fen_set_ep in E3.
      destruct (bytes_eqb t3 [45]); [injection E3 as <-; exact E2|].
      destruct (square_from_string tbl t3); try discriminate. injection E3 as <-. exact E2. }
    unfold ply_parity. cbn [ply side gen_helpers set_helpers set_hash]. unfold q3. cbn [ply side set_counters].
    rewrite Hs3. unfold z_to_u8, sub8, WHITE, BLACK in *.
    destruct Hs1 as [-> | ->]; cbn [N.eqb]; cbv iota; lia.
Qed.

Lemma null_move_parity (p q : position) (e : N) :
  (side p = WHITE \/ side p = BLACK) -> ply_parity p ->
  make_null_move K p = Ok (q, e) -> ply_parity q.
Proof.
  intros Hs Hp. unfold make_null_move.
  assert (G : forall q0 : position, ply q0 = add8 (ply p) 1 -> side q0 = switch_color (side p) ->
              ply_parity q0).
  { intros q0 Hpl Hsd. unfold ply_parity in *. rewrite Hpl, Hsd.
    unfold add8, switch_color, WHITE, BLACK in *.
    destruct Hs as [Hs | Hs]; rewrite Hs in *;
      [change (0 =? 1) with false | change (1 =? 1) with true]; cbv iota; lia. }
  destruct (negb (ep p =? SQ_NONE)).
  - destruct (key_ep K (ep p)); cbn [bind]; try discriminate. intros [= <- _].
    apply G; reflexivity.
  - cbn [bind]. intros [= <- _]. apply G; reflexivity.
Qed.

End ParsedHyps.
