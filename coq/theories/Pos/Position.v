(* pkg/position: the Position value, piece primitives, Zobrist updates, attackers, check test,
   castling, move generation, MakeMove, null moves. Model file: transliteration, no proofs.
   Everything that indexes an array or scans an empty bitboard can return [Panic], as the Go code can. *)
From Coq Require Import NArith ZArith List Bool.
From Clemens Require Import Base.Res Base.Word Pos.Types Att.Attacks.
Import ListNotations.
Open Scope N_scope.

(* Zobrist keys: outputs of math/rand in the Go build; data, never modelled (GoConsts.v). *)
Record zkeys := {
  zk_piece : list (list N);   (* [square][colour*6 + type] *)
  zk_side : N;
  zk_castling : list N;       (* indexed by TrailingZeros of the right: WK 0, WQ 1, BK 2, BQ 3 *)
  zk_ep : list N              (* by file *)
}.

Record position := {
  bbs : list N;               (* PiecesBitboard[c][t] at index c*6+t, 12 entries *)
  hash : N;
  all_pieces : N;
  by_color : list N;          (* AllPiecesByColor, 2 entries *)
  board : list N;             (* PiecesBoard, 64 entries *)
  side : N;
  castling : N;               (* bit set: WK 1, WQ 2, BK 4, BQ 8 *)
  ep : N;                     (* 64 = none *)
  hmc : N;                    (* uint8 *)
  ply : N                     (* uint8 *)
}.

Definition WK : N := 1. Definition WQ : N := 2. Definition BK : N := 4. Definition BQ : N := 8.

Definition set_hash (p : position) (h : N) : position :=
  {| bbs := bbs p; hash := h; all_pieces := all_pieces p; by_color := by_color p; board := board p;
     side := side p; castling := castling p; ep := ep p; hmc := hmc p; ply := ply p |}.
Definition set_bbs_board (p : position) (b : list N) (bd : list N) : position :=
  {| bbs := b; hash := hash p; all_pieces := all_pieces p; by_color := by_color p; board := bd;
     side := side p; castling := castling p; ep := ep p; hmc := hmc p; ply := ply p |}.
Definition set_castling (p : position) (c : N) : position :=
  {| bbs := bbs p; hash := hash p; all_pieces := all_pieces p; by_color := by_color p; board := board p;
     side := side p; castling := c; ep := ep p; hmc := hmc p; ply := ply p |}.
Definition set_ep (p : position) (e : N) : position :=
  {| bbs := bbs p; hash := hash p; all_pieces := all_pieces p; by_color := by_color p; board := board p;
     side := side p; castling := castling p; ep := e; hmc := hmc p; ply := ply p |}.
Definition set_side (p : position) (s : N) : position :=
  {| bbs := bbs p; hash := hash p; all_pieces := all_pieces p; by_color := by_color p; board := board p;
     side := s; castling := castling p; ep := ep p; hmc := hmc p; ply := ply p |}.
Definition set_counters (p : position) (h pl : N) : position :=
  {| bbs := bbs p; hash := hash p; all_pieces := all_pieces p; by_color := by_color p; board := board p;
     side := side p; castling := castling p; ep := ep p; hmc := h; ply := pl |}.
Definition set_helpers (p : position) (a : N) (bc : list N) : position :=
  {| bbs := bbs p; hash := hash p; all_pieces := a; by_color := bc; board := board p;
     side := side p; castling := castling p; ep := ep p; hmc := hmc p; ply := ply p |}.

(* array accesses *)
Definition bb_index (c t : N) : res nat :=
  if (c <? 2) && (t <? 6) then Ok (N.to_nat (c * 6 + t)) else Panic.
Definition get_bb (p : position) (c t : N) : res N :=
  i <- bb_index c t ;; nth_res (bbs p) i.
Definition get_piece (p : position) (sq : N) : res N := nth_res (board p) (N.to_nat sq).
Definition color_bb (p : position) (c : N) : res N := nth_res (by_color p) (N.to_nat c).

Section Keys.
Variable K : zkeys.

Definition key_piece (sq c t : N) : res N :=
  row <- nth_res (zk_piece K) (N.to_nat sq) ;;
  i <- bb_index c t ;;
  nth_res row i.
Definition key_castling_idx (i : nat) : res N := nth_res (zk_castling K) i.
Definition key_ep (sq : N) : res N := nth_res (zk_ep K) (N.to_nat (file_of sq)).

(* piece.go *)
Definition set_piece (p : position) (pc sq : N) : res position :=
  if negb (sq <? 64) then Panic else
  let c := piece_color pc in
  let t := piece_type pc in
  i <- bb_index c t ;;
  old <- nth_res (bbs p) i ;;
  k <- key_piece sq c t ;;
  Ok (set_hash (set_bbs_board p (upd (bbs p) i (N.lor old (bit sq))) (upd (board p) (N.to_nat sq) pc))
               (N.lxor (hash p) k)).

Definition delete_piece (p : position) (sq : N) : res (position * N) :=
  pc <- get_piece p sq ;;
  let c := piece_color pc in
  let t := piece_type pc in
  i <- bb_index c t ;;
  old <- nth_res (bbs p) i ;;
  k <- key_piece sq c t ;;
  Ok (set_hash (set_bbs_board p (upd (bbs p) i (N.land old (not64 (bit sq)))) (upd (board p) (N.to_nat sq) NO_PIECE))
               (N.lxor (hash p) k), pc).

Definition move_piece (p : position) (from to : N) : res (position * N) :=
  r <- delete_piece p from ;;
  let '(p1, pc) := r in
  p2 <- set_piece p1 pc to ;;
  Ok (p2, pc).

(* position.go: generateHelperBitboards *)
Definition color_union (p : position) (c : N) : N :=
  fold_left N.lor (firstn 6 (skipn (N.to_nat (c * 6)) (bbs p))) 0.
Definition gen_helpers (p : position) : position :=
  let w := color_union p WHITE in
  let b := color_union p BLACK in
  set_helpers p (N.lor w b) [w; b].

(* boardToBitBoard (used by New()) *)
Definition board_to_bbs (bd : list N) : res (list N) :=
  fold_left (fun acc sp =>
    l <- acc ;;
    let '(sq, pc) := sp in
    if pc =? NO_PIECE then Ok l else
    i <- bb_index (piece_color pc) (piece_type pc) ;;
    old <- nth_res l i ;;
    Ok (upd l i (N.lor old (bit sq))))
    (combine (map N.of_nat (seq 0 64)) bd) (Ok (repeat 0 12)).

(* zobrist.go: initZobristHash (with the D1 repair: a right contributes iff it is held) *)
Definition castling_list : list (N * nat) := [(WK, 0%nat); (WQ, 1%nat); (BK, 2%nat); (BQ, 3%nat)].
Definition scratch_hash (p : position) : res N :=
  h1 <- fold_left (fun acc sp =>
          h <- acc ;;
          let '(sq, pc) := sp in
          if pc =? NO_PIECE then Ok h else
          k <- key_piece sq (piece_color pc) (piece_type pc) ;;
          Ok (N.lxor h k))
        (combine (map N.of_nat (seq 0 64)) (board p)) (Ok 0) ;;
  let h2 := if side p =? BLACK then N.lxor h1 (zk_side K) else h1 in
  h3 <- fold_left (fun acc ci =>
          h <- acc ;;
          let '(c, i) := ci in
          if negb (N.land (castling p) c =? 0) then (k <- key_castling_idx i ;; Ok (N.lxor h k)) else Ok h)
        castling_list (Ok h2) ;;
  if negb (ep p =? SQ_NONE) then (k <- key_ep (ep p) ;; Ok (N.lxor h3 k)) else Ok h3.
Definition init_hash (p : position) : res position :=
  h <- scratch_hash p ;; Ok (set_hash p h).

(* the unrepaired initZobristHash: every castling key is always folded in (`|` instead of `&`) *)
Definition scratch_hash_unrepaired (p : position) : res N :=
  h <- scratch_hash (set_castling p 15) ;; Ok h.

(* position.go: SquareAttackedBy *)
Definition bbs2 (p : position) (t : N) : res N :=
  w <- get_bb p WHITE t ;; b <- get_bb p BLACK t ;; Ok (N.lor w b).
Definition square_attacked_by (p : position) (sq : N) : res N :=
  if negb (sq <? 64) then Panic else
  let occ := all_pieces p in
  knights <- bbs2 p KNIGHT ;;
  kings <- bbs2 p KING ;;
  bishops <- bbs2 p BISHOP ;;
  rooks <- bbs2 p ROOK ;;
  queens <- bbs2 p QUEEN ;;
  bp <- get_bb p BLACK PAWN ;;
  wp <- get_bb p WHITE PAWN ;;
  let a := N.land (knight_attacks sq) knights in
  let a := N.lor a (N.land (king_attacks sq) kings) in
  let a := N.lor a (N.land (bishop_attacks sq occ) (N.lor bishops queens)) in
  let a := N.lor a (N.land (rook_attacks sq occ) (N.lor rooks queens)) in
  let a := N.lor a (N.land (pawn_attacks WHITE sq) bp) in
  let a := N.lor a (N.land (pawn_attacks BLACK sq) wp) in
  Ok a.

(* checks.go *)
Definition is_in_check (p : position) (c : N) : res bool :=
  kb <- get_bb p c KING ;;
  sq <- lsb kb ;;
  a <- square_attacked_by p sq ;;
  them <- color_bb p (switch_color c) ;;
  Ok (negb (N.land a them =? 0)).
Definition is_legal (p : position) : res bool :=
  b <- is_in_check p (switch_color (side p)) ;; Ok (negb b).

(* castling.go *)
Definition castling_color (c : N) : N := if (c =? WK) || (c =? WQ) then WHITE else BLACK.
Definition castling_is_queen_side (c : N) : bool := (c =? WQ) || (c =? BQ).
Definition can_castle (p : position) (c : N) : bool := negb (N.land c (castling p) =? 0).

(* the walk: freeFiles / attackedFiles count down (Go ints, may go negative: Z) *)
Fixpoint castle_walk (fuel : nat) (p : position) (queen : bool) (sq : N) (attacked free : Z) : res bool :=
  match fuel with
  | O => Ok true   (* never reached: at most 3 iterations (proved) *)
  | S f =>
    if ((0 <? attacked)%Z || (0 <? free)%Z) then
      let sq := if queen then sub8 sq 1 else add8 sq 1 in
      pc <- (if (0 <? free)%Z then get_piece p sq else Ok NO_PIECE) ;;
      if (0 <? free)%Z && negb (pc =? NO_PIECE) then Ok false else
      let free := (free - 1)%Z in
      att <- (if (0 <? attacked)%Z then
                (a <- square_attacked_by p sq ;; them <- color_bb p (switch_color (side p)) ;;
                 Ok (negb (N.land a them =? 0)))
              else Ok false) ;;
      if att then Ok false else
      castle_walk f p queen sq (attacked - 1)%Z free
    else Ok true
  end.

Definition can_castle_now (p : position) (c : N) : res bool :=
  if negb (can_castle p c) then Ok false else
  if negb (castling_color c =? side p) then Ok false else
  chk <- is_in_check p (side p) ;;
  if chk then Ok false else
  let queen := castling_is_queen_side c in
  kb <- get_bb p (side p) KING ;;
  sq <- lsb kb ;;
  castle_walk 4 p queen sq 2%Z (if queen then 3%Z else 2%Z).

(* moves.go: generators *)
Definition gen_helper (sources occ dest : N) (attacks : N -> N -> N) : list N :=
  flat_map (fun s => map (fun t => mk_move s t) (bits (N.land (attacks s occ) dest))) (bits sources).

Definition promo_types : list N := [KNIGHT; BISHOP; ROOK; QUEEN].
Definition pawn_move_with_promotion (stm src dst : N) : list N :=
  if (stm =? WHITE) && negb (rank_of dst =? 7) then [mk_move src dst]
  else if (stm =? BLACK) && negb (rank_of dst =? 0) then [mk_move src dst]
  else map (fun pt => mk_promo src dst pt) promo_types.

Definition pawn_moves (p : position) (captures_only : bool) (pawns them : N) : list N :=
  let stm := side p in
  flat_map (fun src =>
    (if captures_only then [] else
       flat_map (fun dst => pawn_move_with_promotion stm src dst) (bits (pushes_by_square stm src (all_pieces p))))
    ++ flat_map (fun dst => pawn_move_with_promotion stm src dst) (bits (N.land (pawn_attacks stm src) them))
    ++ (if negb (ep p =? SQ_NONE) then
          map (fun dst => mk_move_kind src dst EN_PASSANT) (bits (N.land (pawn_attacks stm src) (bit (ep p))))
        else []))
    (bits pawns).

Definition castling_moves (p : position) : res (list N) :=
  fold_left (fun acc c =>
    l <- acc ;;
    if negb (castling_color c =? side p) then Ok l else
    ok <- can_castle_now p c ;;
    if negb ok then Ok l else
    kb <- get_bb p (side p) KING ;;
    src <- lsb kb ;;
    let dst := if castling_is_queen_side c then sub8 src 2 else add8 src 2 in
    Ok (l ++ [mv_set_dst (mv_set_src (mv_set_kind 0 CASTLING) src) dst]))
    [WK; WQ; BK; BQ] (Ok []).

Definition gen_moves (p : position) : res (list N) :=
  let stm := side p in
  let occ := all_pieces p in
  own <- color_bb p stm ;;
  them <- color_bb p (switch_color stm) ;;
  let dest := not64 own in
  rooks <- get_bb p stm ROOK ;;
  bishops <- get_bb p stm BISHOP ;;
  queens <- get_bb p stm QUEEN ;;
  knights <- get_bb p stm KNIGHT ;;
  pawns <- get_bb p stm PAWN ;;
  kings <- get_bb p stm KING ;;
  cs <- castling_moves p ;;
  Ok (gen_helper rooks occ dest rook_attacks
      ++ gen_helper bishops occ dest bishop_attacks
      ++ gen_helper queens occ dest queen_attacks
      ++ gen_helper knights 0 dest (fun s _ => knight_attacks s)
      ++ pawn_moves p false pawns them
      ++ cs
      ++ gen_helper kings 0 dest (fun s _ => king_attacks s)).

Definition gen_captures (p : position) : res (list N) :=
  let stm := side p in
  let occ := all_pieces p in
  them <- color_bb p (switch_color stm) ;;
  let dest := them in
  rooks <- get_bb p stm ROOK ;;
  bishops <- get_bb p stm BISHOP ;;
  queens <- get_bb p stm QUEEN ;;
  knights <- get_bb p stm KNIGHT ;;
  pawns <- get_bb p stm PAWN ;;
  kings <- get_bb p stm KING ;;
  Ok (gen_helper rooks occ dest rook_attacks
      ++ gen_helper bishops occ dest bishop_attacks
      ++ gen_helper queens occ dest queen_attacks
      ++ gen_helper knights 0 dest (fun s _ => knight_attacks s)
      ++ pawn_moves p true pawns them
      ++ gen_helper kings 0 dest (fun s _ => king_attacks s)).

Definition is_capture (p : position) (m : N) : res bool :=
  if mv_kind m =? EN_PASSANT then Ok true else
  pc <- get_piece p (mv_dst m) ;; Ok (negb (pc =? NO_PIECE)).

(* moves.go: MakeMove (with the D1 repair: a castling key is toggled exactly when the right is lost) *)
Definition toggle (p : position) (k : N) : position := set_hash p (N.lxor (hash p) k).

Definition lost_rights (sq : N) : N :=
  if sq =? A1 then WQ else if sq =? H1 then WK else if sq =? A8 then BQ else if sq =? H8 then BK
  else if sq =? E1 then N.lor WQ WK else if sq =? E8 then N.lor BQ BK else 0.

Definition revoke (p : position) (sq : N) : res position :=
  let lost := lost_rights sq in
  fold_left (fun acc ci =>
    q <- acc ;;
    let '(c, i) := ci in
    if negb (N.land (N.land lost c) (castling q) =? 0) then
      k <- key_castling_idx i ;;
      Ok (toggle (set_castling q (N.ldiff (castling q) c)) k)
    else Ok q)
    castling_list (Ok p).

Definition abs_diff (a b : N) : N := if a <? b then b - a else a - b.

Definition make_move (p : position) (m : N) : res position :=
  let stm := side p in
  (* clear en passant *)
  p <- (if negb (ep p =? SQ_NONE) then (k <- key_ep (ep p) ;; Ok (set_ep (toggle p k) SQ_NONE)) else Ok p) ;;
  let src := mv_src m in
  let dst := mv_dst m in
  target <- get_piece p dst ;;
  r <- (if negb (target =? NO_PIECE) then (r <- delete_piece p dst ;; Ok (fst r, true)) else Ok (p, false)) ;;
  let '(p, reset) := r in
  p <- revoke p src ;;
  p <- revoke p dst ;;
  r <- move_piece p src dst ;;
  let '(p, piece) := r in
  r <- (if piece_type piece =? PAWN then
          if abs_diff src dst =? 16 then
            k <- key_ep dst ;;
            let p := toggle (set_ep p dst) k in
            (* pos.EnPassant += / -= FILE_NUMBER on uint8 *)
            Ok (set_ep p (if stm =? BLACK then add8 dst 8 else sub8 dst 8), true)
          else Ok (p, true)
        else Ok (p, reset)) ;;
  let '(p, reset) := r in
  p <- (let kind := mv_kind m in
        if kind =? CASTLING then
          if dst =? C1 then (r <- move_piece p A1 D1 ;; Ok (fst r))
          else if dst =? G1 then (r <- move_piece p H1 F1 ;; Ok (fst r))
          else if dst =? C8 then (r <- move_piece p A8 D8 ;; Ok (fst r))
          else if dst =? G8 then (r <- move_piece p H8 F8 ;; Ok (fst r))
          else Panic
        else if kind =? EN_PASSANT then
          let victim := if stm =? WHITE then sub8 dst 8 else add8 dst 8 in
          r <- delete_piece p victim ;; Ok (fst r)
        else if kind =? PROMOTION then
          r <- delete_piece p dst ;;
          set_piece (fst r) (new_piece stm (mv_promo m)) dst
        else Ok p) ;;
  let p := set_side p (switch_color stm) in
  let p := toggle p (zk_side K) in
  let p := set_counters p (if reset then 0 else add8 (hmc p) 1) (add8 (ply p) 1) in
  Ok (gen_helpers p).

(* the unrepaired rights handling of MakeMove: keys toggled on every touch of a home square,
   a8 toggling the black king-side key (D1) *)
Definition revoke_unrepaired (p : position) (sq : N) : res position :=
  let tg (q : position) (i : nat) : res position := (k <- key_castling_idx i ;; Ok (toggle q k)) in
  if sq =? A1 then tg (set_castling p (N.ldiff (castling p) WQ)) 1%nat
  else if sq =? H1 then tg (set_castling p (N.ldiff (castling p) WK)) 0%nat
  else if sq =? A8 then tg (set_castling p (N.ldiff (castling p) BQ)) 2%nat
  else if sq =? H8 then tg (set_castling p (N.ldiff (castling p) BK)) 2%nat
  else if sq =? E1 then (q <- tg (set_castling p (N.ldiff (castling p) (N.lor WQ WK))) 1%nat ;; tg q 0%nat)
  else if sq =? E8 then (q <- tg (set_castling p (N.ldiff (castling p) (N.lor BQ BK))) 3%nat ;; tg q 2%nat)
  else Ok p.

Definition make_null_move (p : position) : res (position * N) :=
  let e := ep p in
  let p := set_counters p (hmc p) (add8 (ply p) 1) in
  p <- (if negb (e =? SQ_NONE) then (k <- key_ep e ;; Ok (set_ep (toggle p k) SQ_NONE)) else Ok p) ;;
  let p := toggle (set_side p (switch_color (side p))) (zk_side K) in
  Ok (p, e).

Definition unmake_null_move (p : position) (e : N) : res position :=
  let p := set_counters p (hmc p) (sub8 (ply p) 1) in
  p <- (if negb (e =? SQ_NONE) then (k <- key_ep e ;; Ok (toggle (set_ep p e) k)) else Ok p) ;;
  Ok (toggle (set_side p (switch_color (side p))) (zk_side K)).

(* legal moves as search and perft compute them: generate, make on a copy, keep if legal *)
Definition legal_moves (p : position) : res (list N) :=
  ms <- gen_moves p ;;
  fold_right (fun m acc =>
    l <- acc ;;
    q <- make_move p m ;;
    ok <- is_legal q ;;
    Ok (if ok then m :: l else l)) (Ok []) ms.

(* position.New() *)
Definition start_board : list N :=
  [4;2;3;5;6;3;2;4; 1;1;1;1;1;1;1;1] ++ repeat 0 32 ++ [9;9;9;9;9;9;9;9; 12;10;11;13;14;11;10;12].
Definition empty_position : position :=
  {| bbs := repeat 0 12; hash := 0; all_pieces := 0; by_color := [0; 0]; board := repeat 0 64;
     side := WHITE; castling := 0; ep := 0; hmc := 0; ply := 0 |}.
Definition new_position : res position :=
  b <- board_to_bbs start_board ;;
  let p := {| bbs := b; hash := 0; all_pieces := 0; by_color := [0; 0]; board := start_board;
              side := WHITE; castling := 15; ep := SQ_NONE; hmc := 0; ply := 0 |} in
  init_hash (gen_helpers p).

End Keys.
