(* C09, defect D1: the UNREPAIRED hashing code violated the property. Witnesses computed with the
   generated keys.
     (1) initZobristHash tested `pos.Castling | castling != 0` (always true): all four castling keys
         were folded in whatever the rights ([scratch_hash_unrepaired]); two positions that differ
         only in castling rights got the same hash.
     (2) MakeMove toggled a castling key on every touch of a rook/king home square whether or not
         the right was still held, and a8 toggled the black KING-side key ([revoke_unrepaired]): the
         incrementally maintained hash left the from-scratch hash. *)
From Coq Require Import NArith List Bool String.
From Clemens Require Import Base.Res Base.Word Base.Bytes Pos.Types Att.Attacks Pos.Position Pos.Fen Pos.Inv
  Pos.ZobristProofs Pos.ZobristInst.
From ClemensGen Require Import GoConsts.
Import ListNotations.
Open Scope N_scope.

(* MakeMove as it was: [make_move] of Pos/Position.v with [revoke_unrepaired] for [revoke] *)
Definition make_move_unrepaired (K : zkeys) (p : position) (m : N) : res position :=
  let stm := side p in
  p <- (if negb (ep p =? SQ_NONE) then (k <- key_ep K (ep p) ;; Ok (set_ep (toggle p k) SQ_NONE)) else Ok p) ;;
  let src := mv_src m in
  let dst := mv_dst m in
  target <- get_piece p dst ;;
  r <- (if negb (target =? NO_PIECE) then (r <- delete_piece K p dst ;; Ok (fst r, true)) else Ok (p, false)) ;;
  let '(p, reset) := r in
  p <- revoke_unrepaired K p src ;;
  p <- revoke_unrepaired K p dst ;;
  r <- move_piece K p src dst ;;
  let '(p, piece) := r in
  r <- (if piece_type piece =? PAWN then
          if abs_diff src dst =? 16 then
            k <- key_ep K dst ;;
            let p := toggle (set_ep p dst) k in
            Ok (set_ep p (if stm =? BLACK then add8 dst 8 else sub8 dst 8), true)
          else Ok (p, true)
        else Ok (p, reset)) ;;
  let '(p, reset) := r in
  p <- (let kind := mv_kind m in
        if kind =? CASTLING then
          if dst =? C1 then (r <- move_piece K p A1 D1 ;; Ok (fst r))
          else if dst =? G1 then (r <- move_piece K p H1 F1 ;; Ok (fst r))
          else if dst =? C8 then (r <- move_piece K p A8 D8 ;; Ok (fst r))
          else if dst =? G8 then (r <- move_piece K p H8 F8 ;; Ok (fst r))
          else Panic
        else if kind =? EN_PASSANT then
          let victim := if stm =? WHITE then sub8 dst 8 else add8 dst 8 in
          r <- delete_piece K p victim ;; Ok (fst r)
        else if kind =? PROMOTION then
          r <- delete_piece K p dst ;;
          set_piece K (fst r) (new_piece stm (mv_promo m)) dst
        else Ok p) ;;
  let p := set_side p (switch_color stm) in
  let p := toggle p (zk_side K) in
  let p := set_counters p (if reset then 0 else add8 (hmc p) 1) (add8 (ply p) 1) in
  Ok (gen_helpers p).

(* the copy is faithful: with the repaired [revoke] it IS [make_move] *)
Remark make_move_unrepaired_shape : forall K p m,
  make_move K p m =
  ltac:(let t := eval unfold make_move_unrepaired in (make_move_unrepaired K p m) in
        let t' := eval pattern (revoke_unrepaired K) in t in
        match t' with ?f _ => exact (f (revoke K)) end).
Proof. reflexivity. Qed.

(* the unrepaired NewFromFen: the hash it stored was the unrepaired from-scratch hash *)
Definition fen_unrepaired (s : string) : res position :=
  p <- go_fen s ;; h <- scratch_hash_unrepaired go_keys p ;; Ok (set_hash p h).

Definition fen_all : string := "r3k2r/8/8/8/8/8/8/R3K2R w KQkq - 0 1".
Definition fen_none : string := "r3k2r/8/8/8/8/8/8/R3K2R w - - 0 1".
Definition fen_all_black : string := "r3k2r/8/8/8/8/8/8/R3K2R b KQkq - 0 1".
Definition a1b1 : N := mk_move A1 1.
Definition a8b8 : N := mk_move A8 57.

(* (1) same placement, side and en-passant state, DIFFERENT castling rights, SAME unrepaired hash;
       the repaired hash tells them apart *)
Theorem unrepaired_castling_collision :
  exists p1 p2, go_fen fen_all = Ok p1 /\ go_fen fen_none = Ok p2 /\
    board p1 = board p2 /\ side p1 = side p2 /\ ep p1 = ep p2 /\ castling p1 <> castling p2 /\
    scratch_hash_unrepaired go_keys p1 = scratch_hash_unrepaired go_keys p2 /\
    (exists h, scratch_hash_unrepaired go_keys p1 = Ok h) /\
    scratch_hash go_keys p1 <> scratch_hash go_keys p2.
Proof.
  eexists _, _. split; [vm_compute; reflexivity|]. split; [vm_compute; reflexivity|].
  repeat split; try (vm_compute; reflexivity); try (vm_compute; discriminate).
  eexists. vm_compute. reflexivity.
Qed.

(* (2a) the code as it was (unrepaired init, unrepaired MakeMove): after a1b1 the maintained hash is
        not the from-scratch hash that the same code computes for the resulting position.
        (Here the maintained value happens to equal the REPAIRED from-scratch hash: on a1b1 from KQkq
        the old MakeMove toggled the right key; what was wrong was the from-scratch side. (2b) shows the
        old MakeMove wrong on its own.) *)
Theorem unrepaired_incremental_mismatch :
  exists p q, fen_unrepaired fen_all = Ok p /\ make_move_unrepaired go_keys p a1b1 = Ok q /\
    scratch_hash_unrepaired go_keys p = Ok (hash p) /\
    scratch_hash_unrepaired go_keys q <> Ok (hash q).
Proof.
  eexists _, _. split; [vm_compute; reflexivity|]. split; [vm_compute; reflexivity|].
  split; [vm_compute; reflexivity | vm_compute; discriminate].
Qed.

(* (2b) the unrepaired MakeMove alone, started from a CORRECT hash: a8b8 toggles the wrong key *)
Theorem unrepaired_revoke_mismatch :
  exists p q, go_fen fen_all_black = Ok p /\ scratch_hash go_keys p = Ok (hash p) /\
    make_move_unrepaired go_keys p a8b8 = Ok q /\ scratch_hash go_keys q <> Ok (hash q) /\
    (exists q', make_move go_keys p a8b8 = Ok q' /\ scratch_hash go_keys q' = Ok (hash q')).
Proof.
  eexists _, _. split; [vm_compute; reflexivity|]. split; [vm_compute; reflexivity|].
  split; [vm_compute; reflexivity|]. split; [vm_compute; discriminate|].
  eexists. split; vm_compute; reflexivity.
Qed.

(* the two D1 statements together *)
Theorem unrepaired_refuted :
  (exists p1 p2, go_fen fen_all = Ok p1 /\ go_fen fen_none = Ok p2 /\
     board p1 = board p2 /\ side p1 = side p2 /\ ep p1 = ep p2 /\ castling p1 <> castling p2 /\
     scratch_hash_unrepaired go_keys p1 = scratch_hash_unrepaired go_keys p2 /\
     (exists h, scratch_hash_unrepaired go_keys p1 = Ok h) /\
     scratch_hash go_keys p1 <> scratch_hash go_keys p2) /\
  (exists p q, fen_unrepaired fen_all = Ok p /\ make_move_unrepaired go_keys p a1b1 = Ok q /\
     scratch_hash_unrepaired go_keys p = Ok (hash p) /\
     scratch_hash_unrepaired go_keys q <> Ok (hash q)).
Proof. split; [exact unrepaired_castling_collision | exact unrepaired_incremental_mismatch]. Qed.
