(* C11, stronger second form: a SYNTACTIC notion of canonical FEN text, and
     canonical_fen s -> exists p, parse s = Ok p /\ print p = Ok s.
   The grammar is given as abstract syntax (eight ranks of items - piece letters and digit runs -,
   side, rights, en-passant square, two counters) with an explicit renderer; the constraints are
   the usual ones: every rank is 8 squares wide, digits are 1..8 and never adjacent, rights are a
   subsequence of "KQkq" or "-", the en-passant field is "-" or a square name, numbers are plain
   decimals, half-move clock <= 255 and 1 <= full-move number <= 128 (the engine's uint8 counters).
   Proofs only. *)
From Coq Require Import NArith ZArith List Bool Lia ZifyBool ZifyN ZifyNat.
From Clemens Require Import Base.Res Base.Word Base.Bytes Pos.Types Att.Attacks Pos.Position Pos.Fen Pos.Inv.
From Clemens Require Import Pos.FenTotal Pos.FenRoundtrip.
Import ListNotations.
Open Scope N_scope.
Ltac Zify.zify_post_hook ::= Z.to_euclidean_division_equations.

(* ---------------------------------------------------------------------------------------- *)
(* abstract syntax and renderer                                                             *)

Inductive item := Pc (pc : N) | Gap (n : nat).

Definition item_ok (it : item) : Prop :=
  match it with Pc pc => valid_piece pc = true | Gap n => (1 <= n <= 8)%nat end.
Definition is_gap (it : item) : bool := match it with Gap _ => true | Pc _ => false end.
Definition starts_gap (l : list item) : bool := match l with it :: _ => is_gap it | [] => false end.
Fixpoint no_adj_gaps (l : list item) : Prop :=
  match l with
  | [] => True
  | it :: r => (is_gap it = true -> starts_gap r = false) /\ no_adj_gaps r
  end.
Definition item_width (it : item) : nat := match it with Pc _ => 1%nat | Gap n => n end.
Fixpoint width (l : list item) : nat :=
  match l with [] => 0%nat | it :: r => (item_width it + width r)%nat end.
Definition rank_ok (l : list item) : Prop := Forall item_ok l /\ no_adj_gaps l /\ width l = 8%nat.

Definition pchar (pc : N) : N := nth (N.to_nat pc) piece_chars 0.
Definition render_item (it : item) : bytes :=
  match it with Pc pc => [pchar pc] | Gap n => [48 + N.of_nat n] end.
Definition render_items (l : list item) : bytes := flat_map render_item l.

Fixpoint join_slash (l : list bytes) : bytes :=
  match l with
  | [] => []
  | [x] => x
  | x :: r => x ++ 47 :: join_slash r
  end.

Record fen_syntax := {
  fs_rows : list (list item);    (* rank 8 first, as in the text *)
  fs_side : N;                   (* 0 white, 1 black *)
  fs_castling : N;               (* rights as a bit set WK 1, WQ 2, BK 4, BQ 8 *)
  fs_ep : N;                     (* square 0..63, or 64 for "-" *)
  fs_hmc : N;
  fs_full : N
}.

Definition fen_syntax_ok (x : fen_syntax) : Prop :=
  length (fs_rows x) = 8%nat /\ Forall rank_ok (fs_rows x) /\
  (fs_side x = 0 \/ fs_side x = 1) /\ fs_castling x < 16 /\ fs_ep x <= 64 /\
  fs_hmc x <= 255 /\ 1 <= fs_full x <= 128.

Definition ep_text (e : N) : bytes := if e =? 64 then [45] else [97 + e mod 8; 49 + e / 8].

Definition render_fen (x : fen_syntax) : bytes :=
  join_slash (map render_items (fs_rows x))
  ++ [32; if fs_side x =? 0 then 119 else 98; 32]
  ++ cas_string (fs_castling x) ++ [32] ++ ep_text (fs_ep x) ++ [32]
  ++ itoa (fs_hmc x) ++ [32] ++ itoa (fs_full x).

Definition canonical_fen (s : bytes) : Prop := exists x, fen_syntax_ok x /\ s = render_fen x.

(* the sixteen rights texts, spelled out *)
Lemma cas_string_texts :
  map cas_string [0; 1; 2; 3; 4; 5; 6; 7; 8; 9; 10; 11; 12; 13; 14; 15] =
  [[45]; [75]; [81]; [75; 81]; [107]; [75; 107]; [81; 107]; [75; 81; 107];
   [113]; [75; 113]; [81; 113]; [75; 81; 113]; [107; 113]; [75; 107; 113]; [81; 107; 113];
   [75; 81; 107; 113]].
Proof. vm_compute. reflexivity. Qed.

(* ---------------------------------------------------------------------------------------- *)
(* a rank as a list of eight codes                                                          *)

Definition expand_item (it : item) : list N := match it with Pc pc => [pc] | Gap n => repeat 0 n end.
Definition expand_items (l : list item) : list N := flat_map expand_item l.

Lemma length_expand (l : list item) : length (expand_items l) = width l.
Proof.
  induction l as [|it r IH]; [reflexivity|]. cbn [expand_items flat_map width].
  rewrite app_length. fold (expand_items r). rewrite IH. f_equal.
  destruct it; cbn; [reflexivity | apply repeat_length].
Qed.

Lemma expand_codes (l : list item) : Forall item_ok l -> Forall code_ok (expand_items l).
Proof.
  induction 1 as [|it r Hit Hr IH]; [constructor|]. unfold expand_items in *. cbn [flat_map].
  apply Forall_app. split; [|exact IH].
  destruct it as [pc|n]; cbn [expand_item].
  - constructor; [right; exact Hit | constructor].
  - apply Forall_forall. intros x Hx. apply repeat_spec in Hx. left. exact Hx.
Qed.

Lemma piece_to_char_pchar (pc : N) : valid_piece pc = true -> piece_to_char pc = Ok (pchar pc).
Proof.
  intros H. unfold piece_to_char, pchar. apply nth_res_nth.
  unfold valid_piece in H. cbn [piece_chars length]. lia.
Qed.

(* the printer's rank loop on a plain list of codes *)
Fixpoint render_row (codes : list N) (e : N) : bytes :=
  match codes with
  | [] => if e =? 0 then [] else itoa e
  | pc :: r =>
    if pc =? 0 then render_row r (e + 1)
    else (if e =? 0 then [] else itoa e) ++ pchar pc :: render_row r 0
  end.

Lemma render_row_gap (n : nat) : forall l e,
  render_row (repeat 0 n ++ l) e = render_row l (e + N.of_nat n).
Proof.
  induction n as [|n IH]; intros l e.
  - cbn [repeat app]. f_equal. lia.
  - cbn [repeat app render_row]. cbn [N.eqb]. rewrite IH. f_equal. lia.
Qed.

Lemma render_row_items : forall (items : list item) (e : N),
  Forall item_ok items -> no_adj_gaps items -> (e <> 0 -> starts_gap items = false) ->
  (N.to_nat e + width items <= 8)%nat ->
  render_row (expand_items items) e = (if e =? 0 then [] else itoa e) ++ render_items items.
Proof.
  induction items as [|it r IH]; intros e Hok Hadj He Hw.
  - cbn. rewrite app_nil_r. reflexivity.
  - inversion Hok as [|? ? Hit Hr]; subst. destruct Hadj as [Hg Hadj].
    cbn [expand_items flat_map render_items]. fold (expand_items r). fold (render_items r).
    destruct it as [pc|n]; cbn [expand_item render_item item_ok is_gap width item_width] in *.
    + cbn [app render_row].
      replace (pc =? 0) with false by (unfold valid_piece in Hit; lia).
      rewrite IH; [reflexivity | assumption | assumption | congruence | cbn; lia].
    + assert (e = 0).
      { destruct (N.eq_dec e 0) as [E|E]; [exact E|]. specialize (He E). discriminate. }
      subst e. rewrite render_row_gap. cbn [N.eqb app].
      rewrite IH; [|assumption|assumption|intros _; apply Hg; reflexivity|lia].
      replace (0 + N.of_nat n =? 0) with false by lia.
      rewrite itoa_small by lia. reflexivity.
Qed.

(* ---------------------------------------------------------------------------------------- *)
(* the printer on a position, rank by rank                                                   *)

Section RankPrint.
Variable p : position.
Hypothesis Hlen : length (board p) = 64%nat.
Hypothesis Hcodes : forall sq, sq < 64 -> code_ok (piece_at p sq).
Variable rank : N.
Hypothesis Hrank : rank < 8.

Lemma get_piece_rank (f : N) : f < 8 -> get_piece p (sq_of rank f) = Ok (piece_at p (8 * rank + f)).
Proof.
  intros Hf. rewrite sq_of_eq by assumption. unfold get_piece, piece_at.
  apply nth_res_nth. clear Hcodes. lia.
Qed.

Lemma fen_rank_row : forall files f0 e,
  consec f0 files -> f0 + N.of_nat (length files) = 8 ->
  fen_rank p rank files e = Ok (render_row (map (fun f => piece_at p (8 * rank + f)) files) e).
Proof.
  induction files as [|f fs IH]; intros f0 e Hcon Hf0; [reflexivity|].
  destruct Hcon as [-> Hcon]. cbn [length] in Hf0.
  cbn [fen_rank map render_row]. rewrite get_piece_rank by lia. cbn [bind].
  unfold NO_PIECE.
  destruct (Hcodes (8 * rank + f0)) as [Hz|Hv]; [lia| |].
  - rewrite Hz. cbn [N.eqb]. apply (IH (f0 + 1)); [exact Hcon | lia].
  - replace (piece_at p (8 * rank + f0) =? 0) with false by (unfold valid_piece in Hv; lia).
    rewrite piece_to_char_pchar by exact Hv. cbn [bind].
    rewrite (IH (f0 + 1)); [reflexivity | exact Hcon | lia].
Qed.

End RankPrint.

(* ---------------------------------------------------------------------------------------- *)
(* list facts                                                                               *)

Lemma nth_flat_uniform {A B} (g : A -> list B) (k : nat) (d : B) (x0 : A) (l : list A) :
  Forall (fun x => length (g x) = k) l ->
  forall r f, (r < length l)%nat -> (f < k)%nat ->
  nth (k * r + f) (flat_map g l) d = nth f (g (nth r l x0)) d.
Proof.
  induction 1 as [|a l Ha Hl IH]; intros r f Hr Hf; cbn [length] in Hr; [lia|].
  cbn [flat_map]. destruct r as [|r].
  - rewrite Nat.mul_0_r, Nat.add_0_l. cbn [nth]. apply app_nth1. lia.
  - rewrite app_nth2 by (rewrite Ha; lia). rewrite Ha.
    replace (k * S r + f - k)%nat with (k * r + f)%nat by lia.
    cbn [nth]. apply IH; lia.
Qed.

Lemma length_flat_uniform {A B} (g : A -> list B) (k : nat) (l : list A) :
  Forall (fun x => length (g x) = k) l -> length (flat_map g l) = (k * length l)%nat.
Proof.
  induction 1 as [|a l Ha Hl IH]; [cbn; lia|]. cbn [flat_map length]. rewrite app_length, Ha, IH. lia.
Qed.

Lemma bytes_eqb_eq (a b : bytes) : bytes_eqb a b = true -> a = b.
Proof.
  revert b; induction a as [|x a IH]; intros [|y b] H; cbn in H; try discriminate; [reflexivity|].
  apply andb_prop in H as [H1 H2]. apply N.eqb_eq in H1. subst. f_equal. apply IH. exact H2.
Qed.

Lemma ep_text_table :
  forallb (fun sq => match square_to_string sq with Ok s => bytes_eqb s (ep_text sq) | _ => false end)
          squares64 = true.
Proof. vm_compute. reflexivity. Qed.

Lemma testbits_lt_two64 (a : N) : (forall n, 64 <= n -> N.testbit a n = false) -> a < two64.
Proof.
  intros H. destruct (N.eq_dec a 0) as [->|Hne]; [reflexivity|].
  change two64 with (2 ^ 64). apply N.log2_lt_pow2; [lia|].
  destruct (N.lt_ge_cases (N.log2 a) 64) as [Hlt|Hge]; [exact Hlt|].
  specialize (H _ Hge). rewrite N.bit_log2 in H by exact Hne. discriminate.
Qed.

Fixpoint descn (n : nat) : list nat := match n with O => [0%nat] | S k => S k :: descn k end.

(* ---------------------------------------------------------------------------------------- *)
(* from syntax to a position that prints as the text                                        *)

Section Build.
Variable x : fen_syntax.
Hypothesis Hx : fen_syntax_ok x.

Definition cboard : list N := flat_map expand_items (rev (fs_rows x)).
Definition cbbs : list N :=
  fst (place_all (mk [] cboard 0) (order 7) (repeat 0 12, repeat 0 64)).
Definition cpos (h : N) : position :=
  let pb := mk cbbs cboard 0 in
  {| bbs := cbbs; hash := h; all_pieces := N.lor (union6 pb 0) (union6 pb 1);
     by_color := [union6 pb 0; union6 pb 1]; board := cboard;
     side := fs_side x; castling := fs_castling x; ep := fs_ep x; hmc := fs_hmc x;
     ply := 2 * fs_full x - 2 + fs_side x |}.

Lemma rows_uniform : Forall (fun r => length (expand_items r) = 8%nat) (rev (fs_rows x)).
Proof.
  destruct Hx as (_ & Hrows & _). apply Forall_forall. intros r Hr. apply in_rev in Hr.
  rewrite Forall_forall in Hrows. destruct (Hrows r Hr) as (_ & _ & Hw).
  rewrite length_expand. exact Hw.
Qed.

Lemma cboard_len : length cboard = 64%nat.
Proof.
  unfold cboard. rewrite (length_flat_uniform _ 8 _ rows_uniform), rev_length.
  destruct Hx as (-> & _). reflexivity.
Qed.

Lemma cboard_codes : Forall code_ok cboard.
Proof.
  apply Forall_forall. intros c Hc. unfold cboard in Hc. apply in_flat_map in Hc as [r [Hr Hc]].
  apply in_rev in Hr. destruct Hx as (_ & Hrows & _). rewrite Forall_forall in Hrows.
  destruct (Hrows r Hr) as (Hok & _). pose proof (expand_codes r Hok) as H.
  rewrite Forall_forall in H. apply H. exact Hc.
Qed.

Lemma cpos_codes h sq : sq < 64 -> code_ok (piece_at (cpos h) sq).
Proof.
  intros Hsq. unfold piece_at. cbn [board cpos].
  pose proof cboard_codes as H. rewrite Forall_forall in H. apply H. apply nth_In.
  rewrite cboard_len. lia.
Qed.

Lemma cbbs_len : length cbbs = 12%nat.
Proof. unfold cbbs. rewrite place_all_len1. reflexivity. Qed.

Lemma cpos_struct h : fen_struct (cpos h).
Proof.
  destruct Hx as (Hrl & Hrows & Hside & Hcas & Hep & Hhmc & Hfull).
  unfold fen_struct. cbn [board bbs castling side hmc ply ep cpos].
  split; [exact cboard_len|]. split; [intros sq; apply cpos_codes|]. split; [exact cbbs_len|].
  split.
  { intros c t Hct.
    assert (Hbits : forall n, N.testbit (bb_at (cpos h) c t) n =
                    (n <? 64) && (piece_at (cpos h) n =? new_piece c t)).
    { intros n. unfold bb_at. cbn [bbs cpos]. unfold cbbs.
      rewrite place_all_bbs; [|exact order7_lt| |reflexivity].
      2: { intros sq Hin. pose proof order7_lt as Hlt. rewrite Forall_forall in Hlt.
           apply (cpos_codes 0 sq). apply Hlt. exact Hin. }
      cbn [fst]. rewrite nth_repeat0, N.bits_0. cbn [orb].
      change (piece_at (mk [] cboard 0) n) with (piece_at (cpos h) n).
      destruct (N.lt_ge_cases n 64) as [Hn|Hn].
      - rewrite order7_all by exact Hn. replace (n <? 64) with true by lia. cbn [andb].
        apply pidx_spec; [apply cpos_codes; exact Hn | exact Hct].
      - rewrite order7_none by exact Hn. replace (n <? 64) with false by lia. reflexivity. }
    split.
    - apply testbits_lt_two64. intros n Hn. rewrite Hbits. replace (n <? 64) with false by lia. reflexivity.
    - intros sq Hsq. rewrite Hbits. replace (sq <? 64) with true by lia. reflexivity. }
  split.
  { unfold helpers_agree. cbn [by_color all_pieces cpos].
    change (union6 (cpos h) 0) with (union6 (mk cbbs cboard 0) 0).
    change (union6 (cpos h) 1) with (union6 (mk cbbs cboard 0) 1).
    rewrite !N.eqb_refl. reflexivity. }
  unfold WHITE, BLACK. repeat split; lia.
Qed.

Lemma cpos_parity h : ply_parity (cpos h).
Proof.
  destruct Hx as (_ & _ & Hside & _ & _ & _ & Hfull).
  unfold ply_parity. cbn [ply side cpos]. destruct Hside as [-> | ->]; lia.
Qed.

Section BuildHash.
Variable K : zkeys.
Hypothesis HK : fen_keys_wf K = true.
Lemma cpos_hash : exists h, hash_scratch_ok K (cpos h).
Proof.
  destruct (scratch_hash_ok K HK (cpos 0)) as [h Hh].
  { split; [exact cbbs_len | exact cboard_codes]. }
  exists h. unfold hash_scratch_ok. cbn [hash cpos].
  rewrite (scratch_hash_congr K (cpos 0) (cpos h)) by reflexivity. exact Hh.
Qed.
End BuildHash.

(* the printer on [cpos h] *)
Lemma row_at h (r f : nat) : (r < 8)%nat -> (f < 8)%nat ->
  piece_at (cpos h) (8 * N.of_nat r + N.of_nat f) = nth f (expand_items (nth r (rev (fs_rows x)) [])) 0.
Proof.
  intros Hr Hf. unfold piece_at. cbn [board cpos]. unfold cboard.
  replace (N.to_nat (8 * N.of_nat r + N.of_nat f)) with (8 * r + f)%nat by lia.
  apply nth_flat_uniform; [exact rows_uniform | | exact Hf].
  rewrite rev_length. destruct Hx as (-> & _). exact Hr.
Qed.

Lemma row_rank_ok (r : nat) : (r < 8)%nat -> rank_ok (nth r (rev (fs_rows x)) []).
Proof.
  intros Hr. destruct Hx as (Hl & Hrows & _). rewrite Forall_forall in Hrows. apply Hrows.
  apply in_rev. apply nth_In. rewrite rev_length, Hl. exact Hr.
Qed.

Lemma row_map h (r : nat) : (r < 8)%nat ->
  map (fun f => piece_at (cpos h) (8 * N.of_nat r + f)) files8 = expand_items (nth r (rev (fs_rows x)) []).
Proof.
  intros Hr. destruct (row_rank_ok r Hr) as (_ & _ & Hw).
  apply nth_ext with (d := 0) (d' := 0).
  - rewrite map_length, length_expand, Hw. reflexivity.
  - rewrite map_length. cbn [files8 length]. intros n Hn.
    destruct n as [|n]; [exact (row_at h r 0 Hr ltac:(lia))|].
    destruct n as [|n]; [exact (row_at h r 1 Hr ltac:(lia))|].
    destruct n as [|n]; [exact (row_at h r 2 Hr ltac:(lia))|].
    destruct n as [|n]; [exact (row_at h r 3 Hr ltac:(lia))|].
    destruct n as [|n]; [exact (row_at h r 4 Hr ltac:(lia))|].
    destruct n as [|n]; [exact (row_at h r 5 Hr ltac:(lia))|].
    destruct n as [|n]; [exact (row_at h r 6 Hr ltac:(lia))|].
    destruct n as [|n]; [exact (row_at h r 7 Hr ltac:(lia))|]. lia.
Qed.

Lemma rank_text h (r : nat) : (r < 8)%nat ->
  fen_rank (cpos h) (N.of_nat r) files8 0 = Ok (render_items (nth r (rev (fs_rows x)) [])).
Proof.
  intros Hr.
  rewrite (fen_rank_row (cpos h) cboard_len (cpos_codes h) (N.of_nat r) ltac:(lia) files8 0 0 consec_files8)
    by reflexivity.
  rewrite row_map by exact Hr. destruct (row_rank_ok r Hr) as (Hok & Hadj & Hw).
  rewrite render_row_items; [reflexivity | exact Hok | exact Hadj | congruence | rewrite Hw; cbn; lia].
Qed.

Lemma placement_text h : forall n, (n < 8)%nat -> forall s0,
  fold_left (tstep (cpos h)) (desc n) (Ok s0) =
  Ok (s0 ++ join_slash (map (fun r => render_items (nth r (rev (fs_rows x)) [])) (descn n))).
Proof.
  induction n as [|n IH]; intros Hn s0.
  - cbn [desc fold_left descn map join_slash]. unfold tstep. cbn [bind].
    pose proof (rank_text h 0 Hn) as R0. change (N.of_nat 0) with 0 in R0.
    rewrite R0. cbn [bind]. change (0 <? 0) with false. cbv iota.
    rewrite app_nil_r. reflexivity.
  - cbn [desc fold_left descn map]. unfold tstep at 2. cbn [bind].
    rewrite (rank_text h (S n) Hn). cbn [bind].
    replace (0 <? N.of_nat (S n)) with true by lia. cbv iota.
    etransitivity; [apply IH; lia|]. f_equal.
    destruct n as [|n]; cbn [descn map join_slash]; rewrite <- !app_assoc; reflexivity.
Qed.

End Build.

(* ---------------------------------------------------------------------------------------- *)
(* the theorem                                                                              *)

Section Canonical.
Variable K : zkeys.
Hypothesis HK : fen_keys_wf K = true.
Variable tbl : list (N * N * N).

Lemma to_fen_cpos (x : fen_syntax) (h : N) : fen_syntax_ok x -> to_fen (cpos x h) = Ok (render_fen x).
Proof.
  intros Hx. rewrite to_fen_eq.
  assert (Hpl : fold_left (tstep (cpos x h)) (desc 7) (Ok []) =
                Ok (join_slash (map (fun r => render_items (nth r (rev (fs_rows x)) [])) (descn 7))))
    by exact (placement_text x Hx h 7 ltac:(lia) []).
  unfold bytes in *. rewrite Hpl. clear Hpl. cbn [bind app].
  destruct Hx as (Hrl & Hrows & Hside & Hcas & Hep & Hhmc & Hfull).
  assert (Heps : (if ep (cpos x h) =? SQ_NONE then Ok [45] else square_to_string (ep (cpos x h)))
                 = Ok (ep_text (fs_ep x))).
  { cbn [ep cpos]. unfold SQ_NONE, ep_text. destruct (fs_ep x =? 64) eqn:E; [reflexivity|].
    pose proof ep_text_table as T. rewrite forallb_forall in T.
    assert (Hlt : fs_ep x < 64) by lia.
    specialize (T (fs_ep x) (in_squares64 (fs_ep x) Hlt)). cbv beta in T.
    destruct (square_to_string (fs_ep x)) as [s| |]; try discriminate.
    apply bytes_eqb_eq in T. unfold ep_text in T. rewrite E in T. rewrite T. reflexivity. }
  rewrite Heps. cbn [bind]. f_equal.
  unfold fen_of, render_fen. cbn [side castling hmc ply cpos].
  f_equal.
  - destruct (fs_rows x) as [|r8 [|r7 [|r6 [|r5 [|r4 [|r3 [|r2 [|r1 [|]]]]]]]]]; try discriminate Hrl.
    reflexivity.
  - f_equal.
    + unfold WHITE. destruct (fs_side x =? 0); reflexivity.
    + do 6 f_equal. f_equal. unfold w8. clear - Hside Hfull. lia.
Qed.

Theorem canonical_parse_print (s : bytes) :
  canonical_fen s -> exists p, new_from_fen K tbl s = Ok p /\ to_fen p = Ok s.
Proof.
  intros [x [Hx ->]].
  destruct (cpos_hash x Hx K HK) as [h Hh].
  destruct (fen_roundtrip_struct K HK tbl (cpos x h) (cpos_struct x Hx h) Hh (cpos_parity x Hx h))
    as [s [Hs Hr]].
  rewrite (to_fen_cpos x h Hx) in Hs. injection Hs as <-.
  exists (cpos x h). split; [exact Hr | exact (to_fen_cpos x h Hx)].
Qed.

(* in the shape of the property text: printing a parsed canonical FEN reproduces the text *)
Corollary canonical_print_parse (s : bytes) :
  canonical_fen s -> forall p, new_from_fen K tbl s = Ok p -> to_fen p = Ok s.
Proof.
  intros Hc p Hp. destruct (canonical_parse_print s Hc) as [q [Hq Hs]].
  rewrite Hq in Hp. injection Hp as <-. exact Hs.
Qed.

End Canonical.

(* ---------------------------------------------------------------------------------------- *)
(* conversely: every text the printer produces from a structurally sound position is         *)
(* canonical - so the canonical form subsumes the first form of the print-parse clause      *)

Fixpoint compress (row : list N) : list item :=
  match row with
  | [] => []
  | pc :: r =>
    if pc =? 0 then
      match compress r with
      | Gap n :: t => Gap (S n) :: t
      | t => Gap 1 :: t
      end
    else Pc pc :: compress r
  end.

Lemma expand_compress (row : list N) : expand_items (compress row) = row.
Proof.
  induction row as [|pc r IH]; [reflexivity|]. cbn [compress].
  destruct (pc =? 0) eqn:E.
  - apply N.eqb_eq in E. subst pc. unfold expand_items in *.
    destruct (compress r) as [|[pc'|n] t]; cbn [flat_map expand_item repeat app] in *; rewrite <- IH; reflexivity.
  - unfold expand_items in *. cbn [flat_map expand_item app]. rewrite IH. reflexivity.
Qed.

Lemma compress_width (row : list N) : width (compress row) = length row.
Proof. rewrite <- length_expand, expand_compress. reflexivity. Qed.

Lemma compress_no_adj (row : list N) : no_adj_gaps (compress row).
Proof.
  induction row as [|pc r IH]; [exact I|]. cbn [compress].
  destruct (pc =? 0).
  - destruct (compress r) as [|[pc'|n] t]; cbn [no_adj_gaps is_gap starts_gap] in *.
    + split; [reflexivity | exact I].
    + split; [reflexivity | exact IH].
    + destruct IH as [H1 H2]. split; [exact H1 | exact H2].
  - cbn [no_adj_gaps is_gap]. split; [discriminate | exact IH].
Qed.

Definition item_ok1 (it : item) : Prop :=
  match it with Pc pc => valid_piece pc = true | Gap n => (1 <= n)%nat end.

Lemma compress_ok1 (row : list N) : Forall code_ok row -> Forall item_ok1 (compress row).
Proof.
  induction 1 as [|pc r Hpc Hr IH]; [constructor|]. cbn [compress].
  destruct (pc =? 0) eqn:E.
  - destruct (compress r) as [|[pc'|n] t].
    + repeat constructor.
    + constructor; [cbn; lia | exact IH].
    + inversion IH; subst. constructor; [cbn; lia | assumption].
  - constructor; [|exact IH]. cbn. destruct Hpc as [->|Hv]; [discriminate | exact Hv].
Qed.

Lemma item_width_le (l : list item) : Forall (fun it => (item_width it <= width l)%nat) l.
Proof.
  induction l as [|it r IH]; [constructor|]. cbn [width]. constructor; [lia|].
  eapply Forall_impl; [|exact IH]. cbn beta. intros; lia.
Qed.

Lemma compress_rank_ok (row : list N) :
  Forall code_ok row -> length row = 8%nat -> rank_ok (compress row).
Proof.
  intros Hc Hl. split; [|split; [apply compress_no_adj | rewrite compress_width; exact Hl]].
  pose proof (compress_ok1 row Hc) as H1. pose proof (item_width_le (compress row)) as H2.
  rewrite compress_width, Hl in H2.
  rewrite Forall_forall in *. intros it Hit. specialize (H1 it Hit). specialize (H2 it Hit).
  destruct it; cbn in *; [exact H1 | lia].
Qed.

Section PrintedCanonical.
Variable p : position.
Hypothesis Hs : fen_struct p.

Definition slice (r : nat) : list N := map (fun f => piece_at p (8 * N.of_nat r + f)) files8.
Definition syntax_of : fen_syntax :=
  {| fs_rows := map (fun r => compress (slice r)) (descn 7);
     fs_side := side p; fs_castling := castling p; fs_ep := ep p; fs_hmc := hmc p;
     fs_full := ply p / 2 + 1 |}.

Lemma slice_codes (r : nat) : (r < 8)%nat -> Forall code_ok (slice r).
Proof.
  intros Hr. destruct Hs as (_ & Hcodes & _). unfold slice, files8. cbn [map].
  repeat (constructor; [apply Hcodes; lia|]). constructor.
Qed.

Lemma syntax_of_ok : fen_syntax_ok syntax_of.
Proof.
  destruct Hs as (Hlen & Hcodes & Hbbs & Hagree & Hhelp & Hcas & Hside & Hhmc & Hply & Hep).
  unfold fen_syntax_ok. cbn [fs_rows fs_side fs_castling fs_ep fs_hmc fs_full syntax_of].
  split; [reflexivity|]. split.
  { cbn [descn map].
    repeat (constructor; [apply compress_rank_ok; [apply slice_codes; lia | reflexivity]|]). constructor. }
  unfold WHITE, BLACK in Hside. repeat split; try lia.
Qed.

Lemma rank_text_p (r : nat) : (r < 8)%nat ->
  fen_rank p (N.of_nat r) files8 0 = Ok (render_items (compress (slice r))).
Proof.
  intros Hr. destruct Hs as (Hlen & Hcodes & _).
  rewrite (fen_rank_row p Hlen Hcodes (N.of_nat r) ltac:(lia) files8 0 0 consec_files8) by reflexivity.
  fold (slice r). rewrite <- (expand_compress (slice r)) at 1.
  destruct (compress_rank_ok (slice r) (slice_codes r Hr) eq_refl) as (Hok & Hadj & Hw).
  rewrite render_row_items; [reflexivity | exact Hok | exact Hadj | congruence | rewrite Hw; cbn; lia].
Qed.

Lemma placement_text_p : forall n, (n < 8)%nat -> forall s0,
  fold_left (tstep p) (desc n) (Ok s0) =
  Ok (s0 ++ join_slash (map (fun r => render_items (compress (slice r))) (descn n))).
Proof.
  induction n as [|n IH]; intros Hn s0.
  - cbn [desc fold_left descn map join_slash]. unfold tstep. cbn [bind].
    pose proof (rank_text_p 0 Hn) as R0. change (N.of_nat 0) with 0 in R0.
    rewrite R0. cbn [bind]. change (0 <? 0) with false. cbv iota.
    rewrite app_nil_r. reflexivity.
  - cbn [desc fold_left descn map]. unfold tstep at 2. cbn [bind].
    rewrite (rank_text_p (S n) Hn). cbn [bind].
    replace (0 <? N.of_nat (S n)) with true by lia. cbv iota.
    etransitivity; [apply IH; lia|]. f_equal.
    destruct n as [|n]; cbn [descn map join_slash]; rewrite <- !app_assoc; reflexivity.
Qed.

Lemma to_fen_syntax_of : to_fen p = Ok (render_fen syntax_of).
Proof.
  rewrite to_fen_eq.
  assert (Hpl : fold_left (tstep p) (desc 7) (Ok []) =
                Ok (join_slash (map (fun r => render_items (compress (slice r))) (descn 7))))
    by exact (placement_text_p 7 ltac:(lia) []).
  unfold bytes in *. rewrite Hpl. clear Hpl. cbn [bind app].
  destruct Hs as (Hlen & Hcodes & Hbbs & Hagree & Hhelp & Hcas & Hside & Hhmc & Hply & Hep).
  assert (Heps : (if ep p =? SQ_NONE then Ok [45] else square_to_string (ep p)) = Ok (ep_text (ep p))).
  { unfold SQ_NONE, ep_text. destruct (ep p =? 64) eqn:E; [reflexivity|].
    pose proof ep_text_table as T. rewrite forallb_forall in T.
    assert (Hlt : ep p < 64) by lia.
    specialize (T (ep p) (in_squares64 (ep p) Hlt)). cbv beta in T.
    destruct (square_to_string (ep p)) as [s| |]; try discriminate.
    apply bytes_eqb_eq in T. unfold ep_text in T. rewrite E in T. rewrite T. reflexivity. }
  rewrite Heps. cbn [bind]. f_equal.
  unfold fen_of, render_fen. cbn [fs_rows fs_side fs_castling fs_ep fs_hmc fs_full syntax_of].
  assert (E1 : w8 (ply p / 2 + 1) = ply p / 2 + 1) by (unfold w8; clear - Hply; lia).
  rewrite E1. unfold WHITE. destruct (side p =? 0); reflexivity.
Qed.

Theorem printed_is_canonical (s : bytes) : to_fen p = Ok s -> canonical_fen s.
Proof.
  intros H. rewrite to_fen_syntax_of in H. injection H as <-.
  exists syntax_of. split; [exact syntax_of_ok | reflexivity].
Qed.

End PrintedCanonical.
