(* C11, totality clause: the (repaired) FEN parser returns a position or an error for EVERY byte
   string; it never panics.  Proofs only; the model is Pos/Fen.v, Base/Bytes.v, Pos/Position.v.

   The argument:
   - a token of [split_on 32] contains no byte 32                      ([split_on_no_sep]);
   - [decode_rune] yields a rune below 64 only from that very byte     ([decode_rune_small]),
     so no rune of a token is 32                                       ([runes_no32]);
   - hence [index_rune_ascii piece_chars r] is never one of the codes 0, 7, 8 that the blanks of
     " PNBRQK  pnbrqk" stand for (7 and 8 are never returned at all: IndexRune returns the FIRST
     index), i.e. it is a valid piece code                             ([piece_index_valid]);
   - [set_piece] with a valid code, a square < 64 (the D2 repair), twelve bitboards and a
     well-formed key table succeeds                                    ([set_piece_ok]);
   - the side/castling/en-passant/counter fields cannot panic (no indexing at all), and
     [init_hash] only indexes the key table with squares < 64, valid codes from the square
     array, castling indices 0..3 and a FILE (0..7) of the en-passant square - whatever byte the
     en-passant square itself is                                        ([scratch_hash_ok]). *)
From Coq Require Import NArith ZArith List Bool Lia ZifyBool ZifyN ZifyNat.
From Clemens Require Import Base.Res Base.Word Base.Bytes Pos.Types Att.Attacks Pos.Position Pos.Fen Pos.Inv.
Import ListNotations.
Open Scope N_scope.
Ltac Zify.zify_post_hook ::= Z.to_euclidean_division_equations.

(* ---------------------------------------------------------------------------------------- *)
(* key table well-formedness (local to C11; to be unified with a shared definition later)     *)

Definition fen_keys_wf (K : zkeys) : bool :=
  (length (zk_piece K) =? 64)%nat
  && forallb (fun row => (length row =? 12)%nat) (zk_piece K)
  && (length (zk_castling K) =? 4)%nat
  && (length (zk_ep K) =? 8)%nat.

(* ---------------------------------------------------------------------------------------- *)
(* generic facts: res, nth_res, upd, folds                                                   *)

(* "not a panic, and if a value then one satisfying P" *)
Definition nopanic {A} (P : A -> Prop) (r : res A) : Prop :=
  match r with Ok a => P a | Err => True | Panic => False end.

Lemma nopanic_bind {A B} (P : A -> Prop) (Q : B -> Prop) (r : res A) (f : A -> res B) :
  nopanic P r -> (forall a, P a -> nopanic Q (f a)) -> nopanic Q (bind r f).
Proof. destruct r; cbn; auto. Qed.

Lemma nopanic_weaken {A} (P Q : A -> Prop) (r : res A) :
  nopanic P r -> (forall a, P a -> Q a) -> nopanic Q r.
Proof. destruct r; cbn; auto. Qed.

Lemma nopanic_not_panic {A} (P : A -> Prop) (r : res A) : nopanic P r -> r <> Panic.
Proof. destruct r; cbn; intros; try discriminate; contradiction. Qed.

Lemma fold_bind_inv {A B} (g : B -> A -> res A) (P : A -> Prop) (Q : B -> Prop) :
  (forall x a, Q x -> P a -> nopanic P (g x a)) ->
  forall l, Forall Q l -> forall r, nopanic P r ->
  nopanic P (fold_left (fun acc x => bind acc (g x)) l r).
Proof.
  intros Hstep l Hl. induction Hl as [|x l Hx Hl IH]; intros r Hr; cbn [fold_left]; auto.
  apply IH. eapply nopanic_bind; eauto.
Qed.

Lemma nth_res_ok {A} (l : list A) (i : nat) :
  (i < length l)%nat -> exists a, nth_res l i = Ok a /\ In a l.
Proof.
  intros H. unfold nth_res. destruct (nth_error l i) eqn:E.
  - eexists; split; eauto. eapply nth_error_In; eauto.
  - apply nth_error_None in E. lia.
Qed.

Lemma length_upd {A} (l : list A) i v : length (upd l i v) = length l.
Proof. revert i; induction l; intros [|i]; cbn; auto. Qed.

Lemma Forall_upd {A} (P : A -> Prop) (l : list A) i v :
  Forall P l -> P v -> Forall P (upd l i v).
Proof.
  intros Hl Hv. revert i. induction Hl; intros [|i]; cbn; constructor; auto.
Qed.

Lemma Forall_combine {A B} (P : A -> Prop) (Q : B -> Prop) (l1 : list A) (l2 : list B) :
  Forall P l1 -> Forall Q l2 -> Forall (fun ab => P (fst ab) /\ Q (snd ab)) (combine l1 l2).
Proof.
  intros H1. revert l2. induction H1; intros l2 H2; cbn; [constructor|].
  destruct H2; constructor; cbn; auto.
Qed.

(* ---------------------------------------------------------------------------------------- *)
(* strings.Split: a token contains no separator                                             *)

Lemma split_on_nonempty (sep : N) (s : bytes) : split_on sep s <> [].
Proof.
  destruct s as [|c r]; cbn [split_on]; [discriminate|].
  destruct (split_on sep r); [discriminate|]. destruct (c =? sep); discriminate.
Qed.

Lemma split_on_no_sep (sep : N) (s : bytes) :
  Forall (fun tok => ~ In sep tok) (split_on sep s).
Proof.
  induction s as [|c r IH]; cbn [split_on].
  - repeat constructor. intros [].
  - pose proof (split_on_nonempty sep r) as Hne.
    destruct (split_on sep r) as [|f fs].
    + congruence.
    + inversion IH as [|? ? Hf Hfs]; subst. destruct (c =? sep) eqn:E.
      * constructor; [intros []|]. constructor; auto.
      * constructor; auto. intros [->|Hin]; [|auto].
        rewrite N.eqb_refl in E. discriminate.
Qed.

(* ---------------------------------------------------------------------------------------- *)
(* utf8.DecodeRune: a rune below 64 (in particular the blank) is produced only by that byte   *)

Lemma lor_shl6_small (a b : N) : N.lor (N.shiftl a 6) b < 64 -> a = 0.
Proof.
  intros H.
  assert (E : N.shiftr (N.lor (N.shiftl a 6) b) 6 = 0).
  { rewrite N.shiftr_div_pow2. apply N.div_small. exact H. }
  rewrite N.shiftr_lor in E. apply N.lor_eq_0_iff in E as [E _].
  rewrite N.shiftr_shiftl_l in E by reflexivity.
  cbn in E. rewrite N.shiftl_0_r in E. exact E.
Qed.

Lemma land_31 b : N.land b 31 = b mod 32.
Proof. change 31 with (N.ones 5). rewrite N.land_ones. reflexivity. Qed.
Lemma land_15 b : N.land b 15 = b mod 16.
Proof. change 15 with (N.ones 4). rewrite N.land_ones. reflexivity. Qed.
Lemma land_7 b : N.land b 7 = b mod 8.
Proof. change 7 with (N.ones 3). rewrite N.land_ones. reflexivity. Qed.
Lemma land_63 b : N.land b 63 = b mod 64.
Proof. change 63 with (N.ones 6). rewrite N.land_ones. reflexivity. Qed.

Lemma rune2_big (b0 b1 : N) :
  194 <= b0 <= 223 -> ~ N.lor (N.shiftl (N.land b0 31) 6) (N.land b1 63) < 64.
Proof.
  intros Hb H. apply lor_shl6_small in H. rewrite land_31 in H. lia.
Qed.

Lemma rune3_big (b0 b1 b2 : N) :
  224 <= b0 <= 239 -> (b0 = 224 -> 160 <= b1) -> 128 <= b1 <= 191 ->
  ~ N.lor (N.lor (N.shiftl (N.land b0 15) 12) (N.shiftl (N.land b1 63) 6)) (N.land b2 63) < 64.
Proof.
  intros Hb0 Hlo Hb1 H.
  change 12 with (6 + 6) in H. rewrite <- N.shiftl_shiftl, <- N.shiftl_lor in H.
  apply lor_shl6_small in H. apply N.lor_eq_0_iff in H as [H1 H2].
  apply N.shiftl_eq_0_iff in H1. rewrite land_15 in H1. rewrite land_63 in H2. lia.
Qed.

Lemma rune4_big (b0 b1 b2 b3 : N) :
  240 <= b0 <= 244 -> (b0 = 240 -> 144 <= b1) -> 128 <= b1 <= 191 ->
  ~ N.lor (N.lor (N.lor (N.shiftl (N.land b0 7) 18) (N.shiftl (N.land b1 63) 12))
                 (N.shiftl (N.land b2 63) 6)) (N.land b3 63) < 64.
Proof.
  intros Hb0 Hlo Hb1 H.
  change 18 with (12 + 6) in H. change 12 with (6 + 6) in H at 2.
  rewrite <- !N.shiftl_shiftl, <- !N.shiftl_lor in H.
  apply lor_shl6_small in H. apply N.lor_eq_0_iff in H as [H _].
  apply N.lor_eq_0_iff in H as [H1 H2].
  apply N.shiftl_eq_0_iff in H1. apply N.shiftl_eq_0_iff in H2.
  rewrite land_7 in H1. rewrite land_63 in H2. lia.
Qed.

Lemma decode_rune_small (s : bytes) (r : N) (w : nat) :
  decode_rune s = Some (r, w) -> r < 64 -> exists t, s = r :: t /\ w = 1%nat.
Proof.
  unfold decode_rune. destruct s as [|b0 t]; [discriminate|].
  destruct (b0 <? 128) eqn:E0.
  { intros [= <- <-] _. eauto. }
  unfold RuneError, cont.
  destruct ((194 <=? b0) && (b0 <=? 223)) eqn:E2.
  { destruct t as [|b1 t]; [intros [= <- <-]; lia|].
    destruct ((128 <=? b1) && (b1 <=? 191)); intros [= <- <-] H; [|lia].
    exfalso. revert H. apply rune2_big. lia. }
  destruct ((224 <=? b0) && (b0 <=? 239)) eqn:E3.
  { destruct t as [|b1 [|b2 t]]; try (intros [= <- <-]; lia).
    match goal with |- context [if ?c then _ else _] => destruct c eqn:E end;
      intros [= <- <-] H; [|lia].
    exfalso. revert H. apply rune3_big; destruct (b0 =? 224) eqn:?; destruct (b0 =? 237) eqn:?; lia. }
  destruct ((240 <=? b0) && (b0 <=? 244)) eqn:E4.
  { destruct t as [|b1 [|b2 [|b3 t]]]; try (intros [= <- <-]; lia).
    match goal with |- context [if ?c then _ else _] => destruct c eqn:E end;
      intros [= <- <-] H; [|lia].
    exfalso. revert H. apply rune4_big; destruct (b0 =? 240) eqn:?; destruct (b0 =? 244) eqn:?; lia. }
  intros [= <- <-]; lia.
Qed.

Lemma decode_rune_32 (s : bytes) (w : nat) :
  decode_rune s = Some (32, w) -> exists t, s = 32 :: t.
Proof. intros H. apply decode_rune_small in H as [t [-> _]]; [eauto | lia]. Qed.

Lemma runes_from_no32 (fuel : nat) : forall (off : N) (s : bytes),
  ~ In 32 s -> Forall (fun ir => snd ir <> 32) (runes_from fuel off s).
Proof.
  induction fuel as [|f IH]; intros off s Hs; cbn [runes_from]; [constructor|].
  destruct (decode_rune s) as [[r w]|] eqn:E; [|constructor].
  constructor.
  - cbn. intros ->. apply decode_rune_32 in E as [t ->]. apply Hs. left. reflexivity.
  - apply IH. intros Hin. apply Hs. rewrite <- (firstn_skipn w s). apply in_or_app. right. exact Hin.
Qed.

Lemma runes_no32 (s : bytes) : ~ In 32 s -> Forall (fun ir => snd ir <> 32) (runes s).
Proof. apply runes_from_no32. Qed.

(* ---------------------------------------------------------------------------------------- *)
(* piece codes                                                                              *)

Definition piece_codes : list N := [1; 2; 3; 4; 5; 6; 9; 10; 11; 12; 13; 14].

Lemma valid_piece_cases (pc : N) : valid_piece pc = true -> In pc piece_codes.
Proof. unfold valid_piece, piece_codes. cbn [In]. lia. Qed.

(* IndexRune(" PNBRQK  pnbrqk", r) for r other than the blank is a piece code *)
Lemma piece_index_valid (r pc : N) :
  index_rune_ascii piece_chars r = Some pc -> r <> 32 -> valid_piece pc = true.
Proof.
  unfold index_rune_ascii. destruct (r <? 128); [|discriminate].
  unfold piece_chars. cbn [index_byte].
  repeat match goal with |- context [?x =? r] => destruct (x =? r) eqn:? end;
    intros [= <-] Hr; try reflexivity;
    exfalso; apply Hr; symmetry; apply N.eqb_eq; assumption.
Qed.

Lemma bb_index_valid (pc : N) :
  valid_piece pc = true ->
  exists i, bb_index (piece_color pc) (piece_type pc) = Ok i /\ (i < 12)%nat.
Proof.
  intros H. apply valid_piece_cases in H. unfold piece_codes in H. cbn [In] in H.
  repeat (destruct H as [<-|H]; [eexists; split; [vm_compute; reflexivity | lia]|]).
  destruct H.
Qed.

(* ---------------------------------------------------------------------------------------- *)
(* the shape of a position under construction                                                *)

Definition code_ok (pc : N) : Prop := pc = 0 \/ valid_piece pc = true.
Definition pos_ok (p : position) : Prop :=
  length (bbs p) = 12%nat /\ Forall code_ok (board p).

Lemma empty_pos_ok : pos_ok empty_position.
Proof.
  split; [reflexivity|]. unfold empty_position; cbn [board]. apply Forall_forall. intros x Hx.
  apply repeat_spec in Hx. left. exact Hx.
Qed.

Section Total.
Variable K : zkeys.
Hypothesis HK : fen_keys_wf K = true.
Variable tbl : list (N * N * N).

Lemma keys_rows : length (zk_piece K) = 64%nat /\ (forall row, In row (zk_piece K) -> length row = 12%nat).
Proof.
  unfold fen_keys_wf in HK. repeat (apply andb_prop in HK as [HK ?]).
  split; [apply Nat.eqb_eq; assumption|].
  intros row Hrow.
  match goal with H : forallb _ _ = true |- _ => rewrite forallb_forall in H; apply H in Hrow end.
  apply Nat.eqb_eq. exact Hrow.
Qed.
Lemma keys_castling : length (zk_castling K) = 4%nat.
Proof.
  unfold fen_keys_wf in HK. repeat (apply andb_prop in HK as [HK ?]). apply Nat.eqb_eq; assumption.
Qed.
Lemma keys_ep : length (zk_ep K) = 8%nat.
Proof.
  unfold fen_keys_wf in HK. repeat (apply andb_prop in HK as [HK ?]). apply Nat.eqb_eq; assumption.
Qed.

Lemma key_piece_ok (sq pc : N) :
  sq < 64 -> valid_piece pc = true ->
  exists k, key_piece K sq (piece_color pc) (piece_type pc) = Ok k.
Proof.
  intros Hsq Hpc. destruct keys_rows as [Hlen Hrows].
  unfold key_piece.
  destruct (nth_res_ok (zk_piece K) (N.to_nat sq)) as [row [-> Hin]]; [lia|].
  destruct (bb_index_valid pc Hpc) as [i [-> Hi]]. cbn [bind].
  destruct (nth_res_ok row i) as [k [-> _]]; [rewrite (Hrows _ Hin); exact Hi|].
  eauto.
Qed.

Lemma set_piece_ok (p : position) (pc sq : N) :
  pos_ok p -> sq < 64 -> valid_piece pc = true ->
  exists q, set_piece K p pc sq = Ok q /\ pos_ok q.
Proof.
  intros [Hb Hbd] Hsq Hpc. unfold set_piece.
  replace (sq <? 64) with true by lia. cbn [negb].
  destruct (key_piece_ok sq pc Hsq Hpc) as [k Hk].
  destruct (bb_index_valid pc Hpc) as [i [Hi Hi12]]. rewrite Hi. cbn [bind].
  destruct (nth_res_ok (bbs p) i) as [old [-> _]]; [lia|]. cbn [bind].
  rewrite Hk. cbn [bind]. eexists; split; [reflexivity|].
  split; cbn.
  - rewrite length_upd. exact Hb.
  - apply Forall_upd; [exact Hbd | right; exact Hpc].
Qed.

(* fenSetPieces on a blank-free token *)
Lemma fen_set_pieces_ok (p : position) (tok : bytes) :
  pos_ok p -> ~ In 32 tok -> nopanic pos_ok (fen_set_pieces K tbl true p tok).
Proof.
  intros Hp Htok. unfold fen_set_pieces.
  eapply nopanic_bind with (P := fun ps : position * N => pos_ok (fst ps)).
  2: { intros [q sq] Hq. exact Hq. }
  eapply (fold_bind_inv _ (fun ps : position * N => pos_ok (fst ps)) (fun ir : N * N => snd ir <> 32)).
  - intros [i r] [q sq] Hr Hq. cbn [snd fst] in *.
    destruct (is_digit tbl r); [exact Hq|].
    destruct (r =? 47); [exact Hq|].
    destruct (index_rune_ascii piece_chars r) as [pc|] eqn:Epc; [|exact I].
    cbn [andb]. destruct (sq <? 64) eqn:Esq; cbn [negb]; [|exact I].
    destruct (set_piece_ok q pc sq Hq) as [q' [-> Hq']]; [lia | eapply piece_index_valid; eauto |].
    exact Hq'.
  - apply runes_no32. exact Htok.
  - exact Hp.
Qed.

Lemma squares64_lt : Forall (fun sq => sq < 64) (map N.of_nat (seq 0 64)).
Proof.
  apply Forall_forall. intros sq Hin. apply in_map_iff in Hin as [n [<- Hn]].
  apply in_seq in Hn. lia.
Qed.

(* initZobristHash never indexes out of range: squares < 64 and valid codes from the array,
   castling key indices 0..3, the FILE of the en-passant square whatever that square is *)
Lemma scratch_hash_ok (p : position) :
  pos_ok p -> exists h, scratch_hash K p = Ok h.
Proof.
  intros [_ Hbd]. unfold scratch_hash.
  assert (H1 : nopanic (fun _ : N => True)
    (fold_left (fun acc sp => h <- acc ;; let '(sq, pc) := sp in
                  if pc =? NO_PIECE then Ok h else
                  k <- key_piece K sq (piece_color pc) (piece_type pc) ;; Ok (N.lxor h k))
       (combine (map N.of_nat (seq 0 64)) (board p)) (Ok 0)) /\
    fold_left (fun acc sp => h <- acc ;; let '(sq, pc) := sp in
                  if pc =? NO_PIECE then Ok h else
                  k <- key_piece K sq (piece_color pc) (piece_type pc) ;; Ok (N.lxor h k))
       (combine (map N.of_nat (seq 0 64)) (board p)) (Ok 0) <> Err).
  { set (g := fun (sp : N * N) (h : N) => let '(sq, pc) := sp in
                  if pc =? NO_PIECE then Ok h else
                  k <- key_piece K sq (piece_color pc) (piece_type pc) ;; Ok (N.lxor h k)).
    change (fun acc sp => h <- acc ;; let '(sq, pc) := sp in
                  if pc =? NO_PIECE then Ok h else
                  k <- key_piece K sq (piece_color pc) (piece_type pc) ;; Ok (N.lxor h k))
      with (fun acc sp => bind acc (g sp)).
    pose proof (fold_bind_inv g (fun _ => True)
                  (fun ab : N * N => fst ab < 64 /\ code_ok (snd ab))) as F.
    (* stronger: the result is Ok *)
    assert (G : forall l, Forall (fun ab : N * N => fst ab < 64 /\ code_ok (snd ab)) l ->
              forall h0, exists h1, fold_left (fun acc sp => bind acc (g sp)) l (Ok h0) = Ok h1).
    { intros l Hl. induction Hl as [|[sq pc] l [Hsq Hpc] Hl IH]; intros h0; cbn [fold_left].
      - eauto.
      - cbn [bind g]. cbn [fst snd] in *. destruct (pc =? NO_PIECE) eqn:E; [apply IH|].
        destruct Hpc as [->|Hpc]; [discriminate|].
        destruct (key_piece_ok sq pc Hsq Hpc) as [k ->]. cbn [bind]. apply IH. }
    destruct (G _ (Forall_combine _ _ _ _ squares64_lt Hbd) 0) as [h1 ->].
    split; [exact I | discriminate]. }
  destruct H1 as [H1 H1'].
  match type of H1 with nopanic _ ?f => destruct f as [h1| |] eqn:E1 end; [|congruence|destruct H1].
  cbn [bind].
  pose proof keys_castling as Hc.
  destruct (zk_castling K) as [|k0 [|k1 [|k2 [|k3 [|]]]]] eqn:EK; try discriminate Hc.
  unfold castling_list, key_castling_idx. rewrite EK. cbn [fold_left bind nth_res nth_error].
  set (h2 := if side p =? BLACK then N.lxor h1 (zk_side K) else h1).
  assert (H3 : exists h3,
    (h <- (h <- (h <- (h <- Ok h2;; (if negb (N.land (castling p) WK =? 0) then Ok (N.lxor h k0) else Ok h));;
                 (if negb (N.land (castling p) WQ =? 0) then Ok (N.lxor h k1) else Ok h));;
           (if negb (N.land (castling p) BK =? 0) then Ok (N.lxor h k2) else Ok h));;
     (if negb (N.land (castling p) BQ =? 0) then Ok (N.lxor h k3) else Ok h)) = Ok h3).
  { cbn [bind].
    destruct (negb (N.land (castling p) WK =? 0)); cbn [bind];
    destruct (negb (N.land (castling p) WQ =? 0)); cbn [bind];
    destruct (negb (N.land (castling p) BK =? 0)); cbn [bind];
    destruct (negb (N.land (castling p) BQ =? 0)); cbn [bind]; eauto. }
  destruct H3 as [h3 H3].
  match goal with |- exists h, bind ?x _ = _ => replace x with (Ok (A:=N) h3) end.
  cbn [bind]. destruct (negb (ep p =? SQ_NONE)); [|eauto].
  unfold key_ep.
  destruct (nth_res_ok (zk_ep K) (N.to_nat (file_of (ep p)))) as [k [-> _]].
  { rewrite keys_ep. unfold file_of. rewrite land_7. lia. }
  cbn [bind]. eauto.
Qed.

(* field setters keep the shape *)
Lemma pos_ok_fields (p q : position) :
  bbs q = bbs p -> board q = board p -> pos_ok p -> pos_ok q.
Proof. unfold pos_ok. intros -> ->. auto. Qed.

Lemma fen_set_side_ok p tok : pos_ok p -> nopanic pos_ok (fen_set_side p tok).
Proof.
  intros Hp. unfold fen_set_side.
  repeat match goal with |- nopanic _ (match ?x with _ => _ end) => destruct x end;
    cbn; auto.
Qed.

Lemma fen_set_castling_ok p tok : pos_ok p -> nopanic pos_ok (fen_set_castling p tok).
Proof.
  intros Hp. unfold fen_set_castling.
  destruct (bytes_eqb tok [45]); [exact Hp|].
  eapply (fold_bind_inv _ pos_ok (fun _ : N * N => True)).
  - intros [i r] q _ Hq. cbn [snd].
    repeat match goal with |- nopanic _ (if ?c then _ else _) => destruct c end; cbn; auto.
  - apply Forall_forall. auto.
  - exact Hp.
Qed.

Lemma square_from_string_ok tok : square_from_string tbl tok <> Panic.
Proof.
  unfold square_from_string.
  apply (nopanic_not_panic (fun _ => True)).
  eapply nopanic_bind with (P := fun _ : Z * Z => True).
  2: { intros [f r] _. exact I. }
  eapply (fold_bind_inv _ (fun _ : Z * Z => True) (fun _ : N * N => True)).
  - intros [i r] [f rk] _ _.
    repeat match goal with
           | |- nopanic _ (if ?c then _ else _) => destruct c
           | |- nopanic _ (match ?c with Some _ => _ | None => _ end) => destruct c
           end; exact I.
  - apply Forall_forall. auto.
  - exact I.
Qed.

Lemma fen_set_ep_ok p tok : pos_ok p -> nopanic pos_ok (fen_set_ep tbl p tok).
Proof.
  intros Hp. unfold fen_set_ep. destruct (bytes_eqb tok [45]); [exact Hp|].
  pose proof (square_from_string_ok tok) as H.
  destruct (square_from_string tbl tok); cbn; auto.
Qed.

(* THE TOTALITY THEOREM: every byte string *)
Theorem fen_total : forall s : bytes, new_from_fen K tbl s <> Panic.
Proof.
  intros s. unfold new_from_fen, new_from_fen_gen.
  pose proof (split_on_no_sep 32 s) as Hsplit.
  destruct (split_on 32 s) as [|t0 [|t1 [|t2 [|t3 [|t4 [|t5 [|]]]]]]]; try discriminate.
  inversion Hsplit as [|? ? Ht0 _]; subst.
  apply (nopanic_not_panic (fun _ => True)).
  eapply nopanic_bind; [apply (fen_set_pieces_ok _ _ empty_pos_ok Ht0)|]. intros p0 Hp0.
  eapply nopanic_bind; [apply (fen_set_side_ok _ _ Hp0)|]. intros p1 Hp1.
  eapply nopanic_bind; [apply (fen_set_castling_ok _ _ Hp1)|]. intros p2 Hp2.
  eapply nopanic_bind; [apply (fen_set_ep_ok _ _ Hp2)|]. intros p3 Hp3.
  destruct (atoi t4) as [h|]; [|exact I].
  destruct (atoi t5) as [fm|]; [|exact I].
  unfold init_hash.
  match goal with |- nopanic _ (bind (bind (scratch_hash K ?q) _) _) =>
    destruct (scratch_hash_ok q) as [hh ->] end.
  { eapply pos_ok_fields; [| |exact Hp3]; reflexivity. }
  exact I.
Qed.

End Total.
