(* Concrete positions for the non-vacuity example of C17 (data only). *)
From Coq Require Import NArith List String Ascii.
From Clemens Require Import Base.Res Base.Word Base.Bytes Pos.Types Att.Attacks Pos.Position Pos.Fen.
From ClemensGen Require Import GoConsts.
Import ListNotations.
Open Scope N_scope.

(* the Zobrist keys of the current Go build, as in extract/Extract.v *)
Definition c17_keys : zkeys :=
  {| zk_piece := zk_piece_tbl; zk_side := zk_side_key; zk_castling := zk_castling_tbl; zk_ep := zk_ep_tbl |}.
Definition fen_bytes (s : string) : bytes := map N_of_ascii (list_ascii_of_string s).
Definition c17_parse (s : string) : res position := new_from_fen c17_keys unicode_digit_tbl (fen_bytes s).

(* en-passant capture f5xe6, capturing promotions g7xf8 / g7xh8, push promotion g7-g8 *)
Definition c17_fen_a : string := "rnbqkb1r/pp1p1pPp/8/2p1pP2/1P1P4/3P3P/P1P1P3/RNBQKBNR w KQkq e6 0 1".
(* "Kiwipete": both white castlings available *)
Definition c17_fen_b : string := "r3k2r/p1ppqpb1/bn2pnp1/3PN3/1p2P3/2N2Q1p/PPPBBPPP/R3K2R w KQkq - 0 1".

Definition pos_or_empty (r : res position) : position := match r with Ok p => p | _ => empty_position end.
Definition c17_pos_a : position := Eval vm_compute in pos_or_empty (c17_parse c17_fen_a).
Definition c17_pos_b : position := Eval vm_compute in pos_or_empty (c17_parse c17_fen_b).

(* how many moves of a list satisfy a boolean test *)
Definition count (f : N -> bool) (l : list N) : nat := List.length (filter f l).
