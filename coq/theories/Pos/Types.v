(* pkg/types and pkg/move: squares, pieces, colours, the 32-bit move encoding. Model file. *)
From Coq Require Import NArith ZArith List Bool.
From Clemens Require Import Base.Res Base.Word.
Import ListNotations.
Open Scope N_scope.

(* squares: a1 = 0 ... h8 = 63; SQUARE_NONE = 64 *)
Definition SQ_NONE : N := 64.
Definition rank_of (s : N) : N := N.shiftr s 3.
Definition file_of (s : N) : N := N.land s 7.
(* SquareFromRankAndFile on uint8 *)
Definition sq_of (rank file : N) : N := w8 (w8 (N.shiftl rank 3) + file).

Definition A1 : N := 0.  Definition C1 : N := 2.  Definition D1 : N := 3.  Definition E1 : N := 4.
Definition F1 : N := 5.  Definition G1 : N := 6.  Definition H1 : N := 7.
Definition A8 : N := 56. Definition C8 : N := 58. Definition D8 : N := 59. Definition E8 : N := 60.
Definition F8 : N := 61. Definition G8 : N := 62. Definition H8 : N := 63.

(* colours: WHITE = 0, BLACK = 1 *)
Definition WHITE : N := 0.
Definition BLACK : N := 1.
Definition switch_color (c : N) : N := if c =? BLACK then WHITE else BLACK.

(* piece types: PAWN 0, KNIGHT 1, BISHOP 2, ROOK 3, QUEEN 4, KING 5 *)
Definition PAWN : N := 0.   Definition KNIGHT : N := 1. Definition BISHOP : N := 2.
Definition ROOK : N := 3.   Definition QUEEN : N := 4.  Definition KING : N := 5.

(* pieces: NO_PIECE 0, white 1..6, black 9..14 *)
Definition NO_PIECE : N := 0.
Definition piece_color (p : N) : N := N.shiftr p 3.
(* Type() = PieceType((p & 7) - 1) on uint8: NO_PIECE gives 255 *)
Definition piece_type (p : N) : N := sub8 (N.land p 7) 1.
Definition new_piece (c t : N) : N := (t + 1) + c * 8.

(* moves: bits 0-5 source, 6-11 target, 12-13 kind, 14-15 promotion piece - 1, 16-31 score *)
Definition NORMAL : N := 0. Definition PROMOTION : N := 1. Definition EN_PASSANT : N := 2. Definition CASTLING : N := 3.
Definition NULL_MOVE : N := 0.
Definition mv_src (m : N) : N := N.land m 63.
Definition mv_dst (m : N) : N := N.land (N.shiftr m 6) 63.
Definition mv_kind (m : N) : N := N.land (N.shiftr m 12) 3.
Definition mv_promo (m : N) : N := N.land (N.shiftr m 14) 3 + 1.
Definition mv_score (m : N) : N := N.land (N.shiftr m 16) 65535.
Definition mv_low (m : N) : N := N.land m 65535.
(* the Set* functions OR into the word; uint32 truncation of Move(square) << 6 etc. *)
Definition w32 (x : N) : N := N.land x 4294967295.
Definition mv_set_src (m s : N) : N := N.lor m s.
Definition mv_set_dst (m s : N) : N := N.lor m (w32 (N.shiftl s 6)).
Definition mv_set_kind (m k : N) : N := N.lor m (w32 (N.shiftl k 12)).
(* (Move(pt) - 1) << 14 on uint32 *)
Definition mv_set_promo (m pt : N) : N := N.lor m (w32 (N.shiftl (w32 (pt + 4294967296 - 1)) 14)).
Definition mv_set_score (m s : N) : N := N.lor m (w32 (N.shiftl s 16)).
Definition mk_move (src dst : N) : N := mv_set_dst (mv_set_src 0 src) dst.
Definition mk_move_kind (src dst kind : N) : N := mv_set_kind (mk_move src dst) kind.
Definition mk_promo (src dst pt : N) : N := mv_set_promo (mv_set_kind (mk_move src dst) PROMOTION) pt.
