(* C17: the capture generator yields exactly the capturing moves of the full generator,
   in the same relative order.  Proofs over the frozen model (Pos/Position.v). *)
From Coq Require Import NArith ZArith List Bool Lia ZifyBool ZifyN ZifyNat Sorted Permutation.
From Clemens Require Import Base.Res Base.Word Pos.Types Att.Attacks Pos.Position Pos.Inv.
Import ListNotations.
Open Scope N_scope.

(* ------------------------------------------------------------------------------------------ *)
(* The total boolean reading of [is_capture].                                                   *)

Definition occb (p : position) (t : N) : bool := negb (piece_at p t =? NO_PIECE).
Definition is_capture_b (p : position) (m : N) : bool :=
  (mv_kind m =? EN_PASSANT) || occb p (mv_dst m).

(* ------------------------------------------------------------------------------------------ *)
(* Generic list lemmas.                                                                         *)

Lemma filter_flat_map {A B} (f : B -> bool) (g : A -> list B) (l : list A) :
  filter f (flat_map g l) = flat_map (fun x => filter f (g x)) l.
Proof.
  induction l as [|a l IH]; [reflexivity|].
  cbn [flat_map]. rewrite filter_app, IH. reflexivity.
Qed.

Lemma flat_map_ext_in' {A B} (f g : A -> list B) (l : list A) :
  (forall a, In a l -> f a = g a) -> flat_map f l = flat_map g l.
Proof.
  induction l as [|a l IH]; intros H; [reflexivity|].
  cbn [flat_map]. rewrite (H a (or_introl eq_refl)), IH; [reflexivity|].
  intros b Hb. apply H. right. exact Hb.
Qed.

Lemma filter_map_swap {A B} (f : B -> bool) (g : A -> B) (l : list A) :
  filter f (map g l) = map g (filter (fun x => f (g x)) l).
Proof.
  induction l as [|a l IH]; [reflexivity|].
  cbn [map filter]. destruct (f (g a)); cbn [map]; rewrite IH; reflexivity.
Qed.

Lemma filter_filter {A} (f g : A -> bool) (l : list A) :
  filter f (filter g l) = filter (fun x => g x && f x) l.
Proof.
  induction l as [|a l IH]; [reflexivity|].
  cbn [filter]. destruct (g a); cbn [filter andb]; [destruct (f a)|]; rewrite IH; reflexivity.
Qed.

Lemma filter_none {A} (f : A -> bool) (l : list A) :
  (forall x, In x l -> f x = false) -> filter f l = [].
Proof.
  induction l as [|a l IH]; intros H; [reflexivity|].
  cbn [filter]. rewrite (H a (or_introl eq_refl)). apply IH. intros x Hx. apply H. right. exact Hx.
Qed.

Lemma filter_all {A} (f : A -> bool) (l : list A) :
  (forall x, In x l -> f x = true) -> filter f l = l.
Proof.
  induction l as [|a l IH]; intros H; [reflexivity|].
  cbn [filter]. rewrite (H a (or_introl eq_refl)). f_equal. apply IH. intros x Hx. apply H. right. exact Hx.
Qed.

Lemma sorted_filter (f : N -> bool) (l : list N) :
  StronglySorted N.lt l -> StronglySorted N.lt (filter f l).
Proof.
  induction 1 as [|a l Hs IH Ha]; [constructor|].
  cbn [filter]. destruct (f a); [|exact IH].
  constructor; [exact IH|].
  rewrite Forall_forall in *. intros x Hx. apply filter_In in Hx. apply Ha. tauto.
Qed.

Lemma sorted_ext (l1 l2 : list N) :
  StronglySorted N.lt l1 -> StronglySorted N.lt l2 ->
  (forall x, In x l1 <-> In x l2) -> l1 = l2.
Proof.
  intros H1. revert l2. induction H1 as [|a l1 Hs1 IH Ha]; intros l2 H2 H.
  - destruct l2 as [|b l2]; [reflexivity|]. exfalso. apply (H b). left. reflexivity.
  - destruct H2 as [|b l2 Hs2 Hb].
    + exfalso. apply (H a). left. reflexivity.
    + rewrite Forall_forall in Ha, Hb.
      assert (a = b) as ->.
      { destruct (proj1 (H a) (or_introl eq_refl)) as [E|E]; [symmetry; exact E|].
        destruct (proj2 (H b) (or_introl eq_refl)) as [E'|E']; [exact E'|].
        specialize (Ha _ E'). specialize (Hb _ E). lia. }
      f_equal. apply IH; [exact Hs2|].
      intros x. split; intros Hx.
      * destruct (proj1 (H x) (or_intror Hx)) as [E|E]; [|exact E].
        specialize (Ha _ Hx). lia.
      * destruct (proj2 (H x) (or_intror Hx)) as [E|E]; [|exact E].
        specialize (Hb _ Hx). lia.
Qed.

Lemma in_Nrange (n : nat) (x : N) : x < N.of_nat n -> In x (map N.of_nat (seq 0 n)).
Proof.
  intros H. apply in_map_iff. exists (N.to_nat x). split; [apply N2Nat.id|].
  apply in_seq. lia.
Qed.

Lemma in_squares64 (s : N) : s < 64 -> In s squares64.
Proof. intros H. apply (in_Nrange 64). exact H. Qed.

(* ------------------------------------------------------------------------------------------ *)
(* (a) [bits]: membership, order, and the key lemma [bits_land].                                *)

Lemma bits_pos_in : forall p i s,
  In s (bits_pos p i) <-> (i <= s /\ N.testbit (N.pos p) (s - i) = true).
Proof.
  induction p as [p IH|p IH|]; intros i s; cbn [bits_pos In].
  - change (N.pos p~1) with (2 * N.pos p + 1). rewrite IH. split.
    + intros [E|[H1 H2]].
      * subst. split; [lia|]. replace (s - s) with 0 by lia. apply N.testbit_odd_0.
      * split; [lia|]. replace (s - i) with (N.succ (s - (i + 1))) by lia.
        rewrite N.testbit_odd_succ by lia. exact H2.
    + intros [H1 H2]. destruct (N.eq_dec i s) as [E|E]; [left; exact E|right].
      split; [lia|]. replace (s - i) with (N.succ (s - (i + 1))) in H2 by lia.
      rewrite N.testbit_odd_succ in H2 by lia. exact H2.
  - change (N.pos p~0) with (2 * N.pos p). rewrite IH. split.
    + intros [H1 H2]. split; [lia|]. replace (s - i) with (N.succ (s - (i + 1))) by lia.
      rewrite N.testbit_even_succ by lia. exact H2.
    + intros [H1 H2]. destruct (N.eq_dec i s) as [E|E].
      * subst. replace (s - s) with 0 in H2 by lia. rewrite N.testbit_even_0 in H2. discriminate.
      * split; [lia|]. replace (s - i) with (N.succ (s - (i + 1))) in H2 by lia.
        rewrite N.testbit_even_succ in H2 by lia. exact H2.
  - split.
    + intros [E|[]]. subst. split; [lia|]. replace (s - s) with 0 by lia. reflexivity.
    + intros [H1 H2]. left. destruct (N.eq_dec i s) as [E|E]; [exact E|exfalso].
      replace (s - i) with (N.succ (s - (i + 1))) in H2 by lia.
      change 1 with (2 * 0 + 1) in H2. rewrite N.testbit_odd_succ in H2 by lia.
      rewrite N.bits_0 in H2. discriminate.
Qed.

Lemma bits_in (b s : N) : In s (bits b) <-> N.testbit b s = true.
Proof.
  destruct b as [|p]; cbn [bits].
  - rewrite N.bits_0. split; [intros []|discriminate].
  - rewrite bits_pos_in, N.sub_0_r. split; [tauto|]. intros H. split; [lia|exact H].
Qed.

Lemma bits_pos_sorted : forall p i, StronglySorted N.lt (bits_pos p i).
Proof.
  induction p as [p IH|p IH|]; intros i; cbn [bits_pos].
  - constructor; [apply IH|]. apply Forall_forall. intros s Hs. apply bits_pos_in in Hs. lia.
  - apply IH.
  - constructor; constructor.
Qed.

Lemma bits_sorted (b : N) : StronglySorted N.lt (bits b).
Proof. destruct b; [constructor|apply bits_pos_sorted]. Qed.

Lemma bits_NoDup (b : N) : NoDup (bits b).
Proof.
  generalize (bits_sorted b). induction 1 as [|a l Hs IH Ha]; constructor; [|exact IH].
  intros Hin. rewrite Forall_forall in Ha. specialize (Ha _ Hin). lia.
Qed.

(* order-preserving: the bits of [a & b] are the bits of [a] that are set in [b] *)
Lemma bits_land (a b : N) : bits (N.land a b) = filter (fun s => N.testbit b s) (bits a).
Proof.
  apply sorted_ext.
  - apply bits_sorted.
  - apply sorted_filter, bits_sorted.
  - intros x. rewrite filter_In, !bits_in, N.land_spec, andb_true_iff. tauto.
Qed.

(* ------------------------------------------------------------------------------------------ *)
(* 64-bit words.                                                                                *)

Lemma m64_testbit (t : N) : N.testbit m64 t = (t <? 64).
Proof.
  change m64 with (N.ones 64).
  destruct (N.ltb_spec t 64) as [H|H]; [apply N.ones_spec_low|apply N.ones_spec_high]; lia.
Qed.

Lemma lt_two64_high (x t : N) : x < two64 -> 64 <= t -> N.testbit x t = false.
Proof.
  intros Hx Ht. destruct (N.eq_dec x 0) as [->|Hz]; [apply N.bits_0|].
  apply N.bits_above_log2.
  assert (N.log2 x < 64); [|lia].
  apply N.log2_lt_pow2; [lia|]. exact Hx.
Qed.

Lemma w64_testbit (x t : N) : N.testbit (w64 x) t = N.testbit x t && (t <? 64).
Proof. unfold w64. rewrite N.land_spec, m64_testbit. reflexivity. Qed.

Lemma not64_testbit (x t : N) : N.testbit (not64 x) t = negb (N.testbit x t) && (t <? 64).
Proof.
  unfold not64. rewrite N.lxor_spec, w64_testbit, m64_testbit.
  destruct (N.testbit x t), (t <? 64); reflexivity.
Qed.

Lemma not64_true (x t : N) : N.testbit (not64 x) t = true -> t < 64 /\ N.testbit x t = false.
Proof.
  rewrite not64_testbit, andb_true_iff, negb_true_iff, N.ltb_lt. tauto.
Qed.

Lemma bit_true (s t : N) : N.testbit (bit s) t = true -> t < 64.
Proof.
  unfold bit, shl64. rewrite w64_testbit, andb_true_iff, N.ltb_lt. tauto.
Qed.

Lemma ctz_pos_testbit : forall p, N.testbit (N.pos p) (ctz_pos p) = true.
Proof.
  induction p as [p IH|p IH|]; cbn [ctz_pos]; try reflexivity.
  change (N.pos p~0) with (2 * N.pos p). replace (1 + ctz_pos p) with (N.succ (ctz_pos p)) by lia.
  rewrite N.testbit_even_succ by lia. exact IH.
Qed.

Lemma lsb_testbit (b s : N) : lsb b = Ok s -> N.testbit b s = true.
Proof.
  destruct b as [|p]; cbn [lsb]; [discriminate|]. intros [= <-]. apply ctz_pos_testbit.
Qed.

(* ------------------------------------------------------------------------------------------ *)
(* Move encoding: finite facts, checked over all 64 x 64 (x 4) cases.                           *)

Definition castle_mv (src dst : N) : N := mv_set_dst (mv_set_src (mv_set_kind 0 CASTLING) src) dst.

Definition enc_check (s t : N) : bool :=
  (mv_dst (mk_move s t) =? t) && (mv_kind (mk_move s t) =? NORMAL) &&
  forallb (fun pt => (mv_dst (mk_promo s t pt) =? t) && (mv_kind (mk_promo s t pt) =? PROMOTION)
                     && (mv_promo (mk_promo s t pt) =? pt) && (mv_src (mk_promo s t pt) =? s)) promo_types &&
  (mv_kind (mk_move_kind s t EN_PASSANT) =? EN_PASSANT) && (mv_dst (mk_move_kind s t EN_PASSANT) =? t) &&
  (mv_dst (castle_mv s t) =? t) && (mv_kind (castle_mv s t) =? CASTLING) &&
  (mv_src (mk_move s t) =? s).

Lemma enc_check_all :
  forallb (fun s => forallb (fun t => enc_check s t) squares64) squares64 = true.
Proof. vm_compute. reflexivity. Qed.

Lemma enc_ok (s t : N) : s < 64 -> t < 64 -> enc_check s t = true.
Proof.
  intros Hs Ht. generalize enc_check_all. rewrite forallb_forall. intros H.
  specialize (H s (in_squares64 s Hs)). rewrite forallb_forall in H.
  exact (H t (in_squares64 t Ht)).
Qed.

Section Enc.
Variables s t : N.
Hypothesis Hs : s < 64.
Hypothesis Ht : t < 64.

Local Ltac enc_split H :=
  pose proof (enc_ok s t Hs Ht) as H; unfold enc_check in H;
  repeat (apply andb_true_iff in H; let H' := fresh "E" in destruct H as [H H']).

Lemma mv_dst_mk_move : mv_dst (mk_move s t) = t.
Proof. enc_split H. apply N.eqb_eq. tauto. Qed.
Lemma mv_kind_mk_move : mv_kind (mk_move s t) = NORMAL.
Proof. enc_split H. apply N.eqb_eq. tauto. Qed.
Lemma mv_src_mk_move : mv_src (mk_move s t) = s.
Proof. enc_split H. apply N.eqb_eq. tauto. Qed.
Lemma mv_kind_ep : mv_kind (mk_move_kind s t EN_PASSANT) = EN_PASSANT.
Proof. enc_split H. apply N.eqb_eq. tauto. Qed.
Lemma mv_dst_ep : mv_dst (mk_move_kind s t EN_PASSANT) = t.
Proof. enc_split H. apply N.eqb_eq. tauto. Qed.
Lemma mv_dst_castle : mv_dst (castle_mv s t) = t.
Proof. enc_split H. apply N.eqb_eq. tauto. Qed.
Lemma mv_kind_castle : mv_kind (castle_mv s t) = CASTLING.
Proof. enc_split H. apply N.eqb_eq. tauto. Qed.
Lemma mk_promo_fields (pt : N) : In pt promo_types ->
  mv_dst (mk_promo s t pt) = t /\ mv_kind (mk_promo s t pt) = PROMOTION /\
  mv_promo (mk_promo s t pt) = pt /\ mv_src (mk_promo s t pt) = s.
Proof.
  intros Hpt. enc_split H.
  match goal with X : forallb _ promo_types = true |- _ => rewrite forallb_forall in X; specialize (X pt Hpt);
    repeat (apply andb_true_iff in X; let X' := fresh "F" in destruct X as [X X']) end.
  rewrite <- !N.eqb_eq. tauto.
Qed.
End Enc.

Section Icb.
Variable p : position.
Variables s t : N.
Hypothesis Hs : s < 64.
Hypothesis Ht : t < 64.

Lemma icb_move : is_capture_b p (mk_move s t) = occb p t.
Proof. unfold is_capture_b. rewrite mv_kind_mk_move, mv_dst_mk_move by assumption. reflexivity. Qed.

Lemma icb_promo (pt : N) : In pt promo_types -> is_capture_b p (mk_promo s t pt) = occb p t.
Proof.
  intros Hpt. destruct (mk_promo_fields s t Hs Ht pt Hpt) as (E1 & E2 & _).
  unfold is_capture_b. rewrite E1, E2. reflexivity.
Qed.

Lemma icb_ep : is_capture_b p (mk_move_kind s t EN_PASSANT) = true.
Proof. unfold is_capture_b. rewrite mv_kind_ep by assumption. reflexivity. Qed.

Lemma icb_castle : is_capture_b p (castle_mv s t) = occb p t.
Proof. unfold is_capture_b. rewrite mv_kind_castle, mv_dst_castle by assumption. reflexivity. Qed.

Lemma icb_pawn_move (stm m : N) : In m (pawn_move_with_promotion stm s t) -> is_capture_b p m = occb p t.
Proof.
  unfold pawn_move_with_promotion.
  destruct ((stm =? WHITE) && negb (rank_of t =? 7)).
  { intros [<-|[]]. apply icb_move. }
  destruct ((stm =? BLACK) && negb (rank_of t =? 0)).
  { intros [<-|[]]. apply icb_move. }
  rewrite in_map_iff. intros (pt & <- & Hpt). apply icb_promo. exact Hpt.
Qed.
End Icb.

(* ------------------------------------------------------------------------------------------ *)
(* [res] plumbing.                                                                              *)

Lemma bind_ok {A B} (r : res A) (f : A -> res B) (b : B) :
  bind r f = Ok b -> exists a, r = Ok a /\ f a = Ok b.
Proof. destruct r; cbn [bind]; intros H; try discriminate. eauto. Qed.

Lemma nth_res_ok {A} (l : list A) (i : nat) (d x : A) :
  nth_res l i = Ok x -> (i < length l)%nat /\ x = nth i l d.
Proof.
  unfold nth_res. destruct (nth_error l i) as [a|] eqn:E; [|discriminate]. intros [= <-].
  split; [apply nth_error_Some; congruence|]. symmetry. apply nth_error_nth. exact E.
Qed.

Lemma nth_res_lt {A} (l : list A) (i : nat) (d : A) :
  (i < length l)%nat -> nth_res l i = Ok (nth i l d).
Proof. intros H. unfold nth_res. rewrite (nth_error_nth' l d H). reflexivity. Qed.

(* ------------------------------------------------------------------------------------------ *)
(* (b) What [Inv] says about the redundant views.                                               *)

Definition pc_ok (pc : N) : bool := (pc =? 0) || valid_piece pc.
Definition cocc (c pc : N) : bool :=
  (pc =? new_piece c 0) || (pc =? new_piece c 1) || (pc =? new_piece c 2) ||
  (pc =? new_piece c 3) || (pc =? new_piece c 4) || (pc =? new_piece c 5).

Lemma pc_facts (pc : N) : pc_ok pc = true ->
  negb (pc =? 0) = cocc 0 pc || cocc 1 pc /\ cocc 0 pc && cocc 1 pc = false.
Proof.
  intros H.
  assert (Hlt : pc < 15) by (unfold pc_ok, valid_piece in H; lia).
  assert (Hall : forallb (fun pc => Bool.eqb (negb (pc =? 0)) (cocc 0 pc || cocc 1 pc)
                                    && negb (cocc 0 pc && cocc 1 pc) || negb (pc_ok pc))
                         (map N.of_nat (seq 0 15)) = true) by (vm_compute; reflexivity).
  rewrite forallb_forall in Hall. specialize (Hall pc (in_Nrange 15 pc Hlt)).
  rewrite H in Hall. cbn [negb] in Hall. rewrite orb_false_r in Hall.
  apply andb_true_iff in Hall. destruct Hall as [H1 H2].
  apply eqb_prop in H1. apply negb_true_iff in H2. tauto.
Qed.

Record facts (p : position) : Prop := {
  F_len : length (board p) = 64%nat;
  F_valid : forall t, t < 64 -> pc_ok (piece_at p t) = true;
  F_bbs_len : length (bbs p) = 12%nat;
  F_bb : forall c ty, c < 2 -> ty < 6 ->
         bb_at p c ty < two64 /\
         forall sq, sq < 64 -> N.testbit (bb_at p c ty) sq = (piece_at p sq =? new_piece c ty);
  F_by_color : by_color p = [union6 p 0; union6 p 1];
  F_all : all_pieces p = N.lor (union6 p 0) (union6 p 1);
  F_side : side p = 0 \/ side p = 1
}.

Lemma in_ct_pairs (c ty : N) : c < 2 -> ty < 6 -> In (c, ty) ct_pairs.
Proof.
  intros Hc Hty.
  assert (Hall : forallb (fun c => forallb (fun ty =>
            existsb (fun ct => (fst ct =? c) && (snd ct =? ty)) ct_pairs)
            (map N.of_nat (seq 0 6))) (map N.of_nat (seq 0 2)) = true) by (vm_compute; reflexivity).
  rewrite forallb_forall in Hall. specialize (Hall c (in_Nrange 2 c Hc)).
  rewrite forallb_forall in Hall. specialize (Hall ty (in_Nrange 6 ty Hty)).
  apply existsb_exists in Hall. destruct Hall as ([c' ty'] & Hin & E).
  cbn [fst snd] in E. apply andb_true_iff in E. rewrite !N.eqb_eq in E. destruct E; subst. exact Hin.
Qed.

Lemma wf_facts (p : position) :
  board_wf p = true -> bbs_agree p = true -> helpers_agree p = true -> scalars_ok p = true -> facts p.
Proof.
  intros Hwf Hag Hhe Hsc.
  unfold board_wf in Hwf. apply andb_true_iff in Hwf. destruct Hwf as [Hlen Hval].
  apply Nat.eqb_eq in Hlen. rewrite forallb_forall in Hval.
  unfold bbs_agree in Hag. apply andb_true_iff in Hag. destruct Hag as [Hblen Hag].
  apply Nat.eqb_eq in Hblen. rewrite forallb_forall in Hag.
  unfold helpers_agree in Hhe.
  destruct (by_color p) as [|w [|b [|? ?]]] eqn:Ebc; try discriminate.
  rewrite !andb_true_iff, !N.eqb_eq in Hhe. destruct Hhe as [[Hw Hb] Hall].
  unfold scalars_ok in Hsc. rewrite !andb_true_iff, orb_true_iff, !N.eqb_eq in Hsc.
  constructor.
  - exact Hlen.
  - intros t Ht. apply Hval. unfold piece_at. apply nth_In. lia.
  - exact Hblen.
  - intros c ty Hc Hty. specialize (Hag (c, ty) (in_ct_pairs c ty Hc Hty)). cbv beta iota in Hag.
    apply andb_true_iff in Hag. destruct Hag as [Hlt Hsq]. split; [apply N.ltb_lt; exact Hlt|].
    rewrite forallb_forall in Hsq. intros sq Hsq'. apply eqb_prop. apply Hsq. apply in_squares64. exact Hsq'.
  - subst. exact Ebc.
  - subst. exact Hall.
  - unfold WHITE, BLACK in Hsc. tauto.
Qed.

Lemma inv_facts (p : position) : Inv p -> facts p.
Proof.
  unfold Inv, inv_b. rewrite !andb_true_iff.
  intros [[[[[[[[Hwf Hag] Hhe] _] _] _] _] Hsc] _]. apply wf_facts; assumption.
Qed.

(* the weaker invariant a null move preserves (no "mover not in check" clause) is enough *)
Lemma inv_nocheck_facts (p : position) : inv_nocheck_b p = true -> facts p.
Proof.
  unfold inv_nocheck_b. rewrite !andb_true_iff.
  intros [[[[[[[Hwf Hag] Hhe] _] _] _] _] Hsc]. apply wf_facts; assumption.
Qed.

Section Facts.
Variable p : position.
Hypothesis F : facts p.

Lemma union6_testbit (c t : N) : c < 2 -> t < 64 -> N.testbit (union6 p c) t = cocc c (piece_at p t).
Proof.
  intros Hc Ht. unfold union6. cbn [map fold_left]. rewrite !N.lor_spec, N.bits_0. cbn [orb].
  unfold cocc.
  rewrite (proj2 (F_bb p F c 0 Hc eq_refl) t Ht), (proj2 (F_bb p F c 1 Hc eq_refl) t Ht),
          (proj2 (F_bb p F c 2 Hc eq_refl) t Ht), (proj2 (F_bb p F c 3 Hc eq_refl) t Ht),
          (proj2 (F_bb p F c 4 Hc eq_refl) t Ht), (proj2 (F_bb p F c 5 Hc eq_refl) t Ht).
  reflexivity.
Qed.

Lemma union6_high (c t : N) : c < 2 -> 64 <= t -> N.testbit (union6 p c) t = false.
Proof.
  intros Hc Ht. unfold union6. cbn [map fold_left]. rewrite !N.lor_spec, N.bits_0. cbn [orb].
  rewrite (lt_two64_high _ t (proj1 (F_bb p F c 0 Hc eq_refl)) Ht),
          (lt_two64_high _ t (proj1 (F_bb p F c 1 Hc eq_refl)) Ht),
          (lt_two64_high _ t (proj1 (F_bb p F c 2 Hc eq_refl)) Ht),
          (lt_two64_high _ t (proj1 (F_bb p F c 3 Hc eq_refl)) Ht),
          (lt_two64_high _ t (proj1 (F_bb p F c 4 Hc eq_refl)) Ht),
          (lt_two64_high _ t (proj1 (F_bb p F c 5 Hc eq_refl)) Ht).
  reflexivity.
Qed.

Lemma color_bb_union (c x : N) : c < 2 -> color_bb p c = Ok x -> x = union6 p c.
Proof.
  intros Hc. unfold color_bb. rewrite (F_by_color p F). intros H.
  apply (nth_res_ok _ _ 0) in H. destruct H as [_ ->].
  assert (c = 0 \/ c = 1) as [-> | ->] by lia; reflexivity.
Qed.

Lemma color_bb_ok (c : N) : c < 2 -> color_bb p c = Ok (union6 p c).
Proof.
  intros Hc. unfold color_bb. rewrite (F_by_color p F).
  assert (c = 0 \/ c = 1) as [-> | ->] by lia; reflexivity.
Qed.

Lemma get_bb_at (c ty x : N) : c < 2 -> ty < 6 -> get_bb p c ty = Ok x -> x = bb_at p c ty.
Proof.
  intros Hc Hty. unfold get_bb, bb_index.
  replace ((c <? 2) && (ty <? 6)) with true by lia. cbn [bind]. intros H.
  apply (nth_res_ok _ _ 0) in H. destruct H as [_ ->]. reflexivity.
Qed.

Lemma get_bb_ok (c ty : N) : c < 2 -> ty < 6 -> get_bb p c ty = Ok (bb_at p c ty).
Proof.
  intros Hc Hty. unfold get_bb, bb_index.
  replace ((c <? 2) && (ty <? 6)) with true by lia. cbn [bind].
  apply nth_res_lt. rewrite (F_bbs_len p F). lia.
Qed.

Lemma get_bb_bits_lt (c ty x s : N) : c < 2 -> ty < 6 -> get_bb p c ty = Ok x -> In s (bits x) -> s < 64.
Proof.
  intros Hc Hty H Hs. apply get_bb_at in H; [|assumption..]. subst x.
  apply bits_in in Hs. destruct (N.lt_ge_cases s 64) as [L|G]; [exact L|].
  rewrite (lt_two64_high _ s (proj1 (F_bb p F c ty Hc Hty)) G) in Hs. discriminate.
Qed.

Lemma get_piece_at (t : N) : t < 64 -> get_piece p t = Ok (piece_at p t).
Proof.
  intros Ht. unfold get_piece, piece_at. apply nth_res_lt. rewrite (F_len p F). lia.
Qed.

Lemma get_piece_ok (t pc : N) : get_piece p t = Ok pc -> t < 64 /\ piece_at p t = pc.
Proof.
  unfold get_piece, piece_at. intros H. apply (nth_res_ok _ _ 0) in H.
  rewrite (F_len p F) in H. destruct H as [H ->]. split; [lia|reflexivity].
Qed.

Lemma side_lt : side p < 2.
Proof. destruct (F_side p F) as [-> | ->]; reflexivity. Qed.

Lemma switch_lt : switch_color (side p) < 2.
Proof. destruct (F_side p F) as [-> | ->]; reflexivity. Qed.

(* the target-square lemma: (not own) & occupied = enemy, bit by bit, for every bit index *)
Lemma dest_bit (t : N) :
  N.testbit (not64 (union6 p (side p))) t && occb p t = N.testbit (union6 p (switch_color (side p))) t.
Proof.
  rewrite not64_testbit. destruct (N.ltb_spec t 64) as [Ht|Ht].
  - rewrite !union6_testbit by (try apply side_lt; try apply switch_lt; assumption).
    unfold occb, NO_PIECE.
    destruct (pc_facts _ (F_valid p F t Ht)) as [-> Hd].
    destruct (F_side p F) as [-> | ->]; unfold switch_color, BLACK, WHITE; cbn [N.eqb Pos.eqb];
      destruct (cocc 0 (piece_at p t)), (cocc 1 (piece_at p t)); try reflexivity; discriminate Hd.
  - rewrite andb_false_r. cbn [andb]. symmetry. apply union6_high; [apply switch_lt|exact Ht].
Qed.

Lemma them_bit (t : N) : N.testbit (union6 p (switch_color (side p))) t = true -> t < 64 /\ occb p t = true.
Proof.
  rewrite <- dest_bit, andb_true_iff. intros [H1 H2]. apply not64_true in H1. tauto.
Qed.

Lemma empty_bit (t : N) : N.testbit (not64 (all_pieces p)) t = true -> t < 64 /\ occb p t = false.
Proof.
  intros H. apply not64_true in H. destruct H as [Ht H]. split; [exact Ht|].
  rewrite (F_all p F), N.lor_spec, !union6_testbit in H by (reflexivity || assumption).
  unfold occb, NO_PIECE. destruct (pc_facts _ (F_valid p F t Ht)) as [-> _]. rewrite H. reflexivity.
Qed.

End Facts.

(* ------------------------------------------------------------------------------------------ *)
(* Piece moves: one [gen_helper] call.                                                          *)

Lemma filter_gen_helper (p : position) (own them srcs occ : N) (att : N -> N -> N) :
  (forall s, In s (bits srcs) -> s < 64) ->
  (forall t, N.testbit (not64 own) t && occb p t = N.testbit them t) ->
  filter (is_capture_b p) (gen_helper srcs occ (not64 own) att) = gen_helper srcs occ them att.
Proof.
  intros Hsrc Hd. unfold gen_helper. rewrite filter_flat_map.
  apply flat_map_ext_in'. intros s Hs. specialize (Hsrc s Hs).
  rewrite filter_map_swap, !bits_land, filter_filter. f_equal.
  apply filter_ext_in. intros t _. rewrite <- Hd.
  destruct (N.testbit (not64 own) t) eqn:E; [|reflexivity].
  apply not64_true in E. cbn [andb]. apply icb_move; tauto.
Qed.

(* ------------------------------------------------------------------------------------------ *)
(* (c) Pawn moves.                                                                              *)

Lemma pushes_empty (c sq occ t : N) :
  N.testbit (pushes_by_square c sq occ) t = true -> N.testbit (not64 occ) t = true.
Proof.
  unfold pushes_by_square, pawn_pushes, double_push, single_push.
  destruct (c =? WHITE); rewrite N.lor_spec, !N.land_spec, orb_true_iff, !andb_true_iff; tauto.
Qed.

Lemma filter_pawn_moves (p : position) (pawns them : N) :
  (forall s, In s (bits pawns) -> s < 64) ->
  (forall t, N.testbit them t = true -> t < 64 /\ occb p t = true) ->
  (forall t, N.testbit (not64 (all_pieces p)) t = true -> t < 64 /\ occb p t = false) ->
  filter (is_capture_b p) (pawn_moves p false pawns them) = pawn_moves p true pawns them.
Proof.
  intros Hsrc Hthem Hempty. unfold pawn_moves. rewrite filter_flat_map.
  apply flat_map_ext_in'. intros s Hs. specialize (Hsrc s Hs).
  rewrite !filter_app. f_equal; [|f_equal].
  - apply filter_none. intros m Hm. apply in_flat_map in Hm. destruct Hm as (t & Ht & Hm).
    apply bits_in, pushes_empty, Hempty in Ht. destruct Ht as [Ht He].
    rewrite (icb_pawn_move p s t Hsrc Ht _ m Hm). exact He.
  - apply filter_all. intros m Hm. apply in_flat_map in Hm. destruct Hm as (t & Ht & Hm).
    apply bits_in in Ht. rewrite N.land_spec in Ht. apply andb_true_iff in Ht. destruct Ht as [_ Ht].
    apply Hthem in Ht. destruct Ht as [Ht He].
    rewrite (icb_pawn_move p s t Hsrc Ht _ m Hm). exact He.
  - destruct (negb (ep p =? SQ_NONE)); [|reflexivity].
    apply filter_all. intros m Hm. apply in_map_iff in Hm. destruct Hm as (t & <- & Ht).
    apply bits_in in Ht. rewrite N.land_spec in Ht. apply andb_true_iff in Ht. destruct Ht as [_ Ht].
    apply bit_true in Ht. apply icb_ep; assumption.
Qed.

(* ------------------------------------------------------------------------------------------ *)
(* (d) Castling moves land on squares the walk found empty.                                     *)

Definition castle_step (queen : bool) (sq : N) : N := if queen then sub8 sq 1 else add8 sq 1.

Lemma castle_walk_step (f : nat) (p : position) (queen : bool) (sq : N) (att free : Z) :
  (0 < free)%Z ->
  castle_walk (S f) p queen sq att free = Ok true ->
  get_piece p (castle_step queen sq) = Ok NO_PIECE /\
  castle_walk f p queen (castle_step queen sq) (att - 1)%Z (free - 1)%Z = Ok true.
Proof.
  intros Hfree. cbn [castle_walk]. fold (castle_step queen sq).
  replace (0 <? free)%Z with true by lia. rewrite orb_true_r. cbn [andb].
  destruct (get_piece p (castle_step queen sq)) as [pc| |]; cbn [bind]; try discriminate.
  destruct (pc =? NO_PIECE) eqn:E; cbn [negb]; [|discriminate].
  apply N.eqb_eq in E. subst pc.
  match goal with |- bind ?r _ = _ -> _ => destruct r as [b| |] end; cbn [bind]; try discriminate.
  destruct b; [discriminate|]. intros H. split; [reflexivity|exact H].
Qed.

Lemma can_castle_now_true (p : position) (c : N) :
  can_castle_now p c = Ok true ->
  exists kb sq, get_bb p (side p) KING = Ok kb /\ lsb kb = Ok sq /\
    castle_walk 4 p (castling_is_queen_side c) sq 2%Z (if castling_is_queen_side c then 3%Z else 2%Z) = Ok true.
Proof.
  unfold can_castle_now.
  destruct (negb (can_castle p c)); [discriminate|].
  destruct (negb (castling_color c =? side p)); [discriminate|].
  destruct (is_in_check p (side p)) as [chk| |]; cbn [bind]; try discriminate.
  destruct chk; [discriminate|].
  destruct (get_bb p (side p) KING) as [kb| |] eqn:E1; cbn [bind]; try discriminate.
  destruct (lsb kb) as [sq| |] eqn:E2; cbn [bind]; try discriminate.
  intros H. exists kb, sq. split; [reflexivity|split; [exact E2|exact H]].
Qed.

Lemma sub8_twice (x : N) : sub8 (sub8 x 1) 1 = sub8 x 2.
Proof.
  unfold sub8. change (1 mod 256) with 1. change (2 mod 256) with 2.
  replace (x + 256 - 1) with (x + 255) by lia.
  replace ((x + 255) mod 256 + 256 - 1) with ((x + 255) mod 256 + 255) by lia.
  rewrite N.add_mod_idemp_l by discriminate.
  replace (x + 255 + 255) with (x + 256 - 2 + 1 * 256) by lia.
  apply N.mod_add. discriminate.
Qed.

Lemma add8_twice (x : N) : add8 (add8 x 1) 1 = add8 x 2.
Proof.
  unfold add8. rewrite N.add_mod_idemp_l by discriminate. f_equal. lia.
Qed.

Lemma castling_moves_noncapture (p : position) (cm : list N) :
  facts p -> castling_moves p = Ok cm -> forall m, In m cm -> is_capture_b p m = false.
Proof.
  intros F. unfold castling_moves.
  set (body := fun (acc : res (list N)) (c : N) => bind acc _).
  assert (Hstep : forall acc c l1,
            (forall l, acc = Ok l -> forall m, In m l -> is_capture_b p m = false) ->
            body acc c = Ok l1 -> forall m, In m l1 -> is_capture_b p m = false).
  { intros acc c l1 Hacc. unfold body. intros H.
    apply bind_ok in H. destruct H as (l & -> & H). specialize (Hacc l eq_refl).
    destruct (negb (castling_color c =? side p)); [injection H as <-; exact Hacc|].
    apply bind_ok in H. destruct H as (ok & Hok & H).
    destruct ok; cbn [negb] in H; [|injection H as <-; exact Hacc].
    apply bind_ok in H. destruct H as (kb & Hkb & H).
    apply bind_ok in H. destruct H as (src & Hsrc & H).
    injection H as <-.
    apply can_castle_now_true in Hok. destruct Hok as (kb' & sq' & Hkb' & Hsq' & Hw).
    rewrite Hkb in Hkb'. injection Hkb' as <-. rewrite Hsrc in Hsq'. injection Hsq' as <-.
    assert (Hs64 : src < 64).
    { apply (get_bb_bits_lt p F (side p) KING kb src (side_lt p F) eq_refl Hkb).
      apply bits_in, lsb_testbit. exact Hsrc. }
    set (q := castling_is_queen_side c) in *.
    apply castle_walk_step in Hw; [|destruct q; reflexivity]. destruct Hw as [_ Hw].
    apply castle_walk_step in Hw; [|destruct q; reflexivity]. destruct Hw as [Hp _].
    assert (Edst : castle_step q (castle_step q src) = if q then sub8 src 2 else add8 src 2).
    { unfold castle_step. destruct q; [apply sub8_twice|apply add8_twice]. }
    rewrite Edst in Hp. apply (get_piece_ok p F) in Hp. destruct Hp as [Hd64 Hpa].
    intros m Hm. apply in_app_iff in Hm. destruct Hm as [Hm|[<-|[]]]; [apply Hacc; exact Hm|].
    change (is_capture_b p (castle_mv src (if q then sub8 src 2 else add8 src 2)) = false).
    rewrite icb_castle by assumption. unfold occb. rewrite Hpa. reflexivity. }
  clearbody body.
  assert (Hfold : forall cl acc l1,
            (forall l, acc = Ok l -> forall m, In m l -> is_capture_b p m = false) ->
            fold_left body cl acc = Ok l1 -> forall m, In m l1 -> is_capture_b p m = false).
  { induction cl as [|c cl IH]; intros acc l1 Hacc H; cbn [fold_left] in H.
    - apply Hacc. exact H.
    - apply (IH (body acc c) l1); [|exact H]. intros l Hl. apply (Hstep acc c l Hacc Hl). }
  intros H. apply (Hfold [WK; WQ; BK; BQ] (Ok []) cm); [|exact H].
  intros l E. injection E as <-. intros m [].
Qed.

(* ------------------------------------------------------------------------------------------ *)
(* The theorems.                                                                                *)

Ltac inv_binds :=
  repeat match goal with
  | H : bind ?r _ = Ok _ |- _ =>
      let E := fresh "E" in destruct r eqn:E; cbn [bind] in *; try discriminate
  end.

Theorem captures_same_order_facts (p : position) (ms cs : list N) :
  facts p -> gen_moves p = Ok ms -> gen_captures p = Ok cs -> cs = filter (is_capture_b p) ms.
Proof.
  intros F Hm Hc.
  unfold gen_moves in Hm. unfold gen_captures in Hc. cbv zeta in Hm, Hc.
  inv_binds.
  injection Hm as <-. injection Hc as <-.
  pose proof (side_lt p F) as Hside. pose proof (switch_lt p F) as Hsw.
  match goal with H : color_bb p (side p) = Ok ?x |- _ =>
    apply (color_bb_union p F) in H; [|assumption]; subst x end.
  match goal with H : color_bb p (switch_color (side p)) = Ok ?x |- _ =>
    apply (color_bb_union p F) in H; [|assumption]; subst x end.
  rewrite !filter_app.
  rewrite !(filter_gen_helper p _ (union6 p (switch_color (side p))));
    try (apply (dest_bit p F));
    try (intros s; eapply (get_bb_bits_lt p F (side p)); [exact Hside| |eassumption]; reflexivity).
  rewrite filter_pawn_moves;
    [ | intros s; eapply (get_bb_bits_lt p F (side p)); [exact Hside| |eassumption]; reflexivity
      | apply (them_bit p F) | apply (empty_bit p F) ].
  rewrite (filter_none _ _ (castling_moves_noncapture p _ F ltac:(eassumption))).
  reflexivity.
Qed.

Theorem captures_same_order (p : position) (ms cs : list N) :
  Inv p -> gen_moves p = Ok ms -> gen_captures p = Ok cs -> cs = filter (is_capture_b p) ms.
Proof. intros HI. apply captures_same_order_facts, inv_facts, HI. Qed.

(* the same from the invariant without the check clause (positions after a null move) *)
Theorem captures_same_order_nocheck (p : position) (ms cs : list N) :
  inv_nocheck_b p = true -> gen_moves p = Ok ms -> gen_captures p = Ok cs -> cs = filter (is_capture_b p) ms.
Proof. intros HI. apply captures_same_order_facts, inv_nocheck_facts, HI. Qed.

Theorem captures_exact (p : position) (ms cs : list N) :
  Inv p -> gen_moves p = Ok ms -> gen_captures p = Ok cs ->
  Permutation cs (filter (fun m => is_capture_b p m) ms).
Proof.
  intros HI Hm Hc. rewrite (captures_same_order p ms cs HI Hm Hc). apply Permutation_refl.
Qed.

(* no panic asymmetry: under [Inv] the capture generator never fails (whatever the full one does) *)
Theorem gen_captures_total (p : position) : Inv p -> exists cs, gen_captures p = Ok cs.
Proof.
  intros HI. pose proof (inv_facts p HI) as F.
  pose proof (side_lt p F) as Hside. pose proof (switch_lt p F) as Hsw.
  unfold gen_captures. cbv zeta.
  rewrite (color_bb_ok p F _ Hsw).
  rewrite !(get_bb_ok p F (side p)) by (exact Hside || reflexivity).
  cbn [bind]. eauto.
Qed.

Theorem gen_captures_ok (p : position) (ms : list N) :
  Inv p -> gen_moves p = Ok ms -> exists cs, gen_captures p = Ok cs.
Proof. intros HI _. apply gen_captures_total. exact HI. Qed.

(* [is_capture] never fails on a well-formed board, and agrees with its boolean reading,
   for every move word (in particular every generated one) *)
Lemma mv_dst_lt (m : N) : mv_dst m < 64.
Proof.
  unfold mv_dst. change 63 with (N.ones 6). rewrite N.land_ones.
  apply N.mod_lt. discriminate.
Qed.

Theorem is_capture_total (p : position) (m : N) :
  Inv p -> is_capture p m = Ok (is_capture_b p m).
Proof.
  intros HI. pose proof (inv_facts p HI) as F.
  unfold is_capture, is_capture_b.
  destruct (mv_kind m =? EN_PASSANT); [reflexivity|].
  rewrite (get_piece_at p F _ (mv_dst_lt m)). reflexivity.
Qed.

Theorem is_capture_generated (p : position) (ms : list N) (m : N) :
  Inv p -> gen_moves p = Ok ms -> In m ms -> is_capture p m = Ok (is_capture_b p m).
Proof. intros HI _ _. apply is_capture_total. exact HI. Qed.

(* The same, phrased with the model's own [is_capture] (a failing call would count as "no capture";
   by [is_capture_total] it never fails under [Inv]). *)
Definition is_capture_or_false (p : position) (m : N) : bool :=
  match is_capture p m with Ok b => b | _ => false end.

Theorem captures_same_order_model (p : position) (ms cs : list N) :
  Inv p -> gen_moves p = Ok ms -> gen_captures p = Ok cs -> cs = filter (is_capture_or_false p) ms.
Proof.
  intros HI Hm Hc. rewrite (captures_same_order p ms cs HI Hm Hc).
  apply filter_ext. intros m. unfold is_capture_or_false. rewrite (is_capture_total p m HI). reflexivity.
Qed.

(* one statement: whenever the full generator succeeds, so does the capture generator, and its
   output is the capture-filtered output of the full generator *)
Theorem captures_of_moves (p : position) (ms : list N) :
  Inv p -> gen_moves p = Ok ms -> gen_captures p = Ok (filter (is_capture_b p) ms).
Proof.
  intros HI Hm. destruct (gen_captures_total p HI) as [cs Hc].
  rewrite Hc. f_equal. exact (captures_same_order p ms cs HI Hm Hc).
Qed.
